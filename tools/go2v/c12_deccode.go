package main

// Extractor "sercode", second part (property C12): internal/serialization/serialization.go, func
// internalUnmarshal, translated statement by statement into a Gallina function over the decoder
// vocabulary of Model/SerGenLib.v.  On top of the fragment of c12_sercode.go:
//   pResult := reflect.New(T)         target := pResult (a second view of the same pointer cursor)
//   x.Type().Elem()                   x.Elem().Set(reflect.New(x.Type().Elem().Elem()))      x = x.Elem()
//   err := sonic.Unmarshal(raw, x.Interface()) / sonic.UnmarshalString(k, x.Interface()) ; if err != nil { return … }
//   return pResult.Elem().Interface(), nil
//   result, dResult := createValueFromType(T)          return result.Interface(), nil
//   field := dResult.FieldByName(k) ; if !field.CanSet() { return … } ; field.Set(e)
//   dResult.SetMapIndex(k, e)    dResult.Set(reflect.Append(dResult, e))    dResult.Index(i).Set(e)
//   value, err := internalUnmarshal(e) (the parameter [self]) ; if value == nil { … } else { … }
//   for k, x := range v.MapValues      for i, x := range v.SliceValues      for _, x := range v.SliceValues
//   for i := uint32(0); i < n && c; i++
//   reflect.New(T).Elem() (the zero value), reflect.ValueOf(value), reflect.MapOf / SliceOf / ArrayOf,
//   resolvePointerNum(n, t), containerType(v, t) (the translated functions), string(raw) == "null"
// Everything else: "source shape not recognised".

import (
	"fmt"
	"go/ast"
	"go/token"
	"go/types"
	"strings"
)

const (
	c12SPCur   c12Sort = 100 + iota // reflect.Value obtained from reflect.New: a pointer cursor
	c12SOptVal                      // result of internalUnmarshal: any that may be nil
	c12SAnyVal                      // an any known not to be nil
	c12SMKey                        // key of MapValues
	c12SCvftT                       // the `result` of createValueFromType (its type; the value is the paired dResult)
)

// function-wide facts about decoder variables
type c12Dec struct {
	alias    map[string]string    // target -> pResult
	fieldRef map[string][2]string // field -> (struct value variable, key variable)
	cvft     map[string]string    // result -> dResult
	ifaceOf  map[string]string    // pk -> prkv for pk := prkv.Interface()
}

func (t *c12Tr) decState() *c12Dec {
	if t.dec == nil {
		t.dec = &c12Dec{alias: map[string]string{}, fieldRef: map[string][2]string{}, cvft: map[string]string{}, ifaceOf: map[string]string{}}
	}
	return t.dec
}

func (t *c12Tr) resolve(n string) string {
	if t.dec != nil {
		if a, ok := t.dec.alias[n]; ok {
			return a
		}
	}
	return n
}

// method call e = X.m(args...) -> X, m, args
func c12Method(e ast.Expr) (ast.Expr, string, []ast.Expr, bool) {
	call, ok := e.(*ast.CallExpr)
	if !ok {
		return nil, "", nil, false
	}
	sel, ok := call.Fun.(*ast.SelectorExpr)
	if !ok {
		return nil, "", nil, false
	}
	return sel.X, sel.Sel.Name, call.Args, true
}

// a variable that is a pointer cursor (through an alias)
func (t *c12Tr) pcurVar(e ast.Expr) (string, bool) {
	n, ok := c12Ident(e)
	if !ok {
		return "", false
	}
	n = t.resolve(n)
	if t.sorts[n] != c12SPCur {
		return "", false
	}
	return n, true
}

// decoder-specific expressions
func (t *c12Tr) decExpr(e ast.Expr) (string, c12Sort, bool, error) {
	switch x := e.(type) {
	case *ast.Ident:
		if t.dec != nil {
			if a, ok := t.dec.alias[x.Name]; ok {
				return c12Var(a), t.sorts[a], true, nil
			}
		}
	case *ast.BinaryExpr:
		// string(v.JSONValue) == "null"
		if x.Op == token.EQL || x.Op == token.NEQ {
			if call, ok := x.X.(*ast.CallExpr); ok && len(call.Args) == 1 && c12Squash(types.ExprString(call.Fun)) == "string" {
				if bl, ok := x.Y.(*ast.BasicLit); ok && bl.Kind == token.STRING && bl.Value == `"null"` {
					c, s, err := t.expr(call.Args[0])
					if err != nil {
						return "", 0, true, err
					}
					if s != c12SRaw {
						return "", 0, true, t.errf("string(%s) compared with \"null\"", types.ExprString(call.Args[0]))
					}
					r := "(raw_is_null " + c + ")"
					if x.Op == token.NEQ {
						r = "(negb " + r + ")"
					}
					return r, c12SBool, true, nil
				}
			}
		}
	case *ast.CallExpr:
		fun := c12Squash(types.ExprString(x.Fun))
		switch fun {
		case "reflect.New":
			if len(x.Args) == 1 {
				c, s, err := t.expr(x.Args[0])
				if err != nil {
					return "", 0, true, err
				}
				if s != c12STy {
					return "", 0, true, t.errf("reflect.New of %s", types.ExprString(x.Args[0]))
				}
				return "(pc_new " + c + ")", c12SPCur, true, nil
			}
		case "reflect.MapOf", "reflect.SliceOf", "reflect.ArrayOf":
			var as []string
			for i, a := range x.Args {
				c, s, err := t.expr(a)
				if err != nil {
					return "", 0, true, err
				}
				want := c12STy
				if fun == "reflect.ArrayOf" && i == 0 {
					want = c12SNat
				}
				if s != want {
					return "", 0, true, t.errf("argument %s of %s", types.ExprString(a), fun)
				}
				as = append(as, c)
			}
			switch {
			case fun == "reflect.MapOf" && len(as) == 2:
				return "(TMap " + as[0] + " " + as[1] + ")", c12STy, true, nil
			case fun == "reflect.SliceOf" && len(as) == 1:
				return "(TSlice " + as[0] + ")", c12STy, true, nil
			case fun == "reflect.ArrayOf" && len(as) == 2:
				return "(TArray " + as[0] + " " + as[1] + ")", c12STy, true, nil
			}
		case "resolvePointerNum":
			if len(x.Args) == 2 && t.known["resolvePointerNum"] {
				a, as, err := t.expr(x.Args[0])
				if err != nil {
					return "", 0, true, err
				}
				b, bs, err := t.expr(x.Args[1])
				if err != nil {
					return "", 0, true, err
				}
				if as != c12SNat || bs != c12STy {
					return "", 0, true, t.errf("arguments of resolvePointerNum")
				}
				return "(resolvePointerNum " + a + " " + b + ")", c12STy, true, nil
			}
		case "reflect.ValueOf":
			if len(x.Args) == 1 {
				if n, ok := c12Ident(x.Args[0]); ok && t.sorts[n] == c12SAnyVal {
					return c12Var(n), c12SVal, true, nil
				}
			}
		}
		// x.Type().Elem() of a pointer cursor
		if recv, m, args, ok := c12Method(x); ok && m == "Elem" && len(args) == 0 {
			if r2, m2, a2, ok := c12Method(recv); ok && m2 == "Type" && len(a2) == 0 {
				if p, ok := t.pcurVar(r2); ok {
					return "(pc_cur_ty " + c12Var(p) + ")", c12STy, true, nil
				}
			}
		}
	}
	return "", 0, false, nil
}

// an argument that may need a bind: reflect.New(T).Elem() (the zero value), p.Elem() of a cursor
// -> (code of the value, opening text, closing text)
func (t *c12Tr) argM(e ast.Expr, tmp, ind string) (string, string, string, error) {
	if recv, m, args, ok := c12Method(e); ok && m == "Elem" && len(args) == 0 {
		if call, ok := recv.(*ast.CallExpr); ok && c12Squash(types.ExprString(call.Fun)) == "reflect.New" && len(call.Args) == 1 {
			c, s, err := t.expr(call.Args[0])
			if err != nil {
				return "", "", "", err
			}
			if s != c12STy {
				return "", "", "", t.errf("reflect.New of %s", types.ExprString(call.Args[0]))
			}
			open := "match zero_v env " + c + " with\n" + ind + "| Err e_ => " + t.wrap("Err e_") + " | Panic => " + t.wrap("Panic") + "\n" + ind + "| Ok " + tmp + " =>\n" + ind
			return tmp, open, "\n" + ind + "end", nil
		}
		if p, ok := t.pcurVar(recv); ok {
			open := "match pc_here env " + c12Var(p) + " with\n" + ind + "| Err e_ => " + t.wrap("Err e_") + " | Panic => " + t.wrap("Panic") + "\n" + ind + "| Ok " + tmp + " =>\n" + ind
			return tmp, open, "\n" + ind + "end", nil
		}
	}
	c, s, err := t.expr(e)
	if err != nil {
		return "", "", "", err
	}
	if s != c12SVal {
		return "", "", "", t.errf("%s is not a reflect.Value", types.ExprString(e))
	}
	return c, "", "", nil
}

// `match <res> with Err/Panic => return | Ok <v> => REST end`
func (t *c12Tr) bind(call, v, rest, ind string, errExpr string) string {
	return "match " + call + " with\n" + ind + "| Err e_ => " + t.wrap(errExpr) + " | Panic => " + t.wrap("Panic") + "\n" + ind +
		"| Ok " + v + " =>\n" + ind + rest + "\n" + ind + "end"
}

// the `if err != nil { return nil, E }` after an err-producing statement -> the error class expression
func (t *c12Tr) errFollow(l []ast.Stmt, what string) (string, error) {
	if len(l) < 2 {
		return "", t.errf("error result of %s is not tested", what)
	}
	is, ok := l[1].(*ast.IfStmt)
	if !ok || is.Init != nil || is.Else != nil || c12Squash(types.ExprString(is.Cond)) != "err!=nil" || len(is.Body.List) != 1 {
		return "", t.errf("error result of %s is not followed by `if err != nil { return … }`", what)
	}
	rs, ok := is.Body.List[0].(*ast.ReturnStmt)
	if !ok {
		return "", t.errf("error branch does not return")
	}
	return t.retValue(rs, "e_")
}

// decoder-specific statements; handled = false: try the common fragment
func (t *c12Tr) decStmt(l []ast.Stmt, fall func(*c12Tr) (string, error), ind string) (string, bool, error) {
	if t.fn.name != "internalUnmarshal" {
		return "", false, nil
	}
	rest := func(z *c12Tr, from int) (string, error) { return z.stmts(l[from:], fall, ind) }
	switch x := l[0].(type) {
	case *ast.AssignStmt:
		// result, dResult := createValueFromType(T)
		if len(x.Lhs) == 2 && len(x.Rhs) == 1 && x.Tok == token.DEFINE {
			if call, ok := x.Rhs[0].(*ast.CallExpr); ok && c12Squash(types.ExprString(call.Fun)) == "createValueFromType" && len(call.Args) == 1 {
				r, ok1 := c12Ident(x.Lhs[0])
				d, ok2 := c12Ident(x.Lhs[1])
				if !ok1 || !ok2 {
					return "", true, t.errf("results of createValueFromType")
				}
				c, s, err := t.expr(call.Args[0])
				if err != nil {
					return "", true, err
				}
				if s != c12STy {
					return "", true, t.errf("argument of createValueFromType is not a type")
				}
				z := t.fork()
				z.declare(r, c12SCvftT)
				z.declare(d, c12SVal)
				z.decState().cvft[r] = d
				rs, err := rest(z, 1)
				if err != nil {
					return "", true, err
				}
				return "let " + c12Var(r) + " := " + c + " in\n" + ind + t.bind("cvft env "+c12Var(r), c12Var(d), rs, ind, "Err e_"), true, nil
			}
		}
		if len(x.Lhs) == 1 && len(x.Rhs) == 1 {
			lhs, ok := c12Ident(x.Lhs[0])
			if !ok {
				break
			}
			// err := sonic.Unmarshal(raw, p.Interface()) / sonic.UnmarshalString(k, p.Interface())
			if lhs == "err" && x.Tok == token.DEFINE {
				call, ok := x.Rhs[0].(*ast.CallExpr)
				if !ok || len(call.Args) != 2 {
					return "", true, t.errf("err := %s not recognised", types.ExprString(x.Rhs[0]))
				}
				fun := c12Squash(types.ExprString(call.Fun))
				var p string
				if id, isId := call.Args[1].(*ast.Ident); isId && t.dec != nil && t.dec.ifaceOf[id.Name] != "" {
					p = t.dec.ifaceOf[id.Name] // pk := prkv.Interface() earlier
				} else {
					recv, m, margs, ok := c12Method(call.Args[1])
					if !ok || m != "Interface" || len(margs) != 0 {
						return "", true, t.errf("target of %s is not x.Interface()", fun)
					}
					p, ok = t.pcurVar(recv)
					if !ok {
						return "", true, t.errf("target of %s is not a value obtained from reflect.New", fun)
					}
				}
				a, as, err := t.expr(call.Args[0])
				if err != nil {
					return "", true, err
				}
				var op string
				switch {
				case fun == "sonic.Unmarshal" && as == c12SRaw:
					op = "pc_unmarshal jdec " + c12Var(p) + " " + a
				case fun == "sonic.UnmarshalString" && as == c12SMKey:
					op = "pc_unmarshal_key kdec env " + c12Var(p) + " " + a
				default:
					return "", true, t.errf("call %s not recognised", fun)
				}
				ev, err := t.errFollow(l, fun)
				if err != nil {
					return "", true, err
				}
				rs, err := rest(t, 2)
				if err != nil {
					return "", true, err
				}
				return t.bind(op, c12Var(p), rs, ind, ev), true, nil
			}
			// target := pResult
			if src, ok := c12Ident(x.Rhs[0]); ok && x.Tok == token.DEFINE {
				if p, ok := t.pcurVar(x.Rhs[0]); ok {
					_ = src
					t.decState().alias[lhs] = p
					rs, err := rest(t, 1)
					return rs, true, err
				}
			}
			// target = target.Elem()
			if p, ok := t.pcurVar(x.Lhs[0]); ok && x.Tok == token.ASSIGN {
				if recv, m, margs, ok := c12Method(x.Rhs[0]); ok && m == "Elem" && len(margs) == 0 {
					if p2, ok := t.pcurVar(recv); ok && p2 == p {
						rs, err := rest(t, 1)
						return "let " + c12Var(p) + " := pc_down " + c12Var(p) + " in\n" + ind + rs, true, err
					}
				}
				return "", true, t.errf("assignment to %s not recognised", lhs)
			}
			// pk := prkv.Interface(): a second name for what the cursor points to
			if recv, m, margs, ok := c12Method(x.Rhs[0]); ok && m == "Interface" && len(margs) == 0 && x.Tok == token.DEFINE {
				if p, ok := t.pcurVar(recv); ok {
					t.decState().ifaceOf[lhs] = p
					rs, err := rest(t, 1)
					return rs, true, err
				}
			}
			// field := dResult.FieldByName(k)
			if recv, m, margs, ok := c12Method(x.Rhs[0]); ok && m == "FieldByName" && len(margs) == 1 && x.Tok == token.DEFINE {
				if d, ok := c12Ident(recv); ok && t.sorts[d] == c12SVal {
					k, ok := c12Ident(margs[0])
					if !ok || t.sorts[k] != c12SMKey {
						return "", true, t.errf("FieldByName of %s", types.ExprString(margs[0]))
					}
					t.decState().fieldRef[lhs] = [2]string{d, k}
					rs, err := rest(t, 1)
					return rs, true, err
				}
			}
		}
		// rft, ok := rt.FieldByName(k) ; if !ok { return … }
		if len(x.Lhs) == 2 && len(x.Rhs) == 1 {
			first, _ := c12Ident(x.Lhs[0])
			second, _ := c12Ident(x.Lhs[1])
			if recv, m, margs, ok := c12Method(x.Rhs[0]); ok && second == "ok" && m == "FieldByName" && len(margs) == 1 && first != "" {
				rc, rs, err := t.expr(recv)
				if err != nil {
					return "", true, err
				}
				kc, ks, err := t.expr(margs[0])
				if err != nil {
					return "", true, err
				}
				if rs != c12STy || ks != c12SMKey {
					return "", true, t.errf("%s not recognised", types.ExprString(x.Rhs[0]))
				}
				if len(l) < 2 {
					return "", true, t.errf("ok of FieldByName is not tested")
				}
				is, ok := l[1].(*ast.IfStmt)
				if !ok || is.Init != nil || is.Else != nil || c12Squash(types.ExprString(is.Cond)) != "!ok" || !c12AlwaysReturns(is.Body.List) {
					return "", true, t.errf("FieldByName is not followed by `if !ok { return … }`")
				}
				none, err := t.fork().stmts(is.Body.List, func(*c12Tr) (string, error) { return "", t.errf("control leaves the !ok branch") }, ind+"  ")
				if err != nil {
					return "", true, err
				}
				z := t.fork()
				z.declare(first, c12SField)
				r, err := rest(z, 2)
				if err != nil {
					return "", true, err
				}
				return "match rt_FieldByName env " + rc + " " + kc + " with\n" + ind + "| None => " + none + "\n" + ind + "| Some " + c12Var(first) + " =>\n" + ind + r + "\n" + ind + "end", true, nil
			}
		}

	case *ast.ExprStmt:
		recv, m, args, ok := c12Method(x.X)
		if !ok {
			break
		}
		// x.Elem().Set(reflect.New(x.Type().Elem().Elem()))
		if m == "Set" && len(args) == 1 {
			if r2, m2, a2, ok := c12Method(recv); ok && m2 == "Elem" && len(a2) == 0 {
				if p, ok := t.pcurVar(r2); ok {
					pn, _ := c12Ident(r2)
					want := "reflect.New(" + pn + ".Type().Elem().Elem())"
					if c12Squash(types.ExprString(args[0])) != want {
						return "", true, t.errf("%s: the new pointer is not of the type of the position", types.ExprString(x.X))
					}
					rs, err := rest(t, 1)
					return "let " + c12Var(p) + " := pc_set_new " + c12Var(p) + " in\n" + ind + rs, true, err
				}
			}
		}
		// field.Set(e)
		if f, ok := c12Ident(recv); ok && m == "Set" && len(args) == 1 && t.dec != nil {
			if fr, ok := t.dec.fieldRef[f]; ok {
				a, open, cl, err := t.argM(args[0], "x_", ind)
				if err != nil {
					return "", true, err
				}
				rs, err := rest(t, 1)
				if err != nil {
					return "", true, err
				}
				d := c12Var(fr[0])
				return open + t.bind("rv_SetField env "+d+" "+c12Var(fr[1])+" "+a, d, rs, ind, "Err e_") + cl, true, nil
			}
		}
		if d, ok := c12Ident(recv); ok && t.sorts[d] == c12SVal {
			dv := c12Var(d)
			switch {
			case m == "SetMapIndex" && len(args) == 2:
				ka, open1, cl1, err := t.argM(args[0], "k_", ind)
				if err != nil {
					return "", true, err
				}
				xa, open2, cl2, err := t.argM(args[1], "x_", ind)
				if err != nil {
					return "", true, err
				}
				rs, err := rest(t, 1)
				if err != nil {
					return "", true, err
				}
				return open1 + open2 + t.bind("rv_SetMapIndex "+dv+" "+ka+" "+xa, dv, rs, ind, "Err e_") + cl2 + cl1, true, nil
			case m == "Set" && len(args) == 1:
				// d.Set(reflect.Append(d, e))
				call, ok := args[0].(*ast.CallExpr)
				if !ok || c12Squash(types.ExprString(call.Fun)) != "reflect.Append" || len(call.Args) != 2 {
					return "", true, t.errf("%s not recognised", types.ExprString(x.X))
				}
				if d2, ok := c12Ident(call.Args[0]); !ok || d2 != d {
					return "", true, t.errf("%s: appends to another value", types.ExprString(x.X))
				}
				xa, open, cl, err := t.argM(call.Args[1], "x_", ind)
				if err != nil {
					return "", true, err
				}
				rs, err := rest(t, 1)
				if err != nil {
					return "", true, err
				}
				return open + t.bind("rv_Append "+dv+" "+xa, dv, rs, ind, "Err e_") + cl, true, nil
			}
		}
		// d.Index(i).Set(e)
		if r2, m2, a2, ok := c12Method(recv); ok && m == "Set" && len(args) == 1 && m2 == "Index" && len(a2) == 1 {
			if d, ok := c12Ident(r2); ok && t.sorts[d] == c12SVal {
				ic, is, err := t.expr(a2[0])
				if err != nil {
					return "", true, err
				}
				if is != c12SNat {
					return "", true, t.errf("index %s", types.ExprString(a2[0]))
				}
				xa, open, cl, err := t.argM(args[0], "x_", ind)
				if err != nil {
					return "", true, err
				}
				rs, err := rest(t, 1)
				if err != nil {
					return "", true, err
				}
				dv := c12Var(d)
				return open + t.bind("rv_SetIndex "+dv+" "+ic+" "+xa, dv, rs, ind, "Err e_") + cl, true, nil
			}
		}
		return "", true, t.errf("statement %s not recognised", types.ExprString(x.X))

	case *ast.IfStmt:
		if x.Init != nil {
			break
		}
		// if !field.CanSet() { return … }
		if u, ok := x.Cond.(*ast.UnaryExpr); ok && u.Op == token.NOT && x.Else == nil && t.dec != nil {
			if recv, m, margs, ok := c12Method(u.X); ok && m == "CanSet" && len(margs) == 0 {
				if f, ok := c12Ident(recv); ok {
					if fr, ok := t.dec.fieldRef[f]; ok {
						if !c12AlwaysReturns(x.Body.List) {
							return "", true, t.errf("the block after !%s.CanSet() does not return", f)
						}
						body, err := t.fork().stmts(x.Body.List, func(*c12Tr) (string, error) { return "", t.errf("control leaves a returning block") }, ind+"  ")
						if err != nil {
							return "", true, err
						}
						rs, err := rest(t, 1)
						if err != nil {
							return "", true, err
						}
						return t.bind("rv_HasField env "+c12Var(fr[0])+" "+c12Var(fr[1]), "can_", "if negb can_ then\n"+ind+"  "+body+"\n"+ind+"else\n"+ind+rs, ind, "Err e_"), true, nil
					}
				}
			}
		}
		// if value == nil { … } else { … }
		if b, ok := x.Cond.(*ast.BinaryExpr); ok && (b.Op == token.EQL || b.Op == token.NEQ) && c12IsNil(b.Y) {
			if n, ok := c12Ident(b.X); ok && t.sorts[n] == c12SOptVal {
				var elseList []ast.Stmt
				switch e := x.Else.(type) {
				case nil:
				case *ast.BlockStmt:
					elseList = e.List
				default:
					return "", true, t.errf("else if after a nil test")
				}
				nilList, someList := x.Body.List, elseList
				if b.Op == token.NEQ {
					nilList, someList = elseList, x.Body.List
				}
				cont := func(z *c12Tr) (string, error) { return z.stmts(l[1:], fall, ind+"  ") }
				nb, err := t.fork().stmts(nilList, cont, ind+"  ")
				if err != nil {
					return "", true, err
				}
				z := t.fork()
				z.declare(n, c12SAnyVal)
				sb, err := z.stmts(someList, func(y *c12Tr) (string, error) {
					y2 := y.fork()
					y2.declare(n, c12SOptVal) // after the if the variable is the any again (not used there)
					return cont(y2)
				}, ind+"  ")
				if err != nil {
					return "", true, err
				}
				v := c12Var(n)
				return "match " + v + " with\n" + ind + "| None =>\n" + ind + "  " + nb + "\n" + ind + "| Some " + v + " =>\n" + ind + "  " + sb + "\n" + ind + "end", true, nil
			}
		}

	case *ast.RangeStmt:
		if x.Tok != token.DEFINE {
			break
		}
		sel, ok := x.X.(*ast.SelectorExpr)
		if !ok {
			break
		}
		rc, rs, err := t.expr(sel)
		if err != nil {
			return "", true, err
		}
		name := func(e ast.Expr) string {
			if e == nil {
				return "_"
			}
			if id, ok := e.(*ast.Ident); ok {
				return id.Name
			}
			return "?"
		}
		kn, vn := name(x.Key), name(x.Value)
		if kn == "?" || vn == "?" || vn == "_" {
			return "", true, t.errf("range variables not recognised")
		}
		bt := t.fork()
		var binder, list string
		switch rs {
		case c12SMV:
			if kn == "_" {
				binder, list = "'(_, "+c12Var(vn)+")", rc
			} else {
				bt.declare(kn, c12SMKey)
				binder, list = "'("+c12Var(kn)+", "+c12Var(vn)+")", rc
			}
		case c12SSV:
			if kn == "_" {
				binder, list = c12Var(vn), rc
			} else {
				bt.declare(kn, c12SNat)
				binder, list = "'("+c12Var(kn)+", "+c12Var(vn)+")", "(indexed "+rc+")"
			}
		default:
			return "", true, t.errf("range over %s", types.ExprString(x.X))
		}
		bt.declare(vn, c12SOptGis)
		state := t.stateOf(x.Body.List, kn, vn)
		// what the monadic updates rebind (the value built through createValueFromType, a cursor)
		for _, extra := range c12DecUpdated(x.Body.List, t) {
			found := false
			for _, s := range state {
				if s == extra {
					found = true
				}
			}
			if !found {
				state = append(state, extra)
			}
		}
		bt.wrap = func(v string) string { return "LRet (" + v + ")" }
		body, err := bt.stmts(x.Body.List, func(*c12Tr) (string, error) { return "LCont " + c12Tuple(state), nil }, ind+"    ")
		if err != nil {
			return "", true, err
		}
		r, err := rest(t, 1)
		if err != nil {
			return "", true, err
		}
		var b strings.Builder
		b.WriteString("match loop_list (fun " + binder + " " + c12Pat(state) + " =>\n" + ind + "    " + body + ") " + list + " " + c12Tuple(state) + " with\n")
		b.WriteString(ind + "| LRet r_ => " + t.wrap("r_") + "\n")
		b.WriteString(ind + "| LCont " + c12MatchPat(state) + " =>\n" + ind + r + "\n" + ind + "end")
		return b.String(), true, nil

	case *ast.ForStmt:
		// for i := uint32(0); i < n && c; i++
		cmp, ok := x.Cond.(*ast.BinaryExpr)
		if !ok || cmp.Op != token.LAND || x.Init == nil || x.Post == nil {
			break
		}
		as, ok1 := x.Init.(*ast.AssignStmt)
		inc, ok2 := x.Post.(*ast.IncDecStmt)
		lt, ok3 := cmp.X.(*ast.BinaryExpr)
		if !ok1 || !ok2 || !ok3 || as.Tok != token.DEFINE || len(as.Lhs) != 1 || len(as.Rhs) != 1 || inc.Tok != token.INC || lt.Op != token.LSS {
			break
		}
		iv, okv := c12Ident(as.Lhs[0])
		zs := c12Squash(types.ExprString(as.Rhs[0]))
		pi, okp := c12Ident(inc.X)
		ci, okc := c12Ident(lt.X)
		if !okv || !okp || !okc || pi != iv || ci != iv || !(zs == "0" || zs == "uint32(0)" || zs == "int(0)") {
			break
		}
		bound, bs, err := t.expr(lt.Y)
		if err != nil {
			return "", true, err
		}
		if bs != c12SNat {
			return "", true, t.errf("loop bound %s is not a counter", types.ExprString(lt.Y))
		}
		state := t.stateOf(x.Body.List, iv)
		for _, extra := range c12DecUpdated(x.Body.List, t) {
			found := false
			for _, s := range state {
				if s == extra {
					found = true
				}
			}
			if !found {
				state = append(state, extra)
			}
		}
		names := map[string]bool{iv: true}
		for _, s := range state {
			names[s] = true
		}
		if c12Mentions(lt.Y, names) {
			return "", true, t.errf("loop bound %s depends on what the loop assigns", types.ExprString(lt.Y))
		}
		if c12Mentions(cmp.Y, map[string]bool{iv: true}) {
			return "", true, t.errf("the second loop condition mentions the counter")
		}
		cond, cs, err := t.expr(cmp.Y)
		if err != nil {
			return "", true, err
		}
		if cs != c12SBool {
			return "", true, t.errf("loop condition %s is not boolean", types.ExprString(cmp.Y))
		}
		bt := t.fork()
		bt.declare(iv, c12SNat)
		bt.wrap = func(v string) string { return "LRet (" + v + ")" }
		body, err := bt.stmts(x.Body.List, func(*c12Tr) (string, error) { return "LCont " + c12Tuple(state), nil }, ind+"    ")
		if err != nil {
			return "", true, err
		}
		r, err := rest(t, 1)
		if err != nil {
			return "", true, err
		}
		var b strings.Builder
		b.WriteString("match loop_range_while (fun " + c12Pat(state) + " => " + cond + ") (fun " + c12Var(iv) + " " + c12Pat(state) + " =>\n" + ind + "    " + body + ") " + bound + " " + c12Tuple(state) + " with\n")
		b.WriteString(ind + "| LRet r_ => " + t.wrap("r_") + "\n")
		b.WriteString(ind + "| LCont " + c12MatchPat(state) + " =>\n" + ind + r + "\n" + ind + "end")
		return b.String(), true, nil
	}
	return "", false, nil
}

// variables a block updates through the decoder idioms (cursor moves, Set / SetMapIndex / Append):
// they are part of the state of a loop around the block
func c12DecUpdated(l []ast.Stmt, t *c12Tr) []string {
	seen := map[string]bool{}
	var out []string
	// field := d.FieldByName(k) inside the block: an update through field is an update of d
	local := map[string]string{}
	for _, s := range l {
		ast.Inspect(s, func(n ast.Node) bool {
			if as, ok := n.(*ast.AssignStmt); ok && as.Tok == token.DEFINE && len(as.Lhs) == 1 && len(as.Rhs) == 1 {
				if recv, m, _, ok := c12Method(as.Rhs[0]); ok && m == "FieldByName" {
					if d, ok := recv.(*ast.Ident); ok {
						if f, ok := as.Lhs[0].(*ast.Ident); ok {
							local[f.Name] = d.Name
						}
					}
				}
			}
			return true
		})
	}
	add := func(n string) {
		n = t.resolve(n)
		if _, ok := t.sorts[n]; ok && !seen[n] {
			seen[n] = true
			out = append(out, n)
		}
	}
	for _, s := range l {
		ast.Inspect(s, func(n ast.Node) bool {
			switch x := n.(type) {
			case *ast.FuncLit:
				return false
			case *ast.AssignStmt:
				for _, lh := range x.Lhs {
					if id, ok := lh.(*ast.Ident); ok && x.Tok == token.ASSIGN {
						add(id.Name)
					}
				}
				// err := sonic.Unmarshal…(…, p.Interface() | pk): writes through the cursor
				if len(x.Rhs) == 1 {
					if call, ok := x.Rhs[0].(*ast.CallExpr); ok && len(call.Args) == 2 && strings.HasPrefix(c12Squash(types.ExprString(call.Fun)), "sonic.Unmarshal") {
						switch a := call.Args[1].(type) {
						case *ast.Ident:
							if t.dec != nil && t.dec.ifaceOf[a.Name] != "" {
								add(t.dec.ifaceOf[a.Name])
							}
						default:
							if recv, m, _, ok := c12Method(a); ok && m == "Interface" {
								if id, ok := recv.(*ast.Ident); ok {
									add(id.Name)
								}
							}
						}
					}
				}
			case *ast.ExprStmt:
				// the root variable of a method chain ending in Set / SetMapIndex
				e := x.X
				for {
					recv, m, _, ok := c12Method(e)
					if !ok {
						break
					}
					if id, ok := recv.(*ast.Ident); ok {
						if m == "Set" || m == "SetMapIndex" || m == "Elem" || m == "Index" {
							if d, ok := local[id.Name]; ok {
								add(d)
								break
							}
							if t.dec != nil {
								if fr, ok := t.dec.fieldRef[id.Name]; ok {
									add(fr[0])
									break
								}
							}
							add(id.Name)
						}
						break
					}
					e = recv
				}
			}
			return true
		})
	}
	return out
}

// the value of `return X, nil` of the decoder
func (t *c12Tr) decRet(e ast.Expr) (string, bool, error) {
	recv, m, args, ok := c12Method(e)
	if !ok || m != "Interface" || len(args) != 0 {
		return "", false, nil
	}
	// result.Interface()
	if r, ok := c12Ident(recv); ok && t.sorts[r] == c12SCvftT && t.dec != nil {
		d, ok := t.dec.cvft[r]
		if !ok {
			return "", true, t.errf("%s has no value paired with it", r)
		}
		return "Ok (Some (cvft_result " + c12Var(r) + " " + c12Var(d) + "))", true, nil
	}
	// pResult.Elem().Interface()
	if r2, m2, a2, ok := c12Method(recv); ok && m2 == "Elem" && len(a2) == 0 {
		if id, ok := r2.(*ast.Ident); ok {
			// the root view, not an alias that moved
			if t.dec != nil {
				if _, isAlias := t.dec.alias[id.Name]; isAlias {
					return "", true, t.errf("the returned value is read through the moved cursor %s", id.Name)
				}
			}
			if t.sorts[id.Name] == c12SPCur {
				return "res_map Some (pc_root_value env " + c12Var(id.Name) + ")", true, nil
			}
		}
	}
	return "", false, nil
}

func c12DecFunc(f *ast.File, known map[string]bool) (string, error) {
	name := "internalUnmarshal"
	fn := c12TopFunc(f, name)
	if fn == nil || fn.Body == nil {
		return "", fmt.Errorf("func %s not found", name)
	}
	if len(fn.Type.Params.List) != 1 || len(fn.Type.Params.List[0].Names) != 1 || c12Squash(types.ExprString(fn.Type.Params.List[0].Type)) != "*internalStruct" {
		return "", fmt.Errorf("%s: parameters not recognised", name)
	}
	p := fn.Type.Params.List[0].Names[0].Name
	body := fn.Body.List
	// if v == nil { return nil, nil }
	if len(body) == 0 {
		return "", fmt.Errorf("%s: empty body", name)
	}
	is, ok := body[0].(*ast.IfStmt)
	if !ok || is.Init != nil || is.Else != nil || c12Squash(types.ExprString(is.Cond)) != p+"==nil" || len(is.Body.List) != 1 {
		return "", fmt.Errorf("%s: does not start with the nil test of its argument", name)
	}
	if rs, ok := is.Body.List[0].(*ast.ReturnStmt); !ok || len(rs.Results) != 2 || !c12IsNil(rs.Results[0]) || !c12IsNil(rs.Results[1]) {
		return "", fmt.Errorf("%s: the nil argument is not answered with (nil, nil)", name)
	}
	t := &c12Tr{fn: c12Fn{name: name, retKind: "val_err"}, sorts: map[string]c12Sort{}, known: known}
	t.wrap = func(v string) string { return v }
	t.declare(p, c12SGis)
	code, err := t.stmts(body[1:], func(*c12Tr) (string, error) {
		return "", fmt.Errorf("%s: control reaches the end of the function", name)
	}, "    ")
	if err != nil {
		return "", err
	}
	return "Definition " + name + " (J JK : Type) (jdec : base -> J -> res lit) (kdec : base -> JK -> res lit) (reg : registry) (env : senv) (self : option (gis J JK) -> res (option val)) (" +
		c12Var(p) + "_opt : option (gis J JK)) : res (option val) :=\n    match " + c12Var(p) + "_opt with\n    | None => Ok None\n    | Some " + c12Var(p) + " =>\n    " + code + "\n    end.\n\n", nil
}
