package main

// Extractor "c20graph" (property C20): compose/graph.go, the methods addNode, addEdgeWithMappings and
// addBranch of *graph, translated statement by statement into Gallina functions over the builder state
// [gstate] of Model/Builder.v and the vocabulary of Model/BuilderGenLib.v; and graph.compile, translated
// as the sequence of its exits (which test returns which error, in which order, where the runner gets
// its handler maps from, when g.compiled is set).
//
// The translator is a small compiler for the imperative fragment these methods are written in.  The
// builder is threaded as the variable [g]; every statement rebinds it.  Recognised:
//   if C { … } [else if … ] [else { … }]     with or without returns inside; C built with && || ! ( ) from
//        g.buildError != nil   g.compiled   g.stateGenerator == nil   isChain(g.cmp)   isWorkflow(g.cmp)
//        a == b / a != b on node keys (parameters, START, END)       parameters that are flags
//        _, ok := g.nodes[k]; ok / !ok      _, ok := g.handlerPreBranch[k]; ok / !ok
//        len(l) == n                         g.nodes[k].executorMeta.component == ComponentOfPassthrough
//        g.getNodeOutputType(k) == nil       x != nil for a local error x
//        result == assignableTypeX           (result := checkAssignable(…), a parameter of the translation)
//   defer func() { if err != nil { g.buildError = err } }()        every later return goes through the hook
//   return <error>      errors.New("…") / fmt.Errorf("…", …) (class = family of the text), an error variable,
//                       g.buildError, a local error, nil
//   g.nodes[k] = n      g.controlEdges[a] = append(g.controlEdges[a], b)  (dataEdges, branches, handlerPreBranch)
//   g.startNodes = append(g.startNodes, b)  (endNodes)     g.nodes[k].cr.inputType = t (outputType)
//   g.addToValidateMap(a, b, m)      err = g.updateToValidateMap()  (also e := …, also as if-init)
//   for i := range g.controlEdges[a] { if g.controlEdges[a][i] == b { return … } }        membership test
//   for x := range branch.endNodes { … return … }                                          for_each
//   branch.noDataFlow = true         (the flag stored with the branch)
// Outside the model, skipped and listed in the generated file: assignments to fields of the branch object
// other than noDataFlow, to cr.genericHelper, `result := checkAssignable(…)`, and — in addNode — the block
// `if options.processor != nil { … }` provided it only tests and returns errors of no modelled family (the
// type checks of state handlers: typing is property C07).
// Anything else: "source shape not recognised" (translator tie unavailable).
//
// Output: coq/Gen/C20Graph.v.  Proofs/GenAgreeC20.v proves the definitions equal to g_add_node, g_add_edge,
// g_add_branch and g_compile of Model/Builder.v, the functions the C20 theorems are about.

import (
	"fmt"
	"go/ast"
	"go/parser"
	"go/token"
	"go/types"
	"path/filepath"
	"strconv"
	"strings"
)

// ---- helpers (own copies: the package is shared by every property's extractor)

func c20ParseGo(fset *token.FileSet, repo string, rel ...string) (*ast.File, error) {
	return parser.ParseFile(fset, filepath.Join(append([]string{repo}, rel...)...), nil, 0)
}

func c20Squash(s string) string { return strings.Join(strings.Fields(s), "") }

func c20CoqStr(s string) string { return `"` + strings.ReplaceAll(s, `"`, `""`) + `"%string` }

func c20IsNil(e ast.Expr) bool {
	id, ok := e.(*ast.Ident)
	return ok && id.Name == "nil"
}

func c20ExprList(l []ast.Expr) string {
	var s []string
	for _, e := range l {
		s = append(s, types.ExprString(e))
	}
	return strings.Join(s, ",")
}

func c20ContainsReturnImpl(n ast.Node) bool {
	found := false
	ast.Inspect(n, func(m ast.Node) bool {
		if _, ok := m.(*ast.FuncLit); ok {
			return false
		}
		if _, ok := m.(*ast.ReturnStmt); ok {
			found = true
		}
		return !found
	})
	return found
}

func c20Balanced(s string) bool {
	d := 0
	for _, r := range s {
		if r == '(' {
			d++
		} else if r == ')' {
			d--
			if d < 0 {
				return false
			}
		}
	}
	return d == 0
}

func c20ParenImpl(s string) string {
	if strings.ContainsAny(s, " \n") && !(strings.HasPrefix(s, "(") && strings.HasSuffix(s, ")") && c20Balanced(s[1:len(s)-1])) {
		return "(" + s + ")"
	}
	return s
}

func c20MethodOf(f *ast.File, recvType, name string) *ast.FuncDecl {
	for _, d := range f.Decls {
		fn, ok := d.(*ast.FuncDecl)
		if !ok || fn.Recv == nil || fn.Name.Name != name || len(fn.Recv.List) != 1 {
			continue
		}
		if st, ok := fn.Recv.List[0].Type.(*ast.StarExpr); ok {
			if id, ok := st.X.(*ast.Ident); ok && id.Name == recvType {
				return fn
			}
		}
	}
	return nil
}

func init() {
	register("c20graph", c20ExtractGraph)
	registerFallback("c20graph", "C20Graph.v", "(* Gen/C20Graph.v — translator tie UNAVAILABLE: tools/go2v (extractor \"c20graph\") did not recognise the\n"+
		"   shape of compose/graph.go (addNode / addEdgeWithMappings / addBranch / compile); the model's own\n   functions are re-exported. *)\n"+
		"From Eino Require Import Base.Util Model.Builder Model.BuilderGenLib.\n\n"+
		"Definition tie_available : bool := false.\n\n"+
		"Definition addNode (g : gstate) (key : string) (node : node) (needState nodeKeyOpt : bool) : gstate * outcome :=\n"+
		"  g_add_node g key (n_kind node) needState nodeKeyOpt (n_out node).\n"+
		"Definition addEdgeWithMappings (g : gstate) (startNode endNode : string) (noControl noData : bool) (mappings : list string) : gstate * outcome :=\n"+
		"  g_add_edge g startNode endNode noControl noData mappings.\n"+
		"Definition addBranch (result : asg) (noDataFlow : bool) (g : gstate) (startNode : string) (endNodes : list string) (skipData : bool) : gstate * outcome :=\n"+
		"  g_add_branch g startNode endNodes skipData.\n"+
		"Definition compile (getStateEnabled : bool) (g : gstate) (opt : copt) : gstate * cresult :=\n"+
		"  let '(g', o) := g_compile fixed g opt in (g', cresult_of o).\n"+
		"Definition runner_handler_sources : list string := model_handler_sources.\n"+
		"Definition runner_node_edge_sources : list string := model_node_edge_sources.\n"+
		"Definition node_loop_sorted : bool := true.\n")
}

// error text family -> class of Model/Builder.v (the table of harness/cmd/c20/exec.go: families)
var c20Families = []struct{ sub, cls string }{
	{"is reserved, cannot add manually", "EReserved"},
	{"already present", "EDupNode"},
	{"needs state but graph state is not enabled", "ENeedState"},
	{"only chain support node key option", "ENodeKeyOpt"},
	{"cannot be both noDirectDependency and noDataFlow", "ENoCtrlNoData"},
	{"END cannot be a start node", "EEndAsStart"},
	{"START cannot be an end node", "EStartAsEnd"},
	{"edge start node", "EEdgeStartUnknown"},
	{"edge end node", "EEdgeEndUnknown"},
	{"control edge[", "EDupCtrlEdge"},
	{"data edge[", "EDupDataEdge"},
	{"branch start node", "EBranchStartUnknown"},
	{"number of branches is 1", "EBranchOne"},
	{"branch end node", "EBranchEndUnknown"},
	{"graph has been compiled", "ECompiled"},
	{"chain has been compiled", "EChainCompiled"},
	{"doesn't support node trigger mode", "ETriggerUnsupported"},
	{"start node not set", "ENoStart"},
	{"end node not set", "ENoEnd"},
	{"cannot be inferred", "EUninferred"},
	{"duplicate mapping target field", "EDupMapTarget"},
	{"DAG invalid", "EDagLoop"},
	{"cannot set max run steps in dag mode", "EMaxStepsDag"},
	{"pre node keys not set", "EChainEmpty"},
	{"duplicate output key", "EParDupKey"},
	{"append parallel invalid, not enough nodes", "EParTooFew"},
	{"append parallel invalid, multiple previous nodes", "EParMultiPrev"},
	{"duplicate branch node key", "EBrDupKey"},
	{"nodeList is empty", "EBrEmpty"},
	{"nodeList length = 1", "EBrOne"},
	{"append branch invalid, multiple previous nodes", "EBrMultiPrev"},
	{"already been mapped", "EMapped"},
	{"two terminal field paths conflict", "EMapConflict"},
}

func c20Classify(text string) string {
	for _, f := range c20Families {
		if strings.Contains(text, f.sub) {
			return f.cls
		}
	}
	return "EOther"
}

// the text of errors.New("…") / fmt.Errorf("…", …)
func c20ErrText(e ast.Expr) (string, bool) {
	call, ok := e.(*ast.CallExpr)
	if !ok || len(call.Args) == 0 {
		return "", false
	}
	switch c20Squash(types.ExprString(call.Fun)) {
	case "errors.New", "fmt.Errorf":
	default:
		return "", false
	}
	bl, ok := call.Args[0].(*ast.BasicLit)
	if !ok || bl.Kind != token.STRING {
		return "", false
	}
	s, err := strconv.Unquote(bl.Value)
	return s, err == nil
}

type c20Mode struct {
	ret    func(t *c20Tr, r *ast.ReturnStmt) (string, error) // a return statement
	fall   func(t *c20Tr) string                             // control falls off the end of the list (nil = not allowed)
	inLoop bool                                              // inside a for_each body: only g may change
}

// a local variable of the translated function that statements rebind (besides g)
type c20Local struct{ name, typ string }

type c20Tr struct {
	fn      string
	recv    string
	errRes  string            // name of the error result ("" = unnamed)
	env     map[string]string // squashed Go expression -> Gallina (flags, values)
	strs    map[string]string // squashed Go expression -> Gallina, node keys
	lists   map[string]string // squashed Go expression -> Gallina, lists whose length is tested / that are ranged over
	errVars map[string]string // package level error variable -> class
	okVars  map[string]string // `ok` of an enclosing if-init
	errLoc  map[string]bool   // local error variables in scope
	typing  map[string]bool   // conditions (squashed) guarding a block of typing checks
	hooked  bool
	nk      int
	notes   []string
	locals  []c20Local                                                                // in scope, in order of declaration
	special func(t *c20Tr, l []ast.Stmt, m c20Mode, ind string) (string, bool, error) // function-specific statements, tried first
	skipOK  func(t *c20Tr, s ast.Stmt) bool                                           // statements without effect inside the model
}

// the state a statement list threads: g alone, or (g, x1, …, xn)
func (t *c20Tr) stTuple() string {
	s := "g"
	for _, l := range t.locals {
		s += ", " + l.name
	}
	if len(t.locals) > 0 {
		return "(" + s + ")"
	}
	return s
}
func (t *c20Tr) stPattern() string {
	if len(t.locals) == 0 {
		return "g"
	}
	return "'" + t.stTuple()
}
func (t *c20Tr) stArgs() string {
	s := "g"
	for _, l := range t.locals {
		s += " " + l.name
	}
	return s
}
func (t *c20Tr) stParams() string {
	s := "(g : gstate)"
	for _, l := range t.locals {
		s += " (" + l.name + " : " + l.typ + ")"
	}
	return s
}
func (t *c20Tr) isLocal(name string) bool {
	for _, l := range t.locals {
		if l.name == name {
			return true
		}
	}
	return false
}

func (t *c20Tr) errf(format string, a ...any) error {
	return fmt.Errorf(t.fn+": "+format, a...)
}

func (t *c20Tr) note(format string, a ...any) {
	t.notes = append(t.notes, fmt.Sprintf(format, a...))
}

func (t *c20Tr) isRecvField(e ast.Expr, field string) bool {
	sel, ok := e.(*ast.SelectorExpr)
	if !ok || sel.Sel.Name != field {
		return false
	}
	id, ok := sel.X.(*ast.Ident)
	return ok && id.Name == t.recv
}

// g.F[k] -> (F, k)
func (t *c20Tr) recvIndex(e ast.Expr) (field string, key ast.Expr, ok bool) {
	ix, isIx := e.(*ast.IndexExpr)
	if !isIx {
		return
	}
	sel, isSel := ix.X.(*ast.SelectorExpr)
	if !isSel {
		return
	}
	id, isId := sel.X.(*ast.Ident)
	if !isId || id.Name != t.recv {
		return
	}
	return sel.Sel.Name, ix.Index, true
}

// node keys
func (t *c20Tr) str(e ast.Expr) (string, bool) {
	if p, ok := e.(*ast.ParenExpr); ok {
		return t.str(p.X)
	}
	s, ok := t.strs[c20Squash(types.ExprString(e))]
	return s, ok
}

// error values -> option ecls
func (t *c20Tr) errVal(e ast.Expr) (string, error) {
	if c20IsNil(e) {
		return "None", nil
	}
	if txt, ok := c20ErrText(e); ok {
		return "(Some " + c20Classify(txt) + ")", nil
	}
	if id, ok := e.(*ast.Ident); ok {
		if c, ok := t.errVars[id.Name]; ok {
			return "(Some " + c + ")", nil
		}
		if t.errLoc[id.Name] {
			return id.Name, nil
		}
	}
	if t.isRecvField(e, "buildError") {
		return "(g_err g)", nil
	}
	return "", t.errf("error value %s not recognised", types.ExprString(e))
}

func (t *c20Tr) cond(e ast.Expr) (string, error) {
	if s, ok := t.env[c20Squash(types.ExprString(e))]; ok {
		return s, nil
	}
	switch x := e.(type) {
	case *ast.ParenExpr:
		return t.cond(x.X)
	case *ast.Ident:
		if s, ok := t.okVars[x.Name]; ok {
			return s, nil
		}
		if x.Name == "true" || x.Name == "false" {
			return x.Name, nil
		}
	case *ast.SelectorExpr:
		if t.isRecvField(x, "compiled") {
			return "(g_compiled g)", nil
		}
	case *ast.CallExpr:
		// contains(g.controlEdges[a], b) with a private helper that is a membership scan: the loop
		// for i := range g.F[a] { if g.F[a][i] == b { … } } extracted into a function
		if id, ok := x.Fun.(*ast.Ident); ok && len(x.Args) == 2 && c20ContainsHelpers[id.Name] {
			if f, k, ok := t.recvIndex(x.Args[0]); ok && (f == "controlEdges" || f == "dataEdges") {
				ks, ok1 := t.str(k)
				bs, ok2 := t.str(x.Args[1])
				if ok1 && ok2 {
					proj := "g_ctrl"
					if f == "dataEdges" {
						proj = "g_data"
					}
					t.note("%s(g.%s[…], …): the private helper %s is a membership scan", id.Name, f, id.Name)
					return "(pmem " + ks + " " + bs + " (" + proj + " g))", nil
				}
			}
		}
		if id, ok := x.Fun.(*ast.Ident); ok && len(x.Args) == 1 && t.isRecvField(x.Args[0], "cmp") {
			switch id.Name {
			case "isChain":
				return "(cmp_is_chain (g_cmp g))", nil
			case "isWorkflow":
				return "(cmp_is_workflow (g_cmp g))", nil
			}
		}
	case *ast.UnaryExpr:
		if x.Op == token.NOT {
			s, err := t.cond(x.X)
			return "(negb " + s + ")", err
		}
	case *ast.BinaryExpr:
		switch x.Op {
		case token.LAND, token.LOR:
			l, err := t.cond(x.X)
			if err != nil {
				return "", err
			}
			r, err := t.cond(x.Y)
			if err != nil {
				return "", err
			}
			op := "&&"
			if x.Op == token.LOR {
				op = "||"
			}
			return "(" + l + " " + op + " " + r + ")", nil
		case token.EQL, token.NEQ:
			wrap := func(s string, eq bool) string {
				if (x.Op == token.NEQ) == eq {
					return "(negb " + s + ")"
				}
				return s
			}
			// node keys
			if a, ok := t.str(x.X); ok {
				if b, ok := t.str(x.Y); ok {
					return wrap("(String.eqb "+a+" "+b+")", true), nil
				}
			}
			if c20IsNil(x.Y) {
				// g.buildError != nil, local error != nil
				if t.isRecvField(x.X, "buildError") {
					return wrap("(is_some (g_err g))", false), nil
				}
				if id, ok := x.X.(*ast.Ident); ok && t.errLoc[id.Name] {
					return wrap("(is_some "+id.Name+")", false), nil
				}
				if t.isRecvField(x.X, "stateGenerator") {
					return wrap("(negb (g_state g))", true), nil
				}
				// g.getNodeOutputType(k) == nil
				if call, ok := x.X.(*ast.CallExpr); ok && len(call.Args) == 1 {
					if k, ok := t.str(call.Args[0]); ok {
						switch c20Squash(types.ExprString(call.Fun)) {
						case t.recv + ".getNodeOutputType":
							return wrap("(negb (out_typed g "+k+"))", true), nil
						case t.recv + ".getNodeInputType":
							return wrap("(negb (in_typed g "+k+"))", true), nil
						}
					}
				}
			}
			// len(l) == n
			if l, n, ok := t.lenCmp(x); ok {
				return wrap("(Nat.eqb (List.length "+l+") "+n+")", true), nil
			}
			// g.nodes[k].executorMeta.component == ComponentOfPassthrough
			if id, ok := x.Y.(*ast.Ident); ok && id.Name == "ComponentOfPassthrough" {
				if sel, ok := x.X.(*ast.SelectorExpr); ok && sel.Sel.Name == "component" {
					if sel2, ok := sel.X.(*ast.SelectorExpr); ok && sel2.Sel.Name == "executorMeta" {
						if f, k, ok := t.recvIndex(sel2.X); ok && f == "nodes" {
							if ks, ok := t.str(k); ok {
								return wrap("(node_is_pass g "+ks+")", true), nil
							}
						}
					}
				}
			}
		case token.LSS, token.LEQ, token.GTR, token.GEQ:
			// len(l) < n and friends
			if l, n, ok := t.lenCmp(x); ok {
				ll := "(List.length " + l + ")"
				switch x.Op {
				case token.LSS:
					return "(Nat.ltb " + ll + " " + n + ")", nil
				case token.LEQ:
					return "(Nat.leb " + ll + " " + n + ")", nil
				case token.GTR:
					return "(Nat.ltb " + n + " " + ll + ")", nil
				case token.GEQ:
					return "(Nat.leb " + n + " " + ll + ")", nil
				}
			}
		}
	}
	return "", t.errf("condition %s is outside the translated fragment", types.ExprString(e))
}

// len(l) <op> n -> (l, n)
func (t *c20Tr) lenCmp(x *ast.BinaryExpr) (string, string, bool) {
	call, ok := x.X.(*ast.CallExpr)
	if !ok || len(call.Args) != 1 {
		return "", "", false
	}
	if id, ok := call.Fun.(*ast.Ident); !ok || id.Name != "len" {
		return "", "", false
	}
	bl, ok := x.Y.(*ast.BasicLit)
	if !ok || bl.Kind != token.INT {
		return "", "", false
	}
	l, ok := t.list(call.Args[0])
	return l, bl.Value, ok
}

func (t *c20Tr) list(e ast.Expr) (string, bool) {
	if s, ok := t.lists[c20Squash(types.ExprString(e))]; ok {
		return s, true
	}
	for f, proj := range map[string]string{"startNodes": "g_starts", "endNodes": "g_ends"} {
		if t.isRecvField(e, f) {
			return "(" + proj + " g)", true
		}
	}
	return "", false
}

// `_, ok := g.F[k]` -> Gallina test
func (t *c20Tr) okLookup(s ast.Stmt) (name, test string, ok bool) {
	as, isAs := s.(*ast.AssignStmt)
	if !isAs || as.Tok != token.DEFINE || len(as.Lhs) != 2 || len(as.Rhs) != 1 {
		return
	}
	if id, isId := as.Lhs[0].(*ast.Ident); !isId || id.Name != "_" {
		return
	}
	okId, isId := as.Lhs[1].(*ast.Ident)
	if !isId {
		return
	}
	f, k, isIx := t.recvIndex(as.Rhs[0])
	if !isIx {
		return
	}
	ks, isStr := t.str(k)
	if !isStr {
		return
	}
	switch f {
	case "nodes":
		return okId.Name, "(has_node g " + ks + ")", true
	case "handlerPreBranch":
		return okId.Name, "(prebranch_has " + ks + " g)", true
	}
	return
}

// `x := g.updateToValidateMap()` / `x = g.updateToValidateMap()` -> x
func (t *c20Tr) fallibleCall(s ast.Stmt) (string, bool) {
	as, ok := s.(*ast.AssignStmt)
	if !ok || len(as.Lhs) != 1 || len(as.Rhs) != 1 {
		return "", false
	}
	id, ok := as.Lhs[0].(*ast.Ident)
	if !ok {
		return "", false
	}
	call, ok := as.Rhs[0].(*ast.CallExpr)
	if !ok || len(call.Args) != 0 || c20Squash(types.ExprString(call.Fun)) != t.recv+".updateToValidateMap" {
		return "", false
	}
	if as.Tok == token.ASSIGN && id.Name != t.errRes && !t.errLoc[id.Name] {
		return "", false
	}
	return id.Name, true
}

func c20ContainsReturn(n ast.Node) bool { return c20ContainsReturnImpl(n) }

func c20AlwaysReturns(l []ast.Stmt) bool {
	if len(l) == 0 {
		return false
	}
	switch x := l[len(l)-1].(type) {
	case *ast.ReturnStmt:
		return true
	case *ast.IfStmt:
		if x.Else == nil {
			return false
		}
		switch e := x.Else.(type) {
		case *ast.BlockStmt:
			return c20AlwaysReturns(x.Body.List) && c20AlwaysReturns(e.List)
		case *ast.IfStmt:
			return c20AlwaysReturns(x.Body.List) && c20AlwaysReturns([]ast.Stmt{e})
		}
	}
	return false
}

// a block of type checks: tests and returns of errors of no modelled family, nothing else
func (t *c20Tr) typingOnly(n ast.Node) bool {
	ok := true
	ast.Inspect(n, func(m ast.Node) bool {
		switch x := m.(type) {
		case *ast.AssignStmt, *ast.IncDecStmt, *ast.GoStmt, *ast.DeferStmt, *ast.RangeStmt, *ast.ForStmt, *ast.ExprStmt, *ast.FuncLit:
			ok = false
		case *ast.ReturnStmt:
			if len(x.Results) != 1 {
				ok = false
				break
			}
			txt, isLit := c20ErrText(x.Results[0])
			if !isLit || c20Classify(txt) != "EOther" {
				ok = false
			}
		}
		return ok
	})
	return ok
}

func c20Paren(s string) string { return c20ParenImpl(s) }

// a statement list
func (t *c20Tr) seq(l []ast.Stmt, m c20Mode, ind string) (string, error) {
	if len(l) == 0 {
		if m.fall == nil {
			return "", t.errf("control reaches the end of the function without a return")
		}
		return m.fall(t), nil
	}
	if t.special != nil {
		if s, ok, err := t.special(t, l, m, ind); ok || err != nil {
			return s, err
		}
	}
	s, err := t.seq1(l, m, ind)
	if err != nil && t.skipOK != nil && t.skipOK(t, l[0]) {
		t.note("%s", c20Brief(l[0]))
		return t.seq(l[1:], m, ind)
	}
	return s, err
}

func c20Brief(s ast.Stmt) string {
	switch x := s.(type) {
	case *ast.AssignStmt:
		var lhs []string
		for _, e := range x.Lhs {
			lhs = append(lhs, c20Squash(types.ExprString(e)))
		}
		return strings.Join(lhs, ", ") + " " + x.Tok.String() + " …"
	case *ast.RangeStmt:
		return "for … := range " + c20Squash(types.ExprString(x.X)) + " { … }"
	case *ast.IfStmt:
		return "if " + c20Squash(types.ExprString(x.Cond)) + " { … }"
	case *ast.ExprStmt:
		if c, ok := x.X.(*ast.CallExpr); ok {
			return c20Squash(types.ExprString(c.Fun)) + "(…)"
		}
	}
	return fmt.Sprintf("%T", s)
}

func (t *c20Tr) seq1(l []ast.Stmt, m c20Mode, ind string) (string, error) {
	rest := func() (string, error) { return t.seq(l[1:], m, ind) }
	bind := func(binding string) (string, error) {
		r, err := rest()
		return binding + " in\n" + ind + r, err
	}
	switch x := l[0].(type) {
	case *ast.ReturnStmt:
		return m.ret(t, x)

	case *ast.DeferStmt:
		// defer func() { if err != nil { g.buildError = err } }()
		fl, ok := x.Call.Fun.(*ast.FuncLit)
		if !ok || len(x.Call.Args) != 0 || t.hooked || t.errRes == "" || len(fl.Body.List) != 1 {
			return "", t.errf("defer not recognised")
		}
		is, ok := fl.Body.List[0].(*ast.IfStmt)
		if !ok || is.Init != nil || is.Else != nil || c20Squash(types.ExprString(is.Cond)) != t.errRes+"!=nil" || len(is.Body.List) != 1 {
			return "", t.errf("deferred function not recognised")
		}
		as, ok := is.Body.List[0].(*ast.AssignStmt)
		if !ok || as.Tok != token.ASSIGN || len(as.Lhs) != 1 || !t.isRecvField(as.Lhs[0], "buildError") || c20Squash(types.ExprString(as.Rhs[0])) != t.errRes {
			return "", t.errf("deferred function not recognised")
		}
		if ind != "  " {
			return "", t.errf("defer inside a block")
		}
		t.hooked = true
		r, err := rest()
		return "(* from here on every return goes through the deferred hook *)\n" + ind + r, err

	case *ast.IfStmt:
		return t.ifStmt(x, l[1:], m, ind)

	case *ast.ExprStmt:
		// g.addToValidateMap(a, b, m)
		if call, ok := x.X.(*ast.CallExpr); ok && c20Squash(types.ExprString(call.Fun)) == t.recv+".addToValidateMap" && len(call.Args) == 3 {
			a, ok1 := t.str(call.Args[0])
			b, ok2 := t.str(call.Args[1])
			var mp string
			ok3 := true
			if c20IsNil(call.Args[2]) {
				mp = "[]"
			} else {
				mp, ok3 = t.env[c20Squash(types.ExprString(call.Args[2]))]
			}
			if ok1 && ok2 && ok3 {
				return bind("let g := to_validate_add " + a + " " + b + " " + mp + " g")
			}
		}
		return "", t.errf("statement %s not recognised", c20Squash(types.ExprString(x.X)))

	case *ast.AssignStmt:
		// err = g.updateToValidateMap()
		if v, ok := t.fallibleCall(x); ok {
			t.errLoc[v] = true
			return bind("let '(g, " + v + ") := update_to_validate_map g")
		}
		if len(x.Lhs) != 1 || len(x.Rhs) != 1 {
			return "", t.errf("assignment not recognised")
		}
		lhs, rhs := x.Lhs[0], x.Rhs[0]
		lt := c20Squash(types.ExprString(lhs))
		// own := *branch; branch = &own : the graph keeps its own copy of the branch object
		if x.Tok == token.DEFINE && lt == "own" && c20Squash(types.ExprString(rhs)) == "*branch" {
			t.note("own := *branch; branch = &own: from here on `branch` is the graph's own copy of the caller's value (the caller's is not written any more)")
			t.env["#own"] = "copy"
			return rest()
		}
		if x.Tok == token.ASSIGN && lt == "branch" && c20Squash(types.ExprString(rhs)) == "&own" && t.env["#own"] == "copy" {
			t.env["#own"] = "installed"
			return rest()
		}
		// result := checkAssignable(…)
		if x.Tok == token.DEFINE {
			if call, ok := rhs.(*ast.CallExpr); ok && types.ExprString(call.Fun) == "checkAssignable" && lt == "result" {
				t.note("result := checkAssignable(…): the answer is the parameter [result]")
				return rest()
			}
			return "", t.errf("declaration of %s not recognised", lt)
		}
		if x.Tok != token.ASSIGN {
			return "", t.errf("assignment operator not recognised")
		}
		// fields of the branch object
		if sel, ok := lhs.(*ast.SelectorExpr); ok {
			if id, ok := sel.X.(*ast.Ident); ok && id.Name == "branch" {
				if sel.Sel.Name == "noDataFlow" {
					if b := types.ExprString(rhs); (b == "true" || b == "false") && t.isLocal("noDataFlow") && !m.inLoop {
						return bind("let noDataFlow := " + b)
					}
					return "", t.errf("branch.noDataFlow = %s", types.ExprString(rhs))
				}
				t.note("%s = …: a field of the branch object that the model does not keep", lt)
				return rest()
			}
		}
		// g.compiled = true
		if t.isRecvField(lhs, "compiled") {
			if b := types.ExprString(rhs); b == "true" || b == "false" {
				return bind("let g := set_compiled " + b + " g")
			}
		}
		// g.startNodes = append(g.startNodes, b)
		for f, op := range map[string]string{"startNodes": "starts_append", "endNodes": "ends_append"} {
			if t.isRecvField(lhs, f) {
				if b, ok := t.appendTo(rhs, lt); ok {
					if bs, ok := t.str(b); ok {
						return bind("let g := " + op + " " + bs + " g")
					}
				}
				return "", t.errf("assignment to g.%s not recognised", f)
			}
		}
		if f, k, ok := t.recvIndex(lhs); ok {
			ks, isStr := t.str(k)
			if !isStr {
				return "", t.errf("index %s not recognised", types.ExprString(k))
			}
			switch f {
			case "nodes":
				if v, ok := t.env[c20Squash(types.ExprString(rhs))]; ok {
					return bind("let g := nodes_put " + ks + " " + v + " g")
				}
			case "controlEdges", "dataEdges":
				if b, ok := t.appendTo(rhs, lt); ok {
					if bs, ok := t.str(b); ok {
						op := "ctrl_append"
						if f == "dataEdges" {
							op = "data_append"
						}
						return bind("let g := " + op + " " + ks + " " + bs + " g")
					}
				}
			case "handlerPreBranch":
				if _, ok := t.appendTo(rhs, lt); ok {
					return bind("let g := prebranch_append " + ks + " g")
				}
				if cl, ok := rhs.(*ast.CompositeLit); ok && len(cl.Elts) == 0 {
					return bind("let g := prebranch_init " + ks + " g")
				}
			case "branches":
				if b, ok := t.appendTo(rhs, lt); ok && types.ExprString(b) == "branch" {
					el, ok := t.lists["branch.endNodes"]
					if !ok {
						return "", t.errf("branch without end nodes")
					}
					return bind("let g := branches_append " + ks + " " + el + " noDataFlow g")
				}
			}
			return "", t.errf("assignment to %s not recognised", lt)
		}
		// g.nodes[k].cr.inputType = t
		if sel, ok := lhs.(*ast.SelectorExpr); ok {
			if sel2, ok := sel.X.(*ast.SelectorExpr); ok && sel2.Sel.Name == "cr" {
				if f, k, ok := t.recvIndex(sel2.X); ok && f == "nodes" {
					if ks, ok := t.str(k); ok {
						switch sel.Sel.Name {
						case "inputType":
							return bind("let g := set_in_typed " + ks + " g")
						case "outputType":
							return bind("let g := set_out_typed " + ks + " g")
						case "genericHelper":
							t.note("%s = …: the helper of a pass-through node, typing (property C07)", lt)
							return rest()
						}
					}
				}
			}
		}
		return "", t.errf("assignment to %s not recognised", lt)

	case *ast.RangeStmt:
		// for i := range g.F[a] { if g.F[a][i] == b { return … } }
		if f, k, ok := t.recvIndex(x.X); ok && (f == "controlEdges" || f == "dataEdges") && x.Value == nil && len(x.Body.List) == 1 {
			iv, _ := x.Key.(*ast.Ident)
			is, isIf := x.Body.List[0].(*ast.IfStmt)
			ks, isStr := t.str(k)
			if iv != nil && isIf && isStr && is.Init == nil && is.Else == nil && len(is.Body.List) == 1 {
				if be, ok := is.Cond.(*ast.BinaryExpr); ok && be.Op == token.EQL {
					want := c20Squash(types.ExprString(x.X)) + "[" + iv.Name + "]"
					if bs, ok := t.str(be.Y); ok && c20Squash(types.ExprString(be.X)) == want {
						if ret, ok := is.Body.List[0].(*ast.ReturnStmt); ok {
							re, err := m.ret(t, ret)
							if err != nil {
								return "", err
							}
							proj := "g_ctrl"
							if f == "dataEdges" {
								proj = "g_data"
							}
							r, err := rest()
							return "if pmem " + ks + " " + bs + " (" + proj + " g) then " + re + "\n" + ind + "else " + r, err
						}
					}
				}
			}
			return "", t.errf("loop over g.%s not recognised", f)
		}
		// for x := range <list> { … }
		if lst, ok := t.list(x.X); ok && x.Value == nil {
			kv, isId := x.Key.(*ast.Ident)
			if !isId {
				return "", t.errf("range without variable")
			}
			if _, dup := t.strs[kv.Name]; dup {
				return "", t.errf("loop variable %s shadows a key", kv.Name)
			}
			t.strs[kv.Name] = kv.Name
			body, err := t.seq(x.Body.List, c20Mode{
				ret: func(t *c20Tr, r *ast.ReturnStmt) (string, error) {
					if len(r.Results) != 1 || c20IsNil(r.Results[0]) {
						return "", t.errf("return inside a loop that is not an error")
					}
					ev, err := t.errVal(r.Results[0])
					return "(g, " + ev + ")", err
				},
				fall:   func(t *c20Tr) string { return "(g, None)" },
				inLoop: true,
			}, ind+"    ")
			delete(t.strs, kv.Name)
			if err != nil {
				return "", err
			}
			r, err := rest()
			if err != nil {
				return "", err
			}
			lit := &ast.ReturnStmt{Results: []ast.Expr{ast.NewIdent("loopErr")}}
			t.errLoc["loopErr"] = true
			re, err := m.ret(t, lit)
			delete(t.errLoc, "loopErr")
			if err != nil {
				return "", err
			}
			return "match for_each (fun (g : gstate) (" + kv.Name + " : string) =>\n" + ind + "    " + body + ") " + lst + " g with\n" +
				ind + "| (g, Some e) => let loopErr := Some e in " + re + "\n" + ind + "| (g, None) =>\n" + ind + "  " + strings.ReplaceAll(r, "\n", "\n  ") + "\n" + ind + "end", nil
		}
		return "", t.errf("range over %s not recognised", types.ExprString(x.X))
	}
	return "", t.errf("statement not recognised")
}

// append(<lhs>, b) -> b
func (t *c20Tr) appendTo(rhs ast.Expr, lhs string) (ast.Expr, bool) {
	call, ok := rhs.(*ast.CallExpr)
	if !ok || len(call.Args) != 2 || call.Ellipsis.IsValid() {
		return nil, false
	}
	if id, ok := call.Fun.(*ast.Ident); !ok || id.Name != "append" {
		return nil, false
	}
	if c20Squash(types.ExprString(call.Args[0])) != lhs {
		return nil, false
	}
	return call.Args[1], true
}

func (t *c20Tr) ifStmt(x *ast.IfStmt, after []ast.Stmt, m c20Mode, ind string) (string, error) {
	// the block of type checks of addNode
	if x.Init == nil && x.Else == nil && t.typing[c20Squash(types.ExprString(x.Cond))] {
		if !t.typingOnly(x.Body) {
			return "", t.errf("the block under %s does more than type checks", c20Squash(types.ExprString(x.Cond)))
		}
		t.note("if %s { … }: type checks of the state handlers (typing is property C07)", c20Squash(types.ExprString(x.Cond)))
		return t.seq(after, m, ind)
	}
	prefix := ""
	var undo []func()
	defer func() {
		for _, f := range undo {
			f()
		}
	}()
	if x.Init != nil {
		if name, test, ok := t.okLookup(x.Init); ok {
			old, had := t.okVars[name]
			t.okVars[name] = test
			undo = append(undo, func() {
				if had {
					t.okVars[name] = old
				} else {
					delete(t.okVars, name)
				}
			})
		} else if v, ok := t.fallibleCall(x.Init); ok {
			had := t.errLoc[v]
			t.errLoc[v] = true
			undo = append(undo, func() {
				if !had {
					delete(t.errLoc, v)
				}
			})
			prefix = "let '(g, " + v + ") := update_to_validate_map g in\n" + ind
		} else {
			return "", t.errf("if-init not recognised")
		}
	}
	c, err := t.cond(x.Cond)
	if err != nil {
		return "", err
	}
	var elseList []ast.Stmt
	switch e := x.Else.(type) {
	case nil:
	case *ast.BlockStmt:
		elseList = e.List
	case *ast.IfStmt:
		elseList = []ast.Stmt{e}
	}
	hasRet := c20ContainsReturn(x.Body) || (x.Else != nil && c20ContainsReturn(x.Else))
	thenReturns := c20AlwaysReturns(x.Body.List)
	elseReturns := x.Else != nil && c20AlwaysReturns(elseList)
	// locals declared inside a branch go out of scope at its end
	scoped := func(list []ast.Stmt, mm c20Mode) (string, error) {
		n := len(t.locals)
		r, err := t.seq(list, mm, ind+"  ")
		t.locals = t.locals[:n]
		return r, err
	}
	switch {
	case !hasRet:
		// a state update
		sm := c20Mode{ret: func(t *c20Tr, r *ast.ReturnStmt) (string, error) { return "", t.errf("unreachable") },
			fall: func(t *c20Tr) string { return t.stTuple() }, inLoop: m.inLoop}
		// the tuple handed on must be the one of the enclosing scope
		outer := append([]c20Local(nil), t.locals...)
		sm.fall = func(t *c20Tr) string {
			save := t.locals
			t.locals = outer
			r := t.stTuple()
			t.locals = save
			return r
		}
		th, err := scoped(x.Body.List, sm)
		if err != nil {
			return "", err
		}
		el := t.stTuple()
		if x.Else != nil {
			if el, err = scoped(elseList, sm); err != nil {
				return "", err
			}
		}
		pat := t.stPattern()
		r, err := t.seq(after, m, ind)
		return prefix + "let " + pat + " := (if " + c + " then " + c20Paren(th) + "\n" + ind + "  else " + c20Paren(el) + ") in\n" + ind + r, err
	case thenReturns && x.Else == nil:
		th, err := scoped(x.Body.List, m)
		if err != nil {
			return "", err
		}
		r, err := t.seq(after, m, ind)
		return prefix + "if " + c + " then " + c20Paren(th) + "\n" + ind + "else " + r, err
	case thenReturns && elseReturns:
		if len(after) != 0 {
			return "", t.errf("statements after an if/else whose branches both return")
		}
		th, err := scoped(x.Body.List, m)
		if err != nil {
			return "", err
		}
		el, err := scoped(elseList, m)
		return prefix + "if " + c + " then " + c20Paren(th) + "\n" + ind + "else " + el, err
	default:
		// returns on some paths: the rest of the list becomes a continuation over the state
		t.nk++
		k := "k" + strconv.Itoa(t.nk)
		outer := append([]c20Local(nil), t.locals...)
		params := t.stParams()
		km := c20Mode{ret: m.ret, inLoop: m.inLoop, fall: func(t *c20Tr) string {
			save := t.locals
			t.locals = outer
			r := k + " " + t.stArgs()
			t.locals = save
			return r
		}}
		th, err := scoped(x.Body.List, km)
		if err != nil {
			return "", err
		}
		el := k + " " + t.stArgs()
		if x.Else != nil {
			if el, err = scoped(elseList, km); err != nil {
				return "", err
			}
		}
		r, err := t.seq(after, m, ind+"  ")
		if err != nil {
			return "", err
		}
		return prefix + "let " + k + " := (fun " + params + " =>\n" + ind + "  " + r + ") in\n" + ind + "if " + c + " then " + c20Paren(th) + "\n" + ind + "else " + el, nil
	}
}

// return of a method whose only result is the error
func c20RetErr(t *c20Tr, r *ast.ReturnStmt) (string, error) {
	if len(r.Results) != 1 {
		return "", t.errf("return with %d results", len(r.Results))
	}
	ev, err := t.errVal(r.Results[0])
	if err != nil {
		return "", err
	}
	return "ret " + strconv.FormatBool(t.hooked) + " g " + ev, nil
}

func c20ParamNames(fn *ast.FuncDecl) string {
	var pn []string
	for _, fl := range fn.Type.Params.List {
		for _, n := range fl.Names {
			pn = append(pn, n.Name)
		}
	}
	return strings.Join(pn, ",")
}

func (t *c20Tr) method(f *ast.File, name, params string) (*ast.FuncDecl, error) {
	fn := c20MethodOf(f, "graph", name)
	if fn == nil || fn.Body == nil {
		return nil, fmt.Errorf("method (*graph).%s not found", name)
	}
	if len(fn.Recv.List[0].Names) != 1 {
		return nil, fmt.Errorf("(*graph).%s: receiver without a name", name)
	}
	t.recv = fn.Recv.List[0].Names[0].Name
	if got := c20ParamNames(fn); got != params {
		return nil, fmt.Errorf("(*graph).%s: parameters (%s), expected (%s)", name, got, params)
	}
	t.errRes = ""
	if rs := fn.Type.Results; rs != nil && len(rs.List) == 1 && len(rs.List[0].Names) == 1 && types.ExprString(rs.List[0].Type) == "error" {
		t.errRes = rs.List[0].Names[0].Name
	}
	return fn, nil
}

func c20NewTr(fn string, errVars map[string]string) *c20Tr {
	return &c20Tr{fn: fn, env: map[string]string{}, strs: map[string]string{"START": "START", "END": "END_"},
		lists: map[string]string{}, errVars: errVars, okVars: map[string]string{}, errLoc: map[string]bool{}, typing: map[string]bool{}}
}

func c20Notes(b *strings.Builder, t *c20Tr) {
	if len(t.notes) == 0 {
		return
	}
	b.WriteString("(* outside the model, not translated:\n")
	for _, n := range t.notes {
		b.WriteString("     " + strings.ReplaceAll(n, "*)", "* )") + "\n")
	}
	b.WriteString("*)\n")
}

// c20ContainsHelpers: the package-level functions of graph.go that are a membership scan over a list of keys,
//
//	func h(keys []string, key string) bool { for _, k := range keys { if k == key { return true } }; return false }
//
// (or the index form for i := range keys { if keys[i] == key … }); a call of one stands for the loop it was extracted from
var c20ContainsHelpers = map[string]bool{}

func c20FindContainsHelpers(f *ast.File) map[string]bool {
	out := map[string]bool{}
	for _, d := range f.Decls {
		fn, ok := d.(*ast.FuncDecl)
		if !ok || fn.Recv != nil || fn.Body == nil || fn.Type.TypeParams != nil || len(fn.Body.List) != 2 {
			continue
		}
		if c20ParamNames(fn) == "" || fn.Type.Results == nil || len(fn.Type.Results.List) != 1 || c20Txt(fn.Type.Results.List[0].Type) != "bool" {
			continue
		}
		var ps []string
		var pt []string
		for _, fl := range fn.Type.Params.List {
			for _, n := range fl.Names {
				ps = append(ps, n.Name)
				pt = append(pt, c20Txt(fl.Type))
			}
		}
		if len(ps) != 2 || pt[0] != "[]string" || pt[1] != "string" {
			continue
		}
		rg, ok1 := fn.Body.List[0].(*ast.RangeStmt)
		ret, ok2 := fn.Body.List[1].(*ast.ReturnStmt)
		if !ok1 || !ok2 || len(ret.Results) != 1 || c20Txt(ret.Results[0]) != "false" || c20Txt(rg.X) != ps[0] || len(rg.Body.List) != 1 {
			continue
		}
		is, ok := rg.Body.List[0].(*ast.IfStmt)
		if !ok || is.Init != nil || is.Else != nil || len(is.Body.List) != 1 {
			continue
		}
		r2, ok := is.Body.List[0].(*ast.ReturnStmt)
		if !ok || len(r2.Results) != 1 || c20Txt(r2.Results[0]) != "true" {
			continue
		}
		be, ok := is.Cond.(*ast.BinaryExpr)
		if !ok || be.Op != token.EQL {
			continue
		}
		var elem string
		kv, _ := rg.Key.(*ast.Ident)
		vv, _ := rg.Value.(*ast.Ident)
		switch {
		case vv != nil && vv.Name != "_" && (kv == nil || kv.Name == "_"):
			elem = vv.Name
		case kv != nil && kv.Name != "_" && rg.Value == nil:
			elem = ps[0] + "[" + kv.Name + "]"
		default:
			continue
		}
		l, r := c20Txt(be.X), c20Txt(be.Y)
		if (l == elem && r == ps[1]) || (r == elem && l == ps[1]) {
			out[fn.Name.Name] = true
		}
	}
	return out
}

func c20ExtractGraph(repo string) (string, string, error) {
	fset := token.NewFileSet()
	f, err := c20ParseGo(fset, repo, "compose", "graph.go")
	if err != nil {
		return "", "", err
	}
	c20ContainsHelpers = c20FindContainsHelpers(f)
	// package level error variables: var ErrX = errors.New("…")
	errVars := map[string]string{}
	for _, d := range f.Decls {
		gd, ok := d.(*ast.GenDecl)
		if !ok || gd.Tok != token.VAR {
			continue
		}
		for _, sp := range gd.Specs {
			vs := sp.(*ast.ValueSpec)
			for i, n := range vs.Names {
				if i < len(vs.Values) {
					if txt, ok := c20ErrText(vs.Values[i]); ok {
						errVars[n.Name] = c20Classify(txt)
					}
				}
			}
		}
	}
	var b strings.Builder
	b.WriteString("(* Gen/C20Graph.v — GENERATED by tools/go2v (extractor \"c20graph\") from compose/graph.go\n")
	b.WriteString("   (methods addNode, addEdgeWithMappings, addBranch, compile of *graph, translated statement by\n   statement). Do not edit. *)\n")
	b.WriteString("From Eino Require Import Base.Util Model.Builder Model.BuilderGenLib.\n\n")
	b.WriteString("Definition tie_available : bool := true.\n\n")

	// ---- addNode
	{
		t := c20NewTr("addNode", errVars)
		fn, err := t.method(f, "addNode", "key,node,options")
		if err != nil {
			return "", "", err
		}
		t.strs["key"] = "key"
		t.env["options.needState"] = "needState"
		t.env[`options.nodeOptions.nodeKey!=""`] = "nodeKeyOpt"
		t.env["node"] = "node"
		t.typing["options.processor!=nil"] = true
		code, err := t.seq(fn.Body.List, c20Mode{ret: c20RetErr}, "  ")
		if err != nil {
			return "", "", err
		}
		c20Notes(&b, t)
		fmt.Fprintf(&b, "Definition addNode (g : gstate) (key : string) (node : node) (needState nodeKeyOpt : bool) : gstate * outcome :=\n  %s.\n\n", code)
	}
	// ---- addEdgeWithMappings
	{
		t := c20NewTr("addEdgeWithMappings", errVars)
		fn, err := t.method(f, "addEdgeWithMappings", "startNode,endNode,noControl,noData,mappings")
		if err != nil {
			return "", "", err
		}
		t.strs["startNode"], t.strs["endNode"] = "startNode", "endNode"
		t.env["noControl"], t.env["noData"], t.env["mappings"] = "noControl", "noData", "mappings"
		code, err := t.seq(fn.Body.List, c20Mode{ret: c20RetErr}, "  ")
		if err != nil {
			return "", "", err
		}
		c20Notes(&b, t)
		fmt.Fprintf(&b, "Definition addEdgeWithMappings (g : gstate) (startNode endNode : string) (noControl noData : bool) (mappings : list string) : gstate * outcome :=\n  %s.\n\n", code)
	}
	// ---- addBranch
	{
		t := c20NewTr("addBranch", errVars)
		fn, err := t.method(f, "addBranch", "startNode,branch,skipData")
		if err != nil {
			return "", "", err
		}
		t.strs["startNode"] = "startNode"
		t.env["skipData"] = "skipData"
		t.lists["branch.endNodes"] = "endNodes"
		t.locals = []c20Local{{"noDataFlow", "bool"}}
		for _, c := range []string{"Must", "MustNot", "May"} {
			t.env["result==assignableType"+c] = "(asg_eqb result A" + c + ")"
		}
		code, err := t.seq(fn.Body.List, c20Mode{ret: c20RetErr}, "  ")
		if err != nil {
			return "", "", err
		}
		c20Notes(&b, t)
		fmt.Fprintf(&b, "Definition addBranch (result : asg) (noDataFlow : bool) (g : gstate) (startNode : string) (endNodes : list string) (skipData : bool) : gstate * outcome :=\n  %s.\n\n", code)
	}
	// ---- compile
	code, err := c20Compile(f, errVars)
	if err != nil {
		return "", "", err
	}
	b.WriteString(code)
	return "C20Graph.v", b.String(), nil
}

// ---------------------------------------------------------------- graph.compile

// statements of graph.compile that have a meaning of their own in the model
type c20CompileInfo struct {
	chanPerNode   bool     // the node loop enters every node of g.nodes in chanSubscribeTo
	nodeEdges     []string // where a node's chanCall takes its edge lists from
	handlerSource []string // where the runner's three handler managers take their maps from
	prenodeLocal  bool     // the pre-node handlers of the runner are the local copy
	haveRunner    bool
	keySlice      string // local slice that collects the keys of g.nodes ("" = none)
	keysSorted    bool   // ... and has been handed to sort.Strings
	loopOrder     string // how the node loop visits g.nodes: "map" (range over the map) or "sorted" (range over the sorted keys)
}

func c20Root(e ast.Expr) (base string, first string) {
	for {
		switch x := e.(type) {
		case *ast.ParenExpr:
			e = x.X
		case *ast.StarExpr:
			e = x.X
		case *ast.IndexExpr:
			e = x.X
		case *ast.SelectorExpr:
			if id, ok := x.X.(*ast.Ident); ok {
				return id.Name, x.Sel.Name
			}
			e = x.X
		case *ast.Ident:
			return x.Name, ""
		default:
			return "", ""
		}
	}
}

var c20ReadOnlyMethods = map[string]bool{"beforeChildGraphsCompile": true, "onCompileFinish": true, "getNodeGenericHelper": true,
	"getNodeInputType": true, "getNodeOutputType": true, "inputType": true, "outputType": true, "stateGenerator": true, "toGraphInfo": true}

// a statement that cannot change the builder, a tracked local or the control flow of compile
func c20CompileSkip(t *c20Tr, s ast.Stmt) bool {
	tracked := func(e ast.Expr) bool {
		base, first := c20Root(e)
		switch base {
		case "":
			return true
		case t.recv:
			return true
		case "runType", "eager", "handlerPreNode", "opt":
			return true
		case "r":
			return first == "dag" || first == "options" || first == "eager"
		}
		return false
	}
	ok := true
	ast.Inspect(s, func(n ast.Node) bool {
		if !ok {
			return false
		}
		switch x := n.(type) {
		case *ast.FuncLit:
			return false
		case *ast.ReturnStmt, *ast.DeferStmt, *ast.GoStmt, *ast.LabeledStmt, *ast.SelectStmt, *ast.SendStmt:
			ok = false
		case *ast.BranchStmt:
			if x.Tok == token.GOTO || x.Label != nil {
				ok = false
			}
		case *ast.AssignStmt:
			for _, l := range x.Lhs {
				if id, isId := l.(*ast.Ident); isId && id.Name == "_" {
					continue
				}
				if tracked(l) {
					ok = false
				}
			}
		case *ast.IncDecStmt:
			if tracked(x.X) {
				ok = false
			}
		case *ast.RangeStmt:
			for _, e := range []ast.Expr{x.Key, x.Value} {
				if e != nil && x.Tok == token.ASSIGN && tracked(e) {
					ok = false
				}
			}
		case *ast.CallExpr:
			if sel, isSel := x.Fun.(*ast.SelectorExpr); isSel {
				if id, isId := sel.X.(*ast.Ident); isId && id.Name == t.recv && !c20ReadOnlyMethods[sel.Sel.Name] {
					ok = false
				}
			}
			if id, isId := x.Fun.(*ast.Ident); isId && (id.Name == "delete" || id.Name == "clear") && len(x.Args) > 0 && tracked(x.Args[0]) {
				ok = false
			}
		}
		return ok
	})
	return ok
}

func (t *c20Tr) declare(name, typ string) error {
	if t.isLocal(name) {
		return t.errf("local %s declared twice", name)
	}
	t.locals = append(t.locals, c20Local{name, typ})
	return nil
}

func c20KeyValues(cl *ast.CompositeLit) map[string]ast.Expr {
	m := map[string]ast.Expr{}
	for _, e := range cl.Elts {
		if kv, ok := e.(*ast.KeyValueExpr); ok {
			if id, ok := kv.Key.(*ast.Ident); ok {
				m[id.Name] = kv.Value
			}
		}
	}
	return m
}

// &T{…} -> the literal
func c20AddrLit(e ast.Expr, typ string) *ast.CompositeLit {
	u, ok := e.(*ast.UnaryExpr)
	if !ok || u.Op != token.AND {
		return nil
	}
	cl, ok := u.X.(*ast.CompositeLit)
	if !ok || types.ExprString(cl.Type) != typ {
		return nil
	}
	return cl
}

func c20CompileSpecial(info *c20CompileInfo) func(t *c20Tr, l []ast.Stmt, m c20Mode, ind string) (string, bool, error) {
	return func(t *c20Tr, l []ast.Stmt, m c20Mode, ind string) (string, bool, error) {
		rest := func() (string, error) { return t.seq(l[1:], m, ind) }
		bind := func(binding string) (string, bool, error) {
			r, err := rest()
			return binding + " in\n" + ind + r, true, err
		}
		fail := func(format string, a ...any) (string, bool, error) { return "", false, t.errf(format, a...) }
		// a synthetic `return nil, <v>` for tests the model states on the whole builder
		retOf := func(v string) (string, error) {
			t.errLoc[v] = true
			defer delete(t.errLoc, v)
			return m.ret(t, &ast.ReturnStmt{Results: []ast.Expr{ast.NewIdent("nil"), ast.NewIdent(v)}})
		}
		switch x := l[0].(type) {
		case *ast.ExprStmt:
			// sort.Strings(names): the collected keys of g.nodes are put in order
			if info.keySlice != "" && c20Squash(types.ExprString(x.X)) == "sort.Strings("+info.keySlice+")" && !m.inLoop {
				info.keysSorted = true
				r, err := rest()
				return r, true, err
			}
			return "", false, nil
		case *ast.AssignStmt:
			if len(x.Lhs) == 2 && len(x.Rhs) == 1 {
				return "", false, nil
			}
			if len(x.Lhs) != 1 || len(x.Rhs) != 1 {
				return "", false, nil
			}
			lt := c20Squash(types.ExprString(x.Lhs[0]))
			rt := c20Squash(types.ExprString(x.Rhs[0]))
			boolOf := map[string]string{"true": "true", "false": "false", "runTypePregel": "false", "runTypeDAG": "true"}
			switch lt {
			case "runType", "eager":
				v, ok := boolOf[rt]
				if !ok || (lt == "runType") != strings.HasPrefix(rt, "runType") || m.inLoop {
					return fail("%s %s %s", lt, x.Tok, rt)
				}
				if x.Tok == token.DEFINE {
					if err := t.declare(lt, "bool"); err != nil {
						return "", false, err
					}
				} else if !t.isLocal(lt) {
					return fail("%s assigned before its declaration", lt)
				}
				return bind("let " + lt + " := " + v)
			case "handlerPreNode":
				if x.Tok == token.DEFINE && strings.HasPrefix(rt, "make(map[string][]handlerPair") && !m.inLoop {
					if err := t.declare("handlerPreNode", "list string"); err != nil {
						return "", false, err
					}
					return bind("let handlerPreNode := @nil string")
				}
				return fail("handlerPreNode %s %s", x.Tok, rt)
			case "err":
				if x.Tok == token.DEFINE && strings.HasPrefix(rt, "validateDAG(r.chanSubscribeTo,controlPredecessors)") {
					if !info.haveRunner || !info.chanPerNode {
						return fail("validateDAG before the runner exists")
					}
					t.errLoc["err"] = true
					return bind("let err := validate_dag_result g")
				}
			case "r.dag":
				if x.Tok == token.ASSIGN && (rt == "true" || rt == "false") && t.isLocal("r_dag") && !m.inLoop {
					return bind("let r_dag := " + rt)
				}
				return fail("r.dag %s %s", x.Tok, rt)
			case "r.options":
				if x.Tok == token.ASSIGN && rt == "*opt" && t.isLocal("maxRunSteps") && !m.inLoop {
					return bind("let maxRunSteps := o_max_steps opt")
				}
				return fail("r.options %s %s", x.Tok, rt)
			case "r.options.maxRunSteps":
				if x.Tok == token.ASSIGN && t.isLocal("maxRunSteps") && !m.inLoop && info.chanPerNode {
					if be, ok := x.Rhs[0].(*ast.BinaryExpr); ok && be.Op == token.ADD && c20Squash(types.ExprString(be.X)) == "len(r.chanSubscribeTo)" {
						if bl, ok := be.Y.(*ast.BasicLit); ok && bl.Kind == token.INT {
							return bind("let maxRunSteps := (Z.of_nat (List.length (g_nodes g)) + " + bl.Value + ")%Z")
						}
					}
				}
				return fail("r.options.maxRunSteps %s %s", x.Tok, rt)
			case "r":
				cl := c20AddrLit(x.Rhs[0], "runner")
				if x.Tok != token.DEFINE || cl == nil || info.haveRunner || m.inLoop {
					return fail("r %s … not recognised", x.Tok)
				}
				kv := c20KeyValues(cl)
				if len(kv) != len(cl.Elts) {
					return fail("runner literal with positional fields")
				}
				for _, bad := range []string{"dag", "options"} {
					if _, ok := kv[bad]; ok {
						return fail("runner literal sets %s", bad)
					}
				}
				if e, ok := kv["eager"]; !ok || types.ExprString(e) != "eager" || !t.isLocal("eager") {
					return fail("runner literal: eager")
				}
				if e, ok := kv["chanSubscribeTo"]; !ok || types.ExprString(e) != "chanSubscribeTo" {
					return fail("runner literal: chanSubscribeTo")
				}
				for _, mg := range []string{"preBranchHandlerManager", "preNodeHandlerManager", "edgeHandlerManager"} {
					e, ok := kv[mg]
					if !ok {
						return fail("runner literal: %s missing", mg)
					}
					ml := c20AddrLit(e, mg)
					if ml == nil {
						return fail("runner literal: %s", mg)
					}
					h, ok := c20KeyValues(ml)["h"]
					if !ok || len(ml.Elts) != 1 {
						return fail("runner literal: %s.h", mg)
					}
					info.handlerSource = append(info.handlerSource, mg+".h = "+c20Squash(types.ExprString(h)))
					if mg == "preNodeHandlerManager" {
						switch c20Squash(types.ExprString(h)) {
						case "handlerPreNode":
							if !t.isLocal("handlerPreNode") {
								return fail("handlerPreNode not declared")
							}
							info.prenodeLocal = true
						case t.recv + ".handlerPreNode":
						default:
							return fail("runner literal: preNodeHandlerManager.h = %s", c20Squash(types.ExprString(h)))
						}
					}
				}
				info.haveRunner = true
				for _, d := range [][2]string{{"r_dag", "bool"}, {"r_eager", "bool"}, {"maxRunSteps", "Z"}} {
					if err := t.declare(d[0], d[1]); err != nil {
						return "", false, err
					}
				}
				return bind("let r_dag := false in\n" + ind + "let r_eager := eager in\n" + ind + "let maxRunSteps := 0%Z")
			}
			return "", false, nil

		case *ast.RangeStmt:
			xs := c20Squash(types.ExprString(x.X))
			name := func(e ast.Expr) string {
				if id, ok := e.(*ast.Ident); ok {
					return id.Name
				}
				return ""
			}
			k, v := name(x.Key), name(x.Value)
			// the body of the node loop (key variable k, node variable v)
			nodeLoop := func(k, v string, list []ast.Stmt) (string, bool, error) {
				subErr, entered := false, false
				for i, s := range list {
					if as, ok := s.(*ast.AssignStmt); ok && len(as.Lhs) == 2 && len(as.Rhs) == 1 && c20Squash(types.ExprString(as.Lhs[1])) == "err" &&
						c20Squash(types.ExprString(as.Rhs[0])) == v+".compileIfNeeded(ctx)" && as.Tok == token.DEFINE {
						if i+1 < len(list) {
							if is, ok := list[i+1].(*ast.IfStmt); ok && is.Init == nil && is.Else == nil && c20Squash(types.ExprString(is.Cond)) == "err!=nil" && len(is.Body.List) == 1 {
								if ret, ok := is.Body.List[0].(*ast.ReturnStmt); ok && len(ret.Results) == 2 && c20IsNil(ret.Results[0]) && types.ExprString(ret.Results[1]) == "err" && !subErr {
									subErr = true
									continue
								}
							}
						}
						return fail("node loop: compileIfNeeded without its error test")
					}
					if is, ok := s.(*ast.IfStmt); ok && subErr && c20Squash(types.ExprString(is.Cond)) == "err!=nil" && c20ContainsReturn(is) {
						continue // the error test just matched
					}
					if as, ok := s.(*ast.AssignStmt); ok && len(as.Lhs) == 1 && c20Squash(types.ExprString(as.Lhs[0])) == "chanSubscribeTo["+k+"]" && as.Tok == token.ASSIGN {
						entered = true
						continue
					}
					if as, ok := s.(*ast.AssignStmt); ok && len(as.Lhs) == 1 && as.Tok == token.DEFINE {
						if cl := c20AddrLit(as.Rhs[0], "chanCall"); cl != nil {
							kv := c20KeyValues(cl)
							for _, f := range []string{"writeTo", "controls"} {
								if e, ok := kv[f]; ok {
									info.nodeEdges = append(info.nodeEdges, f+" = "+c20Squash(types.ExprString(e)))
								}
							}
							continue
						}
					}
					if !c20CompileSkip(t, s) {
						return fail("node loop: statement %s not recognised", c20Brief(s))
					}
				}
				if !subErr || !entered {
					return fail("node loop: compileIfNeeded / chanSubscribeTo[%s] missing", k)
				}
				info.chanPerNode = true
				re, err := retOf("subErr")
				if err != nil {
					return "", false, err
				}
				r, err := rest()
				return "let subErr := sub_graph_error g in\n" + ind + "if is_some subErr then " + re + "\n" + ind + "else " + r, true, err
			}
			// for _, name := range names { node := g.nodes[name]; … }: the node loop over the sorted keys
			if info.keySlice != "" && xs == info.keySlice {
				if !info.keysSorted || (k != "" && k != "_") || v == "" || info.chanPerNode || len(x.Body.List) < 2 {
					return fail("loop over the keys of g.nodes not recognised")
				}
				as, ok := x.Body.List[0].(*ast.AssignStmt)
				if !ok || as.Tok != token.DEFINE || len(as.Lhs) != 1 || len(as.Rhs) != 1 || name(as.Lhs[0]) == "" ||
					c20Squash(types.ExprString(as.Rhs[0])) != t.recv+".nodes["+v+"]" {
					return fail("loop over the keys of g.nodes: the node is not taken from g.nodes[%s] first", v)
				}
				info.loopOrder = "sorted"
				return nodeLoop(v, name(as.Lhs[0]), x.Body.List[1:])
			}
			switch xs {
			case t.recv + ".toValidateMap":
				// for _, v := range g.toValidateMap { if len(v) > 0 { return nil, E } }
				if len(x.Body.List) == 1 && v != "" {
					if is, ok := x.Body.List[0].(*ast.IfStmt); ok && is.Init == nil && is.Else == nil && c20Squash(types.ExprString(is.Cond)) == "len("+v+")>0" && len(is.Body.List) == 1 {
						if ret, ok := is.Body.List[0].(*ast.ReturnStmt); ok {
							re, err := m.ret(t, ret)
							if err != nil {
								return "", false, err
							}
							r, err := rest()
							return "if negb (is_nil (g_pending g)) then " + re + "\n" + ind + "else " + r, true, err
						}
					}
				}
				return fail("loop over g.toValidateMap not recognised")
			case t.recv + ".nodes":
				// for key, node := range g.nodes { if node.inputType() == nil || node.outputType() == nil { return nil, E } }
				//   (F-C20h) … if node.cr != nil && node.cr.isPassthrough && node.cr.genericHelper == nil { return nil, E } }
				if (len(x.Body.List) == 1 || len(x.Body.List) == 2) && v != "" {
					if is, ok := x.Body.List[0].(*ast.IfStmt); ok && is.Init == nil && is.Else == nil && len(is.Body.List) == 1 &&
						c20Squash(types.ExprString(is.Cond)) == v+".inputType()==nil||"+v+".outputType()==nil" {
						if ret, ok := is.Body.List[0].(*ast.ReturnStmt); ok {
							re, err := m.ret(t, ret)
							if err != nil {
								return "", false, err
							}
							keyedOK := len(x.Body.List) == 1
							if !keyedOK {
								// the same rejection for a pass-through node with an input AND an output key (both types are
								// map[string]any, what passes through has none): the model has no keys, there a pass-through node
								// without helper is one without input type — the test above
								if is2, ok := x.Body.List[1].(*ast.IfStmt); ok && is2.Init == nil && is2.Else == nil && len(is2.Body.List) == 1 &&
									c20Squash(types.ExprString(is2.Cond)) == v+".cr!=nil&&"+v+".cr.isPassthrough&&"+v+".cr.genericHelper==nil" {
									if ret2, ok := is2.Body.List[0].(*ast.ReturnStmt); ok {
										re2, err := m.ret(t, ret2)
										if err != nil {
											return "", false, err
										}
										if re2 == re {
											keyedOK = true
											t.note("if %s.cr != nil && %s.cr.isPassthrough && %s.cr.genericHelper == nil { same error }: a pass-through node with input and output key whose own type nothing inferred (keys are outside the model: without them this is the test before it)", v, v, v)
										}
									}
								}
							}
							if keyedOK {
								r, err := rest()
								return "if has_untyped g then " + re + "\n" + ind + "else " + r, true, err
							}
						}
					}
				}
				// for name := range g.nodes { names = append(names, name) }: the keys of the nodes, to be sorted
				if k != "" && v == "" && len(x.Body.List) == 1 && info.keySlice == "" && !m.inLoop {
					if as, ok := x.Body.List[0].(*ast.AssignStmt); ok && as.Tok == token.ASSIGN && len(as.Lhs) == 1 && len(as.Rhs) == 1 {
						if id, ok := as.Lhs[0].(*ast.Ident); ok && c20Squash(types.ExprString(as.Rhs[0])) == "append("+id.Name+","+k+")" {
							info.keySlice = id.Name
							r, err := rest()
							return r, true, err
						}
					}
				}
				// the node loop: sub graphs are compiled, every node gets its chanCall
				if k == "" || v == "" || info.chanPerNode {
					return fail("loop over g.nodes not recognised")
				}
				info.loopOrder = "map"
				return nodeLoop(k, v, x.Body.List)
			case t.recv + ".handlerPreNode":
				// for key, handlers := range g.handlerPreNode { handlerPreNode[key] = append([]handlerPair(nil), handlers...) }
				if k != "" && v != "" && len(x.Body.List) == 1 && t.isLocal("handlerPreNode") && !m.inLoop &&
					c20Squash(c20StmtText(x.Body.List[0])) == "handlerPreNode["+k+"]=append([]handlerPair(nil),"+v+"...)" {
					return bind("let handlerPreNode := handlerPreNode ++ g_h_prenode g")
				}
				return fail("loop over g.handlerPreNode not recognised")
			case t.recv + ".fieldMappingRecords":
				// duplicate mapping targets; the converter of every mapped node
				if k == "" || v != "" || len(x.Body.List) != 3 || !t.isLocal("handlerPreNode") || m.inLoop {
					return fail("loop over g.fieldMappingRecords not recognised")
				}
				if c20Squash(c20StmtText(x.Body.List[0])) != "toMap:=make(map[string]bool)" {
					return fail("fieldMappingRecords loop: toMap")
				}
				inner, ok := x.Body.List[1].(*ast.RangeStmt)
				if !ok || c20Squash(types.ExprString(inner.X)) != t.recv+".fieldMappingRecords["+k+"]" || name(inner.Value) == "" || len(inner.Body.List) != 2 {
					return fail("fieldMappingRecords loop: inner loop")
				}
				mv := name(inner.Value)
				is, ok := inner.Body.List[0].(*ast.IfStmt)
				if !ok || is.Init == nil || is.Else != nil || c20Squash(c20StmtText(is.Init)) != "_,ok:=toMap["+mv+".to]" || c20Squash(types.ExprString(is.Cond)) != "ok" || len(is.Body.List) != 1 {
					return fail("fieldMappingRecords loop: duplicate test")
				}
				ret, ok := is.Body.List[0].(*ast.ReturnStmt)
				if !ok || c20Squash(c20StmtText(inner.Body.List[1])) != "toMap["+mv+".to]=true" {
					return fail("fieldMappingRecords loop: duplicate test")
				}
				if !strings.HasPrefix(c20Squash(c20StmtText(x.Body.List[2])), "handlerPreNode["+k+"]=append(handlerPreNode["+k+"],") {
					return fail("fieldMappingRecords loop: converter")
				}
				re, err := m.ret(t, ret)
				if err != nil {
					return "", false, err
				}
				r, err := rest()
				return "if existsb (fun kf => has_dup (snd kf)) (g_fm g) then " + re + "\n" + ind + "else\n" + ind +
					"let handlerPreNode := handlerPreNode ++ map fst (g_fm g) in\n" + ind + r, true, err
			}
		}
		return "", false, nil
	}
}

func c20StmtText(s ast.Stmt) string {
	switch x := s.(type) {
	case *ast.AssignStmt:
		var l, r []string
		for _, e := range x.Lhs {
			l = append(l, types.ExprString(e))
		}
		for _, e := range x.Rhs {
			r = append(r, types.ExprString(e))
		}
		return strings.Join(l, ",") + x.Tok.String() + strings.Join(r, ",")
	case *ast.ExprStmt:
		return types.ExprString(x.X)
	}
	return fmt.Sprintf("%T", s)
}

func c20Compile(f *ast.File, errVars map[string]string) (string, error) {
	t := c20NewTr("compile", errVars)
	fn, err := t.method(f, "compile", "ctx,opt")
	if err != nil {
		return "", err
	}
	info := &c20CompileInfo{}
	t.env["opt!=nil"] = "true"
	t.env[`opt.nodeTriggerMode!=""`] = "(trigger_given opt)"
	t.env["opt.nodeTriggerMode==AllPredecessor"] = "(trigger_is_all opt)"
	t.env["opt.getStateEnabled"] = "getStateEnabled"
	t.env["runType==runTypeDAG"] = "runType"
	t.env["r.dag"] = "r_dag"
	for _, step := range []string{"r.options.maxRunSteps", "opt.maxRunSteps"} {
		v := "maxRunSteps"
		if strings.HasPrefix(step, "opt") {
			v = "(o_max_steps opt)"
		}
		t.env[step+">0"] = "(Z.ltb 0 " + v + ")"
		t.env[step+">=0"] = "(Z.leb 0 " + v + ")"
		t.env[step+"<0"] = "(Z.ltb " + v + " 0)"
		t.env[step+"<=0"] = "(Z.leb " + v + " 0)"
		t.env[step+"==0"] = "(Z.eqb " + v + " 0)"
		t.env[step+"!=0"] = "(negb (Z.eqb " + v + " 0))"
	}
	t.special = c20CompileSpecial(info)
	t.skipOK = c20CompileSkip
	mode := c20Mode{ret: func(t *c20Tr, r *ast.ReturnStmt) (string, error) {
		if len(r.Results) != 2 {
			return "", t.errf("return with %d results", len(r.Results))
		}
		if c20IsNil(r.Results[0]) {
			ev, err := t.errVal(r.Results[1])
			if err != nil {
				return "", err
			}
			return "(g, cerr " + ev + ")", nil
		}
		if c20Squash(types.ExprString(r.Results[0])) == "r.toComposableRunnable()" && c20IsNil(r.Results[1]) && info.haveRunner {
			for _, l := range []string{"r_dag", "r_eager", "maxRunSteps"} {
				if !t.isLocal(l) {
					return "", t.errf("the runner is returned outside the scope of %s", l)
				}
			}
			if info.prenodeLocal {
				if !t.isLocal("handlerPreNode") {
					return "", t.errf("the runner is returned outside the scope of handlerPreNode")
				}
				return "(g, CDone r_dag r_eager maxRunSteps handlerPreNode true)", nil
			}
			return "(g, CDone r_dag r_eager maxRunSteps (g_h_prenode g) false)", nil
		}
		return "", t.errf("return %s not recognised", c20Squash(c20ExprList(r.Results)))
	}}
	code, err := t.seq(fn.Body.List, mode, "  ")
	if err != nil {
		return "", err
	}
	var b strings.Builder
	c20Notes(&b, t)
	fmt.Fprintf(&b, "Definition compile (getStateEnabled : bool) (g : gstate) (opt : copt) : gstate * cresult :=\n  %s.\n\n", code)
	lst := func(l []string) string {
		var q []string
		for _, s := range l {
			q = append(q, c20CoqStr(s))
		}
		return "[" + strings.Join(q, "; ") + "]"
	}
	b.WriteString("(* where the runner takes the tables it keeps from: a field of g is shared with the builder *)\n")
	fmt.Fprintf(&b, "Definition runner_handler_sources : list string := %s.\n", lst(info.handlerSource))
	fmt.Fprintf(&b, "Definition runner_node_edge_sources : list string := %s.\n", lst(info.nodeEdges))
	b.WriteString("(* the loop of compile that compiles the child graphs: over the sorted keys of g.nodes (true) or in map order (false) *)\n")
	fmt.Fprintf(&b, "Definition node_loop_sorted : bool := %v.\n", info.loopOrder == "sorted")
	return b.String(), nil
}
