package main

// Extractor "c20chain" (property C20): compose/chain.go — the deferred-error handling of a Chain, translated
// statement by statement over the model's Chain state [cstate] (Model/Builder.v; vocabulary
// Model/BuilderChGenLib.v): reportError (the first error is kept), nextNodeKey (generated keys), addNode (every
// Append<Component>: nothing after an error, refused on a compiled chain, key from the option or generated,
// graph.addNode, START as the first previous node, an edge from every previous node, the new node becomes the
// previous one), addEndIfNeeded (the deferred error first, END edges once) and Compile (addEndIfNeeded, then the
// graph's compile).  Also the two public wrappers of the Graph the model's [gstep] stands for: Graph.AddEdge
// (which flags it hands to addEdgeWithMappings) and graph.AddBranch (skipData), and the public methods that hand a
// component to addNode — (*graph).Add<Component>Node, (*Chain).Append<Component> — each with the verdict "is addNode on
// its own key with the node and options of to<Component>Node(its own arguments)" (c20NodeWrappers).
//
// Recognised: if with and without returns; c.err / c.hasEnd / c.gg.compiled / len(c.preNodeKeys) == 0 / x != nil on
// a local error / s == "" on a local key; c.reportError(e); c.err = e; c.hasEnd = true; c.nodeIdx++;
// c.preNodeKeys = append(c.preNodeKeys, START); c.preNodeKeys = []string{k}; x := c.gg.addNode(k, node, options);
// x := c.gg.AddEdge(a, b); k := options.nodeOptions.nodeKey; k := c.nextNodeKey(); idx := c.nodeIdx;
// for _, k := range c.preNodeKeys { … return … }; return [error | fmt.Sprintf("node_%d", idx)].
// Anything else: "source shape not recognised" (translator tie unavailable).
//
// Output: coq/Gen/C20Chain.v.  Proofs/GenAgreeC20Ch.v proves the definitions equal to c_report, c_append, c_compile.

import (
	"fmt"
	"go/ast"
	"go/token"
	"go/types"
	"strings"
)

func init() {
	register("c20chain", c20ExtractChain)
	registerFallback("c20chain", "C20Chain.v", "(* Gen/C20Chain.v — translator tie UNAVAILABLE: tools/go2v (extractor \"c20chain\") did not recognise the\n"+
		"   shape of compose/chain.go (reportError / nextNodeKey / addNode / addEndIfNeeded / Compile) or of the wrappers\n   Graph.AddEdge / graph.AddBranch; the model's own functions are re-exported. *)\n"+
		"From Eino Require Import Base.Util Model.Builder Model.BuilderGenLib Model.BuilderChGenLib.\n"+
		"Local Open Scope string_scope.\n\n"+
		"Definition tie_available : bool := false.\n\n"+
		"Definition graph_AddEdge (g : gstate) (startNode endNode : string) : gstate * outcome := g_add_edge g startNode endNode false false [].\n"+
		"Definition graph_AddBranch (g : gstate) (startNode : string) (endNodes : list string) : gstate * outcome := g_add_branch g startNode endNodes false.\n"+
		"Definition gg_AddEdge (c : cstate) (a b : string) : cstate * option ecls :=\n  let '(g, o) := graph_AddEdge (c_g c) a b in (c_set_g g c, err_of o).\n"+
		"Definition reportError (c : cstate) (err : option ecls) : cstate := match err with Some e => c_report c e | None => c end.\n"+
		"Definition nextNodeKey (c : cstate) : cstate * string := (c_bump c, \"node_\" +++ nat_str (c_idx c)).\n"+
		"Definition addNode (nodeIsNil : bool) (c : cstate) (optNodeKey : string) (nk : nkind) (needState : bool) : cstate :=\n"+
		"  c_append c nk (if String.eqb optNodeKey \"\" then None else Some optNodeKey) needState.\n"+
		"Definition addEndIfNeeded (c : cstate) : cstate * option ecls := (c, None).\n"+
		"Definition compile (c : cstate) (opt : copt) : cstate * outcome := c_compile fixed c opt.\n"+
		"Definition graph_node_wrappers : list (string * bool) := nil.\nDefinition chain_node_wrappers : list (string * bool) := nil.\n")
}

// c20NodeWrappers: the public methods that hand a component to addNode — (*graph).Add<Component>Node and
// (*Chain).Append<Component> — each with the verdict "its body is addNode on the method's own key with the node and
// options to<Component>Node made of the method's arguments, and what addNode answers is what the caller gets":
//
//	gNode, options := to<Component>Node(<the parameters after key>...)
//	return g.addNode(key, gNode, options)                  (or: e := g.addNode(…); return e / err = …; return)
//	c.addNode(gNode, options); return c                    (Chain: the error is recorded by addNode itself)
//
// A body of plain statements (assignments, calls, returns) that is not of this form is a DIFFERENT wrapper (false:
// the agreement theorem fails — the error dropped, another key, the node of another call); a body with control
// structure, or that calls anything but to<Component>Node and addNode (a helper in between), is not recognised (tie unavailable).
func c20NodeWrappers(f *ast.File, recvType, recv string, chain bool) ([][2]string, error) {
	var out [][2]string
	for _, d := range f.Decls {
		fn, ok := d.(*ast.FuncDecl)
		if !ok || fn.Recv == nil || fn.Body == nil || !fn.Name.IsExported() {
			continue
		}
		name := fn.Name.Name
		if chain {
			if !strings.HasPrefix(name, "Append") || name == "AppendBranch" || name == "AppendParallel" {
				continue
			}
		} else if !strings.HasPrefix(name, "Add") || !strings.HasSuffix(name, "Node") {
			continue
		}
		if c20WfMethod(f, recvType, name) != fn || len(fn.Recv.List[0].Names) != 1 || fn.Recv.List[0].Names[0].Name != recv {
			continue
		}
		v, err := c20OneNodeWrapper(fn, recv, chain)
		if err != nil {
			return nil, err
		}
		out = append(out, [2]string{name, v})
	}
	if len(out) < 3 {
		return nil, fmt.Errorf("the public methods of %s that add a node were not found", recvType)
	}
	return out, nil
}

func c20OneNodeWrapper(fn *ast.FuncDecl, recv string, chain bool) (string, error) {
	name := fn.Name.Name
	for _, st := range fn.Body.List {
		switch st.(type) {
		case *ast.AssignStmt, *ast.ExprStmt, *ast.ReturnStmt:
		default:
			return "", fmt.Errorf("%s: statement %s not recognised", name, c20Brief(st))
		}
		plain := true
		ast.Inspect(st, func(n ast.Node) bool {
			if _, ok := n.(*ast.FuncLit); ok {
				plain = false
			}
			return plain
		})
		if !plain {
			return "", fmt.Errorf("%s: statement %s not recognised", name, c20Brief(st))
		}
	}
	l := fn.Body.List
	// every call but the first statement's has to be addNode itself: a body that goes through another function
	// (a helper in between, a renamed constructor) is not recognised rather than judged
	unknownCall := ""
	for i, st := range l {
		ast.Inspect(st, func(n ast.Node) bool {
			call, ok := n.(*ast.CallExpr)
			if !ok {
				return true
			}
			if i == 0 {
				if id, isID := call.Fun.(*ast.Ident); isID && strings.HasPrefix(id.Name, "to") && strings.HasSuffix(id.Name, "Node") {
					return true
				}
			} else if c20Txt(call.Fun) == recv+".addNode" {
				return true
			}
			if unknownCall == "" {
				unknownCall = c20Txt(call.Fun)
			}
			return true
		})
	}
	if unknownCall != "" {
		return "", fmt.Errorf("%s: call of %s not recognised", name, unknownCall)
	}
	if len(l) < 2 {
		return "false", nil
	}
	// the parameters: key first (graph), then what goes to to<Component>Node, the last one variadic
	var params []string
	variadic := false
	for _, fl := range fn.Type.Params.List {
		_, variadic = fl.Type.(*ast.Ellipsis)
		for _, n := range fl.Names {
			params = append(params, n.Name)
		}
	}
	if !variadic || len(params) == 0 || (!chain && len(params) < 2) {
		return "false", nil
	}
	key := ""
	if !chain {
		key, params = params[0], params[1:]
	}
	// gNode, options := to<Component>Node(params...)
	as, ok := l[0].(*ast.AssignStmt)
	if !ok || as.Tok != token.DEFINE || len(as.Lhs) != 2 || len(as.Rhs) != 1 {
		return "false", nil
	}
	nodeVar, optVar := c20Txt(as.Lhs[0]), c20Txt(as.Lhs[1])
	mk, ok := as.Rhs[0].(*ast.CallExpr)
	if !ok || !mk.Ellipsis.IsValid() || len(mk.Args) != len(params) {
		return "false", nil
	}
	for i, a := range mk.Args {
		if c20Txt(a) != params[i] {
			return "false", nil
		}
	}
	if nodeVar == "_" || optVar == "_" || nodeVar == optVar {
		return "false", nil
	}
	want := recv + ".addNode(" + nodeVar + "," + optVar + ")"
	if !chain {
		want = recv + ".addNode(" + key + "," + nodeVar + "," + optVar + ")"
	}
	if chain {
		// c.addNode(gNode, options); return c
		if len(l) != 3 {
			return "false", nil
		}
		ex, ok := l[1].(*ast.ExprStmt)
		ret, ok2 := l[2].(*ast.ReturnStmt)
		if ok && ok2 && c20Txt(ex.X) == want && len(ret.Results) == 1 && c20Txt(ret.Results[0]) == recv {
			return "true", nil
		}
		return "false", nil
	}
	switch len(l) {
	case 2:
		if ret, ok := l[1].(*ast.ReturnStmt); ok && len(ret.Results) == 1 && c20Txt(ret.Results[0]) == want {
			return "true", nil
		}
	case 3:
		// e := g.addNode(…); return e      /      err = g.addNode(…); return  (err the named result)
		a2, ok := l[1].(*ast.AssignStmt)
		ret, ok2 := l[2].(*ast.ReturnStmt)
		if ok && ok2 && len(a2.Lhs) == 1 && len(a2.Rhs) == 1 && c20Txt(a2.Rhs[0]) == want {
			e := c20Txt(a2.Lhs[0])
			if e != "_" && len(ret.Results) == 1 && c20Txt(ret.Results[0]) == e && a2.Tok == token.DEFINE {
				return "true", nil
			}
			if res := fn.Type.Results; a2.Tok == token.ASSIGN && len(ret.Results) == 0 && res != nil && len(res.List) == 1 &&
				len(res.List[0].Names) == 1 && res.List[0].Names[0].Name == e {
				return "true", nil
			}
		}
	}
	return "false", nil
}

func c20WrapperTable(name, what string, ws [][2]string) string {
	var items []string
	for _, w := range ws {
		items = append(items, fmt.Sprintf("(%q, %s)", w[0], w[1]))
	}
	return fmt.Sprintf("(* %s *)\nDefinition %s : list (string * bool) :=\n  [%s].\n\n", what, name, strings.Join(items, "; "))
}

type c20Ch struct {
	fn      string
	errVars map[string]string
	errLoc  map[string]bool // local error variables
	strLoc  map[string]bool // local key variables
	retKind string          // "proc" | "err" | "key"
}

func (t *c20Ch) errf(format string, a ...any) error { return fmt.Errorf(t.fn+": "+format, a...) }

func (t *c20Ch) str(e ast.Expr) (string, bool) {
	s := c20Txt(e)
	switch {
	case s == "START":
		return "START", true
	case s == "END":
		return "END_", true
	case s == `""`:
		return `""`, true
	case t.strLoc[s]:
		return s, true
	}
	return "", false
}

func (t *c20Ch) errVal(e ast.Expr) (string, error) {
	if c20IsNil(e) {
		return "None", nil
	}
	if txt, ok := c20ErrText(e); ok {
		return "(Some " + c20Classify(txt) + ")", nil
	}
	s := c20Txt(e)
	if c, ok := t.errVars[s]; ok {
		return "(Some " + c + ")", nil
	}
	if t.errLoc[s] {
		return s, nil
	}
	if s == "c.err" {
		return "(c_err c)", nil
	}
	return "", t.errf("error value %s not recognised", s)
}

func (t *c20Ch) cond(e ast.Expr) (string, error) {
	switch x := e.(type) {
	case *ast.ParenExpr:
		return t.cond(x.X)
	case *ast.UnaryExpr:
		if x.Op == token.NOT {
			s, err := t.cond(x.X)
			return "(negb " + s + ")", err
		}
	case *ast.BinaryExpr:
		if x.Op == token.LAND || x.Op == token.LOR {
			l, err := t.cond(x.X)
			if err != nil {
				return "", err
			}
			r, err := t.cond(x.Y)
			op := map[token.Token]string{token.LAND: "&&", token.LOR: "||"}[x.Op]
			return "(" + l + " " + op + " " + r + ")", err
		}
	}
	s := c20Txt(e)
	neg := func(b bool, g string) string {
		if b {
			return "(negb " + g + ")"
		}
		return g
	}
	switch s {
	case "c.err!=nil":
		return "(is_some (c_err c))", nil
	case "c.err==nil":
		return "(negb (is_some (c_err c)))", nil
	case "c.gg.compiled":
		return "(g_compiled (c_g c))", nil
	case "c.hasEnd":
		return "(c_has_end c)", nil
	case "node==nil":
		return "nodeIsNil", nil
	case "len(c.preNodeKeys)==0":
		return "(Nat.eqb (List.length (c_pre c)) 0)", nil
	case "len(c.preNodeKeys)!=0", "len(c.preNodeKeys)>0":
		return "(negb (Nat.eqb (List.length (c_pre c)) 0))", nil
	}
	if be, ok := e.(*ast.BinaryExpr); ok && (be.Op == token.EQL || be.Op == token.NEQ) {
		if id, ok := be.X.(*ast.Ident); ok && c20IsNil(be.Y) && t.errLoc[id.Name] {
			return neg(be.Op == token.EQL, "(is_some "+id.Name+")"), nil
		}
		if a, ok := t.str(be.X); ok {
			if b, ok := t.str(be.Y); ok {
				return neg(be.Op == token.NEQ, "(String.eqb "+a+" "+b+")"), nil
			}
		}
	}
	return "", t.errf("condition %s is outside the translated fragment", s)
}

type c20ChMode struct {
	inLoop bool
	fall   string // what a list that falls off its end yields ("" = not allowed)
}

func (t *c20Ch) ret(r *ast.ReturnStmt, m c20ChMode) (string, error) {
	switch t.retKind {
	case "proc":
		if len(r.Results) == 0 || (len(r.Results) == 1 && c20Txt(r.Results[0]) == "c") {
			if m.inLoop {
				return "(c, Some tt)", nil
			}
			return "c", nil
		}
	case "err":
		if len(r.Results) == 1 {
			ev, err := t.errVal(r.Results[0])
			if err != nil {
				return "", err
			}
			if m.inLoop {
				return "(c, Some " + ev + ")", nil
			}
			return "(c, " + ev + ")", nil
		}
	case "key":
		// return fmt.Sprintf("node_%d", idx)
		if len(r.Results) == 1 && !m.inLoop {
			if call, ok := r.Results[0].(*ast.CallExpr); ok && c20Txt(call.Fun) == "fmt.Sprintf" && len(call.Args) == 2 {
				if bl, ok := call.Args[0].(*ast.BasicLit); ok && strings.HasSuffix(bl.Value, `%d"`) && !strings.Contains(strings.TrimSuffix(bl.Value, `%d"`), "%") {
					if id, ok := call.Args[1].(*ast.Ident); ok && t.strLoc["#"+id.Name] {
						return "(c, " + strings.TrimSuffix(bl.Value, `%d"`) + `" +++ nat_str ` + id.Name + ")", nil
					}
				}
			}
		}
	}
	return "", t.errf("return %s not recognised", c20ExprList(r.Results))
}

// x := <call on c.gg> -> Gallina call returning (c, x)
func (t *c20Ch) graphCall(call *ast.CallExpr) (string, bool) {
	switch c20Txt(call.Fun) {
	case "c.gg.addNode":
		if len(call.Args) == 3 && c20Txt(call.Args[1]) == "node" && c20Txt(call.Args[2]) == "options" {
			if k, ok := t.str(call.Args[0]); ok {
				return "gg_addNode c " + k + ` nk needState (negb (String.eqb optNodeKey ""))`, true
			}
		}
	case "c.gg.AddEdge":
		if len(call.Args) == 2 {
			a, ok1 := t.str(call.Args[0])
			b, ok2 := t.str(call.Args[1])
			if ok1 && ok2 {
				return "gg_AddEdge c " + a + " " + b, true
			}
		}
	}
	return "", false
}

func (t *c20Ch) alwaysReturns(l []ast.Stmt) bool { return c20AlwaysReturns(l) }

func (t *c20Ch) seq(l []ast.Stmt, m c20ChMode, ind string) (string, error) {
	if len(l) == 0 {
		if m.fall == "" {
			return "", t.errf("control reaches the end of the function")
		}
		return m.fall, nil
	}
	rest := func() (string, error) { return t.seq(l[1:], m, ind) }
	bind := func(b string) (string, error) {
		r, err := rest()
		return b + " in\n" + ind + r, err
	}
	switch x := l[0].(type) {
	case *ast.ReturnStmt:
		return t.ret(x, m)
	case *ast.IncDecStmt:
		if c20Txt(x.X) == "c.nodeIdx" && x.Tok == token.INC {
			return bind("let c := c_set_idx (c_idx c + 1)%N c")
		}
	case *ast.ExprStmt:
		// c.reportError(e)
		if call, ok := x.X.(*ast.CallExpr); ok && c20Txt(call.Fun) == "c.reportError" && len(call.Args) == 1 {
			ev, err := t.errVal(call.Args[0])
			if err != nil {
				return "", err
			}
			return bind("let c := reportError c " + ev)
		}
	case *ast.AssignStmt:
		if len(x.Lhs) != 1 || len(x.Rhs) != 1 {
			break
		}
		lt, rt := c20Txt(x.Lhs[0]), c20Txt(x.Rhs[0])
		if x.Tok == token.DEFINE {
			id, ok := x.Lhs[0].(*ast.Ident)
			if !ok {
				break
			}
			if call, ok := x.Rhs[0].(*ast.CallExpr); ok {
				if g, ok := t.graphCall(call); ok {
					t.errLoc[id.Name] = true
					return bind("let '(c, " + id.Name + ") := " + g)
				}
				if rt == "c.nextNodeKey()" {
					t.strLoc[id.Name] = true
					return bind("let '(c, " + id.Name + ") := nextNodeKey c")
				}
			}
			switch rt {
			case "options.nodeOptions.nodeKey":
				t.strLoc[id.Name] = true
				return bind("let " + id.Name + " := optNodeKey")
			case "c.nodeIdx":
				t.strLoc["#"+id.Name] = true
				return bind("let " + id.Name + " := c_idx c")
			}
			break
		}
		if x.Tok != token.ASSIGN {
			break
		}
		switch lt {
		case "c.err":
			ev, err := t.errVal(x.Rhs[0])
			if err != nil {
				return "", err
			}
			return bind("let c := c_set_err " + ev + " c")
		case "c.hasEnd":
			if rt == "true" || rt == "false" {
				return bind("let c := c_set_has_end " + rt + " c")
			}
		case "c.preNodeKeys":
			if call, ok := x.Rhs[0].(*ast.CallExpr); ok && c20Txt(call.Fun) == "append" && len(call.Args) == 2 && c20Txt(call.Args[0]) == "c.preNodeKeys" {
				if k, ok := t.str(call.Args[1]); ok {
					return bind("let c := c_set_pre (c_pre c ++ [" + k + "]) c")
				}
			}
			if cl, ok := x.Rhs[0].(*ast.CompositeLit); ok && c20Txt(cl.Type) == "[]string" && len(cl.Elts) == 1 {
				if k, ok := t.str(cl.Elts[0]); ok {
					return bind("let c := c_set_pre [" + k + "] c")
				}
			}
		}
	case *ast.RangeStmt:
		// for _, k := range c.preNodeKeys { … }
		if c20Txt(x.X) == "c.preNodeKeys" && x.Value != nil && (x.Key == nil || c20Txt(x.Key) == "_") {
			kv := c20Txt(x.Value)
			if t.strLoc[kv] {
				return "", t.errf("loop variable %s shadows a key", kv)
			}
			t.strLoc[kv] = true
			body, err := t.seq(x.Body.List, c20ChMode{inLoop: true, fall: "(c, None)"}, ind+"    ")
			delete(t.strLoc, kv)
			if err != nil {
				return "", err
			}
			r, err := rest()
			if err != nil {
				return "", err
			}
			stop := "c"
			if t.retKind == "err" {
				stop = "(c, r)"
			}
			return "match cfor_each (fun (c : cstate) (" + kv + " : string) =>\n" + ind + "    " + body + ") (c_pre c) c with\n" +
				ind + "| (c, Some r) => " + stop + "\n" + ind + "| (c, None) =>\n" + ind + r + "\n" + ind + "end", nil
		}
	case *ast.IfStmt:
		if x.Init != nil {
			break
		}
		c, err := t.cond(x.Cond)
		if err != nil {
			return "", err
		}
		// if k == "" { k = other }
		if x.Else == nil && len(x.Body.List) == 1 {
			if as, ok := x.Body.List[0].(*ast.AssignStmt); ok && as.Tok == token.ASSIGN && len(as.Lhs) == 1 {
				if id, ok := as.Lhs[0].(*ast.Ident); ok && t.strLoc[id.Name] {
					if v, ok := t.str(as.Rhs[0]); ok {
						return bind("let " + id.Name + " := (if " + c + " then " + v + " else " + id.Name + ")")
					}
				}
			}
		}
		if x.Else != nil {
			break
		}
		if t.alwaysReturns(x.Body.List) {
			th, err := t.seq(x.Body.List, m, ind+"  ")
			if err != nil {
				return "", err
			}
			r, err := rest()
			return "if " + c + " then\n" + ind + "  " + th + "\n" + ind + "else " + r, err
		}
		if !c20ContainsReturnImpl(x.Body) {
			th, err := t.seq(x.Body.List, c20ChMode{inLoop: m.inLoop, fall: "c"}, ind+"  ")
			if err != nil {
				return "", err
			}
			return bind("let c := (if " + c + " then (" + th + ") else c)")
		}
	}
	return "", t.errf("statement %s not recognised", c20Brief(l[0]))
}

func c20ChainMethod(f *ast.File, name, params string) (*ast.FuncDecl, error) {
	fn := c20WfMethod(f, "Chain", name)
	if fn == nil || len(fn.Recv.List[0].Names) != 1 || fn.Recv.List[0].Names[0].Name != "c" {
		return nil, fmt.Errorf("method (*Chain).%s not found", name)
	}
	if got := c20ParamNames(fn); got != params {
		return nil, fmt.Errorf("(*Chain).%s: parameters (%s), expected (%s)", name, got, params)
	}
	return fn, nil
}

func c20ExtractChain(repo string) (string, string, error) {
	fset := token.NewFileSet()
	f, err := c20ParseGo(fset, repo, "compose", "chain.go")
	if err != nil {
		return "", "", err
	}
	gg, err := c20ParseGo(fset, repo, "compose", "generic_graph.go")
	if err != nil {
		return "", "", err
	}
	gr, err := c20ParseGo(fset, repo, "compose", "graph.go")
	if err != nil {
		return "", "", err
	}
	errVars := map[string]string{}
	for _, file := range []*ast.File{f, gr} {
		for _, d := range file.Decls {
			gd, ok := d.(*ast.GenDecl)
			if !ok || gd.Tok != token.VAR {
				continue
			}
			for _, sp := range gd.Specs {
				vs := sp.(*ast.ValueSpec)
				for i, n := range vs.Names {
					if i < len(vs.Values) {
						if txt, ok := c20ErrText(vs.Values[i]); ok {
							errVars[n.Name] = c20Classify(txt)
						}
					}
				}
			}
		}
	}
	var b strings.Builder
	b.WriteString("(* Gen/C20Chain.v — GENERATED by tools/go2v (extractor \"c20chain\") from compose/chain.go (reportError,\n")
	b.WriteString("   nextNodeKey, addNode, addEndIfNeeded, Compile of Chain), compose/generic_graph.go (Graph.AddEdge) and\n   compose/graph.go (graph.AddBranch). Do not edit. *)\n")
	b.WriteString("From Eino Require Import Base.Util Model.Builder Model.BuilderGenLib Model.BuilderChGenLib.\n")
	b.WriteString("Local Open Scope string_scope.\nLocal Open Scope list_scope.\n\n")
	b.WriteString("Definition tie_available : bool := true.\n\n")

	// ---- the public wrappers
	one := func(fn *ast.FuncDecl) (*ast.CallExpr, bool) {
		if fn == nil || len(fn.Body.List) != 1 {
			return nil, false
		}
		ret, ok := fn.Body.List[0].(*ast.ReturnStmt)
		if !ok || len(ret.Results) != 1 {
			return nil, false
		}
		call, ok := ret.Results[0].(*ast.CallExpr)
		return call, ok
	}
	ae, ok := one(c20WfMethod(gg, "Graph", "AddEdge"))
	if !ok || c20Txt(ae.Fun) != "g.graph.addEdgeWithMappings" || len(ae.Args) != 4 || c20Txt(ae.Args[0]) != "startNode" || c20Txt(ae.Args[1]) != "endNode" {
		return "", "", fmt.Errorf("Graph.AddEdge does not hand its arguments to addEdgeWithMappings")
	}
	f1, f2 := c20Txt(ae.Args[2]), c20Txt(ae.Args[3])
	isBool := func(s string) bool { return s == "true" || s == "false" }
	if !isBool(f1) || !isBool(f2) {
		return "", "", fmt.Errorf("Graph.AddEdge: flags %s, %s", f1, f2)
	}
	fmt.Fprintf(&b, "(* generic_graph.go: Graph.AddEdge *)\nDefinition graph_AddEdge (g : gstate) (startNode endNode : string) : gstate * outcome :=\n  g_add_edge g startNode endNode %s %s [].\n", f1, f2)
	ab, ok := one(c20MethodOf(gr, "graph", "AddBranch"))
	if !ok || c20Txt(ab.Fun) != "g.addBranch" || len(ab.Args) != 3 || c20Txt(ab.Args[0]) != "startNode" || c20Txt(ab.Args[1]) != "branch" || !isBool(c20Txt(ab.Args[2])) {
		return "", "", fmt.Errorf("graph.AddBranch does not hand its arguments to addBranch")
	}
	fmt.Fprintf(&b, "(* graph.go: graph.AddBranch *)\nDefinition graph_AddBranch (g : gstate) (startNode : string) (endNodes : list string) : gstate * outcome :=\n  g_add_branch g startNode endNodes %s.\n\n", c20Txt(ab.Args[2]))
	b.WriteString("Definition gg_AddEdge (c : cstate) (a b : string) : cstate * option ecls :=\n  let '(g, o) := graph_AddEdge (c_g c) a b in (c_set_g g c, err_of o).\n\n")

	// ---- the public methods that hand a component to addNode
	gws, err := c20NodeWrappers(gr, "graph", "g", false)
	if err != nil {
		return "", "", err
	}
	cws, err := c20NodeWrappers(f, "Chain", "c", true)
	if err != nil {
		return "", "", err
	}
	b.WriteString(c20WrapperTable("graph_node_wrappers", "graph.go: the public Add<Component>Node methods of a graph, each with \"its body is: gNode, options := to<Component>Node(node, opts...); return g.addNode(key, gNode, options)\"", gws))
	b.WriteString(c20WrapperTable("chain_node_wrappers", "chain.go: the public Append<Component> methods of a Chain, each with \"its body is: gNode, options := to<Component>Node(node, opts...); c.addNode(gNode, options); return c\"", cws))

	newTr := func(fn, kind string) *c20Ch {
		return &c20Ch{fn: fn, errVars: errVars, errLoc: map[string]bool{}, strLoc: map[string]bool{}, retKind: kind}
	}
	// ---- reportError
	{
		fn, err := c20ChainMethod(f, "reportError", "err")
		if err != nil {
			return "", "", err
		}
		t := newTr("reportError", "proc")
		t.errLoc["err"] = true
		code, err := t.seq(fn.Body.List, c20ChMode{fall: "c"}, "  ")
		if err != nil {
			return "", "", err
		}
		fmt.Fprintf(&b, "Definition reportError (c : cstate) (err : option ecls) : cstate :=\n  %s.\n\n", code)
	}
	// ---- nextNodeKey
	{
		fn, err := c20ChainMethod(f, "nextNodeKey", "")
		if err != nil {
			return "", "", err
		}
		t := newTr("nextNodeKey", "key")
		code, err := t.seq(fn.Body.List, c20ChMode{}, "  ")
		if err != nil {
			return "", "", err
		}
		fmt.Fprintf(&b, "Definition nextNodeKey (c : cstate) : cstate * string :=\n  %s.\n\n", code)
	}
	// ---- addNode
	{
		fn, err := c20ChainMethod(f, "addNode", "node,options")
		if err != nil {
			return "", "", err
		}
		t := newTr("addNode", "proc")
		code, err := t.seq(fn.Body.List, c20ChMode{fall: "c"}, "  ")
		if err != nil {
			return "", "", err
		}
		fmt.Fprintf(&b, "Definition addNode (nodeIsNil : bool) (c : cstate) (optNodeKey : string) (nk : nkind) (needState : bool) : cstate :=\n  %s.\n\n", code)
	}
	// ---- addEndIfNeeded
	{
		fn, err := c20ChainMethod(f, "addEndIfNeeded", "")
		if err != nil {
			return "", "", err
		}
		t := newTr("addEndIfNeeded", "err")
		code, err := t.seq(fn.Body.List, c20ChMode{}, "  ")
		if err != nil {
			return "", "", err
		}
		fmt.Fprintf(&b, "Definition addEndIfNeeded (c : cstate) : cstate * option ecls :=\n  %s.\n\n", code)
	}
	// ---- Compile: if err := c.addEndIfNeeded(); err != nil { return nil, err }; return c.gg.Compile(ctx, opts...)
	{
		fn, err := c20ChainMethod(f, "Compile", "ctx,opts")
		if err != nil {
			return "", "", err
		}
		l := fn.Body.List
		if len(l) != 2 {
			return "", "", fmt.Errorf("Chain.Compile: %d statements", len(l))
		}
		call, ok := c20IfErrCall(l[0], 2)
		if !ok || c20Txt(call) != "c.addEndIfNeeded()" {
			return "", "", fmt.Errorf("Chain.Compile does not start with addEndIfNeeded")
		}
		ret, ok := l[1].(*ast.ReturnStmt)
		if !ok || len(ret.Results) != 1 || c20Txt(ret.Results[0]) != "c.gg.Compile(ctx,opts...)" {
			return "", "", fmt.Errorf("Chain.Compile does not end with the graph's Compile")
		}
		b.WriteString("(* chain.go: Chain.Compile *)\nDefinition compile (c : cstate) (opt : copt) : cstate * outcome :=\n" +
			"  let '(c, err) := addEndIfNeeded c in\n  if is_some err then (c, oerr err)\n" +
			"  else let '(g, out) := g_compile fixed (c_g c) opt in (c_set_g g c, out).\n")
	}
	_ = types.ExprString
	return "C20Chain.v", b.String(), nil
}
