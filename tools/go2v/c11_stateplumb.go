package main

// Extractor "stateplumb" (property C11): the statements of compose/graph.go and compose/graph_run.go
// that create, restore and save the holder of the graph state, as programs of the fragment of
// Model/StatePlumb.v.
//
//	graph.compile   if g.stateGenerator != nil { r.runCtx = func(ctx) { return context.WithValue(ctx, K{},
//	                    &internalState{state: g.stateGenerator(ctx)}) } }      — the only assignment of runCtx
//	runner.run      if !initialized { if r.runCtx != nil { ctx = r.runCtx(ctx) } … }          start_block
//	                the two blocks that call r.restoreTasks (nested graph / top level):        resume_*_block
//	                    [ctx = setStateModifier(ctx, m)]                                       PPassModifier
//	                    if m != nil && cp.State != nil { err = m(ctx, path, cp.State) … }      PIf … [PModify ECpState]
//	                    if cp.State != nil { ctx = context.WithValue(ctx, K{}, &internalState{state: cp.State}) }
//	                    nextTasks, err = r.restoreTasks(ctx, …)                                PRestore
//	handleInterrupt, handleInterruptWithSubGraphAndRerunNodes                                  save_*_block
//	                    if r.runCtx != nil { if state, ok := ctx.Value(K{}).(*internalState); ok { cp.State = state.state } }
//
// Statements of these functions that mention none of stateKey / internalState / runCtx /
// stateGenerator / cp.State / the modifier are not translated (they are the run loop: C01-C06);
// one that does and is not of a shape above makes the tie unavailable.  Every stateKey{} and every
// internalState{…} literal of the package outside state.go must have been consumed by the translation.
//
// Output: coq/Gen/StatePlumb.v.

import (
	"fmt"
	"go/ast"
	"go/token"
	"go/types"
	"os"
	"path/filepath"
	"sort"
	"strings"
)

const c11PlumbNeutral = "(* Gen/StatePlumb.v — translator tie UNAVAILABLE: tools/go2v (extractor \"stateplumb\") did not recognise the\n" +
	"   shape of compose/graph.go / compose/graph_run.go; the model's own blocks are re-exported. *)\n" +
	"From Eino Require Import Base.Util Model.StateLock Model.StateLockLTS Model.StateLockCode Model.StatePlumb.\n\n" +
	"Definition start_block : list pstmt := Model.StatePlumb.start_block.\n" +
	"Definition resume_sub_block : list pstmt := Model.StatePlumb.resume_sub_block.\n" +
	"Definition resume_top_block : list pstmt := Model.StatePlumb.resume_top_block.\n" +
	"Definition save_block_interrupt : list pstmt := Model.StatePlumb.save_block.\n" +
	"Definition save_block_rerun : list pstmt := Model.StatePlumb.save_block.\n"

func init() {
	register("stateplumb", c11ExtractStatePlumb)
	registerFallback("stateplumb", "StatePlumb.v", c11PlumbNeutral)
}

type c11Plumb struct {
	fn       string
	modVars  map[string]bool
	runCtx   []string // the translated body of r.runCtx, nil while reading graph.go
	runCtxOn string   // the condition under which graph.compile assigns r.runCtx (it is nil otherwise)
	keysUsed int
	litsUsed int
}

func (t *c11Plumb) errf(format string, a ...any) error {
	return fmt.Errorf("%s: %s", t.fn, fmt.Sprintf(format, a...))
}

func c11Sq(n ast.Expr) string { return c11Squash(types.ExprString(n)) }

func (t *c11Plumb) key(e ast.Expr) (string, bool) {
	cl, ok := e.(*ast.CompositeLit)
	if !ok || len(cl.Elts) != 0 || c11Ident(cl.Type) == "" {
		return "", false
	}
	t.keysUsed++
	if k := c11Ident(cl.Type); k != "stateKey" {
		return fmt.Sprintf("(KOther %q%%string)", k), true
	}
	return "KState", true
}

func (t *c11Plumb) sexpr(e ast.Expr) (string, bool) {
	switch c11Sq(e) {
	case "g.stateGenerator(ctx)":
		return "EGenCall", true
	case "cp.State":
		return "ECpState", true
	}
	return "", false
}

// &internalState{state: E}
func (t *c11Plumb) holder(e ast.Expr) (string, bool) {
	ue, ok := e.(*ast.UnaryExpr)
	if !ok || ue.Op != token.AND {
		return "", false
	}
	cl, ok := ue.X.(*ast.CompositeLit)
	if !ok || c11Ident(cl.Type) != "internalState" || len(cl.Elts) != 1 {
		return "", false
	}
	kv, ok := cl.Elts[0].(*ast.KeyValueExpr)
	if !ok || c11Ident(kv.Key) != "state" {
		return "", false
	}
	s, ok := t.sexpr(kv.Value)
	if !ok {
		return "", false
	}
	t.litsUsed++
	return "(HFresh " + s + ")", true
}

// context.WithValue(ctx, K{}, H)
func (t *c11Plumb) install(e ast.Expr) (string, bool) {
	call, ok := e.(*ast.CallExpr)
	if !ok || c11Sq(call.Fun) != "context.WithValue" || len(call.Args) != 3 || c11Ident(call.Args[0]) != "ctx" {
		return "", false
	}
	k, ok := t.key(call.Args[1])
	if !ok {
		return "", false
	}
	h, ok := t.holder(call.Args[2])
	if !ok {
		return "", false
	}
	return "PInstall " + k + " " + h, true
}

func (t *c11Plumb) mentions(n ast.Node) bool {
	found := false
	ast.Inspect(n, func(x ast.Node) bool {
		switch y := x.(type) {
		case *ast.Ident:
			if y.Name == "stateKey" || y.Name == "internalState" || y.Name == "runCtx" || y.Name == "stateGenerator" ||
				y.Name == "getStateModifier" || t.modVars[y.Name] {
				found = true
			}
		case *ast.SelectorExpr:
			if y.Sel.Name == "State" && c11Ident(y.X) == "cp" {
				found = true
			}
		case *ast.KeyValueExpr:
			// InterruptInfo{State: cp.State}: reporting the saved state to the caller is not plumbing
			if c11Ident(y.Key) == "State" {
				if c11Sq(y.Value) != "cp.State" {
					found = true
				}
				return false
			}
		}
		return !found
	})
	return found
}

func (t *c11Plumb) cond(e ast.Expr) (string, bool) {
	switch x := e.(type) {
	case *ast.ParenExpr:
		return t.cond(x.X)
	case *ast.BinaryExpr:
		if x.Op == token.LAND {
			// the tests of this fragment have no effects: the operands of && are put in a fixed order
			a, ok1 := t.cond(x.X)
			b, ok2 := t.cond(x.Y)
			if c11CondRank(b) < c11CondRank(a) {
				a, b = b, a
			}
			return "(PAnd " + a + " " + b + ")", ok1 && ok2
		}
		if x.Op == token.NEQ && c11IsNil(x.Y) {
			switch s := c11Sq(x.X); {
			case s == "g.stateGenerator":
				return "PHasGen", true
			case s == "r.runCtx" && t.runCtxOn != "":
				return t.runCtxOn, true
			case s == "cp.State":
				return "PHasCpState", true
			case t.modVars[s]:
				return "PHasModifier", true
			}
		}
	}
	return "", false
}

func c11CondRank(c string) int {
	for i, p := range []string{"PHasGen", "PHasModifier", "PHasCpState", "(PHolderInCtx", "(PAnd"} {
		if strings.HasPrefix(c, p) {
			return i
		}
	}
	return 9
}

func c11List(l []string) string { return "[" + strings.Join(l, "; ") + "]" }

// is `if err != nil { … return … }` with nothing of interest inside
func (t *c11Plumb) isErrCheck(s ast.Stmt) bool {
	is, ok := s.(*ast.IfStmt)
	if !ok || is.Init != nil || is.Else != nil {
		return false
	}
	be, ok := is.Cond.(*ast.BinaryExpr)
	return ok && be.Op == token.NEQ && c11Ident(be.X) == "err" && c11IsNil(be.Y) && !t.mentions(is.Body)
}

func (t *c11Plumb) stmts(l []ast.Stmt, holderVar, holderKey string) ([]string, error) {
	var out []string
	pendH, pendOk, pendKey := "", "", "" // h, ok := ctx.Value(K{}).(*internalState) seen, `if ok {…}` expected
	for _, s := range l {
		switch x := s.(type) {
		case *ast.AssignStmt:
			// h, ok := ctx.Value(K{}).(*internalState)   (the test of ok follows as a statement of its own)
			if x.Tok == token.DEFINE && len(x.Lhs) == 2 && len(x.Rhs) == 1 && c11Ident(x.Lhs[0]) != "" && c11Ident(x.Lhs[1]) != "" && c11Ident(x.Lhs[1]) != "_" {
				if ta, ok := x.Rhs[0].(*ast.TypeAssertExpr); ok && ta.Type != nil && c11Sq(ta.Type) == "*internalState" {
					if call, ok := ta.X.(*ast.CallExpr); ok && c11Sq(call.Fun) == "ctx.Value" && len(call.Args) == 1 {
						if k, ok := t.key(call.Args[0]); ok {
							pendH, pendOk, pendKey = c11Ident(x.Lhs[0]), c11Ident(x.Lhs[1]), k
							continue
						}
					}
				}
			}
			// m := getStateModifier(ctx): the caller's modifier, as a nested graph finds it
			if len(x.Rhs) == 1 && len(x.Lhs) == 1 && x.Tok == token.DEFINE && c11Sq(x.Rhs[0]) == "getStateModifier(ctx)" && c11Ident(x.Lhs[0]) != "" {
				t.modVars[c11Ident(x.Lhs[0])] = true
				continue
			}
			if len(x.Rhs) == 1 && len(x.Lhs) == 1 && c11Ident(x.Lhs[0]) == "ctx" && x.Tok == token.ASSIGN {
				if p, ok := t.install(x.Rhs[0]); ok {
					out = append(out, p)
					continue
				}
				if c11Sq(x.Rhs[0]) == "r.runCtx(ctx)" && t.runCtx != nil {
					out = append(out, t.runCtx...)
					continue
				}
				if call, ok := x.Rhs[0].(*ast.CallExpr); ok && c11Callee(call) == "setStateModifier" && len(call.Args) == 2 &&
					c11Ident(call.Args[0]) == "ctx" && t.modVars[c11Ident(call.Args[1])] {
					out = append(out, "PPassModifier")
					continue
				}
			}
			if len(x.Rhs) == 1 {
				if call, ok := x.Rhs[0].(*ast.CallExpr); ok {
					if c11Sq(call.Fun) == "r.restoreTasks" && len(call.Args) > 0 && c11Ident(call.Args[0]) == "ctx" {
						out = append(out, "PRestore")
						continue
					}
					if f := c11Ident(call.Fun); t.modVars[f] && len(x.Lhs) == 1 && c11Ident(x.Lhs[0]) == "err" {
						if len(call.Args) != 3 || c11Ident(call.Args[0]) != "ctx" || c11Sq(call.Args[2]) != "cp.State" {
							return nil, t.errf("modifier called as %s", c11Sq(call))
						}
						out = append(out, "PModify ECpState")
						continue
					}
				}
				if len(x.Lhs) == 1 && c11Sq(x.Lhs[0]) == "cp.State" && x.Tok == token.ASSIGN {
					if holderVar != "" && c11Sq(x.Rhs[0]) == holderVar+".state" {
						out = append(out, "PSave (EHolderState "+holderKey+")")
						continue
					}
					return nil, t.errf("cp.State = %s", c11Sq(x.Rhs[0]))
				}
			}
		case *ast.IfStmt:
			if pendOk != "" && x.Init == nil && x.Else == nil && c11Ident(x.Cond) == pendOk {
				body, err := t.stmts(x.Body.List, pendH, pendKey)
				if err != nil {
					return nil, err
				}
				out = append(out, "PIf (PHolderInCtx "+pendKey+") "+c11List(body))
				pendH, pendOk, pendKey = "", "", ""
				continue
			}
			// if err := m(ctx, path, cp.State); err != nil { … }  =  err := m(…); if err != nil { … }
			if as, ok := x.Init.(*ast.AssignStmt); ok && x.Else == nil && len(as.Rhs) == 1 && len(as.Lhs) == 1 {
				if call, ok := as.Rhs[0].(*ast.CallExpr); ok && t.modVars[c11Ident(call.Fun)] &&
					t.isErrCheck(&ast.IfStmt{Cond: x.Cond, Body: x.Body}) {
					p, err := t.stmts([]ast.Stmt{as}, holderVar, holderKey)
					if err != nil {
						return nil, err
					}
					out = append(out, p...)
					continue
				}
			}
			if x.Else == nil {
				// if h, ok := ctx.Value(K{}).(*internalState); ok { … }
				if as, ok := x.Init.(*ast.AssignStmt); ok && as.Tok == token.DEFINE && len(as.Lhs) == 2 && len(as.Rhs) == 1 &&
					c11Ident(x.Cond) == c11Ident(as.Lhs[1]) && c11Ident(x.Cond) != "" {
					if ta, ok := as.Rhs[0].(*ast.TypeAssertExpr); ok && c11Sq(ta.Type) == "*internalState" {
						if call, ok := ta.X.(*ast.CallExpr); ok && c11Sq(call.Fun) == "ctx.Value" && len(call.Args) == 1 {
							if k, ok := t.key(call.Args[0]); ok {
								body, err := t.stmts(x.Body.List, c11Ident(as.Lhs[0]), k)
								if err != nil {
									return nil, err
								}
								out = append(out, "PIf (PHolderInCtx "+k+") "+c11List(body))
								continue
							}
						}
					}
				}
				// if m := getStateModifier(ctx); cond { … }
				declared := ""
				if as, ok := x.Init.(*ast.AssignStmt); ok && as.Tok == token.DEFINE && len(as.Lhs) == 1 && len(as.Rhs) == 1 &&
					c11Sq(as.Rhs[0]) == "getStateModifier(ctx)" {
					declared = c11Ident(as.Lhs[0])
					t.modVars[declared] = true
				}
				if x.Init == nil || declared != "" {
					if c, ok := t.cond(x.Cond); ok {
						body, err := t.stmts(x.Body.List, holderVar, holderKey)
						if err != nil {
							return nil, err
						}
						out = append(out, "PIf "+c+" "+c11List(body))
						continue
					}
				}
				if declared != "" {
					return nil, t.errf("condition %s after getStateModifier", c11Sq(x.Cond))
				}
			}
		}
		if t.isErrCheck(s) {
			continue
		}
		if t.mentions(s) {
			var b strings.Builder
			if e, ok := s.(*ast.ExprStmt); ok {
				b.WriteString(c11Sq(e.X))
			} else {
				fmt.Fprintf(&b, "%T", s)
			}
			return nil, t.errf("a statement that touches the state plumbing is outside the translated fragment (%s)", b.String())
		}
	}
	return out, nil
}

// the local that holds the checkpoint is called cp by the translation: a function that calls it
// something else (x.State read or written, x a local or a parameter) has it renamed
func c11RenameCheckpointVar(fn *ast.FuncDecl) {
	objs := map[*ast.Object]bool{}
	ast.Inspect(fn, func(n ast.Node) bool {
		if sel, ok := n.(*ast.SelectorExpr); ok && sel.Sel.Name == "State" {
			if id, ok := sel.X.(*ast.Ident); ok && id.Obj != nil && id.Obj.Kind == ast.Var && id.Name != "cp" {
				objs[id.Obj] = true
			}
		}
		return true
	})
	if len(objs) == 0 {
		return
	}
	ast.Inspect(fn, func(n ast.Node) bool {
		if id, ok := n.(*ast.Ident); ok && id.Obj != nil && objs[id.Obj] {
			id.Name = "cp"
		}
		return true
	})
}

func c11Method(f *ast.File, recv, name string) *ast.FuncDecl {
	for _, d := range f.Decls {
		fn, ok := d.(*ast.FuncDecl)
		if !ok || fn.Recv == nil || fn.Name.Name != name || len(fn.Recv.List) != 1 {
			continue
		}
		if strings.TrimPrefix(c11Sq(fn.Recv.List[0].Type), "*") == recv {
			return fn
		}
	}
	return nil
}

func c11CountLits(n ast.Node) (keys, lits int) {
	ast.Inspect(n, func(x ast.Node) bool {
		if cl, ok := x.(*ast.CompositeLit); ok {
			switch c11Ident(cl.Type) {
			case "stateKey":
				keys++
			case "internalState":
				lits++
			}
		}
		return true
	})
	return
}

func c11ExtractStatePlumb(repo string) (string, string, error) {
	fset := token.NewFileSet()
	// ---- graph.go: r.runCtx
	gf, err := c11ParseGo(fset, repo, "compose", "graph.go")
	if err != nil {
		return "", "", err
	}
	compile := c11Method(gf, "graph", "compile")
	if compile == nil {
		return "", "", fmt.Errorf("method graph.compile not found")
	}
	tg := &c11Plumb{fn: "graph.compile", modVars: map[string]bool{}}
	var runCtx []string
	var translatedGraph []string // methods of graph.go read as part of graph.compile
	runCtxOn := ""
	var walkErr error
	nAssign := 0
	// `r.runCtx = g.m()` with  func (g *graph) m() … { if g.stateGenerator == nil { return nil }; return func… }
	// is  `if g.stateGenerator != nil { r.runCtx = func… }`  (the field is nil otherwise)
	for i, st := range compile.Body.List {
		as, ok := st.(*ast.AssignStmt)
		if !ok || len(as.Lhs) != 1 || len(as.Rhs) != 1 || c11Sq(as.Lhs[0]) != "r.runCtx" {
			continue
		}
		call, ok := as.Rhs[0].(*ast.CallExpr)
		if !ok || len(call.Args) != 0 {
			continue
		}
		sel, ok := call.Fun.(*ast.SelectorExpr)
		if !ok || c11Ident(sel.X) != "g" {
			continue
		}
		m := c11Method(gf, "graph", sel.Sel.Name)
		if m == nil || m.Body == nil || len(m.Body.List) != 2 || len(m.Recv.List[0].Names) != 1 || m.Recv.List[0].Names[0].Name != "g" {
			continue
		}
		guard, ok1 := m.Body.List[0].(*ast.IfStmt)
		ret, ok2 := m.Body.List[1].(*ast.ReturnStmt)
		if !ok1 || !ok2 || guard.Init != nil || guard.Else != nil || len(guard.Body.List) != 1 || len(ret.Results) != 1 {
			continue
		}
		gr, ok := guard.Body.List[0].(*ast.ReturnStmt)
		if !ok || len(gr.Results) != 1 || !c11IsNil(gr.Results[0]) {
			continue
		}
		if _, isLit := ret.Results[0].(*ast.FuncLit); !isLit || c11CountCalls(gf, sel.Sel.Name) != 1 {
			continue
		}
		compile.Body.List[i] = &ast.IfStmt{Cond: c11Negate(guard.Cond), Body: &ast.BlockStmt{List: []ast.Stmt{
			&ast.AssignStmt{Lhs: as.Lhs, Tok: token.ASSIGN, Rhs: []ast.Expr{ret.Results[0]}}}}}
		translatedGraph = append(translatedGraph, sel.Sel.Name)
	}
	ast.Inspect(compile.Body, func(n ast.Node) bool {
		is, ok := n.(*ast.IfStmt)
		if !ok || walkErr != nil {
			return walkErr == nil
		}
		if len(is.Body.List) == 0 {
			return true
		}
		// optional: `h := &internalState{}` before the assignment (a holder per compiled graph)
		shared := ""
		bl := is.Body.List
		if len(bl) == 2 {
			if d, ok := bl[0].(*ast.AssignStmt); ok && d.Tok == token.DEFINE && len(d.Lhs) == 1 && len(d.Rhs) == 1 &&
				c11Sq(d.Rhs[0]) == "&internalState{}" {
				if a2, ok := bl[1].(*ast.AssignStmt); ok && len(a2.Lhs) == 1 && c11Sq(a2.Lhs[0]) == "r.runCtx" {
					shared = c11Ident(d.Lhs[0])
					tg.litsUsed++
					bl = bl[1:]
				}
			}
		}
		as, ok := bl[0].(*ast.AssignStmt)
		if !ok || len(as.Lhs) != 1 || c11Sq(as.Lhs[0]) != "r.runCtx" {
			return true
		}
		nAssign++
		c, ok := tg.cond(is.Cond)
		if !ok || is.Init != nil || is.Else != nil || len(bl) != 1 || len(as.Rhs) != 1 {
			walkErr = tg.errf("r.runCtx is not assigned as `if g.stateGenerator != nil { r.runCtx = func… }`")
			return false
		}
		lit, ok := as.Rhs[0].(*ast.FuncLit)
		if !ok {
			walkErr = tg.errf("r.runCtx is not a closure")
			return false
		}
		if shared != "" {
			// h.state = E; return context.WithValue(ctx, K{}, h)
			if len(lit.Body.List) == 2 {
				set, ok1 := lit.Body.List[0].(*ast.AssignStmt)
				ret, ok2 := lit.Body.List[1].(*ast.ReturnStmt)
				if ok1 && ok2 && len(set.Lhs) == 1 && len(set.Rhs) == 1 && c11Sq(set.Lhs[0]) == shared+".state" && len(ret.Results) == 1 {
					if call, ok := ret.Results[0].(*ast.CallExpr); ok && c11Sq(call.Fun) == "context.WithValue" && len(call.Args) == 3 &&
						c11Ident(call.Args[0]) == "ctx" && c11Ident(call.Args[2]) == shared {
						e, oke := tg.sexpr(set.Rhs[0])
						k, okk := tg.key(call.Args[1])
						if oke && okk {
							runCtx, runCtxOn = []string{"PInstall " + k + " (HShared " + e + ")"}, c
							return false
						}
					}
				}
			}
			walkErr = tg.errf("r.runCtx with a holder allocated outside the closure, of an untranslated shape")
			return false
		}
		if len(lit.Body.List) != 1 {
			walkErr = tg.errf("r.runCtx is not a closure of one return statement")
			return false
		}
		ret, ok := lit.Body.List[0].(*ast.ReturnStmt)
		if !ok || len(ret.Results) != 1 {
			walkErr = tg.errf("r.runCtx is not a closure of one return statement")
			return false
		}
		p, ok := tg.install(ret.Results[0])
		if !ok {
			walkErr = tg.errf("r.runCtx does not return context.WithValue(ctx, K{}, &internalState{state: …}) (%s)", c11Sq(ret.Results[0]))
			return false
		}
		runCtx, runCtxOn = []string{p}, c
		return false
	})
	if walkErr != nil {
		return "", "", walkErr
	}
	if k, l := c11CountLits(compile.Body); walkErr == nil && (k != tg.keysUsed || l != tg.litsUsed) {
		return "", "", tg.errf("%d stateKey{} / %d internalState{} literals, %d / %d translated", k, l, tg.keysUsed, tg.litsUsed)
	}
	if nAssign != 1 || runCtx == nil {
		return "", "", fmt.Errorf("graph.compile: %d assignments of r.runCtx, expected 1", nAssign)
	}
	// ---- graph_run.go
	rf, err := c11ParseGo(fset, repo, "compose", "graph_run.go")
	if err != nil {
		return "", "", err
	}
	run := c11Method(rf, "runner", "run")
	if run == nil {
		return "", "", fmt.Errorf("method runner.run not found")
	}
	c11RenameCheckpointVar(run)
	tr := &c11Plumb{fn: "runner.run", modVars: map[string]bool{}, runCtx: runCtx, runCtxOn: runCtxOn}
	// the modifier variable of the top-level resume: `_, m := getCheckPointInfo(opts...)`
	ast.Inspect(run.Body, func(n ast.Node) bool {
		if as, ok := n.(*ast.AssignStmt); ok && len(as.Rhs) == 1 && len(as.Lhs) == 2 {
			if call, ok := as.Rhs[0].(*ast.CallExpr); ok && c11Callee(call) == "getCheckPointInfo" {
				tr.modVars[c11Ident(as.Lhs[1])] = true
			}
		}
		return true
	})
	if len(tr.modVars) != 1 {
		return "", "", tr.errf("the state modifier is not taken from getCheckPointInfo once")
	}
	var start []string
	var resumes [][]string
	var underSub []bool
	var visit func(l []ast.Stmt, sub bool) error
	visit = func(l []ast.Stmt, sub bool) error {
		direct := false
		for _, s := range l {
			if as, ok := s.(*ast.AssignStmt); ok && len(as.Rhs) == 1 {
				if call, ok := as.Rhs[0].(*ast.CallExpr); ok && c11Sq(call.Fun) == "r.restoreTasks" {
					direct = true
				}
			}
		}
		if direct {
			p, err := tr.stmts(l, "", "")
			if err != nil {
				return err
			}
			resumes = append(resumes, p)
			underSub = append(underSub, sub)
			return nil
		}
		for _, s := range l {
			switch x := s.(type) {
			case *ast.IfStmt:
				if c11Sq(x.Cond) == "!initialized" {
					if start != nil {
						return tr.errf("two `if !initialized` blocks")
					}
					p, err := tr.stmts(x.Body.List, "", "")
					if err != nil {
						return err
					}
					start = p
					if start == nil {
						start = []string{}
					}
					if x.Else != nil {
						if eb, ok := x.Else.(*ast.BlockStmt); ok && tr.mentions(eb) {
							return tr.errf("the else branch of `if !initialized` touches the state plumbing")
						}
					}
					continue
				}
				isSub := sub || c11Ident(x.Cond) == "isSubGraph"
				if x.Init != nil && tr.mentions(x.Init) {
					return tr.errf("statement outside the translated blocks touches the state plumbing")
				}
				if err := visit(x.Body.List, isSub); err != nil {
					return err
				}
				for e := x.Else; e != nil; {
					switch y := e.(type) {
					case *ast.BlockStmt:
						if err := visit(y.List, sub); err != nil {
							return err
						}
						e = nil
					case *ast.IfStmt:
						if err := visit(y.Body.List, sub); err != nil {
							return err
						}
						e = y.Else
					default:
						e = nil
					}
				}
			case *ast.AssignStmt:
				if len(x.Rhs) == 1 {
					if call, ok := x.Rhs[0].(*ast.CallExpr); ok && c11Callee(call) == "getCheckPointInfo" {
						continue
					}
				}
				if tr.mentions(s) {
					return tr.errf("statement outside the translated blocks touches the state plumbing")
				}
			default:
				if tr.mentions(s) {
					return tr.errf("statement outside the translated blocks touches the state plumbing (%T)", s)
				}
			}
		}
		return nil
	}
	grun := []string{"compose", "graph_run.go"}
	runBody, inRun, err := c11Prepare(repo, grun, run, tr.mentions, c11NormOpts{mergeIfs: true})
	if err != nil {
		return "", "", tr.errf("%v", err)
	}
	helpers := map[string]int{}
	for h, n := range inRun.inlined {
		helpers[h] += n
	}
	if err := visit(runBody, false); err != nil {
		return "", "", err
	}
	if start == nil {
		return "", "", tr.errf("no `if !initialized` block")
	}
	if len(resumes) != 2 || !underSub[0] || underSub[1] {
		return "", "", tr.errf("%d blocks call r.restoreTasks, expected one under `if isSubGraph` and one for the top level", len(resumes))
	}
	if k, l := c11CountLits(&ast.BlockStmt{List: runBody}); k != tr.keysUsed || l != tr.litsUsed {
		return "", "", tr.errf("%d stateKey{} / %d internalState{} literals, %d / %d translated", k, l, tr.keysUsed, tr.litsUsed)
	}
	// ---- the two interrupt handlers
	var saves [][]string
	for _, name := range []string{"handleInterrupt", "handleInterruptWithSubGraphAndRerunNodes"} {
		fn := c11Method(rf, "runner", name)
		if fn == nil {
			return "", "", fmt.Errorf("method runner.%s not found", name)
		}
		c11RenameCheckpointVar(fn)
		th := &c11Plumb{fn: "runner." + name, modVars: map[string]bool{}, runCtxOn: runCtxOn}
		hBody, inH, err := c11Prepare(repo, grun, fn, th.mentions, c11NormOpts{mergeIfs: true})
		if err != nil {
			return "", "", th.errf("%v", err)
		}
		for h, n := range inH.inlined {
			helpers[h] += n
		}
		p, err := th.stmts(hBody, "", "")
		if err != nil {
			return "", "", err
		}
		if k, l := c11CountLits(&ast.BlockStmt{List: hBody}); k != th.keysUsed || l != th.litsUsed {
			return "", "", th.errf("%d stateKey{} / %d internalState{} literals, %d / %d translated", k, l, th.keysUsed, th.litsUsed)
		}
		saves = append(saves, p)
	}
	// ---- nothing else in the package creates a holder or binds the key
	translated := map[string]bool{"graph.go:compile": true, "graph_run.go:run": true, "graph_run.go:handleInterrupt": true,
		"graph_run.go:handleInterruptWithSubGraphAndRerunNodes": true}
	files, _ := filepath.Glob(filepath.Join(repo, "compose", "*.go"))
	sort.Strings(files)
	for _, m := range translatedGraph {
		translated["graph.go:"+m] = true
	}
	// a helper of graph_run.go whose body has been inlined at every one of its call sites is translated
	for h, n := range helpers {
		calls := 0
		for _, p := range files {
			base := filepath.Base(p)
			if strings.HasSuffix(base, "_test.go") || strings.HasPrefix(base, "verif_") {
				continue
			}
			f, err := c11ParseGo(fset, repo, "compose", base)
			if err != nil {
				return "", "", err
			}
			calls += c11CountCalls(f, h)
		}
		if calls != n {
			return "", "", fmt.Errorf("graph_run.go: helper %s is called %d times, %d of the calls are in the translated blocks", h, calls, n)
		}
		translated["graph_run.go:"+h] = true
	}
	for _, p := range files {
		base := filepath.Base(p)
		if strings.HasSuffix(base, "_test.go") || strings.HasPrefix(base, "verif_") || base == "state.go" {
			continue
		}
		src, err := os.ReadFile(p)
		if err != nil || !(strings.Contains(string(src), "stateKey") || strings.Contains(string(src), "internalState") || strings.Contains(string(src), "runCtx")) {
			continue
		}
		f, err := c11ParseGo(fset, repo, "compose", base)
		if err != nil {
			return "", "", err
		}
		for _, d := range f.Decls {
			fn, ok := d.(*ast.FuncDecl)
			if !ok || fn.Body == nil || translated[base+":"+fn.Name.Name] {
				continue
			}
			k, l := c11CountLits(fn.Body)
			assigns := false
			ast.Inspect(fn.Body, func(n ast.Node) bool {
				if as, ok := n.(*ast.AssignStmt); ok {
					for _, lh := range as.Lhs {
						if sel, ok := lh.(*ast.SelectorExpr); ok && sel.Sel.Name == "runCtx" {
							assigns = true
						}
					}
				}
				if kv, ok := n.(*ast.KeyValueExpr); ok && c11Ident(kv.Key) == "runCtx" {
					assigns = true
				}
				return true
			})
			if k != 0 || l != 0 || assigns {
				return "", "", fmt.Errorf("%s: func %s binds the state key, creates a state holder or sets runCtx", base, fn.Name.Name)
			}
		}
	}
	var b strings.Builder
	b.WriteString("(* Gen/StatePlumb.v — GENERATED by tools/go2v (extractor \"stateplumb\") from compose/graph.go (graph.compile:\n")
	b.WriteString("   r.runCtx) and compose/graph_run.go (runner.run: start of a run, the two resume blocks; handleInterrupt,\n")
	b.WriteString("   handleInterruptWithSubGraphAndRerunNodes: what goes into cp.State). Do not edit. *)\n")
	b.WriteString("From Eino Require Import Base.Util Model.StateLock Model.StateLockLTS Model.StateLockCode Model.StatePlumb.\n\n")
	fmt.Fprintf(&b, "Definition start_block : list pstmt := %s.\n", c11List(start))
	fmt.Fprintf(&b, "Definition resume_sub_block : list pstmt := %s.\n", c11List(resumes[0]))
	fmt.Fprintf(&b, "Definition resume_top_block : list pstmt := %s.\n", c11List(resumes[1]))
	fmt.Fprintf(&b, "Definition save_block_interrupt : list pstmt := %s.\n", c11List(saves[0]))
	fmt.Fprintf(&b, "Definition save_block_rerun : list pstmt := %s.\n", c11List(saves[1]))
	return "StatePlumb.v", b.String(), nil
}
