package main

// Extractor "paradigm" (property C04): the derivation chains of newRunnablePacker.
//
//   compose/runnable.go  func newRunnablePacker(i, s, c, t, enableCallback):
//        if i != nil { r.i = i } else if s != nil { r.i = invokeByStream(s) } else if c != nil { … } else { r.i = invokeByTransform(t) }
//        … the same for r.s, r.c, r.t
//   and, for every adapter xByY used there, what its closure does around the call of the
//   native function: box the input (schema.StreamReaderFromArray([]I{input})), concatenate the
//   input (defaultImplConcatStreamReader(input, …)), concatenate the output, box the output.
//
// Output: coq/Gen/ParadigmTable.v
//   order_table   : list (par * list par)              for each view, the natives in the order they are tried
//   adapter_table : list ((par * par) * list aop)      (view, native) -> the steps of the adapter, in order
// (constructors from Model/ParadigmTable.v; Proofs/GenAgreeParadigm.v proves both equal to the
// model's tables and ties them to [order] / [view_I] … of Model/Paradigm.v).

import (
	"fmt"
	"go/ast"
	"go/token"
	"go/types"
	"strings"
)

func init() {
	register("paradigm", extractParadigm)
	registerFallback("paradigm", "ParadigmTable.v", "(* Gen/ParadigmTable.v — translator tie UNAVAILABLE: tools/go2v (extractor \"paradigm\") did not recognise the\n"+
		"   shape of compose/runnable.go; the model's own tables are re-exported. *)\n"+
		"From Eino Require Import Base.Util Model.Paradigm Model.ParadigmTable.\n\n"+
		"Definition order_table : list (par * list par) := Model.ParadigmTable.order_table.\n"+
		"Definition adapter_table : list ((par * par) * list aop) := Model.ParadigmTable.adapter_table.\n")
}

var parOfVar = map[string]string{"i": "PI", "s": "PS", "c": "PC", "t": "PT"}

// `x != nil` -> x
func notNilVar(e ast.Expr) (string, bool) {
	be, ok := e.(*ast.BinaryExpr)
	if !ok || be.Op != token.NEQ {
		return "", false
	}
	x, ok1 := be.X.(*ast.Ident)
	y, ok2 := be.Y.(*ast.Ident)
	if !ok1 || !ok2 || y.Name != "nil" {
		return "", false
	}
	return x.Name, true
}

// the single statement `r.<field> = rhs` of a block
func fieldAssign(b *ast.BlockStmt) (field string, rhs ast.Expr, ok bool) {
	if len(b.List) != 1 {
		return "", nil, false
	}
	as, ok := b.List[0].(*ast.AssignStmt)
	if !ok || len(as.Lhs) != 1 || len(as.Rhs) != 1 || as.Tok != token.ASSIGN {
		return "", nil, false
	}
	sel, ok := as.Lhs[0].(*ast.SelectorExpr)
	if !ok {
		return "", nil, false
	}
	if id, ok := sel.X.(*ast.Ident); !ok || id.Name != "r" {
		return "", nil, false
	}
	return sel.Sel.Name, as.Rhs[0], true
}

type chainStep struct {
	native  string // i s c t
	adapter string // "" = the native itself
}

// one if / else-if chain assigning r.<field>
func readChain(is *ast.IfStmt) (field string, steps []chainStep, err error) {
	var cur ast.Stmt = is
	for {
		switch x := cur.(type) {
		case *ast.IfStmt:
			v, ok := notNilVar(x.Cond)
			if !ok || x.Init != nil {
				return "", nil, fmt.Errorf("condition %s is not `x != nil`", types.ExprString(x.Cond))
			}
			f, rhs, ok := fieldAssign(x.Body)
			if !ok {
				return "", nil, fmt.Errorf("branch of `%s != nil` is not a single `r.f = …`", v)
			}
			st, e := readRhs(rhs, v)
			if e != nil {
				return "", nil, e
			}
			if field != "" && f != field {
				return "", nil, fmt.Errorf("chain assigns both r.%s and r.%s", field, f)
			}
			field = f
			steps = append(steps, st)
			if x.Else == nil {
				return "", nil, fmt.Errorf("chain for r.%s has no final else", field)
			}
			cur = x.Else
		case *ast.BlockStmt:
			f, rhs, ok := fieldAssign(x)
			if !ok || f != field {
				return "", nil, fmt.Errorf("final else of the chain for r.%s is not a single `r.%s = …`", field, field)
			}
			st, e := readRhs(rhs, "")
			if e != nil {
				return "", nil, e
			}
			steps = append(steps, st)
			return field, steps, nil
		default:
			return "", nil, fmt.Errorf("unexpected statement in chain")
		}
	}
}

// rhs is `v` or `adapter(v)`; guard = the variable tested non-nil (""= final else)
func readRhs(rhs ast.Expr, guard string) (chainStep, error) {
	switch x := rhs.(type) {
	case *ast.Ident:
		if guard != "" && x.Name != guard {
			return chainStep{}, fmt.Errorf("branch guarded by %s assigns %s", guard, x.Name)
		}
		return chainStep{native: x.Name}, nil
	case *ast.CallExpr:
		fn, ok := x.Fun.(*ast.Ident)
		if !ok || len(x.Args) != 1 {
			return chainStep{}, fmt.Errorf("right-hand side %s not recognised", types.ExprString(rhs))
		}
		arg, ok := x.Args[0].(*ast.Ident)
		if !ok || (guard != "" && arg.Name != guard) {
			return chainStep{}, fmt.Errorf("branch guarded by %s uses %s", guard, types.ExprString(x.Args[0]))
		}
		return chainStep{native: arg.Name, adapter: fn.Name}, nil
	}
	return chainStep{}, fmt.Errorf("right-hand side %s not recognised", types.ExprString(rhs))
}

// e is a composite literal []T{name}
func litOfIdent(e ast.Expr, name string) bool {
	cl, ok := e.(*ast.CompositeLit)
	if !ok || len(cl.Elts) != 1 {
		return false
	}
	id, ok := cl.Elts[0].(*ast.Ident)
	return ok && id.Name == name
}

// what the closure returned by adapter fn does, as a sequence of aop constructors
func adapterOps(fn *ast.FuncDecl) ([]string, error) {
	if fn.Type.Params == nil || len(fn.Type.Params.List) != 1 || len(fn.Type.Params.List[0].Names) != 1 {
		return nil, fmt.Errorf("%s: not a one-parameter function", fn.Name.Name)
	}
	native := fn.Type.Params.List[0].Names[0].Name
	if fn.Body == nil || len(fn.Body.List) != 1 {
		return nil, fmt.Errorf("%s: body is not a single return", fn.Name.Name)
	}
	ret, ok := fn.Body.List[0].(*ast.ReturnStmt)
	if !ok || len(ret.Results) != 1 {
		return nil, fmt.Errorf("%s: body is not `return func…`", fn.Name.Name)
	}
	fl, ok := ret.Results[0].(*ast.FuncLit)
	if !ok {
		return nil, fmt.Errorf("%s: does not return a function literal", fn.Name.Name)
	}
	var ops []string
	called := false
	var err error
	// source order = execution order: the closures are straight-line code with early error returns
	ast.Inspect(fl.Body, func(n ast.Node) bool {
		call, ok := n.(*ast.CallExpr)
		if !ok || err != nil {
			return true
		}
		switch f := call.Fun.(type) {
		case *ast.Ident:
			switch f.Name {
			case native:
				if called {
					err = fmt.Errorf("%s: calls %s twice", fn.Name.Name, native)
				}
				called = true
				ops = append(ops, "ACall")
			case "defaultImplConcatStreamReader":
				if called {
					ops = append(ops, "AConcatOut")
				} else {
					if len(call.Args) < 1 || types.ExprString(call.Args[0]) != "input" {
						err = fmt.Errorf("%s: concatenates %s before the call", fn.Name.Name, types.ExprString(call.Args[0]))
					}
					ops = append(ops, "AConcatIn")
				}
			case "wrapStreamWrapperError":
				// error decoration only
			default:
				err = fmt.Errorf("%s: unknown call %s", fn.Name.Name, f.Name)
			}
		case *ast.SelectorExpr:
			if types.ExprString(f) == "schema.StreamReaderFromArray" {
				if called {
					ops = append(ops, "ABoxOut")
				} else {
					if len(call.Args) != 1 || !litOfIdent(call.Args[0], "input") {
						err = fmt.Errorf("%s: boxes %s before the call", fn.Name.Name, types.ExprString(call.Args[0]))
					}
					ops = append(ops, "ABoxIn")
				}
			} else {
				err = fmt.Errorf("%s: unknown call %s", fn.Name.Name, types.ExprString(f))
			}
		default:
			err = fmt.Errorf("%s: unknown call %s", fn.Name.Name, types.ExprString(call.Fun))
		}
		return true
	})
	if err != nil {
		return nil, err
	}
	if !called {
		return nil, fmt.Errorf("%s: never calls %s", fn.Name.Name, native)
	}
	return ops, nil
}

func extractParadigm(repo string) (string, string, error) {
	fset := token.NewFileSet()
	f, err := parseGo(fset, repo, "compose", "runnable.go")
	if err != nil {
		return "", "", err
	}
	np := topFunc(f, "newRunnablePacker")
	if np == nil || np.Body == nil {
		return "", "", fmt.Errorf("func newRunnablePacker not found")
	}
	fieldPar := map[string]string{"i": "PI", "s": "PS", "c": "PC", "t": "PT"}
	chains := map[string][]chainStep{}
	for _, st := range np.Body.List {
		if sw, ok := st.(*ast.SwitchStmt); ok && sw.Tag == nil && sw.Init == nil {
			// switch { case i != nil: … default: … } is the if / else-if chain with the same tests
			if l, err := (&c04Tr{name: "newRunnablePacker"}).switchToIf(sw); err == nil && len(l) == 1 {
				st = l[0]
			}
		}
		is, ok := st.(*ast.IfStmt)
		if !ok {
			continue
		}
		if id, ok := is.Cond.(*ast.Ident); ok && id.Name == "enableCallback" {
			continue // callback decoration of the natives: does not change which native a view uses
		}
		field, steps, err := readChain(is)
		if err != nil {
			return "", "", fmt.Errorf("newRunnablePacker: %v", err)
		}
		if _, dup := chains[field]; dup {
			return "", "", fmt.Errorf("newRunnablePacker: two chains assign r.%s", field)
		}
		chains[field] = steps
	}
	var b strings.Builder
	b.WriteString("(* Gen/ParadigmTable.v — GENERATED by tools/go2v (extractor \"paradigm\") from compose/runnable.go\n")
	b.WriteString("   (newRunnablePacker and the xByY adapters). Do not edit. *)\n")
	b.WriteString("From Eino Require Import Base.Util Model.Paradigm Model.ParadigmTable.\n\n")
	b.WriteString("Definition order_table : list (par * list par) :=\n  [ ")
	type ad struct{ view, native, fn string }
	var ads []ad
	for k, field := range []string{"i", "s", "c", "t"} {
		steps, ok := chains[field]
		if !ok || len(steps) != 4 {
			return "", "", fmt.Errorf("newRunnablePacker: chain for r.%s missing or not of length 4", field)
		}
		if k > 0 {
			b.WriteString(";\n    ")
		}
		fmt.Fprintf(&b, "(%s, [", fieldPar[field])
		for j, st := range steps {
			p, ok := parOfVar[st.native]
			if !ok {
				return "", "", fmt.Errorf("newRunnablePacker: unknown native %s", st.native)
			}
			if j > 0 {
				b.WriteString("; ")
			}
			b.WriteString(p)
			if (st.adapter == "") != (st.native == field) {
				return "", "", fmt.Errorf("newRunnablePacker: r.%s from %s through %q", field, st.native, st.adapter)
			}
			if st.adapter != "" {
				ads = append(ads, ad{fieldPar[field], p, st.adapter})
			}
		}
		b.WriteString("])")
	}
	b.WriteString(" ].\n\nDefinition adapter_table : list ((par * par) * list aop) :=\n  [ ")
	for k, a := range ads {
		fn := topFunc(f, a.fn)
		if fn == nil {
			return "", "", fmt.Errorf("adapter %s not found", a.fn)
		}
		ops, err := adapterOps(fn)
		if err != nil {
			return "", "", err
		}
		if k > 0 {
			b.WriteString(";\n    ")
		}
		fmt.Fprintf(&b, "((%s, %s), [%s])", a.view, a.native, strings.Join(ops, "; "))
	}
	b.WriteString(" ].\n")
	return "ParadigmTable.v", b.String(), nil
}
