package main

// Extractor "concatmsg" (property C14): how schema.ConcatMessages and concatToolCalls
// treat every field of the message types.
//
//   schema/message.go   type Message / ToolCall / FunctionCall / ResponseMeta / TokenUsage / LogProbs struct {...}
//                       func ConcatMessages: the loop `for idx, msg := range msgs` and the code after it
//                       func concatToolCalls: the grouping loop, the per-group loop, the stable sort
//
// Output: coq/Gen/ConcatMsgTable.v with
//   message_fields    : list (string * list string)   struct name -> field names in declaration order
//   message_handling  : list (string * mh)            field path of Message -> what ConcatMessages does with it
//   toolcall_handling : list (string * mh)            field path of ToolCall -> what concatToolCalls does with it
// (constructors from Model/ConcatMsgTable.v; Proofs/GenAgreeConcat.v proves all three equal
// to the tables Model/ConcatMsg.v was written from).
//
// Only fixed statement shapes are recognised.  A field of the struct that the function
// never touches is reported as MDropped (a recognised, different table); any statement of
// another shape makes the extractor give up ("translator tie unavailable", not a finding).

import (
	"fmt"
	"go/ast"
	"go/parser"
	"go/token"
	"go/types"
	"path/filepath"
	"sort"
	"strings"
)

func init() {
	register("concatmsg", extractConcatMsg)
	registerFallback("concatmsg", "ConcatMsgTable.v", "(* Gen/ConcatMsgTable.v — translator tie UNAVAILABLE: tools/go2v (extractor \"concatmsg\") did not recognise\n"+
		"   the shape of schema/message.go; the model's own tables are re-exported. *)\n"+
		"From Eino Require Import Base.Util Model.ConcatMsgTable.\n\n"+
		"Definition message_fields : list (string * list string) := Model.ConcatMsgTable.message_fields.\n\n"+
		"Definition message_handling : list (string * mh) := Model.ConcatMsgTable.message_handling.\n\n"+
		"Definition toolcall_handling : list (string * mh) := Model.ConcatMsgTable.toolcall_handling.\n")
}

func es(e ast.Expr) string { return strings.ReplaceAll(types.ExprString(e), " ", "") }

func stmtAssign(s ast.Stmt) (lhs, rhs string, ok bool) {
	a, isA := s.(*ast.AssignStmt)
	if !isA || len(a.Lhs) != 1 || len(a.Rhs) != 1 || a.Tok != token.ASSIGN {
		return "", "", false
	}
	return es(a.Lhs[0]), es(a.Rhs[0]), true
}

func isErrReturn(s ast.Stmt) bool {
	r, ok := s.(*ast.ReturnStmt)
	if !ok || len(r.Results) != 2 {
		return false
	}
	id, ok := r.Results[0].(*ast.Ident)
	return ok && id.Name == "nil" && es(r.Results[1]) != "nil"
}

// pickShape matches
//
//	if ACC == "" { ACC = SRC } else if ACC != SRC { return nil, err }
func pickShape(s ast.Stmt, acc, src string) bool {
	i, ok := s.(*ast.IfStmt)
	if !ok || i.Init != nil || es(i.Cond) != acc+`==""` || len(i.Body.List) != 1 {
		return false
	}
	if l, r, ok := stmtAssign(i.Body.List[0]); !ok || l != acc || r != src {
		return false
	}
	e, ok := i.Else.(*ast.IfStmt)
	if !ok || e.Else != nil || es(e.Cond) != acc+"!="+src || len(e.Body.List) != 1 {
		return false
	}
	return isErrReturn(e.Body.List[0])
}

type handling struct {
	path string
	h    string
}

func structFields(f *ast.File, name string) ([]string, error) {
	for _, d := range f.Decls {
		g, ok := d.(*ast.GenDecl)
		if !ok {
			continue
		}
		for _, sp := range g.Specs {
			ts, ok := sp.(*ast.TypeSpec)
			if !ok || ts.Name.Name != name {
				continue
			}
			st, ok := ts.Type.(*ast.StructType)
			if !ok {
				return nil, fmt.Errorf("type %s is not a struct", name)
			}
			var out []string
			for _, fl := range st.Fields.List {
				if len(fl.Names) == 0 {
					out = append(out, "<embedded "+es(fl.Type)+">")
				}
				for _, n := range fl.Names {
					out = append(out, n.Name)
				}
			}
			return out, nil
		}
	}
	return nil, fmt.Errorf("type %s not found", name)
}

// ---------------------------------------------------------------- ConcatMessages

func classifyConcatMessages(fn *ast.FuncDecl) ([]handling, error) {
	var loop *ast.RangeStmt
	var after []ast.Stmt
	for i, s := range fn.Body.List {
		if r, ok := s.(*ast.RangeStmt); ok && es(r.X) == "msgs" {
			loop = r
			after = fn.Body.List[i+1:]
			break
		}
	}
	if loop == nil || loop.Value == nil || es(loop.Value) != "msg" {
		return nil, fmt.Errorf("ConcatMessages: loop `for _, msg := range msgs` not found")
	}
	var out []handling
	pendingJoin, pendingTC, pendingExtra := "", "", "" // local slice variable collecting the field
	joinField, tcField, extraField := "", "", ""
	metaInit := false
	for _, s := range loop.Body.List {
		i, ok := s.(*ast.IfStmt)
		if !ok || i.Init != nil || i.Else != nil {
			return nil, fmt.Errorf("ConcatMessages: loop statement is not a plain if: %T", s)
		}
		cond := es(i.Cond)
		switch {
		case cond == "msg==nil":
			if len(i.Body.List) != 1 || !isErrReturn(i.Body.List[0]) {
				return nil, fmt.Errorf("ConcatMessages: nil chunk is not answered by an error return")
			}
			out = append(out, handling{"<nil chunk>", "MError"})
		case strings.HasPrefix(cond, "msg.") && strings.HasSuffix(cond, `!=""`):
			f := strings.TrimSuffix(strings.TrimPrefix(cond, "msg."), `!=""`)
			if len(i.Body.List) == 1 && pickShape(i.Body.List[0], "ret."+f, "msg."+f) {
				out = append(out, handling{f, "MPick"})
				continue
			}
			if len(i.Body.List) >= 1 {
				if l, r, ok := stmtAssign(i.Body.List[0]); ok && r == "append("+l+",msg."+f+")" {
					pendingJoin, joinField = l, f
					continue
				}
			}
			return nil, fmt.Errorf("ConcatMessages: handling of string field %s not recognised", f)
		case strings.HasPrefix(cond, "len(msg.") && strings.HasSuffix(cond, ")>0"):
			f := strings.TrimSuffix(strings.TrimPrefix(cond, "len(msg."), ")>0")
			if len(i.Body.List) != 1 {
				return nil, fmt.Errorf("ConcatMessages: handling of field %s not recognised", f)
			}
			l, r, ok := stmtAssign(i.Body.List[0])
			switch {
			case ok && l == "ret."+f && r == "msg."+f:
				out = append(out, handling{f, "MLastNonEmpty"})
			case ok && r == "append("+l+",msg."+f+"...)":
				pendingTC, tcField = l, f
			case ok && r == "append("+l+",msg."+f+")":
				pendingExtra, extraField = l, f
			default:
				return nil, fmt.Errorf("ConcatMessages: handling of field %s not recognised", f)
			}
		case cond == "msg.ResponseMeta!=nil&&ret.ResponseMeta==nil":
			if l, r, ok := stmtAssign(i.Body.List[0]); !ok || len(i.Body.List) != 1 || l != "ret.ResponseMeta" || r != "&ResponseMeta{}" {
				return nil, fmt.Errorf("ConcatMessages: ResponseMeta initialisation not recognised")
			}
			metaInit = true
		case cond == "msg.ResponseMeta!=nil&&ret.ResponseMeta!=nil":
			if !metaInit {
				return nil, fmt.Errorf("ConcatMessages: ResponseMeta merged before it is initialised")
			}
			hs, err := classifyMeta(i.Body.List)
			if err != nil {
				return nil, err
			}
			out = append(out, hs...)
		default:
			return nil, fmt.Errorf("ConcatMessages: condition %s not recognised", cond)
		}
	}
	// after the loop
	joined, tcDone, extraDone := false, false, false
	for _, s := range after {
		i, ok := s.(*ast.IfStmt)
		if !ok {
			continue
		}
		cond := es(i.Cond)
		switch {
		case pendingJoin != "" && cond == "len("+pendingJoin+")>0":
			forward, assigned, prefixed := false, false, false
			for _, b := range i.Body.List {
				if r, ok := b.(*ast.RangeStmt); ok && es(r.X) == pendingJoin && r.Value != nil {
					v := es(r.Value)
					ast.Inspect(r.Body, func(n ast.Node) bool {
						if c, ok := n.(*ast.CallExpr); ok && es(c.Fun) == "sb.WriteString" && len(c.Args) == 1 && es(c.Args[0]) == v {
							forward = true
						}
						return true
					})
				}
				if e, ok := b.(*ast.ExprStmt); ok && es(e.X) == "sb.WriteString(ret."+joinField+")" {
					prefixed = true
				}
				if l, r, ok := stmtAssign(b); ok && l == "ret."+joinField && r == "sb.String()" {
					assigned = true
				}
			}
			_ = prefixed // ret.<field> is still empty there; with or without it the result is the join
			if forward && assigned {
				joined = true
			}
		case pendingTC != "" && cond == "len("+pendingTC+")>0":
			call, set := false, false
			for _, b := range i.Body.List {
				if a, ok := b.(*ast.AssignStmt); ok && len(a.Rhs) == 1 && es(a.Rhs[0]) == "concatToolCalls("+pendingTC+")" {
					call = true
				}
				if l, r, ok := stmtAssign(b); ok && l == "ret."+tcField && r == "merged" {
					set = true
				}
			}
			tcDone = call && set
		case pendingExtra != "" && cond == "len(extra)>0":
			if l, r, ok := stmtAssign(i.Body.List[0]); ok && len(i.Body.List) == 1 && l == "ret."+extraField && r == "extra" {
				extraDone = true
			}
		}
	}
	if pendingExtra != "" {
		found := false
		for _, s := range after {
			if a, ok := s.(*ast.AssignStmt); ok && len(a.Rhs) == 1 && es(a.Rhs[0]) == "internal.ConcatItems("+pendingExtra+")" &&
				len(a.Lhs) == 2 && es(a.Lhs[0]) == "extra" {
				found = true
			}
		}
		extraDone = extraDone && found
	}
	if pendingJoin != "" {
		if !joined {
			return nil, fmt.Errorf("ConcatMessages: the collected %s values are not joined in order into ret.%s", pendingJoin, joinField)
		}
		out = append(out, handling{joinField, "MJoin"})
	}
	if pendingTC != "" {
		if !tcDone {
			return nil, fmt.Errorf("ConcatMessages: the collected %s are not given to concatToolCalls", pendingTC)
		}
		out = append(out, handling{tcField, "MToolCalls"})
	}
	if pendingExtra != "" {
		if !extraDone {
			return nil, fmt.Errorf("ConcatMessages: the collected %s are not given to internal.ConcatItems", pendingExtra)
		}
		out = append(out, handling{extraField, "MConcatMaps"})
	}
	return out, nil
}

func classifyMeta(body []ast.Stmt) ([]handling, error) {
	var out []handling
	const M, R = "msg.ResponseMeta.", "ret.ResponseMeta."
	for _, s := range body {
		i, ok := s.(*ast.IfStmt)
		if !ok || i.Init != nil || i.Else != nil {
			return nil, fmt.Errorf("ResponseMeta merge: statement is not a plain if")
		}
		cond := es(i.Cond)
		switch {
		case strings.HasPrefix(cond, M) && strings.HasSuffix(cond, `!=""`):
			f := strings.TrimSuffix(strings.TrimPrefix(cond, M), `!=""`)
			if l, r, ok := stmtAssign(i.Body.List[0]); ok && len(i.Body.List) == 1 && l == R+f && r == M+f {
				out = append(out, handling{"ResponseMeta." + f, "MLastNonEmpty"})
				continue
			}
			return nil, fmt.Errorf("ResponseMeta.%s: handling not recognised", f)
		case cond == M+"Usage!=nil":
			for k, b := range i.Body.List {
				bi, ok := b.(*ast.IfStmt)
				if !ok || bi.Else != nil || len(bi.Body.List) != 1 {
					return nil, fmt.Errorf("ResponseMeta.Usage: statement not recognised")
				}
				c := es(bi.Cond)
				l, r, ok := stmtAssign(bi.Body.List[0])
				if !ok {
					return nil, fmt.Errorf("ResponseMeta.Usage: statement not recognised")
				}
				if k == 0 && c == R+"Usage==nil" && l == R+"Usage" && r == "&TokenUsage{}" {
					continue
				}
				if !strings.HasPrefix(l, R+"Usage.") {
					return nil, fmt.Errorf("ResponseMeta.Usage: assignment to %s", l)
				}
				f := strings.TrimPrefix(l, R+"Usage.")
				if r != M+"Usage."+f {
					return nil, fmt.Errorf("ResponseMeta.Usage.%s assigned from %s", f, r)
				}
				switch c {
				case M + "Usage." + f + ">" + R + "Usage." + f, M + "Usage." + f + ">=" + R + "Usage." + f,
					R + "Usage." + f + "<" + M + "Usage." + f, R + "Usage." + f + "<=" + M + "Usage." + f:
					out = append(out, handling{"ResponseMeta.Usage." + f, "MMax"})
				case M + "Usage." + f + "<" + R + "Usage." + f, M + "Usage." + f + "<=" + R + "Usage." + f,
					R + "Usage." + f + ">" + M + "Usage." + f, R + "Usage." + f + ">=" + M + "Usage." + f:
					out = append(out, handling{"ResponseMeta.Usage." + f, "MMin"})
				default:
					return nil, fmt.Errorf("ResponseMeta.Usage.%s: condition %s not recognised", f, c)
				}
			}
		case cond == M+"LogProbs!=nil":
			okInit, okApp := false, false
			for k, b := range i.Body.List {
				if bi, ok := b.(*ast.IfStmt); ok && k == 0 && es(bi.Cond) == R+"LogProbs==nil" && len(bi.Body.List) == 1 {
					if l, r, ok := stmtAssign(bi.Body.List[0]); ok && l == R+"LogProbs" && r == "&LogProbs{}" {
						okInit = true
						continue
					}
				}
				if l, r, ok := stmtAssign(b); ok && l == R+"LogProbs.Content" {
					switch r {
					case "append(" + R + "LogProbs.Content," + M + "LogProbs.Content...)":
						okApp = true
						continue
					}
				}
				return nil, fmt.Errorf("ResponseMeta.LogProbs: statement not recognised")
			}
			if !okInit || !okApp {
				return nil, fmt.Errorf("ResponseMeta.LogProbs: not initialise-then-append")
			}
			out = append(out, handling{"ResponseMeta.LogProbs.Content", "MAppend"})
		default:
			return nil, fmt.Errorf("ResponseMeta merge: condition %s not recognised", cond)
		}
	}
	return out, nil
}

// ---------------------------------------------------------------- concatToolCalls

func classifyConcatToolCalls(fn *ast.FuncDecl) ([]handling, error) {
	var out []handling
	// 1. grouping loop: nil index kept as it is, others grouped by *index
	var groupLoop *ast.ForStmt
	var mapLoop *ast.RangeStmt
	var sortCall *ast.CallExpr
	for _, s := range fn.Body.List {
		switch x := s.(type) {
		case *ast.RangeStmt:
			if es(x.X) == "chunks" && mapLoop == nil {
				// `for i := range chunks`
				groupBody := x.Body
				groupLoop = &ast.ForStmt{Body: groupBody}
			} else if es(x.X) == "m" {
				mapLoop = x
			}
		case *ast.IfStmt:
			ast.Inspect(x, func(n ast.Node) bool {
				if c, ok := n.(*ast.CallExpr); ok && (es(c.Fun) == "sort.SliceStable") {
					sortCall = c
				}
				return true
			})
		}
	}
	if groupLoop == nil || mapLoop == nil {
		return nil, fmt.Errorf("concatToolCalls: grouping loop / map loop not found")
	}
	okNil, okGroup := false, false
	ast.Inspect(groupLoop.Body, func(n ast.Node) bool {
		i, ok := n.(*ast.IfStmt)
		if !ok || es(i.Cond) != "index==nil" {
			return true
		}
		if l, r, ok := stmtAssign(i.Body.List[0]); ok && len(i.Body.List) == 1 && l == "merged" && r == "append(merged,chunks[i])" {
			okNil = true
		}
		if b, ok := i.Else.(*ast.BlockStmt); ok && len(b.List) == 1 {
			if l, r, ok := stmtAssign(b.List[0]); ok && l == "m[*index]" && r == "append(m[*index],i)" {
				okGroup = true
			}
		}
		return false
	})
	if !okNil || !okGroup {
		return nil, fmt.Errorf("concatToolCalls: grouping by index not recognised")
	}
	out = append(out, handling{"<nil index>", "MKeepInOrder"}, handling{"<index>", "MGroupKey"})

	// 2. per-group: first fragment supplies the rest; the fragment loop picks / joins
	firstSupplies := false
	locals := map[string]string{} // local accumulator -> field path it picks
	joins := map[string]bool{}    // field path written to args
	var fragLoop *ast.RangeStmt
	for _, s := range mapLoop.Body.List {
		switch x := s.(type) {
		case *ast.IfStmt:
			if es(x.Cond) == "len(v)>0" && len(x.Body.List) == 1 {
				if l, r, ok := stmtAssign(x.Body.List[0]); ok && l == "toolCall" && r == "chunks[v[0]]" {
					firstSupplies = true
				}
			}
		case *ast.RangeStmt:
			if es(x.X) == "v" {
				fragLoop = x
			}
		}
	}
	if fragLoop == nil || !firstSupplies {
		return nil, fmt.Errorf("concatToolCalls: per-group loop not recognised")
	}
	if es(fragLoop.Key) != "_" || fragLoop.Value == nil {
		return nil, fmt.Errorf("concatToolCalls: fragment loop is not `for _, n := range v`")
	}
	for k, s := range fragLoop.Body.List {
		if k == 0 {
			if a, ok := s.(*ast.AssignStmt); ok && a.Tok == token.DEFINE && es(a.Lhs[0]) == "chunk" && es(a.Rhs[0]) == "chunks["+es(fragLoop.Value)+"]" {
				continue
			}
			return nil, fmt.Errorf("concatToolCalls: fragment loop does not start with chunk := chunks[n]")
		}
		i, ok := s.(*ast.IfStmt)
		cond := ""
		if ok {
			cond = es(i.Cond)
		}
		if !ok || !strings.HasPrefix(cond, "chunk.") || !strings.HasSuffix(cond, `!=""`) {
			return nil, fmt.Errorf("concatToolCalls: fragment statement not recognised")
		}
		f := strings.TrimSuffix(strings.TrimPrefix(cond, "chunk."), `!=""`)
		recognised := false
		if len(i.Body.List) == 1 {
			if in, ok := i.Body.List[0].(*ast.IfStmt); ok {
				acc := strings.TrimSuffix(es(in.Cond), `==""`)
				if pickShape(in, acc, "chunk."+f) {
					locals[acc] = f
					recognised = true
				}
			}
		}
		if !recognised {
			ast.Inspect(i.Body, func(n ast.Node) bool {
				if c, ok := n.(*ast.CallExpr); ok && es(c.Fun) == "args.WriteString" && len(c.Args) == 1 && es(c.Args[0]) == "chunk."+f {
					joins[f] = true
					recognised = true
				}
				return true
			})
		}
		if !recognised {
			return nil, fmt.Errorf("concatToolCalls: handling of %s not recognised", f)
		}
	}
	assigned := map[string]bool{}
	for _, s := range mapLoop.Body.List {
		l, r, ok := stmtAssign(s)
		if !ok || !strings.HasPrefix(l, "toolCall.") {
			continue
		}
		f := strings.TrimPrefix(l, "toolCall.")
		switch {
		case locals[r] == f:
			out = append(out, handling{f, "MPick"})
		case r == "args.String()" && joins[f]:
			out = append(out, handling{f, "MJoin"})
		default:
			return nil, fmt.Errorf("concatToolCalls: toolCall.%s = %s not recognised", f, r)
		}
		assigned[f] = true
	}
	for _, f := range locals {
		if !assigned[f] {
			return nil, fmt.Errorf("concatToolCalls: picked %s never stored", f)
		}
	}
	for f := range joins {
		if !assigned[f] {
			return nil, fmt.Errorf("concatToolCalls: joined %s never stored", f)
		}
	}
	out = append(out, handling{"<other fields>", "MFirst"})

	// 3. the stable sort
	if sortCall == nil || len(sortCall.Args) != 2 || es(sortCall.Args[0]) != "merged" {
		return nil, fmt.Errorf("concatToolCalls: sort.SliceStable(merged, ...) not found")
	}
	less, ok := sortCall.Args[1].(*ast.FuncLit)
	if !ok || len(less.Body.List) == 0 {
		return nil, fmt.Errorf("concatToolCalls: comparator not a function literal")
	}
	last, ok := less.Body.List[len(less.Body.List)-1].(*ast.ReturnStmt)
	if !ok || len(last.Results) != 1 {
		return nil, fmt.Errorf("concatToolCalls: comparator does not end in a return")
	}
	switch es(last.Results[0]) {
	case "*iVal<*jVal":
		out = append(out, handling{"<order>", "MAscending"})
	case "*iVal>*jVal":
		out = append(out, handling{"<order>", "MDescending"})
	default:
		return nil, fmt.Errorf("concatToolCalls: comparator returns %s", es(last.Results[0]))
	}
	nilFirst := false
	ast.Inspect(less.Body, func(n ast.Node) bool {
		i, ok := n.(*ast.IfStmt)
		if !ok {
			return true
		}
		for cur := i; cur != nil; {
			if es(cur.Cond) == "iVal==nil&&jVal!=nil" && len(cur.Body.List) == 1 {
				if r, ok := cur.Body.List[0].(*ast.ReturnStmt); ok && len(r.Results) == 1 && es(r.Results[0]) == "true" {
					nilFirst = true
				}
			}
			next, _ := cur.Else.(*ast.IfStmt)
			cur = next
		}
		return false
	})
	if nilFirst {
		out = append(out, handling{"<nil index order>", "MNilFirst"})
	} else {
		out = append(out, handling{"<nil index order>", "MNilNotFirst"})
	}
	return out, nil
}

// ---------------------------------------------------------------- output

func extractConcatMsg(repo string) (string, string, error) {
	fset := token.NewFileSet()
	f, err := parser.ParseFile(fset, filepath.Join(repo, "schema", "message.go"), nil, 0)
	if err != nil {
		return "", "", err
	}
	structs := []string{"FunctionCall", "LogProbs", "Message", "ResponseMeta", "TokenUsage", "ToolCall"}
	fields := map[string][]string{}
	for _, n := range structs {
		fl, err := structFields(f, n)
		if err != nil {
			return "", "", err
		}
		fields[n] = fl
	}
	funcs := map[string]*ast.FuncDecl{}
	for _, d := range f.Decls {
		if fn, ok := d.(*ast.FuncDecl); ok && fn.Recv == nil && fn.Body != nil {
			funcs[fn.Name.Name] = fn
		}
	}
	if funcs["ConcatMessages"] == nil || funcs["concatToolCalls"] == nil {
		return "", "", fmt.Errorf("ConcatMessages / concatToolCalls not found")
	}
	// private helpers called once are inlined, and the names of the locals do not matter (c14_inline.go, c14_alpha.go)
	c14InlineHelpers(f, map[string]bool{"ConcatMessages": true, "concatToolCalls": true, "ConcatMessageStream": true, "concatMessageArray": true})
	c14AlphaCanon(funcs["ConcatMessages"], []string{"msgs", "contents", "contentLen", "toolCalls", "ret", "extraList", "idx", "msg", "sb", "content", "err", "merged", "extra"})
	c14AlphaCanon(funcs["concatToolCalls"], []string{"chunks", "merged", "m", "i", "index", "args", "k", "v", "toolCall", "toolID", "toolType", "toolName", "n", "chunk", "err", "j", "iVal", "jVal"})
	mh, err := classifyConcatMessages(funcs["ConcatMessages"])
	if err != nil {
		return "", "", err
	}
	th, err := classifyConcatToolCalls(funcs["concatToolCalls"])
	if err != nil {
		return "", "", err
	}
	// every field of the structs must be accounted for; an untouched one is "dropped"
	covered := func(hs []handling, path string) bool {
		for _, h := range hs {
			if h.path == path || strings.HasPrefix(h.path, path+".") {
				return true
			}
		}
		return false
	}
	for _, fl := range fields["Message"] {
		if !covered(mh, fl) {
			mh = append(mh, handling{fl, "MDropped"})
		}
	}
	for _, fl := range fields["ResponseMeta"] {
		if !covered(mh, "ResponseMeta."+fl) {
			mh = append(mh, handling{"ResponseMeta." + fl, "MDropped"})
		}
	}
	for _, fl := range fields["TokenUsage"] {
		if !covered(mh, "ResponseMeta.Usage."+fl) {
			mh = append(mh, handling{"ResponseMeta.Usage." + fl, "MDropped"})
		}
	}
	for _, fl := range fields["LogProbs"] {
		if !covered(mh, "ResponseMeta.LogProbs."+fl) {
			mh = append(mh, handling{"ResponseMeta.LogProbs." + fl, "MDropped"})
		}
	}
	sort.SliceStable(mh, func(i, j int) bool { return mh[i].path < mh[j].path })
	sort.SliceStable(th, func(i, j int) bool { return th[i].path < th[j].path })

	var b strings.Builder
	b.WriteString("(* Gen/ConcatMsgTable.v — GENERATED by tools/go2v (extractor \"concatmsg\") from\n")
	b.WriteString("   schema/message.go (struct declarations, ConcatMessages, concatToolCalls). Do not edit. *)\n")
	b.WriteString("From Eino Require Import Base.Util Model.ConcatMsgTable.\n\n")
	b.WriteString("Definition message_fields : list (string * list string) :=\n  [ ")
	for i, n := range structs {
		if i > 0 {
			b.WriteString(";\n    ")
		}
		qs := make([]string, len(fields[n]))
		for k, x := range fields[n] {
			qs[k] = coqStr(x)
		}
		fmt.Fprintf(&b, "(%s, [%s])", coqStr(n), strings.Join(qs, "; "))
	}
	b.WriteString(" ].\n\n")
	for _, t := range []struct {
		name string
		hs   []handling
	}{{"message_handling", mh}, {"toolcall_handling", th}} {
		fmt.Fprintf(&b, "Definition %s : list (string * mh) :=\n  [ ", t.name)
		for i, h := range t.hs {
			if i > 0 {
				b.WriteString(";\n    ")
			}
			fmt.Fprintf(&b, "(%s, %s)", coqStr(h.path), h.h)
		}
		b.WriteString(" ].\n\n")
	}
	return "ConcatMsgTable.v", strings.TrimRight(b.String(), "\n") + "\n", nil
}
