package main

// Extractor "resolvetasks" (property C01): compose/graph_run.go
//
//	uniqueKeys, copyItem   translated statement by statement (copyItem in value mode: no item is a stream reader)
//	runner.resolveCompletedTasks  translated statement by statement: for every completed task the control
//	                       dependencies it reports, the copies of its output (copyItem: a Section variable), the
//	                       call of calculateBranch on the copies meant for the branches (a Section variable: the
//	                       extractor "calcbranch" translates it), the successors that receive the output
//	                       (uniqueKeys of the selected nodes and the plain successors), the re-sizing of the copies
//	                       and the writes into writeChannelValues / newDependencies. The final loop that closes the
//	                       stream copies nobody reads has no effect where no value is a stream and is skipped.
//
// Output: coq/Gen/ResolveTasks.v over the vocabulary of Model/ResolveGenLib.v.  Proofs/GenAgreeC01Resolve.v proves
// the generated function equal to the specification of Model/ResolveSpec.v, and Proofs/ResolveModel.v proves that
// specification equal to [resolve_all] of Model/Graph.v (what every theorem about routing is about).

import (
	"fmt"
	"go/ast"
	"strings"
)

const c01ResolveSection = "Section Gen.\n  Variables V T CALL CM : Type.\n  Variable zero_value : V.\n  Variable err_code : nat -> N.\n" +
	"  Variable task_key : T -> key.                                (* t.nodeKey *)\n" +
	"  Variable task_output : T -> V.                               (* t.output *)\n" +
	"  Variable task_call : T -> CALL.                              (* t.call *)\n" +
	"  Variable task_controls : T -> list key.                      (* t.call.controls *)\n" +
	"  Variable task_writeTo : T -> list key.                       (* t.call.writeTo *)\n" +
	"  Variable task_nbranches : T -> nat.                          (* len(t.call.writeToBranches) *)\n" +
	"  Variable copy_item : V -> nat -> list V.                     (* copyItem *)\n" +
	"  Variable calculate_branch : CM -> key -> CALL -> list V -> bool -> res (list key * CM).   (* r.calculateBranch *)\n\n"

func init() {
	register("resolvetasks", c01ExtractResolve)
	registerFallback("resolvetasks", "ResolveTasks.v", "(* Gen/ResolveTasks.v — translator tie UNAVAILABLE: tools/go2v (extractor \"resolvetasks\") did not recognise the\n"+
		"   shape of compose/graph_run.go:uniqueKeys / runner.resolveCompletedTasks; the model's own definitions are re-exported. *)\n"+
		"From Eino Require Import Base.Util Model.Graph Model.ImpGenLib Model.ResolveGenLib Model.ResolveSpec.\n\n"+
		"Definition tie_available : bool := false.\n\n"+
		"Definition uniqueKeys (keys : list key) : list key := Model.ResolveSpec.unique_keys keys.\n\n"+
		"Definition copyItem (V : Type) (zero_value : V) (item : V) (n : nat) : list V := let _ := zero_value in Model.ResolveSpec.copy_item_spec item n.\n\n"+
		c01ResolveSection+
		"  Definition resolveCompletedTasks (completedTasks : list T) (isStream : bool) (cm : CM)\n      : res (wmap V * dmap * CM) :=\n"+
		"    let _ := (zero_value, err_code) in\n"+
		"    Model.ResolveSpec.resolve_completed_tasks V T CALL CM zero_value task_key task_output task_call task_controls task_writeTo\n"+
		"      task_nbranches copy_item calculate_branch completedTasks isStream cm.\nEnd Gen.\n")
}

func c01PlainFunc(f *ast.File, name string) *ast.FuncDecl {
	for _, d := range f.Decls {
		if fn, ok := d.(*ast.FuncDecl); ok && fn.Recv == nil && fn.Name.Name == name && fn.Body != nil {
			return fn
		}
	}
	return nil
}

func c01ResultTypes(fn *ast.FuncDecl) string {
	var ts []string
	if fn.Type.Results != nil {
		for _, fl := range fn.Type.Results.List {
			n := len(fl.Names)
			if n == 0 {
				n = 1
			}
			for i := 0; i < n; i++ {
				ts = append(ts, c01Squash(fl.Type))
			}
		}
	}
	return strings.Join(ts, ",")
}

func c01ExtractResolve(repo string) (string, string, error) {
	f, err := c01ParseGraphRun(repo)
	if err != nil {
		return "", "", err
	}
	// ---- uniqueKeys
	uk := c01PlainFunc(f, "uniqueKeys")
	if uk == nil {
		return "", "", fmt.Errorf("function uniqueKeys not found")
	}
	if got := c01ParamNames(uk); strings.Join(got, ",") != "keys" || c01ResultTypes(uk) != "[]string" {
		return "", "", fmt.Errorf("uniqueKeys: signature")
	}
	tu := c01NewTr("uniqueKeys")
	tu.results = []string{"keys"}
	tu.env = []c01Var{{"keys", "keys"}}
	inlU, err := c01NewInl(repo, []string{"compose", "graph_run.go"}, "", "", uk, func(c *ast.CallExpr) bool { _, _, ok := tu.callOf(c); return ok })
	if err != nil {
		return "", "", err
	}
	ukCode, err := tu.function(inlU.body(uk.Body.List), "  ")
	if err != nil {
		return "", "", err
	}
	// ---- copyItem (value mode: the arm for stream readers is never taken)
	ci := c01PlainFunc(f, "copyItem")
	if ci == nil {
		return "", "", fmt.Errorf("function copyItem not found")
	}
	if got := c01ParamNames(ci); strings.Join(got, ",") != "item,n" || (c01ResultTypes(ci) != "[]any" && c01ResultTypes(ci) != "[]interface{}") {
		return "", "", fmt.Errorf("copyItem: signature")
	}
	tc := c01NewTr("copyItem")
	tc.results = []string{"vals"}
	tc.valueMode = true
	tc.zero["val"] = "zero_value"
	tc.makeKinds["[]any"], tc.makeKinds["[]interface{}"] = "vals", "vals"
	tc.env = []c01Var{{"item", "val"}, {"n", "nat"}}
	inlC, err := c01NewInl(repo, []string{"compose", "graph_run.go"}, "", "", ci, func(c *ast.CallExpr) bool { _, _, ok := tc.callOf(c); return ok })
	if err != nil {
		return "", "", err
	}
	ciCode, err := tc.function(inlC.body(ci.Body.List), "    ")
	if err != nil {
		return "", "", err
	}
	// ---- runner.resolveCompletedTasks
	fn, recv := c01Method(f, "runner", "resolveCompletedTasks")
	if fn == nil {
		return "", "", fmt.Errorf("method (*runner).resolveCompletedTasks not found")
	}
	if recv != "r" {
		return "", "", fmt.Errorf("resolveCompletedTasks: receiver is named %q", recv)
	}
	if got := c01ParamNames(fn); strings.Join(got, ",") != "ctx,completedTasks,isStream,cm" {
		return "", "", fmt.Errorf("resolveCompletedTasks: parameters %v", got)
	}
	if c01ResultTypes(fn) != "map[string]map[string]any,map[string][]string,error" {
		return "", "", fmt.Errorf("resolveCompletedTasks: result types %s", c01ResultTypes(fn))
	}
	// the loop variable over the completed tasks
	var tv string
	for _, s := range fn.Body.List {
		if rs, ok := s.(*ast.RangeStmt); ok && c01Squash(rs.X) == "completedTasks" {
			if id, ok := rs.Value.(*ast.Ident); ok {
				tv = id.Name
			}
		}
	}
	if tv == "" {
		return "", "", fmt.Errorf("resolveCompletedTasks: no loop over completedTasks")
	}
	t := c01NewTr("runner.resolveCompletedTasks")
	t.results, t.hasErr = []string{"wmap", "dmap"}, true
	t.states = []string{"cm"}
	t.valueMode = true
	t.elemOf["tasks"] = "task"
	t.types["task"], t.types["tasks"], t.types["state"], t.types["call"] = "T", "list T", "CM", "CALL"
	t.types["wmap"], t.types["dmap"], t.types["vmap"] = "wmap V", "dmap", "list (key * V)"
	t.zero["val"], t.zero["wmap"], t.zero["dmap"], t.zero["vmap"] = "zero_value", "(@wm_empty V)", "dm_empty", "(@vm_empty V)"
	t.maps["wmap"] = c01MapKind{get: "wm_get", elem: "vmap", has: "wm_has", set: "wm_set"}
	t.maps["vmap"] = c01MapKind{get: "vm_get zero_value", elem: "val", has: "vm_has", set: "vm_set"}
	t.maps["dmap"] = c01MapKind{get: "dm_get", elem: "keys", has: "dm_has", set: "dm_set"}
	t.makeKinds["map[string]map[string]any"] = "wmap"
	t.makeKinds["map[string]map[string]interface{}"] = "wmap"
	t.makeKinds["map[string]any"] = "vmap"
	t.makeKinds["map[string]interface{}"] = "vmap"
	t.makeKinds["map[string][]string"] = "dmap"
	t.env = []c01Var{{"completedTasks", "tasks"}, {"isStream", "bool"}, {"cm", "state"}}
	t.sels[tv+".nodeKey"] = c01Var{"(task_key " + tv + ")", "key"}
	t.sels[tv+".output"] = c01Var{"(task_output " + tv + ")", "val"}
	t.sels[tv+".call"] = c01Var{"(task_call " + tv + ")", "call"}
	t.sels[tv+".call.controls"] = c01Var{"(task_controls " + tv + ")", "keys"}
	t.sels[tv+".call.writeTo"] = c01Var{"(task_writeTo " + tv + ")", "keys"}
	t.sels["len("+tv+".call.writeToBranches)"] = c01Var{"(task_nbranches " + tv + ")", "nat"}
	t.calls["copyItem"] = c01Call{sym: "copy_item", result: "vals"}
	t.calls["uniqueKeys"] = c01Call{sym: "uniqueKeys", result: "keys"}
	t.calls["r.calculateBranch"] = c01Call{sym: "calculate_branch", state: "cm", result: "keys", fails: true, args: []int{1, 2, 3, 4}}
	inl, err := c01NewInl(repo, []string{"compose", "graph_run.go"}, "runner", recv, fn, func(c *ast.CallExpr) bool { _, _, ok := t.callOf(c); return ok })
	if err != nil {
		return "", "", err
	}
	code, err := t.function(inl.body(fn.Body.List), "    ")
	if err != nil {
		return "", "", err
	}
	var b strings.Builder
	b.WriteString("(* Gen/ResolveTasks.v — GENERATED by tools/go2v (extractor \"resolvetasks\") from compose/graph_run.go\n")
	b.WriteString("   (uniqueKeys, runner.resolveCompletedTasks, translated statement by statement). Do not edit. *)\n")
	b.WriteString("From Eino Require Import Base.Util Model.Graph Model.ImpGenLib Model.ResolveGenLib.\n\n")
	b.WriteString("Definition tie_available : bool := true.\n\n")
	fmt.Fprintf(&b, "Definition uniqueKeys (keys : list key) : list key :=\n  %s.\n\n", ukCode)
	fmt.Fprintf(&b, "Section Copy.\n  Variable V : Type.\n  Variable zero_value : V.\n  Definition copyItem (item : V) (n : nat) : list V :=\n    %s.\nEnd Copy.\n\n", ciCode)
	b.WriteString(c01ResolveSection)
	fmt.Fprintf(&b, "  Definition resolveCompletedTasks (completedTasks : list T) (isStream : bool) (cm : CM)\n      : res (wmap V * dmap * CM) :=\n    let _ := (zero_value, err_code) in\n    %s.\nEnd Gen.\n", code)
	return "ResolveTasks.v", b.String(), nil
}
