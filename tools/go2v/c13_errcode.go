package main

// Extractor "errcode" (property C13): the error constructors of compose/error.go
//     newGraphRunError, wrapGraphNodeError, newStreamWrapperError, wrapStreamWrapperError,
//     (*internalError).Unwrap, (*internalError).Error, the constants of internalErrorType,
// compose/interrupt.go:isInterruptError and internal/safe/panic.go (NewPanicErr, panicErr.Error),
// translated statement by statement into Gallina definitions over the error terms of
// Model/Errors.v and the vocabulary of Model/ErrorsGenLib.v.
//
// The translator is a small symbolic executor for the fragment these functions are written in:
//   statements   var x *internalError | x := E | x.f = E | _, ok := F(err) | if [init;] c {..} [else {..}]
//                | return E | ok := errors.As(err, &ie)  (splits the rest of the body in a match)
//   conditions   ! && || ( ) ok  x != nil  error(ie) != err  len(L) OP n  F(err)  errors.As / errors.Is
//   values       &internalError{typ:, streamWrapperPath:, nodePath:, origError:} (also through a local
//                variable whose fields are assigned afterwards), NodePath{path: L}, []T{..}, append(L, M...),
//                append(L, x, ..), ie.<field>, parameters, the constants of internalErrorType and defaultImplAction
//   Error()      sb := strings.Builder{} | sb.WriteString(S) | if c {..} | for j := 0; j < len(P)[-1]; j++ {..} |
//                return sb.String()   with S built from literals, +, string(..), i.typ, i.origError.Error(), P[j],
//                P[len(P)-1]
// A block that ends in a return is not continued; a block that does not is continued with the statements
// after the if (the continuation is duplicated in both branches), so in-place updates of a local record
// behind a condition translate without a join.  Anything outside the fragment (a write through the pointer
// errors.As found, a new statement kind, an unknown call) is "not recognised": the neutral Gen file is
// written and the tie is unavailable.  A recognised body with another meaning makes Proofs/GenAgreeErrors.v fail.
//
// Output: coq/Gen/ErrorCode.v.

import (
	"fmt"
	"go/ast"
	"go/parser"
	"go/token"
	"go/types"
	"path/filepath"
	"strconv"
	"strings"
)

// (helpers of this file only: every top-level identifier carries the prefix c13)

func c13ParseGo(fset *token.FileSet, repo string, rel ...string) (*ast.File, error) {
	return parser.ParseFile(fset, filepath.Join(append([]string{repo}, rel...)...), nil, 0)
}

func c13TopFunc(f *ast.File, name string) *ast.FuncDecl {
	for _, d := range f.Decls {
		if fn, ok := d.(*ast.FuncDecl); ok && fn.Recv == nil && fn.Name.Name == name {
			return fn
		}
	}
	return nil
}

func c13MethodOf(f *ast.File, recvType, name string) *ast.FuncDecl {
	for _, d := range f.Decls {
		fn, ok := d.(*ast.FuncDecl)
		if !ok || fn.Recv == nil || fn.Name.Name != name || len(fn.Recv.List) != 1 {
			continue
		}
		if st, ok := fn.Recv.List[0].Type.(*ast.StarExpr); ok {
			if id, ok := st.X.(*ast.Ident); ok && id.Name == recvType {
				return fn
			}
		}
	}
	return nil
}

func c13CoqStr(s string) string { return `"` + strings.ReplaceAll(s, `"`, `""`) + `"%string` }

const c13ErrcodeNeutral = "(* Gen/ErrorCode.v — translator tie UNAVAILABLE: tools/go2v (extractor \"errcode\") did not recognise the shape of\n" +
	"   compose/error.go / compose/interrupt.go:isInterruptError / internal/safe/panic.go; the model's own definitions are re-exported. *)\n" +
	"From Eino Require Import Base.Util Model.Errors Model.ErrorsGenLib.\n\n" +
	"Definition ityp_text (t : ityp) : string := Model.ErrorsGenLib.ityp_text t.\n" +
	"Definition isInterruptError (v_err : err) : bool := is_interrupt_error_gen true v_err.\n" +
	"Definition newGraphRunError (v_err : err) : err := new_graph_run_error v_err.\n" +
	"Definition wrapGraphNodeError (v_nodeKey : string) (v_err : err) : err := wrap_node v_nodeKey v_err.\n" +
	"Definition newStreamWrapperError (v_streamWrapperType : action) (v_err : err) : err := new_stream_wrapper_error v_streamWrapperType v_err.\n" +
	"Definition wrapStreamWrapperError (v_streamWrapperType : action) (v_err : err) : err := wrap_stream v_streamWrapperType v_err.\n" +
	"Definition internalError_Unwrap (v_i : ieptr) : option err := Some (ie_orig v_i).\n" +
	"Definition internalError_Error (errtext : err -> string) (v_i : ieptr) : string := internal_text errtext (ie_typ v_i) (ie_np v_i) (ie_orig v_i).\n" +
	"Definition newPanicErr (v_info : N) : err := PanicErr v_info.\n" +
	"Definition panicErr_Error_prints_info : bool := true.\n"

func init() {
	register("errcode", c13ExtractErrCode)
	registerFallback("errcode", "ErrorCode.v", c13ErrcodeNeutral)
}

// ---------------------------------------------------------------- symbolic values

type c13Bool struct {
	coq   string
	known int // -1 unknown, 0 false, 1 true
}

type c13Rec struct{ typ, sp, np, orig string } // fields of a local internalError ("" = not set)

type c13Env struct {
	errs   map[string]string  // error-typed parameters -> Gallina variable
	strs   map[string]string  // string-typed parameters
	acts   map[string]string  // defaultImplAction-typed parameters
	bools  map[string]c13Bool    // bool locals
	nonnil map[string]string  // locals compared with nil: the Gallina bool of "x != nil"
	ies    map[string]string  // *internalError locals: "" = declared, still nil; else the bound Gallina variable
	recs   map[string]*c13Rec // locals holding &internalError{...}
}

func c13NewEnv() *c13Env {
	return &c13Env{errs: map[string]string{}, strs: map[string]string{}, acts: map[string]string{}, bools: map[string]c13Bool{},
		nonnil: map[string]string{}, ies: map[string]string{}, recs: map[string]*c13Rec{}}
}

func (e *c13Env) copy() *c13Env {
	c := c13NewEnv()
	for k, v := range e.errs {
		c.errs[k] = v
	}
	for k, v := range e.strs {
		c.strs[k] = v
	}
	for k, v := range e.acts {
		c.acts[k] = v
	}
	for k, v := range e.bools {
		c.bools[k] = v
	}
	for k, v := range e.nonnil {
		c.nonnil[k] = v
	}
	for k, v := range e.ies {
		c.ies[k] = v
	}
	for k, v := range e.recs {
		r := *v
		c.recs[k] = &r
	}
	return c
}

type c13Tr struct {
	typConsts map[string]string // Go constant -> Gallina constructor of ityp
	actConsts map[string]string // Go constant -> Gallina constructor of action
	asSeq     int
}

func c13Ident(e ast.Expr) (string, bool) {
	id, ok := e.(*ast.Ident)
	if !ok {
		return "", false
	}
	return id.Name, true
}

func c13Unparen(e ast.Expr) ast.Expr {
	for {
		p, ok := e.(*ast.ParenExpr)
		if !ok {
			return e
		}
		e = p.X
	}
}

func c13CallOf(e ast.Expr) (fun string, args []ast.Expr, ok bool) {
	c, isCall := c13Unparen(e).(*ast.CallExpr)
	if !isCall {
		return "", nil, false
	}
	switch f := c.Fun.(type) {
	case *ast.Ident:
		return f.Name, c.Args, true
	case *ast.SelectorExpr:
		if x, ok := f.X.(*ast.Ident); ok {
			return x.Name + "." + f.Sel.Name, c.Args, true
		}
	}
	return "", nil, false
}

// errors.As(err, &ie) -> (Gallina variable of err, name of ie)
func (t *c13Tr) isErrorsAs(e ast.Expr, en *c13Env) (string, string, bool) {
	fun, args, ok := c13CallOf(e)
	if !ok || fun != "errors.As" || len(args) != 2 {
		return "", "", false
	}
	a0, ok := c13Ident(args[0])
	if !ok || en.errs[a0] == "" {
		return "", "", false
	}
	u, ok := args[1].(*ast.UnaryExpr)
	if !ok || u.Op != token.AND {
		return "", "", false
	}
	ie, ok := c13Ident(u.X)
	if !ok {
		return "", "", false
	}
	if _, declared := en.ies[ie]; !declared {
		return "", "", false
	}
	return en.errs[a0], ie, true
}

// selector chains  x.f  /  x.f.g  -> (x, [f, g])
func c13SelChain(e ast.Expr) (string, []string, bool) {
	var fs []string
	for {
		switch x := e.(type) {
		case *ast.SelectorExpr:
			fs = append([]string{x.Sel.Name}, fs...)
			e = x.X
		case *ast.Ident:
			return x.Name, fs, len(fs) > 0
		default:
			return "", nil, false
		}
	}
}

// field of an *internalError-valued local (bound ie / receiver / local record)
func (t *c13Tr) field(e ast.Expr, en *c13Env, want string) (string, bool, error) {
	x, fs, ok := c13SelChain(e)
	if !ok {
		return "", false, nil
	}
	path := strings.Join(fs, ".")
	var f string
	switch path {
	case "typ":
		f = "typ"
	case "streamWrapperPath":
		f = "sp"
	case "nodePath", "nodePath.path":
		f = "np"
	case "origError":
		f = "orig"
	default:
		return "", false, nil
	}
	if f != want {
		return "", false, nil
	}
	if v, isIe := en.ies[x]; isIe {
		if v == "" {
			return "", true, fmt.Errorf("%s is read while %s is still nil", types.ExprString(e), x)
		}
		return "(ie_" + f + " " + v + ")", true, nil
	}
	if r, isRec := en.recs[x]; isRec {
		var s string
		switch f {
		case "typ":
			s = r.typ
		case "sp":
			s = r.sp
		case "np":
			s = r.np
		case "orig":
			s = r.orig
		}
		if s == "" {
			if f == "sp" || f == "np" {
				return "[]", true, nil
			}
			return "", true, fmt.Errorf("%s is read before it is set", types.ExprString(e))
		}
		return s, true, nil
	}
	return "", false, nil
}

func (t *c13Tr) evalTyp(e ast.Expr, en *c13Env) (string, error) {
	e = c13Unparen(e)
	if n, ok := c13Ident(e); ok && t.typConsts[n] != "" {
		return t.typConsts[n], nil
	}
	if s, ok, err := t.field(e, en, "typ"); ok {
		return s, err
	}
	return "", fmt.Errorf("internalErrorType value %s is outside the translated fragment", types.ExprString(e))
}

func (t *c13Tr) evalAct(e ast.Expr, en *c13Env) (string, error) {
	e = c13Unparen(e)
	if n, ok := c13Ident(e); ok {
		if en.acts[n] != "" {
			return en.acts[n], nil
		}
		if t.actConsts[n] != "" {
			return t.actConsts[n], nil
		}
	}
	return "", fmt.Errorf("defaultImplAction value %s is outside the translated fragment", types.ExprString(e))
}

func (t *c13Tr) evalStr(e ast.Expr, en *c13Env) (string, error) {
	e = c13Unparen(e)
	if n, ok := c13Ident(e); ok && en.strs[n] != "" {
		return en.strs[n], nil
	}
	if bl, ok := e.(*ast.BasicLit); ok && bl.Kind == token.STRING {
		s, err := strconv.Unquote(bl.Value)
		if err != nil {
			return "", err
		}
		return c13CoqStrNL(s)
	}
	return "", fmt.Errorf("string value %s is outside the translated fragment", types.ExprString(e))
}

// a Go string as a Gallina string expression (newlines through [nl]; printable ASCII only)
func c13CoqStrNL(s string) (string, error) {
	for _, r := range s {
		if r != '\n' && (r < 32 || r > 126) {
			return "", fmt.Errorf("string literal %q has characters outside printable ASCII", s)
		}
	}
	parts := strings.Split(s, "\n")
	var out []string
	for i, p := range parts {
		if p != "" {
			out = append(out, c13CoqStr(p))
		}
		if i+1 < len(parts) {
			out = append(out, "nl")
		}
	}
	if len(out) == 0 {
		return `""%string`, nil
	}
	if len(out) == 1 {
		return out[0], nil
	}
	return "(" + strings.Join(out, " ++ ") + ")", nil
}

// list values of kind "act" ([]defaultImplAction) or "str" ([]string)
func (t *c13Tr) evalList(e ast.Expr, en *c13Env, kind string) (string, error) {
	e = c13Unparen(e)
	elem := func(x ast.Expr) (string, error) {
		if kind == "act" {
			return t.evalAct(x, en)
		}
		return t.evalStr(x, en)
	}
	if n, ok := c13Ident(e); ok && n == "nil" {
		return "[]", nil
	}
	if cl, ok := e.(*ast.CompositeLit); ok {
		at, ok := cl.Type.(*ast.ArrayType)
		if !ok || at.Len != nil {
			return "", fmt.Errorf("composite literal %s is not a slice", types.ExprString(e))
		}
		et, _ := c13Ident(at.Elt)
		if (kind == "act" && et != "defaultImplAction") || (kind == "str" && et != "string") {
			return "", fmt.Errorf("slice literal %s has the wrong element type", types.ExprString(e))
		}
		var xs []string
		for _, x := range cl.Elts {
			s, err := elem(x)
			if err != nil {
				return "", err
			}
			xs = append(xs, s)
		}
		return "[" + strings.Join(xs, "; ") + "]", nil
	}
	if c, ok := e.(*ast.CallExpr); ok {
		if f, ok := c13Ident(c.Fun); ok && f == "append" && len(c.Args) >= 1 {
			base, err := t.evalList(c.Args[0], en, kind)
			if err != nil {
				return "", err
			}
			if c.Ellipsis != token.NoPos {
				if len(c.Args) != 2 {
					return "", fmt.Errorf("append with a spread argument and %d arguments", len(c.Args))
				}
				more, err := t.evalList(c.Args[1], en, kind)
				if err != nil {
					return "", err
				}
				return "(" + base + " ++ " + more + ")", nil
			}
			var xs []string
			for _, x := range c.Args[1:] {
				s, err := elem(x)
				if err != nil {
					return "", err
				}
				xs = append(xs, s)
			}
			return "(" + base + " ++ [" + strings.Join(xs, "; ") + "])", nil
		}
	}
	want := "sp"
	if kind == "str" {
		want = "np"
	}
	if x, fs, ok := c13SelChain(e); ok {
		// ie.nodePath (a NodePath) is not a []string: only .path is
		if kind == "str" && strings.Join(fs, ".") != "nodePath.path" {
			return "", fmt.Errorf("[]string value %s is outside the translated fragment", types.ExprString(e))
		}
		_ = x
		if s, ok, err := t.field(e, en, want); ok {
			return s, err
		}
	}
	return "", fmt.Errorf("slice value %s is outside the translated fragment", types.ExprString(e))
}

// NodePath values -> the []string inside
func (t *c13Tr) evalNodePath(e ast.Expr, en *c13Env) (string, error) {
	e = c13Unparen(e)
	if cl, ok := e.(*ast.CompositeLit); ok {
		if n, ok := c13Ident(cl.Type); !ok || n != "NodePath" {
			return "", fmt.Errorf("%s is not a NodePath literal", types.ExprString(e))
		}
		if len(cl.Elts) == 0 {
			return "[]", nil
		}
		if len(cl.Elts) == 1 {
			if kv, ok := cl.Elts[0].(*ast.KeyValueExpr); ok {
				if k, ok := c13Ident(kv.Key); ok && k == "path" {
					return t.evalList(kv.Value, en, "str")
				}
			}
		}
		return "", fmt.Errorf("NodePath literal %s is outside the translated fragment", types.ExprString(e))
	}
	if _, fs, ok := c13SelChain(e); ok && strings.Join(fs, ".") == "nodePath" {
		if s, ok, err := t.field(e, en, "np"); ok {
			return s, err
		}
	}
	return "", fmt.Errorf("NodePath value %s is outside the translated fragment", types.ExprString(e))
}

// &internalError{...} / internalError{...}
func (t *c13Tr) evalRecLit(e ast.Expr, en *c13Env) (*c13Rec, bool, error) {
	e = c13Unparen(e)
	if u, ok := e.(*ast.UnaryExpr); ok && u.Op == token.AND {
		e = u.X
	}
	cl, ok := e.(*ast.CompositeLit)
	if !ok {
		return nil, false, nil
	}
	if n, ok := c13Ident(cl.Type); !ok || n != "internalError" {
		return nil, false, nil
	}
	r := &c13Rec{}
	for _, el := range cl.Elts {
		kv, ok := el.(*ast.KeyValueExpr)
		if !ok {
			return nil, true, fmt.Errorf("internalError literal without field names")
		}
		k, _ := c13Ident(kv.Key)
		var err error
		switch k {
		case "typ":
			r.typ, err = t.evalTyp(kv.Value, en)
		case "streamWrapperPath":
			r.sp, err = t.evalList(kv.Value, en, "act")
		case "nodePath":
			r.np, err = t.evalNodePath(kv.Value, en)
		case "origError":
			r.orig, err = t.evalErr(kv.Value, en)
		default:
			err = fmt.Errorf("internalError literal sets the unknown field %s", k)
		}
		if err != nil {
			return nil, true, err
		}
	}
	return r, true, nil
}

func (r *c13Rec) coq() (string, error) {
	if r.typ == "" {
		return "", fmt.Errorf("an internalError is used whose typ is never set (the zero internalErrorType is none of the model's)")
	}
	if r.orig == "" {
		return "", fmt.Errorf("an internalError is used whose origError is never set")
	}
	sp, np := r.sp, r.np
	if sp == "" {
		sp = "[]"
	}
	if np == "" {
		np = "[]"
	}
	return "(Internal " + r.typ + " " + sp + " " + np + " " + r.orig + ")", nil
}

// error-typed values
func (t *c13Tr) evalErr(e ast.Expr, en *c13Env) (string, error) {
	e = c13Unparen(e)
	if n, ok := c13Ident(e); ok {
		if en.errs[n] != "" {
			return en.errs[n], nil
		}
		if r, ok := en.recs[n]; ok {
			return r.coq()
		}
		if v, ok := en.ies[n]; ok {
			if v == "" {
				return "", fmt.Errorf("%s is used as an error while it is still nil", n)
			}
			return "(ie_err " + v + ")", nil
		}
	}
	if f, args, ok := c13CallOf(e); ok && f == "error" && len(args) == 1 {
		return t.evalErr(args[0], en)
	}
	if r, ok, err := t.evalRecLit(e, en); ok {
		if err != nil {
			return "", err
		}
		return r.coq()
	}
	if s, ok, err := t.field(e, en, "orig"); ok {
		return s, err
	}
	return "", fmt.Errorf("error value %s is outside the translated fragment", types.ExprString(e))
}

func c13Not(b c13Bool) c13Bool {
	switch b.known {
	case 0:
		return c13Bool{"true", 1}
	case 1:
		return c13Bool{"false", 0}
	}
	if strings.HasPrefix(b.coq, "(negb ") {
		return c13Bool{strings.TrimSuffix(strings.TrimPrefix(b.coq, "(negb "), ")"), -1}
	}
	return c13Bool{"(negb " + b.coq + ")", -1}
}

// sentinel targets of errors.Is
var c13ErrcodeSentinels = map[string]string{
	"InterruptAndRerun": "go_interrupt_and_rerun",
	"ErrExceedMaxSteps": "(Leaf id_exceed)",
}

func (t *c13Tr) evalLen(e ast.Expr, en *c13Env) (string, bool) {
	f, args, ok := c13CallOf(e)
	if !ok || f != "len" || len(args) != 1 {
		return "", false
	}
	for _, k := range []string{"str", "act"} {
		if s, err := t.evalList(args[0], en, k); err == nil {
			return "(List.length " + s + ")", true
		}
	}
	return "", false
}

func (t *c13Tr) evalBool(e ast.Expr, en *c13Env) (c13Bool, error) {
	e = c13Unparen(e)
	switch x := e.(type) {
	case *ast.Ident:
		switch x.Name {
		case "true":
			return c13Bool{"true", 1}, nil
		case "false":
			return c13Bool{"false", 0}, nil
		}
		if b, ok := en.bools[x.Name]; ok {
			return b, nil
		}
	case *ast.UnaryExpr:
		if x.Op == token.NOT {
			b, err := t.evalBool(x.X, en)
			if err != nil {
				return c13Bool{}, err
			}
			return c13Not(b), nil
		}
	case *ast.BinaryExpr:
		switch x.Op {
		case token.LAND, token.LOR:
			l, err := t.evalBool(x.X, en)
			if err != nil {
				return c13Bool{}, err
			}
			r, err := t.evalBool(x.Y, en)
			if err != nil {
				return c13Bool{}, err
			}
			if x.Op == token.LAND {
				switch {
				case l.known == 0 || r.known == 0:
					return c13Bool{"false", 0}, nil
				case l.known == 1:
					return r, nil
				case r.known == 1:
					return l, nil
				}
				return c13Bool{"(" + l.coq + " && " + r.coq + ")", -1}, nil
			}
			switch {
			case l.known == 1 || r.known == 1:
				return c13Bool{"true", 1}, nil
			case l.known == 0:
				return r, nil
			case r.known == 0:
				return l, nil
			}
			return c13Bool{"(" + l.coq + " || " + r.coq + ")", -1}, nil
		case token.EQL, token.NEQ:
			pos := func(b c13Bool) c13Bool {
				if x.Op == token.NEQ {
					return c13Not(b)
				}
				return b
			}
			// x == nil / x != nil
			for _, p := range [][2]ast.Expr{{x.X, x.Y}, {x.Y, x.X}} {
				if n, ok := c13Ident(c13Unparen(p[1])); ok && n == "nil" {
					if v, ok := c13Ident(c13Unparen(p[0])); ok {
						if s, ok := en.nonnil[v]; ok {
							return pos(c13Not(c13Bool{s, -1})), nil
						}
						if b, ok := en.ies[v]; ok {
							if b == "" {
								return pos(c13Bool{"true", 1}), nil
							}
							return pos(c13Bool{"false", 0}), nil
						}
					}
				}
			}
			// error(ie) == err / ie == err: pointer identity of the wrapper found with the error given
			for _, p := range [][2]ast.Expr{{x.X, x.Y}, {x.Y, x.X}} {
				a := c13Unparen(p[0])
				if f, args, ok := c13CallOf(a); ok && f == "error" && len(args) == 1 {
					a = c13Unparen(args[0])
				}
				ie, ok1 := c13Ident(a)
				er, ok2 := c13Ident(c13Unparen(p[1]))
				if ok1 && ok2 && en.errs[er] != "" {
					if v, ok := en.ies[ie]; ok {
						if v == "" {
							return c13Bool{}, fmt.Errorf("%s compares a nil *internalError", types.ExprString(e))
						}
						if !strings.HasPrefix(v, "v_") || !strings.HasSuffix(v, "_of_"+en.errs[er]) {
							return c13Bool{}, fmt.Errorf("%s compares a wrapper found on another error", types.ExprString(e))
						}
						return pos(c13Bool{"(ie_self " + v + ")", -1}), nil
					}
				}
			}
			// typ == constant
			if l, err := t.evalTyp(x.X, en); err == nil {
				if r, err := t.evalTyp(x.Y, en); err == nil {
					return pos(c13Bool{"(ityp_eqb " + l + " " + r + ")", -1}), nil
				}
			}
		}
		// len(L) OP n
		if l, ok := t.evalLen(x.X, en); ok {
			if bl, ok := c13Unparen(x.Y).(*ast.BasicLit); ok && bl.Kind == token.INT {
				n := "(" + bl.Value + ")%nat"
				switch x.Op {
				case token.GTR:
					return c13Bool{"(Nat.ltb " + n + " " + l + ")", -1}, nil
				case token.GEQ:
					return c13Bool{"(Nat.leb " + n + " " + l + ")", -1}, nil
				case token.LSS:
					return c13Bool{"(Nat.ltb " + l + " " + n + ")", -1}, nil
				case token.LEQ:
					return c13Bool{"(Nat.leb " + l + " " + n + ")", -1}, nil
				case token.EQL:
					return c13Bool{"(Nat.eqb " + l + " " + n + ")", -1}, nil
				case token.NEQ:
					return c13Bool{"(negb (Nat.eqb " + l + " " + n + "))", -1}, nil
				}
			}
		}
	case *ast.CallExpr:
		f, args, ok := c13CallOf(x)
		if ok && len(args) >= 1 {
			a0, isId := c13Ident(c13Unparen(args[0]))
			if isId && en.errs[a0] != "" {
				switch {
				case f == "isInterruptError" && len(args) == 1:
					return c13Bool{"(isInterruptError " + en.errs[a0] + ")", -1}, nil
				case f == "errors.Is" && len(args) == 2:
					if tg, ok := c13Ident(c13Unparen(args[1])); ok && c13ErrcodeSentinels[tg] != "" {
						return c13Bool{"(go_errors_is " + c13ErrcodeSentinels[tg] + " " + en.errs[a0] + ")", -1}, nil
					}
				}
			}
		}
	}
	return c13Bool{}, fmt.Errorf("condition %s is outside the translated fragment", types.ExprString(e))
}

// ---------------------------------------------------------------- statements

type c13RetKind int

const (
	c13RetErr c13RetKind = iota
	c13RetBool
	c13RetOptErr
)

func (t *c13Tr) evalRet(e ast.Expr, en *c13Env, k c13RetKind) (string, error) {
	switch k {
	case c13RetBool:
		b, err := t.evalBool(e, en)
		return b.coq, err
	case c13RetOptErr:
		if n, ok := c13Ident(c13Unparen(e)); ok && n == "nil" {
			return "None", nil
		}
		s, err := t.evalErr(e, en)
		return "(Some " + s + ")", err
	}
	return t.evalErr(e, en)
}

// one "simple" statement (assignment / declaration); returns handled=false for anything else.
// A statement  ok := errors.As(err, &ie)  is reported through asSplit.
func (t *c13Tr) simple(s ast.Stmt, en *c13Env) (handled bool, asSplit *[3]string, err error) {
	switch x := s.(type) {
	case *ast.DeclStmt:
		gd, ok := x.Decl.(*ast.GenDecl)
		if !ok || gd.Tok != token.VAR || len(gd.Specs) != 1 {
			return false, nil, nil
		}
		vs := gd.Specs[0].(*ast.ValueSpec)
		if len(vs.Names) != 1 || len(vs.Values) != 0 || types.ExprString(vs.Type) != "*internalError" {
			return true, nil, fmt.Errorf("declaration %s is outside the translated fragment", vs.Names[0].Name)
		}
		en.ies[vs.Names[0].Name] = ""
		return true, nil, nil
	case *ast.AssignStmt:
		// _, ok := ExtractInterruptInfo(err)
		if len(x.Lhs) == 2 && len(x.Rhs) == 1 && x.Tok == token.DEFINE {
			l0, _ := c13Ident(x.Lhs[0])
			l1, _ := c13Ident(x.Lhs[1])
			if f, args, ok := c13CallOf(x.Rhs[0]); ok && f == "ExtractInterruptInfo" && len(args) == 1 && l0 == "_" && l1 != "" {
				if a, ok := c13Ident(args[0]); ok && en.errs[a] != "" {
					en.bools[l1] = c13Bool{"(go_extract_interrupt " + en.errs[a] + ")", -1}
					return true, nil, nil
				}
			}
			return true, nil, fmt.Errorf("assignment %s is outside the translated fragment", types.ExprString(x.Rhs[0]))
		}
		if len(x.Lhs) != 1 || len(x.Rhs) != 1 {
			return true, nil, fmt.Errorf("assignment with %d targets", len(x.Lhs))
		}
		// x.f = E on a local record
		if v, fs, ok := c13SelChain(x.Lhs[0]); ok && x.Tok == token.ASSIGN {
			r, isRec := en.recs[v]
			if !isRec {
				return true, nil, fmt.Errorf("assignment through %s (not a local internalError of this function: a write through a shared pointer has no meaning on the model's values)", v)
			}
			var e2 error
			switch strings.Join(fs, ".") {
			case "typ":
				r.typ, e2 = t.evalTyp(x.Rhs[0], en)
			case "streamWrapperPath":
				r.sp, e2 = t.evalList(x.Rhs[0], en, "act")
			case "nodePath":
				r.np, e2 = t.evalNodePath(x.Rhs[0], en)
			case "nodePath.path":
				r.np, e2 = t.evalList(x.Rhs[0], en, "str")
			case "origError":
				r.orig, e2 = t.evalErr(x.Rhs[0], en)
			default:
				e2 = fmt.Errorf("assignment to the unknown field %s", strings.Join(fs, "."))
			}
			return true, nil, e2
		}
		lhs, ok := c13Ident(x.Lhs[0])
		if !ok {
			return true, nil, fmt.Errorf("assignment target %s is outside the translated fragment", types.ExprString(x.Lhs[0]))
		}
		// ok := errors.As(err, &ie)
		if ev, ie, ok := t.isErrorsAs(x.Rhs[0], en); ok {
			return true, &[3]string{ev, ie, lhs}, nil
		}
		// x := &internalError{...}
		if r, ok, err := t.evalRecLit(x.Rhs[0], en); ok {
			if err != nil {
				return true, nil, err
			}
			en.recs[lhs] = r
			return true, nil, nil
		}
		// info := isSubGraphInterrupt(err)
		if f, args, ok := c13CallOf(x.Rhs[0]); ok && f == "isSubGraphInterrupt" && len(args) == 1 {
			if a, ok := c13Ident(args[0]); ok && en.errs[a] != "" {
				en.nonnil[lhs] = "(go_is_sub_interrupt " + en.errs[a] + ")"
				return true, nil, nil
			}
		}
		// ok := <condition>
		if b, err := t.evalBool(x.Rhs[0], en); err == nil {
			en.bools[lhs] = b
			return true, nil, nil
		}
		return true, nil, fmt.Errorf("assignment %s := %s is outside the translated fragment", lhs, types.ExprString(x.Rhs[0]))
	}
	return false, nil, nil
}

// the match errors.As splits the continuation in
func (t *c13Tr) asMatch(ev, ie, okVar string, en *c13Env, ind string, cont func(en *c13Env, ind string) (string, error)) (string, error) {
	bound := "v_" + ie + "_of_" + ev
	some := en.copy()
	some.ies[ie] = bound
	none := en.copy()
	if okVar != "" {
		some.bools[okVar] = c13Bool{"true", 1}
		none.bools[okVar] = c13Bool{"false", 0}
	}
	s, err := cont(some, ind+"    ")
	if err != nil {
		return "", err
	}
	n, err := cont(none, ind+"    ")
	if err != nil {
		return "", err
	}
	return "match go_errors_as_internal " + ev + " with\n" + ind + "| Some " + bound + " =>\n" + ind + "    " + s + "\n" + ind + "| None =>\n" + ind + "    " + n + "\n" + ind + "end", nil
}

// does the condition contain errors.As (possibly under ! and parentheses)?
func (t *c13Tr) condAs(e ast.Expr, en *c13Env) (ev, ie string, neg, ok bool) {
	e = c13Unparen(e)
	for {
		u, isNot := e.(*ast.UnaryExpr)
		if !isNot || u.Op != token.NOT {
			break
		}
		neg = !neg
		e = c13Unparen(u.X)
	}
	ev, ie, ok = t.isErrorsAs(e, en)
	return
}

func (t *c13Tr) exec(l []ast.Stmt, en *c13Env, k c13RetKind, ind string) (string, error) {
	if len(l) == 0 {
		return "", fmt.Errorf("control reaches the end of the function without a return")
	}
	rest := l[1:]
	switch x := l[0].(type) {
	case *ast.ReturnStmt:
		if len(x.Results) != 1 {
			return "", fmt.Errorf("return with %d results", len(x.Results))
		}
		return t.evalRet(x.Results[0], en, k)
	case *ast.IfStmt:
		en = en.copy()
		if x.Init != nil {
			handled, as, err := t.simple(x.Init, en)
			if err != nil {
				return "", err
			}
			if !handled {
				return "", fmt.Errorf("if with an init statement outside the translated fragment")
			}
			if as != nil {
				noInit := *x
				noInit.Init = nil
				return t.asMatch(as[0], as[1], as[2], en, ind, func(e2 *c13Env, i2 string) (string, error) {
					return t.exec(append([]ast.Stmt{&noInit}, rest...), e2, k, i2)
				})
			}
		}
		if ev, ie, neg, ok := t.condAs(x.Cond, en); ok {
			t.asSeq++
			hidden := fmt.Sprintf("$as%d", t.asSeq)
			var cond ast.Expr = &ast.Ident{Name: hidden}
			if neg {
				cond = &ast.UnaryExpr{Op: token.NOT, X: cond}
			}
			plain := *x
			plain.Init, plain.Cond = nil, cond
			return t.asMatch(ev, ie, hidden, en, ind, func(e2 *c13Env, i2 string) (string, error) {
				return t.exec(append([]ast.Stmt{&plain}, rest...), e2, k, i2)
			})
		}
		c, err := t.evalBool(x.Cond, en)
		if err != nil {
			return "", err
		}
		var elseL []ast.Stmt
		switch e := x.Else.(type) {
		case nil:
		case *ast.BlockStmt:
			elseL = e.List
		case *ast.IfStmt:
			elseL = []ast.Stmt{e}
		}
		thenAll := append(append([]ast.Stmt{}, x.Body.List...), rest...)
		elseAll := append(append([]ast.Stmt{}, elseL...), rest...)
		switch c.known {
		case 1:
			return t.exec(thenAll, en, k, ind)
		case 0:
			return t.exec(elseAll, en, k, ind)
		}
		th, err := t.exec(thenAll, en.copy(), k, ind+"  ")
		if err != nil {
			return "", err
		}
		el, err := t.exec(elseAll, en.copy(), k, ind+"  ")
		if err != nil {
			return "", err
		}
		if strings.HasPrefix(th, "if ") || strings.HasPrefix(th, "match ") {
			th = "(" + th + ")"
		}
		if strings.HasPrefix(el, "match ") {
			el = "(" + el + ")"
		}
		return "if " + c.coq + " then " + th + "\n" + ind + "else " + el, nil
	}
	handled, as, err := t.simple(l[0], en)
	if err != nil {
		return "", err
	}
	if !handled {
		return "", fmt.Errorf("statement outside the translated fragment (%T)", l[0])
	}
	if as != nil {
		return t.asMatch(as[0], as[1], as[2], en, ind, func(e2 *c13Env, i2 string) (string, error) {
			return t.exec(rest, e2, k, i2)
		})
	}
	return t.exec(rest, en, k, ind)
}

// ---------------------------------------------------------------- Error(): a string builder

type c13SbTr struct {
	t    *c13Tr
	en   *c13Env
	recv string            // receiver name
	sb   string            // name of the strings.Builder local
	idx  map[string]string // loop index variable -> Gallina variable standing for P[j]
	idxP map[string]string // loop index variable -> the Go text of P
}

func (s *c13SbTr) str(e ast.Expr) (string, error) {
	e = c13Unparen(e)
	switch x := e.(type) {
	case *ast.BasicLit:
		if x.Kind == token.STRING {
			v, err := strconv.Unquote(x.Value)
			if err != nil {
				return "", err
			}
			return c13CoqStrNL(v)
		}
	case *ast.BinaryExpr:
		if x.Op == token.ADD {
			l, err := s.str(x.X)
			if err != nil {
				return "", err
			}
			r, err := s.str(x.Y)
			if err != nil {
				return "", err
			}
			return "(" + l + " ++ " + r + ")", nil
		}
	case *ast.CallExpr:
		if f, args, ok := c13CallOf(x); ok && f == "string" && len(args) == 1 {
			return s.str(args[0])
		}
		// i.origError.Error()
		if sel, ok := x.Fun.(*ast.SelectorExpr); ok && sel.Sel.Name == "Error" && len(x.Args) == 0 {
			if o, ok, err := s.t.field(sel.X, s.en, "orig"); ok {
				if err != nil {
					return "", err
				}
				return "(errtext " + o + ")", nil
			}
		}
	case *ast.SelectorExpr:
		if ty, ok, err := s.t.field(x, s.en, "typ"); ok {
			if err != nil {
				return "", err
			}
			return "(ityp_text " + ty + ")", nil
		}
	case *ast.IndexExpr:
		p, err := s.t.evalList(x.X, s.en, "str")
		if err != nil {
			return "", err
		}
		// P[j] inside a loop over P
		if j, ok := c13Ident(c13Unparen(x.Index)); ok && s.idx[j] != "" {
			if s.idxP[j] != types.ExprString(x.X) {
				return "", fmt.Errorf("%s indexes another slice than the loop runs over", types.ExprString(e))
			}
			return s.idx[j], nil
		}
		// P[len(P)-1]
		if b, ok := c13Unparen(x.Index).(*ast.BinaryExpr); ok && b.Op == token.SUB {
			if one, ok := b.Y.(*ast.BasicLit); ok && one.Value == "1" {
				if f, args, ok := c13CallOf(b.X); ok && f == "len" && len(args) == 1 && types.ExprString(args[0]) == types.ExprString(x.X) {
					return "(go_last " + p + ")", nil
				}
			}
		}
	}
	return "", fmt.Errorf("string expression %s is outside the translated fragment", types.ExprString(e))
}

// the text a statement list appends to the builder
func (s *c13SbTr) appended(l []ast.Stmt) (string, error) {
	var parts []string
	for _, st := range l {
		switch x := st.(type) {
		case *ast.ExprStmt:
			c, ok := x.X.(*ast.CallExpr)
			if !ok {
				return "", fmt.Errorf("expression statement outside the translated fragment")
			}
			sel, ok := c.Fun.(*ast.SelectorExpr)
			if !ok || sel.Sel.Name != "WriteString" || len(c.Args) != 1 {
				return "", fmt.Errorf("call %s is outside the translated fragment", types.ExprString(c.Fun))
			}
			if n, ok := c13Ident(sel.X); !ok || n != s.sb {
				return "", fmt.Errorf("WriteString on something else than the builder")
			}
			v, err := s.str(c.Args[0])
			if err != nil {
				return "", err
			}
			parts = append(parts, v)
		case *ast.IfStmt:
			if x.Init != nil || x.Else != nil {
				return "", fmt.Errorf("if with init / else in Error()")
			}
			c, err := s.t.evalBool(x.Cond, s.en)
			if err != nil {
				return "", err
			}
			b, err := s.appended(x.Body.List)
			if err != nil {
				return "", err
			}
			parts = append(parts, "(if "+c.coq+" then "+b+" else \"\"%string)")
		case *ast.ForStmt:
			// for j := 0; j < len(P)[-1]; j++ { ... }
			as, ok := x.Init.(*ast.AssignStmt)
			if !ok || as.Tok != token.DEFINE || len(as.Lhs) != 1 || len(as.Rhs) != 1 {
				return "", fmt.Errorf("for loop outside the translated fragment")
			}
			j, _ := c13Ident(as.Lhs[0])
			if z, ok := as.Rhs[0].(*ast.BasicLit); !ok || z.Value != "0" || j == "" {
				return "", fmt.Errorf("for loop does not start at 0")
			}
			inc, ok := x.Post.(*ast.IncDecStmt)
			if jn, _ := c13Ident(inc.X); !ok || inc.Tok != token.INC || jn != j {
				return "", fmt.Errorf("for loop does not step by one")
			}
			cond, ok := x.Cond.(*ast.BinaryExpr)
			if cj, _ := c13Ident(cond.X); !ok || cond.Op != token.LSS || cj != j {
				return "", fmt.Errorf("for loop condition outside the translated fragment")
			}
			bound := c13Unparen(cond.Y)
			dropLast := false
			if b, ok := bound.(*ast.BinaryExpr); ok && b.Op == token.SUB {
				if one, ok := b.Y.(*ast.BasicLit); ok && one.Value == "1" {
					dropLast, bound = true, c13Unparen(b.X)
				}
			}
			f, args, ok := c13CallOf(bound)
			if !ok || f != "len" || len(args) != 1 {
				return "", fmt.Errorf("for loop bound outside the translated fragment")
			}
			p, err := s.t.evalList(args[0], s.en, "str")
			if err != nil {
				return "", err
			}
			xv := "x_" + j
			s.idx[j], s.idxP[j] = xv, types.ExprString(args[0])
			b, err := s.appended(x.Body.List)
			delete(s.idx, j)
			delete(s.idxP, j)
			if err != nil {
				return "", err
			}
			over := p
			if dropLast {
				over = "(removelast " + p + ")"
			}
			parts = append(parts, "(go_concat_map (fun "+xv+" => "+b+") "+over+")")
		default:
			return "", fmt.Errorf("statement outside the translated fragment in Error() (%T)", st)
		}
	}
	if len(parts) == 0 {
		return `""%string`, nil
	}
	return strings.Join(parts, " ++ "), nil
}

func (t *c13Tr) errorMethod(fn *ast.FuncDecl) (string, error) {
	l := fn.Body.List
	if len(l) < 2 {
		return "", fmt.Errorf("Error(): body too short")
	}
	recv := fn.Recv.List[0].Names[0].Name
	en := c13NewEnv()
	en.ies[recv] = "v_i"
	s := &c13SbTr{t: t, en: en, recv: recv, idx: map[string]string{}, idxP: map[string]string{}}
	// sb := strings.Builder{}
	as, ok := l[0].(*ast.AssignStmt)
	if !ok || as.Tok != token.DEFINE || len(as.Lhs) != 1 || len(as.Rhs) != 1 || types.ExprString(as.Rhs[0]) != "strings.Builder{}" {
		return "", fmt.Errorf("Error(): does not start with a strings.Builder")
	}
	s.sb, _ = c13Ident(as.Lhs[0])
	// return sb.String()
	ret, ok := l[len(l)-1].(*ast.ReturnStmt)
	if !ok || len(ret.Results) != 1 || types.ExprString(ret.Results[0]) != s.sb+".String()" {
		return "", fmt.Errorf("Error(): does not end with return %s.String()", s.sb)
	}
	return s.appended(l[1 : len(l)-1])
}

// ---------------------------------------------------------------- the extractor

func c13ConstsOfType(f *ast.File, typ string) map[string]string {
	out := map[string]string{}
	for _, d := range f.Decls {
		gd, ok := d.(*ast.GenDecl)
		if !ok || gd.Tok != token.CONST {
			continue
		}
		for _, sp := range gd.Specs {
			vs := sp.(*ast.ValueSpec)
			if len(vs.Names) != 1 || len(vs.Values) != 1 {
				continue
			}
			bl, ok := vs.Values[0].(*ast.BasicLit)
			if !ok || bl.Kind != token.STRING {
				continue
			}
			if vs.Type != nil && types.ExprString(vs.Type) != typ {
				continue
			}
			if vs.Type == nil && typ != "" {
				// untyped string constants: accepted for internalErrorType by name prefix below
			}
			v, _ := strconv.Unquote(bl.Value)
			out[vs.Names[0].Name] = v
		}
	}
	return out
}

func (t *c13Tr) function(f *ast.File, name string, params []string, k c13RetKind) (string, error) {
	fn := c13TopFunc(f, name)
	if fn == nil || fn.Body == nil {
		return "", fmt.Errorf("func %s not found", name)
	}
	var got []string
	en := c13NewEnv()
	for _, fl := range fn.Type.Params.List {
		ty := types.ExprString(fl.Type)
		for _, n := range fl.Names {
			got = append(got, n.Name+" "+ty)
			switch ty {
			case "error":
				en.errs[n.Name] = "v_" + n.Name
			case "string":
				en.strs[n.Name] = "v_" + n.Name
			case "defaultImplAction":
				en.acts[n.Name] = "v_" + n.Name
			}
		}
	}
	if strings.Join(got, ", ") != strings.Join(params, ", ") {
		return "", fmt.Errorf("%s: parameters (%s), expected (%s)", name, strings.Join(got, ", "), strings.Join(params, ", "))
	}
	body, err := t.exec(fn.Body.List, en, k, "  ")
	if err != nil {
		return "", fmt.Errorf("%s: %v", name, err)
	}
	return body, nil
}

func c13ExtractErrCode(repo string) (string, string, error) {
	fset := token.NewFileSet()
	fe, err := c13ParseGo(fset, repo, "compose", "error.go")
	if err != nil {
		return "", "", err
	}
	fi, err := c13ParseGo(fset, repo, "compose", "interrupt.go")
	if err != nil {
		return "", "", err
	}
	fp, err := c13ParseGo(fset, repo, "internal", "safe", "panic.go")
	if err != nil {
		return "", "", err
	}
	t := &c13Tr{typConsts: map[string]string{}, actConsts: map[string]string{}}
	// the constants of defaultImplAction: actionXByY = "XByY" -> constructor XByY
	known := map[string]bool{}
	for _, a := range []string{"InvokeByStream", "InvokeByCollect", "InvokeByTransform", "StreamByInvoke", "StreamByTransform", "StreamByCollect",
		"CollectByTransform", "CollectByInvoke", "CollectByStream", "TransformByStream", "TransformByCollect", "TransformByInvoke"} {
		known[a] = true
	}
	for n, v := range c13ConstsOfType(fe, "defaultImplAction") {
		if known[v] {
			t.actConsts[n] = v
		}
	}
	// the constants of internalErrorType
	typText := map[string]string{}
	for n, v := range c13ConstsOfType(fe, "") {
		if strings.HasPrefix(n, "internalErrorType") {
			c := strings.TrimPrefix(n, "internalErrorType") + "Error"
			if c != "NodeRunError" && c != "GraphRunError" {
				return "", "", fmt.Errorf("internalErrorType constant %s is none of the model's two", n)
			}
			t.typConsts[n] = c
			typText[c] = v
		}
	}
	if len(typText) != 2 {
		return "", "", fmt.Errorf("internalErrorType has %d constants, the model knows 2", len(typText))
	}
	for _, v := range typText {
		if _, err := c13CoqStrNL(v); err != nil {
			return "", "", err
		}
	}

	isInt, err := t.function(fi, "isInterruptError", []string{"err error"}, c13RetBool)
	if err != nil {
		return "", "", err
	}
	newG, err := t.function(fe, "newGraphRunError", []string{"err error"}, c13RetErr)
	if err != nil {
		return "", "", err
	}
	wrapN, err := t.function(fe, "wrapGraphNodeError", []string{"nodeKey string", "err error"}, c13RetErr)
	if err != nil {
		return "", "", err
	}
	newS, err := t.function(fe, "newStreamWrapperError", []string{"streamWrapperType defaultImplAction", "err error"}, c13RetErr)
	if err != nil {
		return "", "", err
	}
	wrapS, err := t.function(fe, "wrapStreamWrapperError", []string{"streamWrapperType defaultImplAction", "err error"}, c13RetErr)
	if err != nil {
		return "", "", err
	}

	// (*internalError).Unwrap: a missing method is a recognised shape (errors.Unwrap then gives nil)
	unwrap := "None"
	if m := c13MethodOf(fe, "internalError", "Unwrap"); m != nil && m.Body != nil {
		if len(m.Recv.List[0].Names) != 1 || m.Type.Params.NumFields() != 0 {
			return "", "", fmt.Errorf("Unwrap: unexpected signature")
		}
		en := c13NewEnv()
		en.ies[m.Recv.List[0].Names[0].Name] = "v_i"
		unwrap, err = t.exec(m.Body.List, en, c13RetOptErr, "  ")
		if err != nil {
			return "", "", fmt.Errorf("Unwrap: %v", err)
		}
	}
	em := c13MethodOf(fe, "internalError", "Error")
	if em == nil || em.Body == nil || len(em.Recv.List[0].Names) != 1 {
		return "", "", fmt.Errorf("method (*internalError).Error not found")
	}
	errText, err := t.errorMethod(em)
	if err != nil {
		return "", "", err
	}

	// internal/safe/panic.go: NewPanicErr(info, stack) = &panicErr{info: info, ...}; Error() prints p.info
	np := c13TopFunc(fp, "NewPanicErr")
	if np == nil || np.Body == nil || len(np.Body.List) != 1 || np.Type.Params.NumFields() != 2 {
		return "", "", fmt.Errorf("safe.NewPanicErr: unexpected shape")
	}
	infoParam := np.Type.Params.List[0].Names[0].Name
	ret, ok := np.Body.List[0].(*ast.ReturnStmt)
	if !ok || len(ret.Results) != 1 {
		return "", "", fmt.Errorf("safe.NewPanicErr: body is not one return")
	}
	u, ok := ret.Results[0].(*ast.UnaryExpr)
	if !ok || u.Op != token.AND {
		return "", "", fmt.Errorf("safe.NewPanicErr: does not return a pointer to a literal")
	}
	cl, ok := u.X.(*ast.CompositeLit)
	if n, _ := c13Ident(cl.Type); !ok || n != "panicErr" {
		return "", "", fmt.Errorf("safe.NewPanicErr: does not return a *panicErr")
	}
	newPanic := ""
	for _, el := range cl.Elts {
		kv, ok := el.(*ast.KeyValueExpr)
		if !ok {
			return "", "", fmt.Errorf("safe.NewPanicErr: literal without field names")
		}
		if k, _ := c13Ident(kv.Key); k == "info" {
			if v, _ := c13Ident(kv.Value); v == infoParam {
				newPanic = "PanicErr v_info"
			} else {
				return "", "", fmt.Errorf("safe.NewPanicErr: the info field is not the info given (%s)", types.ExprString(kv.Value))
			}
		}
	}
	if newPanic == "" {
		return "", "", fmt.Errorf("safe.NewPanicErr: the info field is not set (no payload: outside the model's PanicErr)")
	}
	// panicErr.Error(): one return fmt.Sprintf(format, args...) ; does a %v / %s / %+v verb print p.info ?
	printsInfo := "false"
	if pm := c13MethodOf(fp, "panicErr", "Error"); pm != nil && pm.Body != nil && len(pm.Body.List) == 1 && len(pm.Recv.List[0].Names) == 1 {
		rn := pm.Recv.List[0].Names[0].Name
		if r, ok := pm.Body.List[0].(*ast.ReturnStmt); ok && len(r.Results) == 1 {
			if f, args, ok := c13CallOf(r.Results[0]); ok && f == "fmt.Sprintf" && len(args) >= 1 {
				if bl, ok := args[0].(*ast.BasicLit); ok && bl.Kind == token.STRING {
					format, _ := strconv.Unquote(bl.Value)
					verbs := 0
					for i := 0; i+1 < len(format); i++ {
						if format[i] == '%' {
							if format[i+1] == '%' {
								i++
								continue
							}
							verbs++
							if verbs < len(args) && types.ExprString(args[verbs]) == rn+".info" {
								printsInfo = "true"
							}
						}
					}
				}
			}
		}
	} else {
		return "", "", fmt.Errorf("panicErr.Error: unexpected shape")
	}

	var b strings.Builder
	b.WriteString("(* Gen/ErrorCode.v — GENERATED by tools/go2v (extractor \"errcode\") from compose/error.go, compose/interrupt.go\n")
	b.WriteString("   (isInterruptError) and internal/safe/panic.go, translated statement by statement. Do not edit. *)\n")
	b.WriteString("From Eino Require Import Base.Util Model.Errors Model.ErrorsGenLib.\n\n")
	nt, _ := c13CoqStrNL(typText["NodeRunError"])
	gt, _ := c13CoqStrNL(typText["GraphRunError"])
	b.WriteString("Definition ityp_text (t : ityp) : string :=\n  match t with NodeRunError => " + nt + " | GraphRunError => " + gt + " end.\n\n")
	b.WriteString("Definition isInterruptError (v_err : err) : bool :=\n  " + isInt + ".\n\n")
	b.WriteString("Definition newGraphRunError (v_err : err) : err :=\n  " + newG + ".\n\n")
	b.WriteString("Definition wrapGraphNodeError (v_nodeKey : string) (v_err : err) : err :=\n  " + wrapN + ".\n\n")
	b.WriteString("Definition newStreamWrapperError (v_streamWrapperType : action) (v_err : err) : err :=\n  " + newS + ".\n\n")
	b.WriteString("Definition wrapStreamWrapperError (v_streamWrapperType : action) (v_err : err) : err :=\n  " + wrapS + ".\n\n")
	b.WriteString("Definition internalError_Unwrap (v_i : ieptr) : option err :=\n  " + unwrap + ".\n\n")
	b.WriteString("Definition internalError_Error (errtext : err -> string) (v_i : ieptr) : string :=\n  (" + errText + ")%string.\n\n")
	b.WriteString("Definition newPanicErr (v_info : N) : err := " + newPanic + ".\n")
	b.WriteString("Definition panicErr_Error_prints_info : bool := " + printsInfo + ".\n")
	return "ErrorCode.v", b.String(), nil
}
