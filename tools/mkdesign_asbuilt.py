#!/usr/bin/env python3
"""Rewrite the section of DESIGN.md between <!-- ASBUILT-BEGIN --> and <!-- ASBUILT-END -->: per property, the
theorems of coq/Props/<ID>.v (names, refuted/partial flags), what the tie compares (props/<ID>.json rule),
the partial items, the assumptions / trusted base, and the findings of known_findings.json."""
import json, os, re, glob
ROOT = os.path.dirname(os.path.dirname(os.path.abspath(__file__)))
ids = [json.loads(l)["id"] for l in open(os.path.join(ROOT, "properties.jsonl"))]
titles = {json.loads(l)["id"]: json.loads(l)["title"] for l in open(os.path.join(ROOT, "properties.jsonl"))}
kf = json.load(open(os.path.join(ROOT, "known_findings.json")))["findings"]
out = ["<!-- ASBUILT-BEGIN -->"]
tot = 0
tie_tot = 0
for pid in ids:
    cp = os.path.join(ROOT, "props", pid + ".json")
    if not os.path.exists(cp):
        continue
    c = json.load(open(cp))
    src = open(os.path.join(ROOT, "coq", c["props_file"])).read()
    src_nc = re.sub(r"\(\*.*?\*\)", "", src, flags=re.S)
    names = re.findall(r"^\s*(?:Theorem|Corollary)\s+([A-Za-z0-9_']+)", src_nc, flags=re.M)
    tot += len(names)
    ref = [n for n in names if "refuted" in n]
    par = [n for n in names if "partial" in n]
    full = [n for n in names if n not in ref and n not in par]
    deps = sorted(set(re.findall(r"(?:Model|Proofs|Base)\.[A-Za-z0-9_]+", src_nc)))
    out.append("### %s — %s\n" % (pid, titles[pid]))
    out.append("*Files.* `coq/%s` (imports %s); `coq/%s`; `harness/%s`; notes `notes/%s.md`.\n" % (
        c["props_file"], ", ".join("`%s`" % d for d in deps) or "-", c.get("corr_targets", ["?"])[0].replace(".vo", ".v"),
        c["harness_pkg"].lstrip("./"), pid))
    out.append("*Theorems (%d; every one `Print Assumptions` = closed unless listed under allowed axioms: %s).* full: %s%s%s\n" % (
        len(names), ", ".join(c.get("allowed_axioms") or []) or "none",
        ", ".join("`%s`" % n for n in full) or "-",
        ("; partial: " + ", ".join("`%s`" % n for n in par)) if par else "",
        ("; refuted (machine-checked witnesses of findings / of statements that are false of the faithful model): " + ", ".join("`%s`" % n for n in ref)) if ref else ""))
    out.append("*Tie (what the correspondence and the direct oracle compare; generator rule).* %s\n" % c.get("rule", ""))
    # translator ties: the property's own (props "gen"/"gen_files"/"coq_targets") and the coordinator's (gen_ties.json)
    gt = {}
    gp = os.path.join(ROOT, "gen_ties.json")
    if os.path.exists(gp):
        gt = json.load(open(gp)).get(pid, {})
    gens = list(c.get("gen", [])) + [g for g in gt.get("gen", []) if g not in c.get("gen", [])]
    gfiles = list(c.get("gen_files", [])) + [f for f in gt.get("files", []) if f not in c.get("gen_files", [])]
    for t in c.get("coq_targets", []):
        f = t[:-1] if t.endswith(".vo") else t
        if "GenAgree" in f and f not in gfiles:
            gfiles.append(f)
    if gens:
        tn = []
        for f in gfiles:
            fp = os.path.join(ROOT, "coq", f)
            if os.path.exists(fp):
                fs_ = re.sub(r"\(\*.*?\*\)", "", open(fp).read(), flags=re.S)
                tn += re.findall(r"^\s*(?:Theorem|Corollary)\s+([A-Za-z0-9_']+)", fs_, flags=re.M)
        tie_tot = tie_tot + len(tn)
        out.append("*Translator tie (regenerated from /repo's source on every run by `tools/go2v`, proved equal to the model; proof obligations of this property).* extractors: %s; agreement files: %s; agreement theorems (%d): %s\n" % (
            ", ".join("`%s`" % g for g in gens), ", ".join("`coq/%s`" % f for f in gfiles) or "-", len(tn), ", ".join("`%s`" % n for n in tn) or "-"))
    if c.get("mismatch_is_failure"):
        out.append("*Refinement verdict.* `mismatch_is_failure` with spec theorems %s.\n" % ", ".join("`%s`" % t for t in c.get("spec_theorems", [])))
    if c.get("partial"):
        out.append("*Partial / not proved.*\n" + "\n".join("* " + p for p in c["partial"]) + "\n")
    if c.get("assumptions"):
        out.append("*Assumptions.*\n" + "\n".join("* " + p for p in c["assumptions"]) + "\n")
    if c.get("trusted_base"):
        out.append("*Trusted base (property-specific).*\n" + "\n".join("* " + p for p in c["trusted_base"]) + "\n")
    fs = [f for f in kf if f.get("property") == pid]
    if fs:
        out.append("*Findings.*\n" + "\n".join("* %s (%s%s): %s" % (f.get("id"), f.get("status"), (" " + f.get("commit")) if f.get("commit") else "",
                    (f.get("what") or f.get("line") or "").replace("\n", " ")[:400]) for f in fs) + "\n")
out.append("Total: %d theorems in `coq/Props/*.v`, %d agreement theorems in `coq/Proofs/GenAgree*.v`.\n" % (tot, tie_tot))
out.append("<!-- ASBUILT-END -->")
p = os.path.join(ROOT, "DESIGN.md")
s = open(p).read()
if "<!-- ASBUILT-BEGIN -->" in s:
    a = s.index("<!-- ASBUILT-BEGIN -->"); b = s.index("<!-- ASBUILT-END -->") + len("<!-- ASBUILT-END -->")
    s = s[:a] + "\n".join(out) + s[b:]
else:
    s = s.rstrip("\n") + "\n\n--------------------------------------------------------------------------------------\n\n## 15. As built, per property (generated by tools/mkdesign_asbuilt.py from coq/Props, props/*.json and known_findings.json)\n\n" + "\n".join(out) + "\n"
open(p, "w").write(s)
print("theorems:", tot)
