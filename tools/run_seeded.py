#!/usr/bin/env python3
"""Run the registered checks against the seeded changes kept under /verif/seeded/.

usage: tools/run_seeded.py [--tier quick|thorough] [--inplace] [<seeded-id> ...]

For every seeded/<id>/ (patch.diff + meta.json naming the property it breaks) the change
is applied to a scratch worktree of /repo's HEAD (default; nothing in /repo is touched) or,
with --inplace, to /repo itself (git apply; undone by `git checkout -- .` straight after),
the check of that property is run, and the outcome (caught / missed, how) is written to
seeded/<id>/result.json and summarised in seeded/RESULTS.md. A patch that no longer
applies to the current HEAD is reported as such (stale), not as missed."""
import sys, os, json, subprocess, time, re, shutil

ROOT = os.path.dirname(os.path.dirname(os.path.abspath(__file__)))
SEEDED = os.path.join(ROOT, "seeded")


def sh(cmd, cwd=None, env=None, timeout=3600):
    p = subprocess.run(cmd, cwd=cwd, env=env, stdout=subprocess.PIPE, stderr=subprocess.STDOUT, text=True, timeout=timeout)
    return p.returncode, p.stdout


def main():
    args = sys.argv[1:]
    tier = "quick"
    inplace = False
    if "--tier" in args:
        i = args.index("--tier")
        tier = args[i + 1]
        del args[i:i + 2]
    if "--inplace" in args:
        inplace = True
        args.remove("--inplace")
    ids = args or sorted(d for d in os.listdir(SEEDED) if os.path.isfile(os.path.join(SEEDED, d, "patch.diff")))
    rows = []
    for sid in ids:
        d = os.path.join(SEEDED, sid)
        meta = json.load(open(os.path.join(d, "meta.json")))
        pid = meta["property"]
        t0 = time.time()
        res = {"seeded": sid, "property": pid, "tier": tier}
        if inplace:
            wt = "/repo"
            rc, out = sh(["git", "-C", "/repo", "apply", os.path.join(d, "patch.diff")])
        else:
            wt = "/tmp/seeded-" + sid
            sh(["git", "-C", "/repo", "worktree", "remove", "--force", wt])
            rc, out = sh(["git", "-C", "/repo", "worktree", "add", "-q", "--detach", wt, "HEAD"])
            if rc == 0:
                rc, out = sh(["git", "-C", wt, "apply", os.path.join(d, "patch.diff")])
                if rc != 0 and os.path.exists(os.path.join(d, "patch.rebased.diff")):
                    # the same change ported by hand onto the current HEAD (a later fix: commit rewrote the lines)
                    rc, out = sh(["git", "-C", wt, "apply", os.path.join(d, "patch.rebased.diff")])
                    res["patch"] = "patch.rebased.diff"
        if rc != 0:
            res.update(outcome="stale-patch", detail=out[-500:])
        else:
            env = dict(os.environ)
            if not inplace:
                env["VERIF_REPO"] = wt
            try:
                rc, out = sh([os.path.join(ROOT, "check"), pid, tier], cwd=ROOT, env=env)
            finally:
                if inplace:
                    sh(["git", "-C", "/repo", "checkout", "--", "."])
            viol = [l for l in out.split("\n") if l.startswith("VIOLATION")]
            res.update(exit=rc, violation_lines=viol, tail=out[-1200:])
            if rc == 1 and viol:
                res["outcome"] = "caught-no-input" if all("no-failing-input-found" in v for v in viol) else "caught"
                # copy the first replay next to the seeded change for the record
                m = re.search(r"replay=(\S+)", viol[0])
                if m and os.path.exists(m.group(1)):
                    try:
                        rp = json.load(open(m.group(1)))
                        res["replay_kind"] = rp.get("kind")
                        res["replay_what"] = (rp.get("what") or json.dumps(rp.get("broken")) or "")[:400]
                    except Exception:
                        pass
            elif rc == 0:
                res["outcome"] = "missed"
            else:
                res["outcome"] = "infra-error"
        if not inplace:
            sh(["git", "-C", "/repo", "worktree", "remove", "--force", wt])
            shutil.rmtree(wt, ignore_errors=True)
            import hashlib
            tag = "-alt-" + hashlib.sha1(wt.encode()).hexdigest()[:8]   # the tag ./check derives from VERIF_REPO
            for p in os.listdir(os.path.join(ROOT, "bin")):
                if p.endswith(tag) and p.lower().startswith(pid.lower()):
                    os.remove(os.path.join(ROOT, "bin", p))
            for p in os.listdir(os.path.join(ROOT, "runs")):
                if tag in p and (p.lower().startswith(pid.lower()) or p.startswith("harness")):
                    shutil.rmtree(os.path.join(ROOT, "runs", p), ignore_errors=True)
        res["wall_s"] = round(time.time() - t0, 1)
        json.dump(res, open(os.path.join(d, "result.json"), "w"), indent=1)
        rows.append(res)
        print("%-28s %-4s %-16s %5.0fs  %s" % (sid, pid, res["outcome"], res["wall_s"], res.get("replay_what", "")[:90]), flush=True)
    # summary over everything that has a result
    allrows = []
    for sid in sorted(os.listdir(SEEDED)):
        rp = os.path.join(SEEDED, sid, "result.json")
        if os.path.exists(rp):
            r = json.load(open(rp))
            m = json.load(open(os.path.join(SEEDED, sid, "meta.json")))
            allrows.append((sid, r, m))
    with open(os.path.join(SEEDED, "RESULTS.md"), "w") as f:
        f.write("# Seeded changes vs. checks (written by tools/run_seeded.py)\n\n| seeded change | property | what it breaks | needs | outcome (tier) | how |\n|---|---|---|---|---|---|\n")
        for sid, r, m in allrows:
            f.write("| %s | %s | %s | %s | %s (%s) | %s |\n" % (
                sid, r["property"], str(m.get("clause_broken", m.get("title", "")))[:160].replace("|", "/"),
                str(m.get("what_it_needs_to_manifest", ""))[:160].replace("|", "/"), r["outcome"], r["tier"],
                (str(r.get("replay_kind", "")) + ": " + str(r.get("replay_what", "")))[:200].replace("|", "/").replace("\n", " ")))
    return 0


if __name__ == "__main__":
    sys.exit(main())
