#!/usr/bin/env python3
"""Regenerate /verif/MANIFEST.json from props/*.json (run after adding or changing a property config)."""
import json, glob, os, subprocess
ROOT = os.path.dirname(os.path.dirname(os.path.abspath(__file__)))
ids = [json.loads(l)["id"] for l in open(os.path.join(ROOT, "properties.jsonl"))]
cfgs = {}
for f in glob.glob(os.path.join(ROOT, "props", "*.json")):
    c = json.load(open(f))
    if c.get("claimed", True):
        cfgs[c["id"]] = c
try:
    commits = subprocess.run(["git", "-C", "/repo", "log", "--format=%h %s"], capture_output=True, text=True).stdout.split("\n")
    hook_commits = [l.split()[0] for l in commits if l and "verif hook" in l]
except Exception:
    hook_commits = []
m = {
    "version": 1,
    "setup_cmd": "./setup.sh",
    "hooks": {
        "guard": "verif",
        "enable": "go build -tags verif (every harness binary is rebuilt from /repo's working tree by ./check; hook files are //go:build verif, add-only: compose/verif_*.go, schema/verif_*.go, internal/*/verif_*.go)",
        "baseline_off_cmd": "cd /repo && go test -vet=off -count=1 -timeout 25m ./...",
        "source_commits": hook_commits,
        "add_only": True,
    },
    "engines": [],
    "checks": [],
    "notes": "Machine-checked proof in Coq 8.16.1 over hand-written executable models (coq/Model), tied to /repo on every run by a correspondence check: a Go harness (harness/cmd/<id>, built with -tags verif against /repo's working tree) runs the implementation on generated + corpus cases, the same cases are evaluated by the model inside coqc (vm_compute) and compared; see DESIGN.md. VERIF_SEED seeds every generator.",
    "not_applicable": [],
}
for pid in ids:
    c = cfgs.get(pid)
    if not c:
        m["not_applicable"].append({"property_id": pid, "reason": "not claimed at this commit: model/proofs/correspondence engine for it are not built yet (the technique applies; see DESIGN.md section 5)"})
        continue
    m["engines"].append({"name": pid.lower(), "path": "harness/" + c["harness_pkg"].lstrip("./") + " + coq/" + c["props_file"],
                         "serves_properties": [pid], "kind_free_text": "Coq proof over executable model + differential correspondence harness"})
    m["checks"].append({
        "property_id": pid,
        "quick_cmd": "./check %s quick" % pid,
        "thorough_cmd": "./check %s thorough" % pid,
        "evidence_file": "/verif/evidence/%s.json" % pid,
        "replay_cmd_template": "./check %s --replay {path}" % pid,
        "engine": pid.lower(),
        "level_claimed": {"category": "proof", "text": c.get("level_text", ""), "design_ref": c.get("design_ref", "DESIGN.md section 5, " + pid)},
        "level_note": c.get("level_note", ""),
        "technique": c.get("technique", "machine-checked proof in Coq over an executable model + correspondence check against /repo"),
    })
json.dump(m, open(os.path.join(ROOT, "MANIFEST.json"), "w"), indent=1)
print("claimed:", sorted(cfgs), "unclaimed:", [p for p in ids if p not in cfgs])
