#!/bin/bash
# usage: tools/confirm_seeded.sh <dir with patch.diff + demo_test.go> <package dir relative to repo root, e.g. schema> <go test -run regex>
# Confirms a seeded change in a fresh scratch worktree of /repo's HEAD:
#   1. demo passes on the unchanged tree     2. patch applies and everything builds
#   3. the whole existing suite passes with the patch   4. demo fails with the patch
# Prints one line per step and a final CONFIRMED / REJECTED. The worktree is removed.
set -u
export GOFLAGS=-mod=mod GOPROXY=off GOSUMDB=off GOTOOLCHAIN=local
d=$(realpath "$1"); pkg=$2; run=$3
wt=/tmp/confirm-$$
git -C /repo worktree add -q --detach $wt HEAD || exit 2
trap 'git -C /repo worktree remove --force $wt >/dev/null 2>&1; rm -rf $wt' EXIT
cp "$d"/demo_test.go $wt/$pkg/zz_demo_test.go
ok=1
( cd $wt && go test -vet=off -count=1 -run "$run" ./$pkg/ >/tmp/confirm-$$.log 2>&1 ) && echo "1. demo passes without the change: yes" || { echo "1. demo passes without the change: NO"; tail -15 /tmp/confirm-$$.log; ok=0; }
rm $wt/$pkg/zz_demo_test.go
( cd $wt && git apply "$d"/patch.diff && go build ./... ) && echo "2. patch applies and builds: yes" || { echo "2. patch applies and builds: NO"; ok=0; }
( cd $wt && go test -vet=off -count=1 ./... >/tmp/confirm-$$.log 2>&1 ) && echo "3. existing suite passes with the change: yes" || { echo "3. existing suite passes with the change: NO"; grep -E "^(FAIL|---)" /tmp/confirm-$$.log | head; ok=0; }
cp "$d"/demo_test.go $wt/$pkg/zz_demo_test.go
( cd $wt && go test -vet=off -count=1 -run "$run" ./$pkg/ >/tmp/confirm-$$.log 2>&1 ) && { echo "4. demo fails with the change: NO (it passed)"; ok=0; } || echo "4. demo fails with the change: yes"
rm -f /tmp/confirm-$$.log
[ $ok = 1 ] && echo CONFIRMED || echo REJECTED
