#!/usr/bin/env python3
"""Write notes/round5/<ID>.txt (prompts of the round-5 builders) from the seeded / refactoring results."""
import json, os, glob
ROOT = os.path.dirname(os.path.dirname(os.path.abspath(__file__)))
ids = [json.loads(l)["id"] for l in open(ROOT + "/properties.jsonl")]
extra = {
 "C01": "The chancode extractor (tools/go2v/chancode.go, written by the coordinator; Gen/ChanCode.v, Proofs/GenAgreeChan.v) is shared with C02; b-C02 owns it this round — tell b-C02 (SendMessage) instead of editing it.",
 "C02": "You own the shared chancode extractor this round (tools/go2v/chancode.go, Gen/ChanCode.v, Proofs/GenAgreeChan.v; obligations of C01 and C02): refactoring C02-1 (`if … { continue }` rewritten as a nested `if` + renamed locals in dagChannel.reportValues) broke GenAgreeChan for C01 and C02 — absorb that rewrite class. Identifiers there are not prefixed; leave the names, only extend.",
 "C03": "No translator tie exists for C03 (concurrency). Consider a small one for the *sequential* decisions of compose/graph_manager.go (submit's order pre-handler → start, waitOne/waitAll's receive → top-up → post-handler order, needAll) as a shape table in the style of C13's recoversites / C17's parallel shape, if it can be done in under an hour; otherwise spend the time on the open items.",
 "C09": "Refactorings C01-2 / C02-2 (a loop body of calculateBranch extracted into helpers markUnselectedEndNodes / containsKey) made your c09effects tie fail ('Unable to unify [] with [{| e_fn := markUnselectedEndNodes; e_kind := assign…'): a helper that writes only to its own parameters / locals / a map passed in by the caller that is itself per-run is not a shared store. Make the effect classification follow calls into private helpers (provenance of the written object) so that such an extraction stays green.",
 "C08": "Refactoring C08-2 (selectRemaining / dropSource extracted from multiStreamReader.recv) broke the coordinator's streamsel tie (GenAgreeStream: 'Unable to unify select_threshold_ops …'); you own tools/go2v/consts.go's streamsel part and Proofs/GenAgreeStream.v this round: follow comparisons with maxSelectNum into private helpers of schema/stream.go.",
 "C07": "Refactoring C07-1 (checkAssignable: nested interface test folded into one condition) broke gen_check_assignable_agrees ('Attempt to save an incomplete proof'): you own tools/go2v/assignable.go, Gen/Assignable.v and Proofs/GenAgreeTypes.v this round; make the agreement proof robust to boolean restructurings of the decision function (prove by exhaustive case analysis over the predicates' truth values rather than by syntactic steps).",
}
for pid in ids:
    srows = []
    for d in sorted(glob.glob(ROOT + "/seeded/%s-*/" % pid)):
        n = os.path.basename(d.rstrip("/"))
        rp = d + "result.json"
        o = json.load(open(rp))["outcome"] if os.path.exists(rp) else "not run"
        if o != "caught":
            srows.append("%s: %s" % (n, o))
    rrows = []
    for d in sorted(glob.glob(ROOT + "/refac/*/")):
        n = os.path.basename(d.rstrip("/"))
        rp = d + "refac_result.json"
        if not os.path.exists(rp):
            continue
        r = json.load(open(rp)).get(pid)
        if r and r["outcome"] != "ok":
            rrows.append("%s: %s%s" % (n, r["outcome"], (" — " + r["what"][:160].replace("\n", " ")) if r.get("what") else ""))
    txt = f"""You are a builder agent for property {pid} of the formal-verification framework in /verif (Coq 8.16.1 machine-checked proofs over hand-written executable Gallina models of the Go repository /repo = cloudwego/eino, tied to the code on every run by a differential correspondence check and by go/ast translator ties whose output is proved equal to the model). You are CONTINUING existing work (round 5): your predecessor finished round 4 an hour ago; its final report is /verif/notes/round4/reports/{pid}.md.

Read, in this order and completely, before doing anything else:
1. /verif/notes/AGENT_BRIEF.md, AGENT_BRIEF2.md, AGENT_BRIEF3.md, AGENT_BRIEF4.md, /verif/notes/AGENT_BRIEF5.md (this round: what to do and in which order), /verif/ENGINE_GUIDE.md
2. your property's record in /verif/properties.jsonl (id {pid}) — the property text is fixed and decides what "full strength" means
3. /verif/notes/round4/reports/{pid}.md, /verif/notes/{pid}.md, /verif/props/{pid}.json, /verif/coq/Props/{pid}.v, /verif/coq/Corr/{pid}.v and the Model/Proofs files they import, your files under /verif/tools/go2v/, /verif/harness/cmd/{pid.lower()}/, /verif/corpus/{pid}/, the {pid} entries of /verif/known_findings.json, `git -C /repo log --oneline | head -40`

Seeded changes of {pid} that are NOT plainly caught at the start of this round (all others are caught): {'; '.join(srows) or 'none'}. (Results of changes ingested in the last hour may still be arriving: look at seeded/{pid}-*/result.json; a directory without result.json has not been run — run it yourself with `python3 tools/run_seeded.py <name>`.)

Behaviour-preserving refactorings on which YOUR check did not stay plainly green: {'; '.join(rrows) or 'none so far'}. (More refactorings are being written and run while you work: /verif/refac/RESULTS.md and refac/*/refac_result.json; look again after an hour.)

{extra.get(pid, '')}

The environment is set up (Coq .vo files and harness binaries exist). Every shell call needs `export GOFLAGS=-mod=mod GOPROXY=off GOSUMDB=off GOTOOLCHAIN=local` for Go commands. No network. About 25 other agents share the 16 cores / 62 GB: at most 4 heavy processes of your own; `( ulimit -v 8000000; timeout 600 coqc … )`. Timing-sensitive observations must tolerate a loaded machine without raising false alarms.

Work autonomously following AGENT_BRIEF5.md's order (about 2.5–3 hours of work; there is no need to stop early, but do not start something you cannot finish and leave consistent within that time). Never leave Props/{pid}.v or Corr/{pid}.v (or anything they import, or tools/go2v) not compiling. Do not edit MANIFEST.json, DESIGN.md, check, harness/lib, tools/*.py, tools/go2v/main.go, or other properties' files; do not `git add -A` or commit in /verif (the coordinator commits the working tree at arbitrary moments); commits in /repo only as the briefs allow (run the whole suite before a `fix:`; never leave /repo dirty).

Finish with the final report described in AGENT_BRIEF5.md (≤ 25 lines)."""
    open(ROOT + "/notes/round5/%s.txt" % pid, "w").write(txt)
# summary table of the refactoring runs
rows = []
for d in sorted(glob.glob(ROOT + "/refac/*/")):
    rp = d + "refac_result.json"
    if os.path.exists(rp):
        r = json.load(open(rp))
        m = json.load(open(d + "meta.json")) if os.path.exists(d + "meta.json") else {}
        bad = ["%s:%s" % (k, v["outcome"]) for k, v in sorted(r.items()) if v["outcome"] != "ok"]
        rows.append("| %s | %s | %s | %d ok | %s |" % (os.path.basename(d.rstrip("/")), str(m.get("title", ""))[:140].replace("|", "/"), ", ".join(m.get("files", []))[:80], sum(1 for v in r.values() if v["outcome"] == "ok"), ", ".join(bad) or "-"))
open(ROOT + "/refac/RESULTS.md", "w").write("# Behaviour-preserving refactorings vs. every quick check (tools/run_refac.py)\n\n| refactoring | what | files | plainly green | not plainly green |\n|---|---|---|---|---|\n" + "\n".join(rows) + "\n")
print("ok", len(rows), "refactorings")
