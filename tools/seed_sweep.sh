#!/bin/bash
# usage: tools/seed_sweep.sh <seed> ...   — every claimed quick check on the unchanged tree for each seed
# (false-alarm hunt; meant for `vp run`): prints one line per (property, seed) and the VIOLATION lines.
cd "$(dirname "$0")/.." || exit 1
export GOFLAGS=-mod=mod GOPROXY=off GOSUMDB=off GOTOOLCHAIN=local
[ -d coq/Gen ] && ls coq/Gen/*.vo >/dev/null 2>&1 || ./setup.sh > setup.log 2>&1
mkdir -p sweep
for seed in "$@"; do
  ls props | sed 's/.json//' | xargs -P 3 -I{} bash -c "s=\$(date +%s); VERIF_SEED=$seed ./check {} quick > sweep/{}-$seed.log 2>&1; rc=\$?; e=\$(date +%s); echo \"{} seed=$seed rc=\$rc wall=\$((e-s))\"; grep -h '^VIOLATION\|^KNOWN' sweep/{}-$seed.log"
done
echo SWEEPDONE
