#!/usr/bin/env python3
"""False-alarm test: run every claimed quick check against a behaviour-preserving refactoring of /repo.

usage: tools/run_refac.py <dir with patch.diff + meta.json> [<ID> ...]   (default: all properties)

The patch is applied to a scratch worktree of /repo's HEAD, every check runs with VERIF_REPO=<worktree>,
and the outcome per property is written to <dir>/refac_result.json:
  ok            exit 0, no VIOLATION line
  tie-broken    only `VIOLATION ... no-failing-input-found` lines (allowed by the protocol for a harmless rewrite
                that breaks a proof obligation or the correspondence; still worth looking at)
  FALSE-ALARM   a VIOLATION with a concrete failing input although the change is meant to preserve behaviour
  infra         exit 2 (e.g. a hook no longer compiles)"""
import sys, os, json, subprocess, hashlib, shutil, concurrent.futures

ROOT = os.path.dirname(os.path.dirname(os.path.abspath(__file__)))


def sh(cmd, cwd=None, env=None, timeout=3600):
    p = subprocess.run(cmd, cwd=cwd, env=env, stdout=subprocess.PIPE, stderr=subprocess.STDOUT, text=True, timeout=timeout)
    return p.returncode, p.stdout


def main():
    d = os.path.abspath(sys.argv[1])
    ids = sys.argv[2:] or sorted(f[:-5] for f in os.listdir(os.path.join(ROOT, "props")) if f.endswith(".json"))
    wt = "/tmp/refac-run-" + hashlib.sha1(d.encode()).hexdigest()[:8]
    sh(["git", "-C", "/repo", "worktree", "remove", "--force", wt])
    rc, out = sh(["git", "-C", "/repo", "worktree", "add", "-q", "--detach", wt, "HEAD"])
    if rc == 0:
        rc, out = sh(["git", "-C", wt, "apply", os.path.join(d, "patch.diff")])
        if rc != 0 and os.path.exists(os.path.join(d, "patch.rebased.diff")):
            rc, out = sh(["git", "-C", wt, "apply", os.path.join(d, "patch.rebased.diff")])
    if rc != 0:
        print("stale patch:", out[-300:])
        sh(["git", "-C", "/repo", "worktree", "remove", "--force", wt])
        return 2
    env = dict(os.environ, VERIF_REPO=wt)
    res = {}

    def one(pid):
        rc, out = sh([os.path.join(ROOT, "check"), pid, "quick"], cwd=ROOT, env=env)
        viol = [l for l in out.split("\n") if l.startswith("VIOLATION")]
        if rc == 0 and not viol:
            o = "ok"
        elif rc == 2 or not viol:
            o = "infra"
        elif viol and all("no-failing-input-found" in v for v in viol):
            o = "tie-broken"
        else:
            o = "FALSE-ALARM"
        what = ""
        if viol:
            import re
            m = re.search(r"replay=(\S+)", viol[0])
            if m and os.path.exists(m.group(1)):
                try:
                    rp = json.load(open(m.group(1)))
                    what = (rp.get("what") or json.dumps(rp.get("broken")) or "")[:300]
                except Exception:
                    pass
        return pid, {"outcome": o, "exit": rc, "violations": viol[:3], "what": what, "tail": out[-600:] if o != "ok" else ""}

    with concurrent.futures.ThreadPoolExecutor(max_workers=int(os.environ.get("REFAC_PAR", "4"))) as ex:
        for pid, r in ex.map(one, ids):
            res[pid] = r
            print("%-4s %-12s %s" % (pid, r["outcome"], r["what"][:120]), flush=True)
    tag = "-alt-" + hashlib.sha1(wt.encode()).hexdigest()[:8]
    for sub in ("bin", "runs"):
        for p in os.listdir(os.path.join(ROOT, sub)):
            if tag in p:
                q = os.path.join(ROOT, sub, p)
                shutil.rmtree(q, ignore_errors=True) if os.path.isdir(q) else os.remove(q)
    sh(["git", "-C", "/repo", "worktree", "remove", "--force", wt])
    shutil.rmtree(wt, ignore_errors=True)
    json.dump(res, open(os.path.join(d, "refac_result.json"), "w"), indent=1)
    return 0


if __name__ == "__main__":
    sys.exit(main())
