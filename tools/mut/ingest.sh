#!/bin/bash
# usage: tools/mut/ingest.sh <ID> <k> <short-name>
# Confirms the change /tmp/mut/<ID>/out/<k>/ written by an independent mutator agent in a
# fresh scratch worktree of /repo's HEAD and, when confirmed, keeps it as
# /verif/seeded/<ID>-<short-name>/ (patch.diff, demo files, meta.json):
#   1. demo passes on the unchanged tree   2. patch applies; builds with and without -tags verif
#   3. the whole existing suite passes with the patch   4. demo fails with the patch
set -u
export GOFLAGS=-mod=mod GOPROXY=off GOSUMDB=off GOTOOLCHAIN=local
id=$1; k=$2; name=$3
mbase=${MUT_SRC:-/tmp/mut/$id}
src=$mbase/out/$k
root=$(cd "$(dirname "$0")/../.." && pwd)
wt=/tmp/ingest-$id-$k-$$
log=/tmp/ingest-$id-$k-$$.log
[ -f $src/patch.diff ] && [ -f $src/meta.json ] || { echo "missing $src/patch.diff or meta.json"; exit 2; }
git -C /repo worktree add -q --detach $wt HEAD || exit 2
trap 'git -C /repo worktree remove --force $wt >/dev/null 2>&1; rm -rf $wt $log' EXIT
demo_cmd=$(python3 -c "import json,sys; print(json.load(open('$src/meta.json'))['demo_cmd'])" | sed "s#$mbase/wt#$wt#g" | sed -E "s/ {2,}\\(.*$//")
put_demo() {
  while read -r rel; do
    [ -z "$rel" ] && continue
    rel=$(echo "$rel" | awk '{print $NF}')
    base=$(basename "$rel")
    mkdir -p "$wt/$(dirname "$rel")"
    if [ -f "$src/$base" ]; then cp "$src/$base" "$wt/$rel"; elif [ -f "$src/$rel" ]; then cp "$src/$rel" "$wt/$rel"; else echo "demo file $rel not found in $src"; fi
  done < <(grep -oE '[A-Za-z0-9_./-]+\.go' $src/demo_path.txt | sort -u)
}
rm_demo() { (cd $wt && git clean -fdq); }
ok=1
put_demo
( cd $wt && timeout 600 bash -c "$demo_cmd" >$log 2>&1 ) && echo "1. demo passes without the change: yes" || { echo "1. demo passes without the change: NO"; tail -15 $log; ok=0; }
rm_demo
( cd $wt && git apply $src/patch.diff && go build ./... && go build -tags verif ./... ) >$log 2>&1 && echo "2. patch applies and builds (both tags): yes" || { echo "2. patch applies and builds: NO"; tail -5 $log; ok=0; }
( cd $wt && go test -vet=off -count=1 -timeout 25m ./... >$log 2>&1 ) && echo "3. existing suite passes with the change: yes" || { echo "3. existing suite passes with the change: NO"; grep -E "^(FAIL|---)" $log | head; ok=0; }
put_demo
( cd $wt && timeout 600 bash -c "$demo_cmd" >$log 2>&1 ) && { echo "4. demo fails with the change: NO (it passed)"; ok=0; } || echo "4. demo fails with the change: yes"
if [ $ok = 1 ]; then
  dst=$root/seeded/$id-$name
  mkdir -p $dst
  cp $src/patch.diff $dst/patch.diff
  cp $src/demo_path.txt $dst/ 2>/dev/null
  for f in $src/*.go; do [ -f "$f" ] && cp "$f" $dst/; done
  python3 - "$src/meta.json" "$dst/meta.json" "$demo_cmd" "$wt" <<'EOF'
import json, sys
m = json.load(open(sys.argv[1]))
m["what_it_needs_to_manifest"] = m.get("needs", "")
m["confirmed_by_coordinator"] = {
    "how": "tools/mut/ingest.sh in a fresh scratch worktree of /repo HEAD: demo passes without the change; patch applies and builds with and without -tags verif; whole existing suite passes with it; demo fails with it",
    "demo_run": sys.argv[3].replace(sys.argv[4], "<worktree>"), "result": "CONFIRMED"}
m["written_by"] = "independent sub-agent given only the property text and a scratch worktree"
json.dump(m, open(sys.argv[2], "w"), indent=1)
EOF
  echo "CONFIRMED -> $dst"
else
  echo REJECTED
fi
