#!/bin/bash
# usage: tools/mut/prep.sh <ID> [<slot>]
# Prepares /tmp/mut/<ID><slot>/ for an independent mutator agent: a scratch worktree of /repo's
# HEAD (wt/), PROPERTY.md (the property text only), BRIEF.md (tools/mut/MUTATOR_BRIEF.md with
# the directory filled in), out/. The agent is told to read only that directory.
set -eu
id=$1; slot=${2:-}
root=$(cd "$(dirname "$0")/../.." && pwd)
d=/tmp/mut/$id$slot
git -C /repo worktree remove --force $d/wt >/dev/null 2>&1 || true
rm -rf $d; mkdir -p $d/out
git -C /repo worktree add -q --detach $d/wt HEAD
python3 - "$root/properties.jsonl" "$id" > $d/PROPERTY.md <<'EOF'
import json, sys
for l in open(sys.argv[1]):
    p = json.loads(l)
    if p["id"] == sys.argv[2]:
        print("# Property %s — %s\n" % (p["id"], p["title"]))
        print("## Statement\n\n%s\n" % p["statement"])
        print("## Quantifier\n\n%s\n" % p["quantifier"]["text"])
        print("## Why the existing tests cannot settle it\n\n%s\n" % p.get("why_tests_cant", ""))
        print("## Anchors (where the mechanism lives)\n")
        a = p["anchors"]
        print("files: " + ", ".join(a.get("files", [])))
        for m in a.get("mechanism", []):
            print("* %s — %s" % (m["name"], m["where"]))
        print("\nobserve at: " + "; ".join(a.get("observe_at", [])))
EOF
python3 - "$root/seeded" "$id" > $d/ALREADY_TRIED.md <<'EOF'
import json, sys, os, glob
print("# Changes already written for this property by earlier engineers (titles only) — yours must be different in mechanism and site\n")
for d in sorted(glob.glob(os.path.join(sys.argv[1], sys.argv[2] + "-*"))):
    try:
        m = json.load(open(os.path.join(d, "meta.json")))
        print("* %s — %s" % (str(m.get("title", os.path.basename(d)))[:200], str(m.get("what_it_needs_to_manifest", m.get("needs", "")))[:200]))
    except Exception:
        pass
EOF
sed "s#/tmp/mut/<ID>#$d#g" $root/tools/mut/MUTATOR_BRIEF.md > $d/BRIEF.md
echo $d
