#!/bin/bash
# usage: tools/dbg.sh <file.v relative to coq/> <line> [tail-lines]
# prints the goals after executing the file up to the given line (run from anywhere)
cd "$(dirname "$0")/../coq" || exit 1
f=$1; n=$2
tmp=$(mktemp /tmp/dbgXXXX.v)
head -n $n $f > $tmp
echo "Show." >> $tmp
timeout 300 coqtop -q -R . Eino < $tmp 2>&1 | tail -n ${3:-40}
rm -f $tmp
