#!/bin/bash
# usage: tools/thorough_sweep.sh <ID>...  — clean-room thorough tier of the given properties, 3 at a time (for `vp run`)
cd "$(dirname "$0")/.." || exit 1
export GOFLAGS=-mod=mod GOPROXY=off GOSUMDB=off GOTOOLCHAIN=local
ls coq/Gen/*.vo >/dev/null 2>&1 || ./setup.sh > setup.log 2>&1
mkdir -p sweep
echo "$@" | tr ' ' '\n' | xargs -P 3 -I{} bash -c "s=\$(date +%s); ./check {} thorough > sweep/{}-thorough.log 2>&1; rc=\$?; e=\$(date +%s); echo \"{} thorough rc=\$rc wall=\$((e-s))\"; grep -h '^VIOLATION\|^KNOWN\|^\[check\]' sweep/{}-thorough.log | cut -c1-200"
echo THOROUGHDONE
