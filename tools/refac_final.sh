#!/bin/bash
# Complete re-run of the behaviour-preserving refactorings (refac/*/patch.diff) against the checks whose
# extractors read the touched files (+ the owner). Meant for `vp run` (clean snapshot of the committed /verif):
# builds everything first, then two lanes; results are copied to $1/refac/<name>/refac_result.json if $1 is given.
cd "$(dirname "$0")/.." || exit 1
export GOFLAGS=-mod=mod GOPROXY=off GOSUMDB=off GOTOOLCHAIN=local REFAC_PAR=4
ls coq/Gen/*.vo >/dev/null 2>&1 || ./setup.sh > setup.log 2>&1
rm -f refac/*/refac_result.json
lane() {
  for d in "$@"; do
    id=$(basename $d | cut -d- -f1)
    t=$(python3 tools/refac_targets.py $d $id)
    echo "== $d [$t]"; python3 tools/run_refac.py $d $t
    [ -n "$DEST" ] && [ -f $d/refac_result.json ] && cp $d/refac_result.json $DEST/$d/refac_result.json
  done
}
DEST=$1
all=$(ls -d refac/C*-[123] | sort)
a=$(echo "$all" | awk 'NR%2==1'); b=$(echo "$all" | awk 'NR%2==0')
lane $a > refacfinal-1.log 2>&1 &
lane $b > refacfinal-2.log 2>&1 &
wait
grep -hE '^==|tie-broken|FALSE|infra|stale' refacfinal-1.log refacfinal-2.log
echo REFACFINALDONE
