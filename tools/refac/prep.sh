#!/bin/bash
# usage: tools/refac/prep.sh <ID>   — prepares /tmp/refac/<ID>/ (worktree of /repo HEAD, PROPERTY.md, BRIEF.md, out/)
set -eu
id=$1
root=$(cd "$(dirname "$0")/../.." && pwd)
d=/tmp/refac/$id
git -C /repo worktree remove --force $d/wt >/dev/null 2>&1 || true
rm -rf $d; mkdir -p $d/out
git -C /repo worktree add -q --detach $d/wt HEAD
python3 - "$root/properties.jsonl" "$id" > $d/PROPERTY.md <<'EOF'
import json, sys
for l in open(sys.argv[1]):
    p = json.loads(l)
    if p["id"] == sys.argv[2]:
        print("# Property %s — %s\n" % (p["id"], p["title"]))
        print("## Statement\n\n%s\n" % p["statement"])
        print("## Anchors (where the mechanism lives)\n")
        a = p["anchors"]
        print("files: " + ", ".join(a.get("files", [])))
        for m in a.get("mechanism", []):
            print("* %s — %s" % (m["name"], m["where"]))
EOF
sed "s#/tmp/refac/<ID>#$d#g" $root/tools/refac/REFACTOR_BRIEF.md > $d/BRIEF.md
echo "You are an independent software engineer. Your whole task is described in the file $d/BRIEF.md — read it completely first, then $d/PROPERTY.md, then do the task. Work only inside $d/ (the scratch git worktree is $d/wt). Never touch /repo, and do not read or list /verif. Every shell call that runs Go needs: export GOFLAGS=-mod=mod GOPROXY=off GOSUMDB=off GOTOOLCHAIN=local (no network). The machine is shared with many other heavy jobs: run at most one \`go test ./...\` at a time. Deliver exactly what the brief asks for in $d/out/1, $d/out/2, $d/out/3 and finish with the short final message the brief describes." > $d/PROMPT.txt
echo $d
