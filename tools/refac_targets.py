#!/usr/bin/env python3
"""Which properties' checks read the files a refactoring touches (through a go2v extractor or a verif hook)?
usage: tools/refac_targets.py <dir with patch.diff> <owner-ID>  -> prints the property ids to run"""
import sys, os, re, json, glob
ROOT = os.path.dirname(os.path.dirname(os.path.abspath(__file__)))
patch = open(os.path.join(sys.argv[1], "patch.diff")).read()
touched = set(os.path.basename(m) for m in re.findall(r"^\+\+\+ b/(\S+)", patch, flags=re.M))
ids = sorted(f[:-5] for f in os.listdir(ROOT + "/props") if f.endswith(".json"))
shared = {"chancode.go": ["C01", "C02"], "consts.go": ["C01", "C08"], "paradigm.go": ["C04"], "assignable.go": ["C07"], "concat.go": ["C14"], "concatmsg.go": ["C14"]}
out = {sys.argv[2]} if len(sys.argv) > 2 else set()
for f in glob.glob(ROOT + "/tools/go2v/*.go"):
    b = os.path.basename(f)
    m = re.match(r"c(\d\d)_", b)
    owners = ["C" + m.group(1)] if m else shared.get(b, [])
    src = open(f).read()
    if any(('"' + t + '"' in src) or ("/" + t + '"' in src) or (t in src) for t in touched):
        out.update(owners)
# C09's effect extractor reads whole packages, not named files
if any(m.startswith(("compose/", "flow/agent/", "internal/callbacks/")) for m in re.findall(r"^\+\+\+ b/(\S+)", patch, flags=re.M)):
    out.add("C09")
print(" ".join(sorted(x for x in out if x in ids)))
