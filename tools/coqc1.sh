#!/bin/bash
# usage: tools/coqc1.sh Model/Foo.v [Proofs/Foo.v ...]
# compile single files of the development in the given order, without taking the
# build lock (safe as long as you only compile files you own and their
# dependencies are already built). Run from anywhere.
cd "$(dirname "$0")/../coq" || exit 1
for f in "$@"; do
  echo "COQC $f"
  timeout ${COQC_TIMEOUT:-900} coqc -q -R . Eino -w -notation-overridden,-deprecated-hint-without-locality,-deprecated-instance-without-locality "$f" || exit 1
done
