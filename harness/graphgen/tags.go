package graphgen

import "fmt"

// Tags describes a case and its outcome for the distribution histogram of the evidence.
func Tags(c *Case, o *Obs) []string {
	root := &c.Forest[0]
	nodes, subs, passes, branches, multi := 0, 0, 0, 0, 0
	cyc := false
	for gi := range c.Forest {
		g := &c.Forest[gi]
		if g.Front == "chain" {
			for _, st := range g.Stages {
				nodes += len(st.Nodes)
				if st.Kind == "branch" {
					branches++
				}
				for _, sn := range st.Nodes {
					if sn.Kind == "sub" {
						subs++
					}
					if sn.Kind == "pass" {
						passes++
					}
				}
			}
			continue
		}
		for _, n := range g.Nodes {
			if n.Key == START {
				branches += len(n.Branches)
				continue
			}
			nodes++
			if n.Kind == "sub" {
				subs++
			}
			if n.Kind == "pass" {
				passes++
			}
			branches += len(n.Branches)
			for _, b := range n.Branches {
				if !b.Single {
					multi++
				}
				for _, e := range b.Ends {
					if e != END && e <= n.Key {
						cyc = true
					}
				}
			}
			for _, t := range n.DSucc {
				if t != END && t <= n.Key {
					cyc = true
				}
			}
		}
	}
	tags := []string{
		"root:" + root.Front + "/" + root.Mode,
		fmt.Sprintf("graphs:%d", len(c.Forest)),
		fmt.Sprintf("nodes:%d", bucket(nodes)),
		fmt.Sprintf("branches:%d", bucket(branches)),
		"class:" + o.Class,
		fmt.Sprintf("execs:%d", bucket(len(o.Log))),
	}
	if o.Class == "fail" {
		tags = append(tags, fmt.Sprintf("err:%d", o.ErrClass))
	}
	if cyc {
		tags = append(tags, "shape:cycle")
	}
	if subs > 0 {
		tags = append(tags, "shape:nested")
	}
	if passes > 0 {
		tags = append(tags, "shape:passthrough")
	}
	if multi > 0 {
		tags = append(tags, "shape:multibranch")
	}
	if len(c.Fails) > 0 {
		tags = append(tags, "shape:failing-node")
	}
	return tags
}

func bucket(n int) int {
	switch {
	case n <= 6:
		return n
	case n <= 10:
		return 10
	case n <= 20:
		return 20
	}
	return 50
}

// Nontrivial: at least two lambda executions and (a branch, a fan-in, a cycle or a nested graph).
func Nontrivial(c *Case, o *Obs) bool {
	if len(o.Log) < 2 {
		return false
	}
	if len(c.Forest) > 1 {
		return true
	}
	g := &c.Forest[0]
	if g.Front == "chain" {
		return len(g.Stages) >= 2
	}
	in := map[uint64]int{}
	for _, n := range g.Nodes {
		if len(n.Branches) > 0 {
			return true
		}
		for _, t := range n.DSucc {
			in[t]++
			if t != END && t <= n.Key && n.Key != START {
				return true
			}
		}
		for _, t := range n.CSucc {
			if !has(n.DSucc, t) {
				in[t]++
			}
		}
	}
	for _, k := range in {
		if k > 1 {
			return true
		}
	}
	return false
}
