package graphgen

import (
	"context"
	"errors"
	"fmt"
	"io"
	"runtime"
	"strconv"
	"strings"
	"sync"
	"time"

	"github.com/cloudwego/eino/compose"
	"github.com/cloudwego/eino/schema"

	"verif/harness/lib"
)

// NodeErr is the error a failing harness lambda returns.
type NodeErr struct{ Code uint64 }

func (e *NodeErr) Error() string { return "verif-node-fail:" + strconv.FormatUint(e.Code, 10) }

// Recorder collects (path, input) of every lambda execution, in global order.
type Recorder struct {
	mu     sync.Mutex
	Events []Event
	Over   bool // some lambda saw an input larger than SizeBudget: the case is dropped (class "budget")
	// Unbounded: some lambda was handed a value that contains itself or unfolds beyond MaxNodes (value.go): no
	// merge of the bounded values of a case is like that; the run is reported as failed with UnboundedMsg
	Unbounded bool
}

// UnboundedMsg is the error message of a run in which a lambda received an unbounded value.
const UnboundedMsg = "verif-unbounded-value: a node was handed a value that contains itself (or is nested deeper than the harness can walk): not the merge of the values it was sent"

func (r *Recorder) IsUnbounded() bool {
	r.mu.Lock()
	defer r.mu.Unlock()
	return r.Unbounded
}

// SizeBudget bounds the size of the values a case may build (cyclic graphs with fan-in double them
// in every superstep); a run that exceeds it is aborted and not sent to the model.
const SizeBudget = 3000

func (r *Recorder) Rec(path []uint64, in M) {
	v := FromGo(in)
	r.mu.Lock()
	r.Events = append(r.Events, Event{Path: path, In: v})
	r.mu.Unlock()
}

func (r *Recorder) Snapshot() []Event {
	r.mu.Lock()
	defer r.mu.Unlock()
	out := make([]Event, len(r.Events))
	copy(out, r.Events)
	return out
}

// Body is a lambda body.
type Body func(ctx context.Context, in M) (M, error)

// BuildOpts customises Build.
type BuildOpts struct {
	// Wrap, if set, wraps every lambda body (path = full node path from the root).
	Wrap func(path []uint64, body Body) Body
	// RootCompileOpts are appended to the compile options of the root graph.
	RootCompileOpts []compose.GraphCompileOption
	// SubCompileOpts, if set, returns extra compile options for the sub-graph at forest index idx (node path p).
	SubCompileOpts func(idx int, p []uint64) []compose.GraphCompileOption
	// NodeOpts, if set, returns extra add-node options for the node at path p.
	NodeOpts func(p []uint64, n *Node) []compose.GraphAddNodeOpt
	// AutoChainKeys: chain nodes are appended WITHOUT WithNodeKey, so that Chain generates their graph keys
	// (node_0, node_1_parallel_0, node_2_branch_<key> ...). Observations do not mention eino's node keys
	// (lambdas are identified by their harness path), so nothing else changes. Default: explicit keys.
	AutoChainKeys bool
	// Reuse: builder values are shared between two constructions of the whole case. The forest is constructed
	// twice from the SAME compose.Lambda values, the same Parallel / ChainBranch value per chain stage and the
	// same GraphBranch value per branch of a Graph (chains, graphs and workflows themselves are fresh objects,
	// as are the branches of a Workflow); only one of the two constructions (the "real" one) is run.
	//   0 = off (every value is used once);
	//   1 = the twin is constructed first, then the real one;
	//   2 = the real one is constructed, then the twin, then the real one is compiled;
	//   3 = the real one is constructed and compiled, then the twin is constructed and compiled;
	//   4 = no twin: the root object itself is compiled twice, the FIRST runnable is run;
	//   5 = no twin: the root object itself is compiled twice, the SECOND runnable is run.
	// Appending one ChainBranch / Parallel / Lambda to several chains is ordinary use of the builder API: what a
	// compiled object does must not depend on what else was built from the same parts.
	Reuse int
	// StreamConds: the branch conditions of Graphs and Chains are built with the stream constructors
	// (NewStreamGraphBranch / NewStreamGraphMultiBranch / NewStreamChainBranch / NewStreamChainMultiBranch): the
	// condition reads its whole input stream and decides on the size of the concatenated chunks (maps united key
	// by key, recursively) — the same table as the value conditions. Workflow branches keep the value form.
	StreamConds bool
	// PipeLambdas: every lambda is Stream-native (compose.StreamableLambda) and emits its output through a
	// schema.Pipe: one chunk, or two when the output {key: {a: .., b: ..}} can be cut below the node's own key
	// ({key: {a: ..}}, {key: {b: ..}} — they concatenate back to the output). What flows between the nodes is
	// then a real stream (not an array-backed one) in every calling paradigm; the values the next lambda records
	// (its concatenated input) and the results are the same as with Invoke-native lambdas.
	PipeLambdas bool
}

type Built struct {
	R   compose.Runnable[M, M]
	Rec *Recorder
}

type builder struct {
	c     *Case
	o     BuildOpts
	rec   *Recorder
	cache map[string]any // Reuse: builder values by position (nil = off)
}

// shared returns the builder value cached for a position, constructing it on first use (always, when Reuse is off).
func (b *builder) shared(kind string, p []uint64, i int, mk func() any) any {
	if b.cache == nil {
		return mk()
	}
	k := fmt.Sprint(kind, p, i)
	if v, ok := b.cache[k]; ok {
		return v
	}
	v := mk()
	b.cache[k] = v
	return v
}

func pathOf(p []uint64, k uint64) []uint64 {
	q := make([]uint64, len(p)+1)
	copy(q, p)
	q[len(p)] = k
	return q
}

func samePath(a, b []uint64) bool {
	if len(a) != len(b) {
		return false
	}
	for i := range a {
		if a[i] != b[i] {
			return false
		}
	}
	return true
}

func (b *builder) lambda(path []uint64) *compose.Lambda {
	return b.shared("lambda", path, 0, func() any { return b.newLambda(path) }).(*compose.Lambda)
}

func (b *builder) newLambda(path []uint64) *compose.Lambda {
	key := KeyStr(path[len(path)-1])
	var fails []FailEntry
	for _, f := range b.c.Fails {
		if samePath(f.Path, path) {
			fails = append(fails, f)
		}
	}
	body := Body(func(ctx context.Context, in M) (M, error) {
		if Unbounded(in) {
			b.rec.mu.Lock()
			b.rec.Unbounded = true
			b.rec.mu.Unlock()
			return nil, errors.New(UnboundedMsg)
		}
		if SizeOfGo(in) > SizeBudget {
			b.rec.mu.Lock()
			b.rec.Over = true
			b.rec.mu.Unlock()
			return nil, errors.New("verif-size-budget")
		}
		b.rec.Rec(path, in)
		if len(fails) > 0 {
			sz := SizeOfGo(in)
			for _, f := range fails {
				m := f.Mod
				if m < 1 {
					m = 1
				}
				if sz%m == f.Res {
					return nil, &NodeErr{Code: f.Code}
				}
			}
		}
		return M{key: in}, nil
	})
	if b.o.Wrap != nil {
		body = b.o.Wrap(path, body)
	}
	if b.o.PipeLambdas {
		return compose.StreamableLambda(func(ctx context.Context, in M) (*schema.StreamReader[M], error) {
			out, err := body(ctx, in)
			if err != nil {
				return nil, err
			}
			chunks := splitOutput(out)
			// buffered: the producer never waits for a reader (a frontier that is dropped because END was
			// reached leaves its input streams unread)
			sr, sw := schema.Pipe[M](len(chunks))
			for _, c := range chunks {
				sw.Send(c, nil)
			}
			sw.Close()
			return sr, nil
		})
	}
	return compose.InvokableLambda(func(ctx context.Context, in M) (M, error) { return body(ctx, in) })
}

func endsMap(ends []uint64) map[string]bool {
	m := make(map[string]bool, len(ends))
	for _, e := range ends {
		m[nodeName(e)] = true
	}
	return m
}

func nodeName(k uint64) string {
	switch k {
	case START:
		return compose.START
	case END:
		return compose.END
	}
	return KeyStr(k)
}

// splitOutput cuts a lambda output {key: inner} into two chunks below its single key when inner is a map with
// at least two keys (smallest key first chunk, the rest second); anything else is one chunk.
func splitOutput(out M) []M {
	if len(out) != 1 {
		return []M{out}
	}
	for k, v := range out {
		inner, ok := v.(M)
		if !ok || len(inner) < 2 {
			return []M{out}
		}
		first := ""
		for ik := range inner {
			if first == "" || ik < first {
				first = ik
			}
		}
		a, b := M{}, M{}
		for ik, iv := range inner {
			if ik == first {
				a[ik] = iv
			} else {
				b[ik] = iv
			}
		}
		return []M{{k: a}, {k: b}}
	}
	return []M{out}
}

// streamSize reads a stream of map chunks to its end and returns the size of their concatenation.
func streamSize(sr *schema.StreamReader[M]) (uint64, error) {
	defer sr.Close()
	var chunks []any
	for {
		c, err := sr.Recv()
		if err == io.EOF {
			break
		}
		if err != nil {
			return 0, err
		}
		if Unbounded(c) {
			return 0, errors.New(UnboundedMsg)
		}
		chunks = append(chunks, c)
	}
	switch len(chunks) {
	case 0:
		return 0, errors.New("graphgen: condition got an empty stream")
	case 1:
		return SizeOfGo(chunks[0]), nil
	}
	return SizeOfGo(ConcatGo(chunks)), nil
}

// ConcatGo concatenates chunks the way eino concatenates map chunks: maps are united key by key (recursively
// for a key met several times), of anything else the last one is kept.
func ConcatGo(vs []any) any {
	var maps []M
	for _, v := range vs {
		m, ok := v.(M)
		if !ok {
			return vs[len(vs)-1]
		}
		maps = append(maps, m)
	}
	per := map[string][]any{}
	for _, m := range maps {
		for k, v := range m {
			per[k] = append(per[k], v)
		}
	}
	out := make(M, len(per))
	for k, g := range per {
		if len(g) == 1 {
			out[k] = g[0]
		} else {
			out[k] = ConcatGo(g)
		}
	}
	return out
}

// streamGraphBranch: graphBranch with the stream constructors.
func streamGraphBranch(br *Branch) *compose.GraphBranch {
	table := br.Table
	if br.Single {
		return compose.NewStreamGraphBranch(func(ctx context.Context, in *schema.StreamReader[M]) (string, error) {
			sz, err := streamSize(in)
			if err != nil {
				return "", err
			}
			return nodeName(table[sz%uint64(len(table))][0]), nil
		}, endsMap(br.Ends))
	}
	return compose.NewStreamGraphMultiBranch(func(ctx context.Context, in *schema.StreamReader[M]) (map[string]bool, error) {
		sz, err := streamSize(in)
		if err != nil {
			return nil, err
		}
		if len(table) == 0 {
			return map[string]bool{}, nil
		}
		return endsMap(table[sz%uint64(len(table))]), nil
	}, endsMap(br.Ends))
}

// graphBranch builds the real branch object from the table.
func graphBranch(br *Branch) *compose.GraphBranch {
	table := br.Table
	if br.Single {
		return compose.NewGraphBranch(func(ctx context.Context, in M) (string, error) {
			row := table[SizeOfGo(in)%uint64(len(table))]
			return nodeName(row[0]), nil
		}, endsMap(br.Ends))
	}
	return compose.NewGraphMultiBranch(func(ctx context.Context, in M) (map[string]bool, error) {
		if len(table) == 0 {
			return map[string]bool{}, nil
		}
		return endsMap(table[SizeOfGo(in)%uint64(len(table))]), nil
	}, endsMap(br.Ends))
}

func (b *builder) subCompileOpts(idx int, p []uint64) []compose.GraphCompileOption {
	g := &b.c.Forest[idx]
	var opts []compose.GraphCompileOption
	if g.Front == "graph" && g.Mode == "dag" {
		opts = append(opts, compose.WithNodeTriggerMode(compose.AllPredecessor))
	}
	if g.Max > 0 {
		opts = append(opts, compose.WithMaxRunSteps(g.Max))
	}
	if b.o.SubCompileOpts != nil {
		opts = append(opts, b.o.SubCompileOpts(idx, p)...)
	}
	return opts
}

// BranchKey is the key under which a node is added to a ChainBranch and which the branch condition returns: it
// differs from the node's graph key (KeyStr), so that code which confuses the two name spaces shows.
func BranchKey(k uint64) string { return "b" + KeyStr(k) }

func (b *builder) chainKeyOpt(k uint64) []compose.GraphAddNodeOpt {
	if b.o.AutoChainKeys {
		return nil
	}
	return []compose.GraphAddNodeOpt{compose.WithNodeKey(KeyStr(k))}
}

func (b *builder) nodeOpts(p []uint64, n *Node, extra ...compose.GraphAddNodeOpt) []compose.GraphAddNodeOpt {
	opts := extra
	if n.OutKey != 0 {
		opts = append(opts, compose.WithOutputKey(KeyStr(n.OutKey)))
	}
	if n.Kind == "sub" {
		if co := b.subCompileOpts(n.Sub, p); len(co) > 0 {
			opts = append(opts, compose.WithGraphCompileOptions(co...))
		}
	}
	if b.o.NodeOpts != nil {
		opts = append(opts, b.o.NodeOpts(p, n)...)
	}
	return opts
}

// anyGraph builds forest[idx] instantiated at node path p (p = nil for the root).
func (b *builder) anyGraph(idx int, p []uint64) (compose.AnyGraph, error) {
	if idx < 0 || idx >= len(b.c.Forest) {
		return nil, fmt.Errorf("graphgen: forest index %d out of range", idx)
	}
	g := &b.c.Forest[idx]
	switch g.Front {
	case "graph":
		return b.plainGraph(g, p)
	case "workflow":
		return b.workflow(g, p)
	case "chain":
		return b.chain(g, p)
	}
	return nil, fmt.Errorf("graphgen: unknown front %q", g.Front)
}

func (b *builder) plainGraph(g *Graph, p []uint64) (*compose.Graph[M, M], error) {
	cg := compose.NewGraph[M, M]()
	for i := range g.Nodes {
		n := &g.Nodes[i]
		if n.Key == START {
			continue
		}
		np := pathOf(p, n.Key)
		var err error
		switch n.Kind {
		case "lambda":
			err = cg.AddLambdaNode(KeyStr(n.Key), b.lambda(np), b.nodeOpts(np, n)...)
		case "pass":
			err = cg.AddPassthroughNode(KeyStr(n.Key), b.nodeOpts(np, n)...)
		case "sub":
			var sg compose.AnyGraph
			sg, err = b.anyGraph(n.Sub, np)
			if err == nil {
				err = cg.AddGraphNode(KeyStr(n.Key), sg, b.nodeOpts(np, n)...)
			}
		default:
			err = fmt.Errorf("graphgen: bad node kind %q", n.Kind)
		}
		if err != nil {
			return nil, err
		}
	}
	for i := range g.Nodes {
		n := &g.Nodes[i]
		// the public Graph API only has edges that are both data and control: DSucc is authoritative
		for _, t := range n.DSucc {
			if err := cg.AddEdge(nodeName(n.Key), nodeName(t)); err != nil {
				return nil, err
			}
		}
	}
	for i := range g.Nodes {
		n := &g.Nodes[i]
		for j := range n.Branches {
			br := &n.Branches[j]
			gb := b.shared("gbranch", pathOf(p, n.Key), j, func() any {
				if b.o.StreamConds {
					return streamGraphBranch(br)
				}
				return graphBranch(br)
			}).(*compose.GraphBranch)
			if err := cg.AddBranch(nodeName(n.Key), gb); err != nil {
				return nil, err
			}
		}
	}
	return cg, nil
}

func has(ks []uint64, k uint64) bool {
	for _, x := range ks {
		if x == k {
			return true
		}
	}
	return false
}

func (b *builder) workflow(g *Graph, p []uint64) (*compose.Workflow[M, M], error) {
	wf := compose.NewWorkflow[M, M]()
	wn := map[uint64]*compose.WorkflowNode{}
	for i := range g.Nodes {
		n := &g.Nodes[i]
		if n.Key == START {
			continue
		}
		np := pathOf(p, n.Key)
		switch n.Kind {
		case "lambda":
			wn[n.Key] = wf.AddLambdaNode(KeyStr(n.Key), b.lambda(np), b.nodeOpts(np, n)...)
		case "pass":
			wn[n.Key] = wf.AddPassthroughNode(KeyStr(n.Key), b.nodeOpts(np, n)...)
		case "sub":
			sg, err := b.anyGraph(n.Sub, np)
			if err != nil {
				return nil, err
			}
			wn[n.Key] = wf.AddGraphNode(KeyStr(n.Key), sg, b.nodeOpts(np, n)...)
		default:
			return nil, fmt.Errorf("graphgen: bad node kind %q", n.Kind)
		}
	}
	wn[END] = wf.End()
	for i := range g.Nodes {
		n := &g.Nodes[i]
		field := map[uint64]uint64{}
		for _, kn := range n.DMap {
			field[kn.Key] = kn.Field
		}
		mapping := func(t uint64) []*compose.FieldMapping {
			if f, ok := field[t]; ok {
				return []*compose.FieldMapping{compose.ToField(KeyStr(f))}
			}
			return nil
		}
		for _, t := range n.DSucc {
			tn := wn[t]
			if tn == nil {
				return nil, fmt.Errorf("graphgen: workflow edge to unknown node %d", t)
			}
			if has(n.CSucc, t) {
				tn.AddInput(nodeName(n.Key), mapping(t)...)
			} else {
				tn.AddInputWithOptions(nodeName(n.Key), mapping(t), compose.WithNoDirectDependency())
			}
		}
		for _, t := range n.CSucc {
			if !has(n.DSucc, t) {
				tn := wn[t]
				if tn == nil {
					return nil, fmt.Errorf("graphgen: workflow dependency to unknown node %d", t)
				}
				tn.AddDependency(nodeName(n.Key))
			}
		}
		for j := range n.Branches {
			wf.AddBranch(nodeName(n.Key), graphBranch(&n.Branches[j]))
		}
	}
	return wf, nil
}

func (b *builder) chain(g *Graph, p []uint64) (*compose.Chain[M, M], error) {
	ch := compose.NewChain[M, M]()
	for si := range g.Stages {
		st := &g.Stages[si]
		switch st.Kind {
		case "node":
			sn := &st.Nodes[0]
			np := pathOf(p, sn.Key)
			n := &Node{Key: sn.Key, Kind: sn.Kind, Sub: sn.Sub, OutKey: sn.OutKey}
			opts := b.nodeOpts(np, n, b.chainKeyOpt(sn.Key)...)
			switch sn.Kind {
			case "lambda":
				ch.AppendLambda(b.lambda(np), opts...)
			case "pass":
				ch.AppendPassthrough(opts...)
			case "sub":
				sg, err := b.anyGraph(sn.Sub, np)
				if err != nil {
					return nil, err
				}
				ch.AppendGraph(sg, opts...)
			}
		case "par":
			var perr error
			par := b.shared("par", p, si, func() any {
				par := compose.NewParallel()
				for ni := range st.Nodes {
					sn := &st.Nodes[ni]
					np := pathOf(p, sn.Key)
					// the output key is given to Parallel.Add*, not as an option
					n := &Node{Key: sn.Key, Kind: sn.Kind, Sub: sn.Sub}
					opts := b.nodeOpts(np, n, b.chainKeyOpt(sn.Key)...)
					ok := KeyStr(sn.OutKey)
					switch sn.Kind {
					case "lambda":
						par.AddLambda(ok, b.lambda(np), opts...)
					case "pass":
						par.AddPassthrough(ok, opts...)
					case "sub":
						sg, err := b.anyGraph(sn.Sub, np)
						if err != nil {
							perr = err
							return par
						}
						par.AddGraph(ok, sg, opts...)
					}
				}
				return par
			}).(*compose.Parallel)
			if perr != nil {
				return nil, perr
			}
			ch.AppendParallel(par)
		case "branch":
			var berr error
			cb := b.shared("cbranch", p, si, func() any {
				table := st.Table
				var cb *compose.ChainBranch
				if b.o.StreamConds && st.Single {
					cb = compose.NewStreamChainBranch(func(ctx context.Context, in *schema.StreamReader[M]) (string, error) {
						sz, err := streamSize(in)
						if err != nil {
							return "", err
						}
						return BranchKey(table[sz%uint64(len(table))][0]), nil
					})
				} else if b.o.StreamConds {
					cb = compose.NewStreamChainMultiBranch(func(ctx context.Context, in *schema.StreamReader[M]) (map[string]bool, error) {
						sz, err := streamSize(in)
						if err != nil {
							return nil, err
						}
						out := map[string]bool{}
						if len(table) > 0 {
							for _, k := range table[sz%uint64(len(table))] {
								out[BranchKey(k)] = true
							}
						}
						return out, nil
					})
				} else if st.Single {
					cb = compose.NewChainBranch(func(ctx context.Context, in M) (string, error) {
						return BranchKey(table[SizeOfGo(in)%uint64(len(table))][0]), nil
					})
				} else {
					cb = compose.NewChainMultiBranch(func(ctx context.Context, in M) (map[string]bool, error) {
						out := map[string]bool{}
						if len(table) > 0 {
							for _, k := range table[SizeOfGo(in)%uint64(len(table))] {
								out[BranchKey(k)] = true
							}
						}
						return out, nil
					})
				}
				for ni := range st.Nodes {
					sn := &st.Nodes[ni]
					np := pathOf(p, sn.Key)
					n := &Node{Key: sn.Key, Kind: sn.Kind, Sub: sn.Sub, OutKey: sn.OutKey}
					opts := b.nodeOpts(np, n, b.chainKeyOpt(sn.Key)...)
					bk := BranchKey(sn.Key)
					switch sn.Kind {
					case "lambda":
						cb.AddLambda(bk, b.lambda(np), opts...)
					case "pass":
						cb.AddPassthrough(bk, opts...)
					case "sub":
						sg, err := b.anyGraph(sn.Sub, np)
						if err != nil {
							berr = err
							return cb
						}
						cb.AddGraph(bk, sg, opts...)
					}
				}
				return cb
			}).(*compose.ChainBranch)
			if berr != nil {
				return nil, berr
			}
			ch.AppendBranch(cb)
		default:
			return nil, fmt.Errorf("graphgen: bad stage kind %q", st.Kind)
		}
	}
	return ch, nil
}

// Build constructs and compiles the real objects for a case.
func Build(ctx context.Context, c *Case, o BuildOpts) (*Built, error) {
	b := &builder{c: c, o: o, rec: &Recorder{}}
	if len(c.Forest) == 0 {
		return nil, errors.New("graphgen: empty forest")
	}
	if o.Reuse != 0 {
		b.cache = map[string]any{}
	}
	root := &c.Forest[0]
	opts := append(b.subCompileOpts(0, nil), o.RootCompileOpts...)
	compileRoot := func(ag compose.AnyGraph) (r compose.Runnable[M, M], err error) {
		switch root.Front {
		case "graph":
			r, err = ag.(*compose.Graph[M, M]).Compile(ctx, opts...)
		case "workflow":
			r, err = ag.(*compose.Workflow[M, M]).Compile(ctx, opts...)
		case "chain":
			r, err = ag.(*compose.Chain[M, M]).Compile(ctx, opts...)
		}
		return r, err
	}
	if o.Reuse == 1 {
		// the twin comes first (its errors are those of the real construction, reported below)
		_, _ = b.anyGraph(0, nil)
	}
	ag, err := b.anyGraph(0, nil)
	if err != nil {
		return nil, err
	}
	if o.Reuse == 2 {
		_, _ = b.anyGraph(0, nil)
	}
	r, err := compileRoot(ag)
	if err != nil {
		return nil, err
	}
	switch o.Reuse {
	case 3:
		if twin, terr := b.anyGraph(0, nil); terr == nil {
			_, _ = compileRoot(twin)
		}
	case 4, 5:
		r2, err2 := compileRoot(ag)
		if err2 != nil {
			return nil, fmt.Errorf("second Compile of the same object: %w", err2)
		}
		if o.Reuse == 5 {
			r = r2
		}
	}
	return &Built{R: r, Rec: b.rec}, nil
}

// ClassifyErr maps an error of a run to the class numbers of Model/Graph.v (0 = unknown).
func ClassifyErr(err error) uint64 {
	if err == nil {
		return 0
	}
	var ne *NodeErr
	if errors.As(err, &ne) {
		return 100 + ne.Code
	}
	msg := err.Error()
	if i := strings.Index(msg, "verif-node-fail:"); i >= 0 {
		rest := msg[i+len("verif-node-fail:"):]
		j := 0
		for j < len(rest) && rest[j] >= '0' && rest[j] <= '9' {
			j++
		}
		if c, e := strconv.ParseUint(rest[:j], 10, 64); e == nil {
			return 100 + c
		}
	}
	switch {
	case errors.Is(err, compose.ErrExceedMaxSteps), strings.Contains(msg, "exceeds max steps"):
		return 3
	case strings.Contains(msg, "no tasks to execute"):
		return 4
	case strings.Contains(msg, "duplicated key"):
		return 1
	case strings.Contains(msg, "unknown node"):
		return 5
	case strings.Contains(msg, "unintended end node"):
		return 9
	case strings.Contains(msg, "type mismatch"), strings.Contains(msg, "unsupported type"):
		return 2
	case strings.Contains(msg, "panic"):
		return 10
	}
	return 0
}

// RunOpts customises Run.
type RunOpts struct {
	Build    BuildOpts
	CallOpts []compose.Option
	Timeout  time.Duration // watchdog; default 10s
}

// Run builds the case and invokes the root once.
func Run(c *Case, o RunOpts) *Obs {
	ctx := context.Background()
	var bt *Built
	var berr error
	if p := lib.Recover(func() { bt, berr = Build(ctx, c, o.Build) }); p != nil {
		return &Obs{Class: "panic", ErrMsg: "build: " + fmt.Sprint(p)}
	}
	if berr != nil {
		return &Obs{Class: "compile", ErrMsg: berr.Error()}
	}
	return Invoke(ctx, bt, c.Input, o)
}

// Invoke runs an already built case under Recover and a watchdog.
func Invoke(ctx context.Context, bt *Built, input *Val, o RunOpts) *Obs {
	timeout := o.Timeout
	if timeout == 0 {
		timeout = 10 * time.Second
	}
	base := runtime.NumGoroutine()
	type result struct {
		out M
		err error
		p   any
	}
	done := make(chan result, 1)
	go func() {
		var res result
		res.p = lib.Recover(func() { res.out, res.err = bt.R.Invoke(ctx, input.ToGo().(M), o.CallOpts...) })
		done <- res
	}()
	var res result
	select {
	case res = <-done:
	case <-time.After(timeout):
		return &Obs{Class: "hang", Log: bt.Rec.Snapshot()}
	}
	// eager runs may return while sibling tasks are still running: wait for the goroutines of the run
	for i := 0; i < 2000 && runtime.NumGoroutine() > base; i++ {
		if i < 50 {
			runtime.Gosched()
		} else {
			time.Sleep(100 * time.Microsecond)
		}
	}
	obs := &Obs{Log: bt.Rec.Snapshot()}
	bt.Rec.mu.Lock()
	over := bt.Rec.Over
	bt.Rec.mu.Unlock()
	switch {
	case bt.Rec.IsUnbounded():
		obs.Class = "fail"
		obs.ErrMsg = UnboundedMsg
	case over:
		obs.Class = "budget"
	case res.p != nil:
		obs.Class = "panic"
		obs.ErrMsg = fmt.Sprint(res.p)
	case res.err != nil:
		obs.Class = "fail"
		obs.ErrClass = ClassifyErr(res.err)
		obs.ErrMsg = strings.ReplaceAll(res.err.Error(), "\n", " | ")
		if len(obs.ErrMsg) > 300 {
			obs.ErrMsg = obs.ErrMsg[:300]
		}
	default:
		obs.Class = "done"
		obs.Result = FromGo(res.out)
	}
	return obs
}
