package graphgen

import (
	"sort"

	"verif/harness/lib"
)

// GenOpts are the knobs of the generators.
type GenOpts struct {
	MaxNodes int // real nodes per graph (>= 1)
	MaxDepth int // nesting depth of sub-graphs (0 = flat)
	// SubFronts: fronts allowed for sub-graphs: "pregel", "dag", "workflow", "chain". Empty = all.
	SubFronts []string
	FailProb  int  // percent of cases with one failing lambda
	NoCycles  bool // Pregel graphs without back edges
	// Clean restricts DAG/Workflow shapes to the documented domain: every node has a control predecessor,
	// no node is both an edge target and a branch target of the same source, data-only edges follow a control path.
	Clean bool
}

func Quick() GenOpts    { return GenOpts{MaxNodes: 7, MaxDepth: 2, FailProb: 8} }
func Thorough() GenOpts { return GenOpts{MaxNodes: 12, MaxDepth: 3, FailProb: 8} }

type gen struct {
	r *lib.Rng
	o GenOpts
	c *Case
}

func newGen(r *lib.Rng, o GenOpts) *gen {
	if o.MaxNodes < 1 {
		o.MaxNodes = 1
	}
	return &gen{r: r, o: o, c: &Case{}}
}

func (g *gen) finish() *Case {
	r := g.r
	// input: a map with 1-2 keys >= 900
	kvs := []KV{{900 + uint64(r.Intn(3)), Atom(uint64(r.Intn(5)))}}
	if r.Chance(1, 4) {
		kvs = append(kvs, KV{905, MapOf(KV{906, Atom(1)})})
	}
	g.c.Input = MapOf(kvs...)
	if r.Chance(1, 25) {
		g.c.Input = MapOf()
	}
	if r.Intn(100) < g.o.FailProb {
		if ps := LambdaPaths(g.c); len(ps) > 0 {
			p := ps[r.Intn(len(ps))]
			m := uint64(r.Range(1, 3))
			g.c.Fails = []FailEntry{{Path: p, Mod: m, Res: uint64(r.Intn(int(m))), Code: uint64(r.Range(1, 3))}}
		}
	}
	return g.c
}

// GenPregel: root is a Graph in any-predecessor mode.
func GenPregel(r *lib.Rng, o GenOpts) *Case {
	g := newGen(r, o)
	g.graph("pregel", 0)
	return g.finish()
}

// GenDAG: root is a Graph compiled with AllPredecessor.
func GenDAG(r *lib.Rng, o GenOpts) *Case {
	g := newGen(r, o)
	g.graph("dag", 0)
	return g.finish()
}

// GenWorkflow: root is a Workflow.
func GenWorkflow(r *lib.Rng, o GenOpts) *Case {
	g := newGen(r, o)
	g.graph("workflow", 0)
	return g.finish()
}

// GenChain: root is a Chain.
func GenChain(r *lib.Rng, o GenOpts) *Case {
	g := newGen(r, o)
	g.graph("chain", 0)
	return g.finish()
}

// graph generates a graph of the given front at nesting depth d, appends it to the forest, returns its index.
func (g *gen) graph(front string, d int) int {
	idx := len(g.c.Forest)
	g.c.Forest = append(g.c.Forest, Graph{})
	var gr Graph
	switch front {
	case "pregel":
		gr = g.pregel(d)
	case "dag":
		gr = g.dag(d)
	case "workflow":
		gr = g.workflow(d)
	default:
		gr = g.chain(d)
	}
	g.c.Forest[idx] = gr
	return idx
}

func (g *gen) subFront() string {
	fs := g.o.SubFronts
	if len(fs) == 0 {
		fs = []string{"pregel", "pregel", "dag", "workflow", "chain"}
	}
	return fs[g.r.Intn(len(fs))]
}

// kind picks a node kind; sub-graphs only while depth allows. Returns (kind, sub index).
func (g *gen) kind(d int, allowPass bool) (string, int) {
	x := g.r.Intn(100)
	switch {
	case x < 14 && d < g.o.MaxDepth:
		return "sub", g.graph(g.subFront(), d+1)
	case x < 30 && allowPass:
		return "pass", 0
	}
	return "lambda", 0
}

func (g *gen) nNodes(d int) int {
	max := g.o.MaxNodes
	if d > 0 {
		max = (max + 1) / 2
		if max > 4 {
			max = 4
		}
	}
	return g.r.Range(1, max)
}

func sortU(xs []uint64) []uint64 {
	sort.Slice(xs, func(i, j int) bool { return xs[i] < xs[j] })
	return xs
}

func uniq(xs []uint64) []uint64 {
	sortU(xs)
	out := xs[:0]
	for i, x := range xs {
		if i == 0 || x != xs[i-1] {
			out = append(out, x)
		}
	}
	return out
}

// table builds a branch table over ends: 1-4 rows; single: singletons; multi: arbitrary subsets.
func (g *gen) table(ends []uint64, single bool) [][]uint64 {
	r := g.r
	rows := r.Range(1, 4)
	if !single && r.Chance(1, 12) {
		return [][]uint64{} // a multi branch that never selects anything
	}
	t := make([][]uint64, rows)
	for i := range t {
		if single {
			t[i] = []uint64{ends[r.Intn(len(ends))]}
			continue
		}
		var row []uint64
		for _, e := range ends {
			if r.Chance(1, 2) {
				row = append(row, e)
			}
		}
		if row == nil {
			row = []uint64{}
		}
		t[i] = row
	}
	return t
}

// pickEnds chooses 2-3 distinct end nodes from the candidates (nil if fewer than 2).
func (g *gen) pickEnds(cands []uint64) []uint64 {
	if len(cands) < 2 {
		return nil
	}
	k := 2
	if len(cands) > 2 && g.r.Chance(1, 3) {
		k = 3
	}
	perm := g.r.Perm(len(cands))
	ends := make([]uint64, k)
	for i := 0; i < k; i++ {
		ends[i] = cands[perm[i]]
	}
	return sortU(ends)
}

type edgeSet map[[2]uint64]bool

func (g *gen) pregel(d int) Graph {
	r := g.r
	n := g.nNodes(d)
	nodes := make([]Node, n+1)
	nodes[0] = Node{Key: START, Kind: "start"}
	keys := make([]uint64, n)
	for i := 0; i < n; i++ {
		keys[i] = uint64(i + 2)
		k, sub := g.kind(d, true)
		nodes[i+1] = Node{Key: keys[i], Kind: k, Sub: sub}
	}
	es := edgeSet{}
	// every node is reachable: one incoming edge from START or an earlier node
	for i := 0; i < n; i++ {
		from := START
		if i > 0 && !r.Chance(1, i+2) {
			from = keys[r.Intn(i)]
		}
		es[[2]uint64{from, keys[i]}] = true
	}
	// extra edges: forward, backward (cycles), self loops, to END
	extra := r.Intn(n + 2)
	for j := 0; j < extra; j++ {
		a := r.Intn(n + 1) // 0 = START
		b := r.Intn(n + 1) // n = END
		var from, to uint64
		if a == 0 {
			from = START
		} else {
			from = keys[a-1]
		}
		if b == n {
			to = END
		} else {
			to = keys[b]
		}
		if g.o.NoCycles && to != END && from != START && to <= from {
			continue
		}
		if from == START && to == END && !r.Chance(1, 6) {
			continue
		}
		es[[2]uint64{from, to}] = true
	}
	// branches
	nb := 0
	if n >= 1 {
		nb = r.Intn(3)
	}
	all := append(append([]uint64{}, keys...), END)
	for j := 0; j < nb; j++ {
		src := r.Intn(n + 1)
		cands := all
		if g.o.NoCycles && src > 0 {
			cands = nil
			for _, k := range all {
				if k == END || k > nodes[src].Key {
					cands = append(cands, k)
				}
			}
		}
		ends := g.pickEnds(cands)
		if ends == nil {
			continue
		}
		single := r.Chance(1, 2)
		nodes[src].Branches = append(nodes[src].Branches, Branch{Ends: ends, Table: g.table(ends, single), Single: single})
	}
	// END must be a declared end node: an edge or a branch to END
	hasEnd := false
	for e := range es {
		if e[1] == END {
			hasEnd = true
		}
	}
	for i := range nodes {
		for _, b := range nodes[i].Branches {
			if has(b.Ends, END) {
				hasEnd = true
			}
		}
	}
	if !hasEnd {
		es[[2]uint64{keys[r.Intn(n)], END}] = true
	}
	fillEdges(nodes, es)
	max := 0
	if r.Chance(1, 3) || (d > 0 && r.Chance(1, 2)) {
		max = r.Range(1, n+3)
	}
	return Graph{Front: "graph", Mode: "pregel", Max: max, Nodes: nodes}
}

func fillEdges(nodes []Node, es edgeSet) {
	for i := range nodes {
		var out []uint64
		for e := range es {
			if e[0] == nodes[i].Key {
				out = append(out, e[1])
			}
		}
		out = sortU(out)
		nodes[i].DSucc = out
		nodes[i].CSucc = append([]uint64{}, out...)
	}
}

func (g *gen) dag(d int) Graph {
	r := g.r
	n := g.nNodes(d)
	nodes := make([]Node, n+1)
	nodes[0] = Node{Key: START, Kind: "start"}
	keys := make([]uint64, n)
	for i := 0; i < n; i++ {
		keys[i] = uint64(i + 2)
		k, sub := g.kind(d, true)
		nodes[i+1] = Node{Key: keys[i], Kind: k, Sub: sub}
	}
	es := edgeSet{}
	orphan := -1
	if !g.o.Clean && n >= 2 && r.Chance(1, 5) {
		orphan = r.Intn(n) // a node nothing leads to (F-C02 shape)
		nodes[orphan+1].Kind, nodes[orphan+1].Sub = "lambda", 0
	}
	for i := 0; i < n; i++ {
		if i == orphan {
			continue
		}
		from := START
		if i > 0 && !r.Chance(1, i+2) {
			j := r.Intn(i)
			from = keys[j]
		}
		es[[2]uint64{from, keys[i]}] = true
	}
	extra := r.Intn(n + 2)
	for j := 0; j < extra; j++ {
		a := r.Intn(n + 1)
		b := r.Intn(n + 1)
		if b < a { // forward only: a is START (0) or node a-1; b is node b or END (n)
			a, b = b, a
		}
		var from, to uint64
		if a == 0 {
			from = START
		} else {
			from = keys[a-1]
		}
		if b == n {
			to = END
		} else {
			to = keys[b]
		}
		if from != START && to != END && to <= from {
			continue
		}
		if from == START && to == END {
			continue
		}
		if to != END && int(to-2) == orphan && !r.Chance(1, 3) {
			continue
		}
		es[[2]uint64{from, to}] = true
	}
	nb := r.Intn(3)
	for j := 0; j < nb; j++ {
		src := r.Intn(n + 1)
		var cands []uint64
		for _, k := range keys {
			if (src == 0 || k > nodes[src].Key) && int(k-2) != orphan {
				if g.o.Clean && es[[2]uint64{nodes[src].Key, k}] {
					continue
				}
				cands = append(cands, k)
			}
		}
		if !(g.o.Clean && es[[2]uint64{nodes[src].Key, END}]) {
			cands = append(cands, END)
		}
		ends := g.pickEnds(cands)
		if ends == nil {
			continue
		}
		single := r.Chance(1, 2)
		nodes[src].Branches = append(nodes[src].Branches, Branch{Ends: ends, Table: g.table(ends, single), Single: single})
	}
	hasEnd := false
	for e := range es {
		if e[1] == END {
			hasEnd = true
		}
	}
	for i := range nodes {
		for _, b := range nodes[i].Branches {
			if has(b.Ends, END) {
				hasEnd = true
			}
		}
	}
	if !hasEnd {
		es[[2]uint64{keys[n-1], END}] = true
	}
	// most sinks lead to END so that the interesting part of the graph is needed for the result
	for i := 0; i < n; i++ {
		sink := true
		for e := range es {
			if e[0] == keys[i] {
				sink = false
			}
		}
		if sink && len(nodes[i+1].Branches) == 0 && r.Chance(3, 4) {
			es[[2]uint64{keys[i], END}] = true
		}
	}
	// START needs an outgoing control edge or branch ("start node not set" otherwise)
	startOut := len(nodes[0].Branches) > 0
	for e := range es {
		if e[0] == START {
			startOut = true
		}
	}
	if !startOut {
		for i := 0; i < n; i++ {
			if i != orphan {
				es[[2]uint64{START, keys[i]}] = true
				break
			}
		}
	}
	fillEdges(nodes, es)
	// an orphan pass-through without any edge cannot be typed; orphans are lambdas (set above)
	return Graph{Front: "graph", Mode: "dag", Nodes: nodes}
}

// workflow: nodes in topological order; per node a set of predecessors with dependency kinds.
func (g *gen) workflow(d int) Graph {
	r := g.r
	n := g.nNodes(d)
	nodes := make([]Node, n+1)
	nodes[0] = Node{Key: START, Kind: "start"}
	keys := make([]uint64, n)
	for i := 0; i < n; i++ {
		keys[i] = uint64(i + 2)
		k, sub := g.kind(d, true)
		nodes[i+1] = Node{Key: keys[i], Kind: k, Sub: sub}
	}
	idxOf := func(k uint64) int {
		if k == START {
			return 0
		}
		return int(k - 1)
	}
	// control ancestors (reflexive) for the data-only rule
	anc := make([]map[uint64]bool, n+2) // index n+1 = END
	for i := range anc {
		anc[i] = map[uint64]bool{}
	}
	branchTo := map[[2]uint64]bool{}
	fieldNo := uint64(1000)
	addPreds := func(ti int, tkey uint64, cands []uint64) {
		// ti: index into anc (1..n for nodes, n+1 for END)
		np := 1
		if len(cands) > 1 && r.Chance(1, 2) {
			np = r.Range(2, min(3, len(cands)))
		}
		perm := r.Perm(len(cands))
		type pd struct {
			p    uint64
			kind int // 0 input, 1 dependency, 2 data-only
		}
		var ps []pd
		for i := 0; i < np; i++ {
			ps = append(ps, pd{cands[perm[i]], 0})
		}
		for i := range ps {
			x := r.Intn(10)
			if x < 2 {
				ps[i].kind = 1
			}
		}
		// data-only inputs from control ancestors of a chosen control predecessor
		var ctrlAnc []uint64
		for _, p := range ps {
			for a := range anc[idxOf(p.p)] {
				ctrlAnc = append(ctrlAnc, a)
			}
		}
		ctrlAnc = uniq(ctrlAnc)
		if len(ctrlAnc) > 0 && r.Chance(1, 3) {
			a := ctrlAnc[r.Intn(len(ctrlAnc))]
			dup := false
			for _, p := range ps {
				if p.p == a {
					dup = true
				}
			}
			if !dup {
				ps = append(ps, pd{a, 2})
			}
		}
		if !g.o.Clean && r.Chance(1, 15) {
			// outside the documented domain: a data-only input without a control path
			c := cands[r.Intn(len(cands))]
			dup := false
			for _, p := range ps {
				if p.p == c {
					dup = true
				}
			}
			if !dup {
				ps = append(ps, pd{c, 2})
			}
		}
		ndata := 0
		for _, p := range ps {
			if p.kind != 1 {
				ndata++
			}
		}
		for _, p := range ps {
			src := &nodes[idxOf(p.p)]
			if p.kind != 2 {
				src.CSucc = append(src.CSucc, tkey)
				for a := range anc[idxOf(p.p)] {
					anc[ti][a] = true
				}
				anc[ti][p.p] = true
			}
			if p.kind != 1 {
				src.DSucc = append(src.DSucc, tkey)
				if ndata > 1 || r.Chance(1, 3) {
					src.DMap = append(src.DMap, KN{tkey, fieldNo})
					fieldNo++
				}
			}
		}
	}
	for i := 0; i < n; i++ {
		cands := []uint64{START}
		for j := 0; j < i; j++ {
			cands = append(cands, keys[j])
		}
		if !g.o.Clean && i > 0 && r.Chance(1, 12) {
			continue // a workflow node without any input or dependency
		}
		addPreds(i+1, keys[i], cands)
	}
	// branches (control only): from START or a node to later nodes / END
	nb := r.Intn(3)
	for j := 0; j < nb; j++ {
		src := r.Intn(n + 1)
		var cands []uint64
		for _, k := range keys {
			if src == 0 || k > nodes[src].Key {
				if g.o.Clean && has(nodes[src].CSucc, k) {
					continue
				}
				cands = append(cands, k)
			}
		}
		cands = append(cands, END)
		ends := g.pickEnds(cands)
		if ends == nil {
			continue
		}
		single := r.Chance(1, 2)
		nodes[src].Branches = append(nodes[src].Branches, Branch{Ends: ends, NoData: true, Table: g.table(ends, single), Single: single})
		for _, e := range ends {
			branchTo[[2]uint64{nodes[src].Key, e}] = true
			ti := n + 1
			if e != END {
				ti = idxOf(e)
			}
			for a := range anc[idxOf(nodes[src].Key)] {
				anc[ti][a] = true
			}
			anc[ti][nodes[src].Key] = true
		}
	}
	// END: inputs from all sinks (so that every node is needed) plus a few others
	var sinks []uint64
	for i := 0; i < n; i++ {
		if len(nodes[i+1].CSucc) == 0 && len(nodes[i+1].DSucc) == 0 && len(nodes[i+1].Branches) == 0 {
			sinks = append(sinks, keys[i])
		}
	}
	if len(sinks) == 0 {
		sinks = []uint64{keys[n-1]}
	}
	if r.Chance(1, 4) {
		sinks = uniq(append(sinks, keys[r.Intn(n)]))
	}
	for _, sk := range sinks {
		src := &nodes[idxOf(sk)]
		if has(src.CSucc, END) {
			continue
		}
		kind := 0
		if len(sinks) > 1 && r.Chance(1, 6) {
			kind = 1
		}
		src.CSucc = append(src.CSucc, END)
		if kind == 0 {
			src.DSucc = append(src.DSucc, END)
			if len(sinks) > 1 || r.Chance(1, 3) {
				src.DMap = append(src.DMap, KN{END, fieldNo})
				fieldNo++
			}
		}
	}
	// "whole output" inputs are only legal when they are the only data input of the target: repair
	dataIn := map[uint64]int{}
	for i := range nodes {
		for _, t := range nodes[i].DSucc {
			dataIn[t]++
		}
	}
	for i := range nodes {
		for _, t := range nodes[i].DSucc {
			if dataIn[t] > 1 {
				mapped := false
				for _, kn := range nodes[i].DMap {
					if kn.Key == t {
						mapped = true
					}
				}
				if !mapped {
					nodes[i].DMap = append(nodes[i].DMap, KN{t, fieldNo})
					fieldNo++
				}
			}
		}
	}
	// a pass-through node is typed through a data edge; without one eino cannot infer its type
	for i := 1; i <= n; i++ {
		if nodes[i].Kind == "pass" && dataIn[nodes[i].Key] == 0 {
			nodes[i].Kind = "lambda"
		}
	}
	for i := range nodes {
		nodes[i].DSucc = uniq(nodes[i].DSucc)
		nodes[i].CSucc = uniq(nodes[i].CSucc)
		sort.Slice(nodes[i].DMap, func(a, b int) bool { return nodes[i].DMap[a].Key < nodes[i].DMap[b].Key })
	}
	return Graph{Front: "workflow", Mode: "dag", Nodes: nodes}
}

func min(a, b int) int {
	if a < b {
		return a
	}
	return b
}

func (g *gen) chain(d int) Graph {
	r := g.r
	ns := r.Range(1, 4)
	if d > 0 {
		ns = r.Range(1, 3)
	}
	next := uint64(2)
	outk := uint64(1000)
	var stages []Stage
	multiPrev := false
	mk := func(allowPass bool) StageNode {
		k, sub := g.kind(d, allowPass)
		sn := StageNode{Key: next, Kind: k, Sub: sub}
		next++
		return sn
	}
	for i := 0; i < ns; i++ {
		x := r.Intn(10)
		switch {
		case x < 2 && !multiPrev:
			m := r.Range(2, 3)
			st := Stage{Kind: "par"}
			for j := 0; j < m; j++ {
				sn := mk(true)
				sn.OutKey = outk
				outk++
				st.Nodes = append(st.Nodes, sn)
			}
			stages = append(stages, st)
			multiPrev = true
		case x < 4 && !multiPrev:
			m := r.Range(2, 3)
			st := Stage{Kind: "branch", Single: r.Chance(1, 2)}
			var ends []uint64
			for j := 0; j < m; j++ {
				sn := mk(i > 0) // a pass-through branch node right after START cannot be typed from its predecessor... it can, keep simple
				st.Nodes = append(st.Nodes, sn)
				ends = append(ends, sn.Key)
			}
			st.Table = g.table(ends, st.Single)
			stages = append(stages, st)
			multiPrev = true
		default:
			sn := mk(true)
			if r.Chance(1, 8) {
				sn.OutKey = outk
				outk++
			}
			stages = append(stages, Stage{Kind: "node", Nodes: []StageNode{sn}})
			multiPrev = false
		}
	}
	max := 0
	if r.Chance(1, 5) {
		max = r.Range(1, int(next))
	}
	return Graph{Front: "chain", Mode: "pregel", Max: max, Stages: stages}
}

// LambdaPaths lists the static path of every lambda of a case.
func LambdaPaths(c *Case) [][]uint64 {
	var out [][]uint64
	var walk func(idx int, p []uint64, depth int)
	walk = func(idx int, p []uint64, depth int) {
		if idx < 0 || idx >= len(c.Forest) || depth > len(c.Forest) {
			return
		}
		g := &c.Forest[idx]
		visit := func(key uint64, kind string, sub int) {
			np := pathOf(p, key)
			switch kind {
			case "lambda":
				out = append(out, np)
			case "sub":
				walk(sub, np, depth+1)
			}
		}
		if g.Front == "chain" {
			for _, st := range g.Stages {
				for _, sn := range st.Nodes {
					visit(sn.Key, sn.Kind, sn.Sub)
				}
			}
			return
		}
		for _, n := range g.Nodes {
			if n.Key != START {
				visit(n.Key, n.Kind, n.Sub)
			}
		}
	}
	walk(0, nil, 0)
	return out
}
