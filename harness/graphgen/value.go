package graphgen

import (
	"encoding/json"
	"fmt"
	"sort"
	"strconv"
	"strings"

	"verif/harness/lib"
)

// M is the Go type of every value that flows through a generated graph.
type M = map[string]any

// Val is the canonical form of a value (Gallina: value).
type Val struct {
	Kind string // "atom" | "nil" | "map" | "bad"
	N    uint64 // atom
	KVs  []KV   // map, sorted by Key
	Bad  string // unrenderable Go value (never equal to anything the model produces)
}

type KV struct {
	Key uint64
	V   *Val
}

func Atom(n uint64) *Val { return &Val{Kind: "atom", N: n} }
func NilMap() *Val       { return &Val{Kind: "nil"} }
func MapOf(kvs ...KV) *Val {
	v := &Val{Kind: "map", KVs: kvs}
	sort.Slice(v.KVs, func(i, j int) bool { return v.KVs[i].Key < v.KVs[j].Key })
	return v
}

// KeyStr is how a model key appears in eino (node keys, map keys).
func KeyStr(k uint64) string { return strconv.FormatUint(k, 10) }

// ParseKey is the inverse of KeyStr; ok=false for foreign strings.
func ParseKey(s string) (uint64, bool) {
	k, err := strconv.ParseUint(s, 10, 64)
	return k, err == nil
}

// MaxDepth and MaxNodes bound every traversal of a Go value that came out of eino. The values of a case are
// built from a bounded input by the superstep rule (SizeBudget); a value that contains itself, or that shares
// sub-maps so heavily that it unfolds beyond MaxNodes, is not one of them, and walking it must not take the
// harness process down (a stack overflow cannot be recovered): such a value is reported (Unbounded), rendered
// as a "bad" value (FromGo) and counted as MaxNodes (SizeOfGo).
const (
	MaxDepth = 6000
	MaxNodes = 1 << 20
)

// Unbounded: x is nested deeper than MaxDepth or unfolds to more than MaxNodes nodes (it contains itself, say).
func Unbounded(x any) bool {
	left := int64(MaxNodes)
	return !boundedGo(x, 0, &left)
}

func boundedGo(x any, depth int, left *int64) bool {
	*left--
	if depth > MaxDepth || *left < 0 {
		return false
	}
	m, ok := x.(M)
	if !ok {
		return true
	}
	for _, e := range m {
		if !boundedGo(e, depth+1, left) {
			return false
		}
	}
	return true
}

// FromGo canonicalises a Go value produced by a generated graph.
func FromGo(x any) *Val {
	if Unbounded(x) {
		return &Val{Kind: "bad", Bad: "a value that contains itself (or is nested deeper than " + strconv.Itoa(MaxDepth) + ")"}
	}
	return fromGo(x)
}

func fromGo(x any) *Val {
	switch t := x.(type) {
	case nil:
		return &Val{Kind: "bad", Bad: "untyped-nil"}
	case int:
		return Atom(uint64(t))
	case uint64:
		return Atom(t)
	case M:
		if t == nil {
			return NilMap()
		}
		kvs := make([]KV, 0, len(t))
		for k, e := range t {
			n, ok := ParseKey(k)
			if !ok {
				return &Val{Kind: "bad", Bad: "key:" + k}
			}
			kvs = append(kvs, KV{n, fromGo(e)})
		}
		return MapOf(kvs...)
	}
	return &Val{Kind: "bad", Bad: fmt.Sprintf("%T", x)}
}

// ToGo builds the Go value (fresh maps).
func (v *Val) ToGo() any {
	switch v.Kind {
	case "atom":
		return int(v.N)
	case "nil":
		return M(nil)
	case "map":
		m := make(M, len(v.KVs))
		for _, kv := range v.KVs {
			m[KeyStr(kv.Key)] = kv.V.ToGo()
		}
		return m
	}
	panic("graphgen: ToGo of bad value")
}

// Size is Gallina's vsize.
func (v *Val) Size() uint64 {
	if v.Kind != "map" {
		return 1
	}
	s := uint64(1)
	for _, kv := range v.KVs {
		s += kv.V.Size()
	}
	return s
}

// SizeOfGo computes Size directly on a Go value (used inside branch conditions). An unbounded value (see
// Unbounded) counts as MaxNodes.
func SizeOfGo(x any) uint64 {
	left := int64(MaxNodes)
	s, ok := sizeOfGo(x, 0, &left)
	if !ok {
		return MaxNodes
	}
	return s
}

func sizeOfGo(x any, depth int, left *int64) (uint64, bool) {
	*left--
	if depth > MaxDepth || *left < 0 {
		return 0, false
	}
	m, ok := x.(M)
	if !ok || m == nil {
		return 1, true
	}
	s := uint64(1)
	for _, e := range m {
		n, ok := sizeOfGo(e, depth+1, left)
		if !ok {
			return 0, false
		}
		s += n
	}
	return s, true
}

func (v *Val) Equal(w *Val) bool {
	if v == nil || w == nil {
		return v == w
	}
	if v.Kind != w.Kind || v.Kind == "bad" {
		return false
	}
	switch v.Kind {
	case "atom":
		return v.N == w.N
	case "map":
		if len(v.KVs) != len(w.KVs) {
			return false
		}
		for i := range v.KVs {
			if v.KVs[i].Key != w.KVs[i].Key || !v.KVs[i].V.Equal(w.KVs[i].V) {
				return false
			}
		}
	}
	return true
}

// String renders canonically (sorted keys): atoms as numbers, nil map as ~, maps as {k:v,...}.
func (v *Val) String() string {
	var b strings.Builder
	v.render(&b)
	return b.String()
}

func (v *Val) render(b *strings.Builder) {
	switch v.Kind {
	case "atom":
		b.WriteString(strconv.FormatUint(v.N, 10))
	case "nil":
		b.WriteString("~")
	case "map":
		b.WriteByte('{')
		for i, kv := range v.KVs {
			if i > 0 {
				b.WriteByte(',')
			}
			b.WriteString(strconv.FormatUint(kv.Key, 10))
			b.WriteByte(':')
			kv.V.render(b)
		}
		b.WriteByte('}')
	default:
		b.WriteString("<bad " + v.Bad + ">")
	}
}

// Coq prints the Gallina term of type value.
func (v *Val) Coq() string {
	switch v.Kind {
	case "atom":
		return "(VAtom " + lib.CoqN(v.N) + ")"
	case "nil":
		return "VNil"
	case "map":
		items := make([]string, len(v.KVs))
		for i, kv := range v.KVs {
			items[i] = lib.CoqPair(lib.CoqN(kv.Key), kv.V.Coq())
		}
		return "(VMap " + lib.CoqList(items) + ")"
	}
	// a value the model cannot produce: an atom no generator uses
	return "(VAtom 18446744073709551615%N)"
}

// JSON: atom = number, nil map = null, map = object with decimal keys, bad = {"bad": "..."} string form.
func (v *Val) MarshalJSON() ([]byte, error) {
	switch v.Kind {
	case "atom":
		return json.Marshal(v.N)
	case "nil":
		return []byte("null"), nil
	case "map":
		var b strings.Builder
		b.WriteByte('{')
		for i, kv := range v.KVs {
			if i > 0 {
				b.WriteByte(',')
			}
			b.WriteString(`"` + KeyStr(kv.Key) + `":`)
			e, err := kv.V.MarshalJSON()
			if err != nil {
				return nil, err
			}
			b.Write(e)
		}
		b.WriteByte('}')
		return []byte(b.String()), nil
	}
	return json.Marshal("bad:" + v.Bad)
}

func (v *Val) UnmarshalJSON(data []byte) error {
	var x any
	dec := json.NewDecoder(strings.NewReader(string(data)))
	dec.UseNumber()
	if err := dec.Decode(&x); err != nil {
		return err
	}
	w, err := valFromJSON(x)
	if err != nil {
		return err
	}
	*v = *w
	return nil
}

func valFromJSON(x any) (*Val, error) {
	switch t := x.(type) {
	case nil:
		return NilMap(), nil
	case json.Number:
		n, err := strconv.ParseUint(t.String(), 10, 64)
		if err != nil {
			return nil, err
		}
		return Atom(n), nil
	case map[string]any:
		kvs := make([]KV, 0, len(t))
		for k, e := range t {
			n, ok := ParseKey(k)
			if !ok {
				return nil, fmt.Errorf("bad map key %q", k)
			}
			w, err := valFromJSON(e)
			if err != nil {
				return nil, err
			}
			kvs = append(kvs, KV{n, w})
		}
		return MapOf(kvs...), nil
	case string:
		return &Val{Kind: "bad", Bad: t}, nil
	}
	return nil, fmt.Errorf("bad value json %T", x)
}
