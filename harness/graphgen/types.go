package graphgen

import (
	"strings"

	"verif/harness/lib"
)

const (
	START uint64 = 0
	END   uint64 = 1
)

// Branch is a table-driven branch condition (see package doc).
type Branch struct {
	Ends   []uint64   `json:"ends"`
	NoData bool       `json:"nodata,omitempty"`
	Table  [][]uint64 `json:"table"`
	Single bool       `json:"single,omitempty"` // built with NewGraphBranch (every table entry is a singleton)
}

// Choose evaluates the condition on an input of the given size.
func (b *Branch) Choose(size uint64) []uint64 {
	if len(b.Table) == 0 {
		return nil
	}
	return b.Table[size%uint64(len(b.Table))]
}

type KN struct {
	Key   uint64 `json:"k"`
	Field uint64 `json:"f"`
}

type Node struct {
	Key      uint64   `json:"key"`
	Kind     string   `json:"kind"` // "start" | "lambda" | "pass" | "sub"
	Sub      int      `json:"sub,omitempty"`
	OutKey   uint64   `json:"outkey,omitempty"` // 0 = none
	DSucc    []uint64 `json:"dsucc,omitempty"`
	CSucc    []uint64 `json:"csucc,omitempty"`
	DMap     []KN     `json:"dmap,omitempty"`
	Branches []Branch `json:"branches,omitempty"`
}

type StageNode struct {
	Key    uint64 `json:"key"`
	Kind   string `json:"kind"`
	Sub    int    `json:"sub,omitempty"`
	OutKey uint64 `json:"outkey,omitempty"`
}

type Stage struct {
	Kind   string      `json:"kind"` // "node" | "par" | "branch"
	Nodes  []StageNode `json:"nodes"`
	Table  [][]uint64  `json:"table,omitempty"`
	Single bool        `json:"single,omitempty"`
}

type Graph struct {
	Front  string  `json:"front"` // "graph" | "chain" | "workflow"
	Mode   string  `json:"mode"`  // "pregel" | "dag"
	Max    int     `json:"max,omitempty"`
	Nodes  []Node  `json:"nodes,omitempty"`  // graph / workflow; Nodes[0] is START
	Stages []Stage `json:"stages,omitempty"` // chain
}

func (g *Graph) Eager() bool { return g.Front == "workflow" }

type FailEntry struct {
	Path []uint64 `json:"path"`
	Mod  uint64   `json:"mod"`
	Res  uint64   `json:"res"`
	Code uint64   `json:"code"`
}

type Case struct {
	Forest []Graph     `json:"forest"`
	Input  *Val        `json:"input"`
	Fails  []FailEntry `json:"fails,omitempty"`
}

type Event struct {
	Path []uint64 `json:"p"`
	In   *Val     `json:"in"`
}

// Obs is what one run of the implementation showed.
type Obs struct {
	Class    string  `json:"class"` // done | fail | panic | hang | compile
	Result   *Val    `json:"result,omitempty"`
	ErrClass uint64  `json:"errclass,omitempty"`
	ErrMsg   string  `json:"errmsg,omitempty"`
	Log      []Event `json:"log"`
}

// NodeAt finds a node of graph g by key (nil if absent). For chains use Lowered().
func (g *Graph) NodeAt(k uint64) *Node {
	for i := range g.Nodes {
		if g.Nodes[i].Key == k {
			return &g.Nodes[i]
		}
	}
	return nil
}

// ---------------------------------------------------------------- Gallina printers

func coqKeys(ks []uint64) string { return lib.CoqNList(ks) }

func coqTable(t [][]uint64) string {
	rows := make([]string, len(t))
	for i, r := range t {
		rows[i] = coqKeys(r)
	}
	return lib.CoqList(rows)
}

func coqKind(kind string, sub int) string {
	switch kind {
	case "pass":
		return "KPass"
	case "sub":
		return "(KSub " + lib.CoqNat(sub) + ")"
	}
	return "KLambda" // "lambda" and the START pseudo node
}

func coqOptN(k uint64) string {
	if k == 0 {
		return "None"
	}
	return lib.CoqSome(lib.CoqN(k))
}

func (b *Branch) Coq() string {
	return lib.CoqApp("Build_branch", coqKeys(b.Ends), lib.CoqBool(b.NoData), coqTable(b.Table))
}

func (n *Node) Coq() string {
	dm := make([]string, len(n.DMap))
	for i, kn := range n.DMap {
		dm[i] = lib.CoqPair(lib.CoqN(kn.Key), lib.CoqN(kn.Field))
	}
	bs := make([]string, len(n.Branches))
	for i := range n.Branches {
		bs[i] = n.Branches[i].Coq()
	}
	return lib.CoqApp("Build_node", lib.CoqN(n.Key), coqKind(n.Kind, n.Sub), coqOptN(n.OutKey),
		coqKeys(n.DSucc), coqKeys(n.CSucc), lib.CoqList(dm), lib.CoqList(bs))
}

func (s *StageNode) Coq() string {
	return lib.CoqApp("Build_snode", lib.CoqN(s.Key), coqKind(s.Kind, s.Sub), coqOptN(s.OutKey))
}

func (s *Stage) Coq() string {
	ns := make([]string, len(s.Nodes))
	for i := range s.Nodes {
		ns[i] = s.Nodes[i].Coq()
	}
	switch s.Kind {
	case "node":
		return lib.CoqApp("SNode", ns[0])
	case "par":
		return lib.CoqApp("SPar", lib.CoqList(ns))
	}
	return lib.CoqApp("SBranch", lib.CoqList(ns), coqTable(s.Table))
}

// Coq prints a gdef (Model/Chain.v).
func (g *Graph) Coq() string {
	if g.Front == "chain" {
		ss := make([]string, len(g.Stages))
		for i := range g.Stages {
			ss[i] = g.Stages[i].Coq()
		}
		return lib.CoqApp("GChain", lib.CoqList(ss), lib.CoqNat(g.Max))
	}
	ns := make([]string, len(g.Nodes))
	for i := range g.Nodes {
		ns[i] = g.Nodes[i].Coq()
	}
	mode := "Pregel"
	if g.Mode == "dag" {
		mode = "Dag"
	}
	return lib.CoqApp("GGraph", lib.CoqApp("Build_graph", "["+strings.Join(ns, ";\n    ")+"]", mode, lib.CoqBool(g.Eager()), lib.CoqNat(g.Max)))
}

// CoqForest prints the forest as `list gdef`.
func (c *Case) CoqForest() string {
	gs := make([]string, len(c.Forest))
	for i := range c.Forest {
		gs[i] = c.Forest[i].Coq()
	}
	return "[" + strings.Join(gs, ";\n   ") + "]"
}

func CoqPath(p []uint64) string { return lib.CoqNList(p) }

func (c *Case) CoqFails() string {
	fs := make([]string, len(c.Fails))
	for i, f := range c.Fails {
		fs[i] = lib.CoqTuple(CoqPath(f.Path), lib.CoqN(f.Mod), lib.CoqN(f.Res), lib.CoqN(f.Code))
	}
	return lib.CoqList(fs)
}

// CoqLog prints the flat execution log as list (path * value).
func (o *Obs) CoqLog() string {
	es := make([]string, len(o.Log))
	for i, e := range o.Log {
		es[i] = lib.CoqPair(CoqPath(e.Path), e.In.Coq())
	}
	return lib.CoqList(es)
}

// CoqClass prints the outcome class (Model/GraphCmp.v: oclass).
func (o *Obs) CoqClass() string {
	switch o.Class {
	case "done":
		return lib.CoqApp("ODone", o.Result.Coq())
	case "fail":
		return lib.CoqApp("OFail", lib.CoqN(o.ErrClass))
	case "panic":
		return "OPanic"
	case "hang":
		return "OHang"
	}
	return "OCompile"
}

// CoqObs prints a gobs.
func (o *Obs) CoqObs() string { return lib.CoqApp("Build_gobs", o.CoqClass(), o.CoqLog()) }

// CoqCase prints a gcase: forest, input, fail table, observation.
func (c *Case) CoqCase(o *Obs) string {
	return lib.CoqApp("Build_gcase", c.CoqForest(), c.Input.Coq(), c.CoqFails(), o.CoqObs())
}
