package graphgen

// OraclePregel is the direct oracle of C01 (filled in below); "" = holds.
func OraclePregel(c *Case, o *Obs) (string, string) { return "", "" }

// OracleDAG is the direct oracle of C02 (filled in below); "" = holds.
func OracleDAG(c *Case, o *Obs) (string, string) { return "", "" }
