// Package graphgen is the reusable Go side of the shared graph-engine model
// (coq/Model/Graph.v, coq/Model/Chain.v, coq/Model/GraphCmp.v). It is imported by the
// engines of C01/C02 and meant to be imported by every engine that runs generated
// graphs (C04, C05, C06, C13, C19 ...).
//
// # What it provides
//
//	Val                 canonical value: atom | nil map | map with decimal-string keys (uint64), the Go
//	                    twin of Gallina's `value` (VAtom/VNil/VMap).  FromGo / (*Val).ToGo / (*Val).Coq /
//	                    Equal / Size (= vsize, what branch tables are indexed by) / JSON round trip.
//	Case                {Forest []Graph, Input *Val, Fails []FailEntry}: graph 0 of the forest is run on Input;
//	                    KSub nodes name other forest entries (each entry is used by exactly one node, so
//	                    every lambda has ONE static path from the root).
//	Graph               Front "graph" | "chain" | "workflow"; Mode "pregel" | "dag"; Max (WithMaxRunSteps, 0 =
//	                    default); Nodes (Nodes[0] is the START pseudo node, key 0; END = key 1 is not a node)
//	                    or, for chains, Stages.  Node keys are uint64 >= 2 and appear in eino as their
//	                    decimal string ("2", "3", ...).  Node{Key, Kind "lambda"|"pass"|"sub", Sub, OutKey,
//	                    DSucc (data edges), CSucc (control edges), DMap (Workflow ToField mappings), Branches}.
//	Branch              {Ends, NoData, Table}: the condition is table-driven,
//	                    choice = Table[Size(input) mod len(Table)] (empty table selects nothing); Choose()
//	                    is the Go evaluation, `choose` in Graph.v the Gallina one.
//	FailEntry           {Path, Mod, Res, Code}: the lambda at Path fails with *NodeErr{Code} iff
//	                    Size(input) mod max(Mod,1) == Res.
//
//	Gen*(r, GenOpts)    random cases driven by *lib.Rng: GenPregel, GenDAG, GenWorkflow, GenChain (roots),
//	                    sub-graphs of every front nested to GenOpts.MaxDepth. GenOpts documents the knobs.
//	Build(c, BuildOpts) constructs the REAL compose.Graph / Chain / Workflow objects bottom-up and compiles
//	                    the root: recording lambda nodes `func(ctx, map[string]any) (map[string]any, error)`
//	                    returning {<nodekey>: input} and logging (path, input) into a Recorder.
//	                    BuildOpts.Wrap lets an engine wrap every lambda body (delays, interrupts, panics...),
//	                    BuildOpts.RootCompileOpts / NodeOpts add compile / add-node options.
//	Run(c, RunOpts)     Build + Invoke under lib.Recover and a watchdog; returns Obs{Class done|fail|panic|
//	                    hang|compile, Result, ErrClass, ErrMsg, Log []Event}. In eager (Workflow) runs it waits
//	                    until the goroutines started by the run have finished, so the log is complete.
//	ClassifyErr(err)    error CLASS numbers shared with Graph.v (eDupKey=1 ... eNode c = 100+c); never messages.
//	(*Case).CoqForest() Gallina printers: forest (list gdef), values, logs ((*Obs).CoqLog), outcome classes.
//	SpecPregel/SpecDAG/SpecChain  small independent Go evaluators written from the property text (frontier
//	                    rule / topological rule / function composition), used as direct oracles.
//
// # Conventions shared with the model
//
// START = 0, END = 1.  Paths are []uint64 from the root graph's node down to the lambda.
// A lambda at path p returns {dec(last p): input}.  Output keys and ToField names are decimal
// strings of numbers >= 1000, the input map uses keys >= 900.  Map-iteration order never
// matters: everything is rendered with numerically sorted keys.
package graphgen
