module verif/harness

go 1.18

require github.com/cloudwego/eino v0.0.0

require (
	github.com/bytedance/sonic v1.13.2 // indirect
	github.com/bytedance/sonic/loader v0.2.4 // indirect
	github.com/cloudwego/base64x v0.1.5 // indirect
	github.com/dustin/go-humanize v1.0.1 // indirect
	github.com/getkin/kin-openapi v0.118.0 // indirect
	github.com/go-openapi/jsonpointer v0.19.5 // indirect
	github.com/go-openapi/swag v0.19.5 // indirect
	github.com/goph/emperror v0.17.2 // indirect
	github.com/invopop/yaml v0.1.0 // indirect
	github.com/josharian/intern v1.0.0 // indirect
	github.com/json-iterator/go v1.1.12 // indirect
	github.com/klauspost/cpuid/v2 v2.0.9 // indirect
	github.com/mailru/easyjson v0.7.7 // indirect
	github.com/modern-go/concurrent v0.0.0-20180306012644-bacd9c7ef1dd // indirect
	github.com/modern-go/reflect2 v1.0.2 // indirect
	github.com/mohae/deepcopy v0.0.0-20170929034955-c48cc78d4826 // indirect
	github.com/nikolalohinski/gonja v1.5.3 // indirect
	github.com/pelletier/go-toml/v2 v2.0.9 // indirect
	github.com/perimeterx/marshmallow v1.1.4 // indirect
	github.com/pkg/errors v0.9.1 // indirect
	github.com/sirupsen/logrus v1.9.3 // indirect
	github.com/slongfield/pyfmt v0.0.0-20220222012616-ea85ff4c361f // indirect
	github.com/twitchyliquid64/golang-asm v0.15.1 // indirect
	github.com/yargevad/filepathx v1.0.0 // indirect
	golang.org/x/arch v0.11.0 // indirect
	golang.org/x/exp v0.0.0-20230713183714-613f0c0eb8a1 // indirect
	golang.org/x/sys v0.26.0 // indirect
	gopkg.in/yaml.v2 v2.4.0 // indirect
	gopkg.in/yaml.v3 v3.0.1 // indirect
)

replace github.com/cloudwego/eino => /repo
