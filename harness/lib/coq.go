package lib

import (
	"fmt"
	"strings"
)

// Gallina term printers. Strings must be printable ASCII (generators guarantee it);
// anything else is escaped to '?' + hex so that a bad print is a visible mismatch,
// never a parse error that hides a case.

func CoqStr(s string) string {
	var b strings.Builder
	b.WriteByte('"')
	for i := 0; i < len(s); i++ {
		c := s[i]
		switch {
		case c == '"':
			b.WriteString(`""`)
		case c >= 32 && c < 127:
			b.WriteByte(c)
		default:
			fmt.Fprintf(&b, "?%02x", c)
		}
	}
	b.WriteString(`"%string`)
	return b.String()
}

func CoqN(n uint64) string { return fmt.Sprintf("%d%%N", n) }
func CoqNat(n int) string  { return fmt.Sprintf("%d%%nat", n) }
func CoqZ(z int64) string {
	if z < 0 {
		return fmt.Sprintf("(%d)%%Z", z)
	}
	return fmt.Sprintf("%d%%Z", z)
}
func CoqBool(b bool) string {
	if b {
		return "true"
	}
	return "false"
}
func CoqList(items []string) string { return "[" + strings.Join(items, "; ") + "]" }
func CoqPair(a, b string) string    { return "(" + a + ", " + b + ")" }
func CoqTuple(xs ...string) string  { return "(" + strings.Join(xs, ", ") + ")" }
func CoqSome(a string) string       { return "(Some " + a + ")" }
func CoqOpt(a *string) string {
	if a == nil {
		return "None"
	}
	return CoqSome(*a)
}
func CoqApp(f string, args ...string) string {
	if len(args) == 0 {
		return f
	}
	return "(" + f + " " + strings.Join(args, " ") + ")"
}
func CoqNList(ns []uint64) string {
	s := make([]string, len(ns))
	for i, n := range ns {
		s[i] = CoqN(n)
	}
	return CoqList(s)
}
func CoqStrList(ss []string) string {
	s := make([]string, len(ss))
	for i, n := range ss {
		s[i] = CoqStr(n)
	}
	return CoqList(s)
}
