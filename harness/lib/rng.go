// Package lib is the shared plumbing of every correspondence engine:
// one seeded PRNG, Gallina term printers, the case recorder and the CLI.
package lib

// Rng is splitmix64: every random choice of an engine derives from one state,
// so a (seed, index) pair replays exactly.
type Rng struct{ s uint64 }

func NewRng(seed uint64) *Rng { return &Rng{s: seed*0x9E3779B97F4A7C15 + 0x1234567} }

func (r *Rng) U64() uint64 {
	r.s += 0x9E3779B97F4A7C15
	z := r.s
	z = (z ^ (z >> 30)) * 0xBF58476D1CE4E5B9
	z = (z ^ (z >> 27)) * 0x94D049BB133111EB
	return z ^ (z >> 31)
}

// Intn returns a value in [0, n). n <= 0 yields 0.
func (r *Rng) Intn(n int) int {
	if n <= 0 {
		return 0
	}
	return int(r.U64() % uint64(n))
}

// Range returns a value in [lo, hi].
func (r *Rng) Range(lo, hi int) int { return lo + r.Intn(hi-lo+1) }

// Chance is true with probability num/den.
func (r *Rng) Chance(num, den int) bool { return r.Intn(den) < num }

// Fork derives an independent generator (used per case so that case i does not
// depend on how many draws case i-1 made).
func (r *Rng) Fork(i uint64) *Rng { return NewRng(r.s ^ (i+1)*0xD6E8FEB86659FD93) }

func (r *Rng) Pick(xs []string) string { return xs[r.Intn(len(xs))] }

// Perm returns a random permutation of 0..n-1.
func (r *Rng) Perm(n int) []int {
	p := make([]int, n)
	for i := range p {
		p[i] = i
	}
	for i := n - 1; i > 0; i-- {
		j := r.Intn(i + 1)
		p[i], p[j] = p[j], p[i]
	}
	return p
}
