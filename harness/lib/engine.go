package lib

import (
	"bufio"
	"crypto/sha1"
	"encoding/hex"
	"encoding/json"
	"flag"
	"fmt"
	"os"
	"path/filepath"
	"sort"
	"strings"
	"time"
)

// Result is what running one case on the implementation produced.
type Result struct {
	Obs        any      // canonical observation (JSON-serialisable), for evidence and replay output
	CoqTerm    string   // Gallina term: one element of the `cases` list of the engine's Corr file ("" = not sent to the model)
	Oracle     string   // "" if the direct oracle (the property evaluated on the implementation alone) holds, else what failed
	Sig        string   // signature of an oracle failure, matched against known_findings.json
	Nontrivial bool     // exercises the property's mechanism by the engine's stated rule
	Tags       []string // distribution classes (sizes, operation mix, outcome, error kind)
}

// Engine is one property's correspondence engine.
type Engine interface {
	ID() string
	// CoqHeader is the preamble of every generated cases file (imports, scopes).
	CoqHeader() string
	// CoqCaseType is the Gallina type of one case (annotation of the `cases` list).
	CoqCaseType() string
	// Generate builds case number i of the run from r (already forked per case).
	Generate(r *Rng, tier string, i int) any
	// Decode parses a case from a corpus / replay file.
	Decode(raw json.RawMessage) (any, error)
	// Run executes the case on the implementation.
	Run(c any) Result
}

// Shrinker is optional: minimise a case on which the direct oracle fails.
type Shrinker interface {
	Shrink(c any, stillFails func(any) bool) any
}

type record struct {
	I          int      `json:"i"`
	Shard      int      `json:"shard"`
	Idx        int      `json:"idx"`
	Src        string   `json:"src"`
	Case       any      `json:"case"`
	Obs        any      `json:"obs"`
	Oracle     string   `json:"oracle"`
	Sig        string   `json:"sig"`
	Nontrivial bool     `json:"nontrivial"`
	Tags       []string `json:"tags"`
	Hash       string   `json:"hash"`
	InModel    bool     `json:"in_model"`
}

func hashCase(c any) string {
	b, _ := json.Marshal(c)
	h := sha1.Sum(b)
	return hex.EncodeToString(h[:8])
}

// Main is the CLI shared by every engine binary:
//
//	bin/<id> --seed S --tier quick|thorough --n N --shards K --out DIR
//	         [--corpus DIR] [--replay FILE] [--oracle-only]
//
// It writes DIR/obs.jsonl (one record per case), DIR/cases_<k>.v (Gallina, one
// per shard, contiguous blocks of cases) and DIR/run.json (timing).
func Main(e Engine) {
	seed := flag.Uint64("seed", 1, "PRNG seed")
	tier := flag.String("tier", "quick", "quick|thorough")
	n := flag.Int("n", 100, "number of generated cases")
	shards := flag.Int("shards", 1, "number of cases_<k>.v shards")
	out := flag.String("out", "", "output directory")
	corpus := flag.String("corpus", "", "corpus directory (run first)")
	replay := flag.String("replay", "", "replay file: run only its case")
	oracleOnly := flag.Bool("oracle-only", false, "skip writing cases_*.v (search mode)")
	flag.Parse()
	if *out == "" {
		fmt.Fprintln(os.Stderr, "--out required")
		os.Exit(2)
	}
	if err := os.MkdirAll(*out, 0o755); err != nil {
		panic(err)
	}
	old, _ := filepath.Glob(filepath.Join(*out, "cases_*.v"))
	for _, f := range old {
		os.Remove(f)
	}
	t0 := time.Now()

	type item struct {
		src string
		c   any
	}
	var items []item
	if *replay != "" {
		raw, err := os.ReadFile(*replay)
		if err != nil {
			panic(err)
		}
		var rf struct {
			Case json.RawMessage `json:"case"`
		}
		if err := json.Unmarshal(raw, &rf); err != nil || rf.Case == nil {
			fmt.Fprintln(os.Stderr, "replay file has no case:", *replay)
			os.Exit(2)
		}
		c, err := e.Decode(rf.Case)
		if err != nil {
			panic(err)
		}
		items = append(items, item{"replay:" + *replay, c})
	} else {
		if *corpus != "" {
			files, _ := filepath.Glob(filepath.Join(*corpus, "*.json"))
			sort.Strings(files)
			for _, f := range files {
				raw, err := os.ReadFile(f)
				if err != nil {
					continue
				}
				var rf struct {
					Case json.RawMessage `json:"case"`
				}
				if json.Unmarshal(raw, &rf) != nil || rf.Case == nil {
					fmt.Fprintln(os.Stderr, "corpus file skipped (no case):", f)
					continue
				}
				c, err := e.Decode(rf.Case)
				if err != nil {
					fmt.Fprintln(os.Stderr, "corpus file skipped:", f, err)
					continue
				}
				items = append(items, item{"corpus:" + filepath.Base(f), c})
			}
		}
		root := NewRng(*seed)
		for i := 0; i < *n; i++ {
			items = append(items, item{"gen", e.Generate(root.Fork(uint64(i)), *tier, i)})
		}
	}

	of, err := os.Create(filepath.Join(*out, "obs.jsonl"))
	if err != nil {
		panic(err)
	}
	ow := bufio.NewWriter(of)
	enc := json.NewEncoder(ow)

	var terms []string
	var recs []*record
	for i, it := range items {
		res := e.Run(it.c)
		if res.Oracle != "" {
			if sh, ok := e.(Shrinker); ok && *replay == "" {
				sig := res.Sig
				small := sh.Shrink(it.c, func(c any) bool {
					r := e.Run(c)
					return r.Oracle != "" && r.Sig == sig
				})
				it.c = small
				res = e.Run(small)
			}
		}
		rec := &record{I: i, Src: it.src, Case: it.c, Obs: res.Obs, Oracle: res.Oracle, Sig: res.Sig,
			Nontrivial: res.Nontrivial, Tags: res.Tags, Hash: hashCase(it.c), Idx: -1, Shard: -1}
		if res.CoqTerm != "" && !*oracleOnly {
			rec.InModel = true
			rec.Idx = len(terms) // provisional: global index among model cases
			terms = append(terms, res.CoqTerm)
		}
		recs = append(recs, rec)
	}
	// contiguous shards
	k := *shards
	if k < 1 {
		k = 1
	}
	if k > len(terms) && len(terms) > 0 {
		k = len(terms)
	}
	per := 0
	if k > 0 && len(terms) > 0 {
		per = (len(terms) + k - 1) / k
	}
	for _, rec := range recs {
		if rec.InModel {
			g := rec.Idx
			rec.Shard = g / per
			rec.Idx = g % per
		}
		if err := enc.Encode(rec); err != nil {
			panic(err)
		}
	}
	ow.Flush()
	of.Close()
	if len(terms) > 0 {
		for s := 0; s*per < len(terms); s++ {
			lo, hi := s*per, (s+1)*per
			if hi > len(terms) {
				hi = len(terms)
			}
			var b strings.Builder
			b.WriteString(e.CoqHeader())
			b.WriteString("\nDefinition cases : list (" + e.CoqCaseType() + ") := [\n")
			b.WriteString(strings.Join(terms[lo:hi], ";\n"))
			b.WriteString("\n].\nDefinition M := Eval vm_compute in (mismatches cases).\nPrint M.\n")
			name := fmt.Sprintf("cases_%s_%d.v", e.ID(), s)
			if err := os.WriteFile(filepath.Join(*out, name), []byte(b.String()), 0o644); err != nil {
				panic(err)
			}
		}
	}
	rj, _ := json.Marshal(map[string]any{"cases": len(items), "model_cases": len(terms), "wall_s": time.Since(t0).Seconds()})
	os.WriteFile(filepath.Join(*out, "run.json"), rj, 0o644)
}

// Recover runs f and reports a panic as a string (nil if none).
func Recover(f func()) (p any) {
	defer func() {
		if r := recover(); r != nil {
			p = r
		}
	}()
	f()
	return nil
}
