package intr

import (
	"verif/harness/lib"
)

type genCtx struct {
	r       *lib.Rng
	c       *Case
	nextID  int
	maxTop  int
	maxSub  int
	maxDep  int
	subProb int // percent per graph of containing a nested graph
	deep    bool // small graphs nested to depth 4, every graph with state (node paths of length >= 4)
}

// Generate draws one case. Distribution (quick tier): 2..6 top-level nodes, nested graphs
// with probability ~35% (depth <= 2), mode pregel/dag/wf 40/30/30, cycles through branches
// in pregel mode, single and multi branches, interrupt-before/after sets at every level
// biased towards direct successors of START and branch targets, rerun tables.
func Generate(r *lib.Rng, tier string) *Case {
	g := &genCtx{r: r, c: &Case{}, nextID: 2, maxTop: 6, maxSub: 4, maxDep: 2, subProb: 35}
	if tier == "thorough" {
		g.maxTop, g.maxSub, g.maxDep, g.subProb = 8, 5, 3, 45
	}
	g.c.Input = r.Range(1, 9)
	g.c.Seed = r.U64()
	if g.c.Seed%32 == 7 { // no extra draw: the other cases are what they were
		g.deep = true
		g.maxTop, g.maxSub, g.maxDep, g.subProb = 2, 2, 4, 100
	}
	g.graph(0, "")
	nc := r.Range(1, 3)
	for i := 0; i < nc; i++ {
		g.c.Calls = append(g.c.Calls, CallSpec{Stream: r.Chance(1, 3), Mod: r.Chance(1, 2)})
	}
	g.c.NoID = r.Chance(1, 25)
	g.lists()
	g.c.Twice = r.Chance(1, 4)
	g.c.NoStore = g.c.NoID && r.Chance(1, 2)
	dataless(g.c)
	atomise(g.c)
	// decided from Case.Seed, no extra draw (the other fields are what they were)
	g.c.Restart = (g.c.Seed>>8)%3 == 1
	if (g.c.Seed>>16)%2 == 1 && !g.c.NoID {
		g.c.Retry = 1 + int((g.c.Seed>>24)%4)
	}
	return g.c
}

// lists decides how the interrupt configuration is handed over (drawn last: the shapes above are what
// they were before this existed). Forests: 50% (single graphs: 20%) of the cases hand ONE list per
// kind to a group of graphs (all of them 60%, else a random non-empty subset): the union of the
// group's sets, shuffled, 50% with 1-2 names the group does not contain (nodes of the other graphs,
// ids no graph declares, rarely start / end), 30% with 1-2 names given twice.
func (g *genCtx) lists() {
	r, c := g.r, g.c
	ng := len(c.Graphs)
	if ng > 1 && !r.Chance(1, 2) || ng == 1 && !r.Chance(1, 5) {
		return
	}
	l := &ListSpec{}
	if r.Chance(6, 10) {
		for gi := 0; gi < ng; gi++ {
			l.Graphs = append(l.Graphs, gi)
		}
	} else {
		for gi := 0; gi < ng; gi++ {
			if r.Chance(1, 2) {
				l.Graphs = append(l.Graphs, gi)
			}
		}
		if len(l.Graphs) == 0 {
			l.Graphs = []int{r.Intn(ng)}
		}
	}
	var outside []int
	for gi := range c.Graphs {
		if has(l.Graphs, gi) {
			l.Before = append(l.Before, c.Graphs[gi].Before...)
			l.After = append(l.After, c.Graphs[gi].After...)
		} else {
			for _, n := range c.Graphs[gi].Nodes {
				outside = append(outside, n.ID)
			}
		}
	}
	dress := func(xs []int) []int {
		if r.Chance(1, 2) {
			for k := r.Range(1, 2); k > 0; k-- {
				switch x := r.Intn(10); {
				case x < 4 && len(outside) > 0:
					xs = append(xs, outside[r.Intn(len(outside))])
				case x < 9:
					xs = append(xs, g.nextID+r.Intn(3))
				default:
					xs = append(xs, r.Intn(2)) // "start" / "end"
				}
			}
		}
		if len(xs) > 0 && r.Chance(3, 10) {
			for k := r.Range(1, 2); k > 0; k-- {
				xs = append(xs, xs[r.Intn(len(xs))])
			}
		}
		out := make([]int, len(xs))
		for i, p := range r.Perm(len(xs)) {
			out[i] = xs[p]
		}
		return out
	}
	l.Before = dress(l.Before)
	l.After = dress(l.After)
	c.Lists = l
	c.Normalise()
}

// dataless (round 5) turns every data+control edge into some workflow nodes into a control-only edge (AddDependency):
// such a node has NO data predecessor at all, its all-predecessor channel becomes ready without ever holding a value and
// hands the node the zero value (Invoke) / the empty stream (Stream) that Compile supplies for it - which is not part of
// a checkpoint, so after a resume it has to come from the compiled channel again. Decided from Case.Seed and the node id
// (no draw: the other cases are what they were): a fifth of the eligible nodes (lambdas and nested graphs; no START
// predecessor, no data-only edge into them, not a branch target, not the only data source of END).
func dataless(c *Case) {
	for gi := range c.Graphs {
		g := &c.Graphs[gi]
		if g.Mode != "wf" {
			continue
		}
		for ni := range g.Nodes {
			n := &g.Nodes[ni]
			if n.Atom || n.InKey != 0 {
				continue
			}
			ok, nin := true, 0
			for _, e := range g.Edges {
				if e.To == n.ID {
					nin++
					ok = ok && e.From != StartID && e.Kind != 2
				}
			}
			for _, b := range g.Branches {
				for _, t := range b.Targets {
					ok = ok && t != n.ID
				}
			}
			h := (c.Seed ^ uint64(n.ID)*0xc2b2ae3d27d4eb4f) >> 24
			if !ok || nin == 0 || h%5 != 0 {
				continue
			}
			for ei := range g.Edges {
				if g.Edges[ei].To == n.ID && g.Edges[ei].Kind == 0 {
					g.Edges[ei].Kind = 1
				}
			}
		}
	}
}

// atomise turns some workflow lambdas with a single data predecessor into atom nodes (input type string, fed unmapped
// by a leaf node): values that are not maps then sit in channels, pending inputs and rerun placeholders. Decided from
// Case.Seed and the node id (no draw): a third of the eligible nodes; half of those in a graph get a rerun table.
func atomise(c *Case) {
	for gi := range c.Graphs {
		g := &c.Graphs[gi]
		if g.Mode != "wf" {
			continue
		}
		for ni := range g.Nodes {
			n := &g.Nodes[ni]
			if n.Sub != 0 || n.Leaf || n.InKey != 0 || n.Atom {
				continue
			}
			src, nd := -1, 0
			for _, e := range g.Edges {
				if e.To == n.ID && e.Kind != 1 {
					nd++
					src = e.From
				}
			}
			if nd != 1 || src == StartID {
				continue
			}
			p := g.node(src)
			if p == nil || p.Sub != 0 || p.Atom {
				continue
			}
			branch := false
			for _, b := range g.Branches {
				branch = branch || b.From == p.ID
			}
			if branch {
				continue
			}
			h := (c.Seed ^ uint64(n.ID)*0x9e3779b97f4a7c15) >> 20
			if h%3 != 0 {
				continue
			}
			p.Leaf, n.Atom = true, true
			if g.State && len(n.Rerun) == 0 && (h>>8)%2 == 0 {
				n.St, n.Rerun = true, []int{1}
			}
		}
	}
}

func (g *genCtx) pickMode(parent string) string {
	x := g.r.Intn(100)
	switch {
	case x < 40:
		return "pregel"
	case x < 70:
		return "dag"
	}
	return "wf"
}

type edgeSet map[[2]int]bool

func (g *genCtx) graph(depth int, parentMode string) int {
	r := g.r
	gi := len(g.c.Graphs)
	g.c.Graphs = append(g.c.Graphs, GraphSpec{})
	gs := GraphSpec{Mode: g.pickMode(parentMode)}
	n := r.Range(1, g.maxSub)
	if depth == 0 {
		n = r.Range(2, g.maxTop)
	}
	wf := gs.Mode == "wf"
	gs.State = wf || r.Chance(7, 10)
	if g.deep {
		gs.State = true
	}
	ids := make([]int, n)
	for i := range ids {
		ids[i] = g.nextID
		g.nextID++
	}
	used := edgeSet{}
	addEdge := func(from, to, kind int) bool {
		if used[[2]int{from, to}] {
			return false
		}
		used[[2]int{from, to}] = true
		gs.Edges = append(gs.Edges, EdgeSpec{From: from, To: to, Kind: kind})
		return true
	}
	dataPreds := func(to int) (cnt int, hasStart bool) {
		for _, e := range gs.Edges {
			if e.To == to && e.Kind != 1 {
				cnt++
				if e.From == StartID {
					hasStart = true
				}
			}
		}
		return
	}
	// forward skeleton
	for i, id := range ids {
		np := 1
		if i > 0 && r.Chance(3, 10) {
			np = 2
		}
		cands := append([]int{StartID}, ids[:i]...)
		perm := r.Perm(len(cands))
		chosen := []int{}
		for _, p := range perm {
			if len(chosen) < np {
				chosen = append(chosen, cands[p])
			}
		}
		if wf && len(chosen) > 1 {
			// START must be the only data predecessor in a workflow
			keep := chosen[:0]
			for _, p := range chosen {
				if p != StartID {
					keep = append(keep, p)
				}
			}
			chosen = keep
		}
		for _, p := range chosen {
			addEdge(p, id, 0)
		}
	}
	hasSucc := func(id int) bool {
		for _, e := range gs.Edges {
			if e.From == id && e.Kind != 2 {
				return true
			}
		}
		for _, b := range gs.Branches {
			if b.From == id {
				return true
			}
		}
		return false
	}
	for _, id := range ids {
		if !hasSucc(id) || r.Chance(1, 10) {
			addEdge(id, EndID, 0)
		}
	}
	// forward branches
	nb := 0
	if r.Chance(1, 2) {
		nb = r.Range(1, 2)
	}
	for k := 0; k < nb; k++ {
		si := r.Range(-1, n-1) // -1 = START
		src := StartID
		if si >= 0 {
			src = ids[si]
		}
		if wf && src == StartID {
			continue
		}
		dup := false
		for _, b := range gs.Branches {
			if b.From == src && !r.Chance(1, 4) { // several branches on one node: rarely
				dup = true
			}
		}
		if dup {
			continue
		}
		cands := append([]int{}, ids[si+1:]...)
		cands = append(cands, EndID)
		if len(cands) < 2 {
			continue // a branch needs at least two end nodes
		}
		nt := r.Range(2, 3)
		if nt > len(cands) {
			nt = len(cands)
		}
		perm := r.Perm(len(cands))
		var targets []int
		for _, p := range perm[:nt] {
			targets = append(targets, cands[p])
		}
		if wf {
			// the targets take their data from src without a direct dependency: START must
			// not be among their data predecessors then
			ok := true
			for _, t := range targets {
				if _, hs := dataPreds(t); hs {
					ok = false
				}
			}
			if !ok {
				continue
			}
		}
		for _, t := range targets {
			// a branch target that is also an edge successor of src: drop the edge
			if used[[2]int{src, t}] {
				ne := gs.Edges[:0]
				for _, e := range gs.Edges {
					if !(e.From == src && e.To == t) {
						ne = append(ne, e)
					}
				}
				gs.Edges = ne
			}
			used[[2]int{src, t}] = true
			if wf {
				gs.Edges = append(gs.Edges, EdgeSpec{From: src, To: t, Kind: 2})
			}
		}
		gs.Branches = append(gs.Branches, g.branchTable(src, targets, -1))
	}
	// pregel: cycles through a branch (back target + exit target), rarely a plain back edge
	if gs.Mode == "pregel" && n >= 1 && r.Chance(45, 100) {
		si := r.Range(0, n-1)
		src := ids[si]
		back := ids[r.Range(0, si)]
		var exit int
		if si+1 < n && r.Chance(1, 2) {
			exit = ids[r.Range(si+1, n-1)]
		} else {
			exit = EndID
		}
		if !used[[2]int{src, back}] && !used[[2]int{src, exit}] {
			used[[2]int{src, back}] = true
			used[[2]int{src, exit}] = true
			gs.Branches = append(gs.Branches, g.branchTable(src, []int{back, exit}, exit))
		}
	}
	if gs.Mode == "pregel" && n >= 2 && r.Chance(1, 20) {
		si := r.Range(1, n-1)
		addEdge(ids[si], ids[r.Range(0, si-1)], 0)
	}
	if gs.Mode == "pregel" && r.Chance(1, 4) {
		gs.MaxSteps = r.Range(2, n+6)
	}
	// workflow: control-only and data-only extras
	ctrlReach := func(from, to int) bool {
		seen := map[int]bool{from: true}
		work := []int{from}
		for len(work) > 0 {
			x := work[0]
			work = work[1:]
			if x == to {
				return true
			}
			for _, e := range gs.Edges {
				if e.From == x && e.Kind != 2 && !seen[e.To] {
					seen[e.To] = true
					work = append(work, e.To)
				}
			}
			for _, b := range gs.Branches {
				if b.From == x {
					for _, t := range b.Targets {
						if !seen[t] {
							seen[t] = true
							work = append(work, t)
						}
					}
				}
			}
		}
		return false
	}
	if wf {
		for i := 0; i < n; i++ {
			for j := i + 1; j < n; j++ {
				p, t := ids[i], ids[j]
				if used[[2]int{p, t}] {
					continue
				}
				if r.Chance(15, 100) {
					addEdge(p, t, 1)
				} else if r.Chance(15, 100) && ctrlReach(p, t) {
					if _, hs := dataPreds(t); !hs {
						addEdge(p, t, 2)
					}
				}
			}
		}
	}
	// every node reaches END through control edges (otherwise an eager run may return
	// while it is still running; that is C03's known finding, not ours)
	for _, id := range ids {
		if !ctrlReach(id, EndID) {
			if !used[[2]int{id, EndID}] {
				kind := 0
				if wf {
					if _, hs := dataPreds(EndID); hs {
						kind = 1
					}
				}
				addEdge(id, EndID, kind)
			}
		}
	}
	// node attributes, nested graphs
	nsub := 0
	for i, id := range ids {
		ns := NodeSpec{ID: id}
		if depth < g.maxDep && nsub < 2 && r.Intn(100) < g.subProb/(1+nsub) && !(n == 1 && depth > 0 && r.Chance(1, 2)) {
			nsub++
			ns.Sub = -1 // placeholder, filled after this graph is stored
		}
		if gs.State && r.Chance(4, 10) {
			ns.St = true
		}
		if ns.Sub == 0 && gs.State && r.Chance(18, 100) {
			ns.St = true
			switch r.Intn(5) {
			case 0, 1:
				ns.Rerun = []int{1}
			case 2:
				ns.Rerun = []int{1, 2}
			case 3:
				ns.Rerun = []int{2}
			default:
				ns.Rerun = []int{1, 3}
			}
		}
		if wf {
			ns.Delay = r.Intn(5)
		} else if r.Chance(1, 10) {
			ns.Delay = r.Intn(3)
		}
		_ = i
		gs.Nodes = append(gs.Nodes, ns)
	}
	// non-map outputs (workflow lambdas without branches) and input keys (Graph nodes with a single
	// data predecessor other than START)
	for i := range gs.Nodes {
		ns := &gs.Nodes[i]
		if wf {
			hasBranch := false
			for _, b := range gs.Branches {
				if b.From == ns.ID {
					hasBranch = true
				}
			}
			if ns.Sub == 0 && !hasBranch && r.Chance(15, 100) {
				ns.Leaf = true
			}
			continue
		}
		preds := map[int]bool{}
		for _, e := range gs.Edges {
			if e.To == ns.ID {
				preds[e.From] = true
			}
		}
		for _, b := range gs.Branches {
			if has(b.Targets, ns.ID) {
				preds[b.From] = true
			}
		}
		if len(preds) == 1 && !preds[StartID] && r.Chance(20, 100) {
			for p := range preds {
				ns.InKey = p
			}
		}
	}
	// interrupt sets
	pb, pa := 15, 15
	switch r.Intn(6) {
	case 0:
		pb, pa = 0, 0
	case 1:
		pb, pa = 35, 5
	case 2:
		pb, pa = 5, 35
	}
	if g.deep && depth == g.maxDep {
		pb, pa = 40, 10
	}
	for _, id := range ids {
		if r.Intn(100) < pb {
			gs.Before = append(gs.Before, id)
		}
		if r.Intn(100) < pa {
			gs.After = append(gs.After, id)
		}
	}
	// adversarial positions: direct successors of START, branch targets
	if r.Chance(1, 4) {
		for _, e := range gs.Edges {
			if e.From == StartID && e.To != EndID && !has(gs.Before, e.To) && r.Chance(1, 2) {
				gs.Before = append(gs.Before, e.To)
			}
		}
		for _, b := range gs.Branches {
			if b.From == StartID {
				for _, t := range b.Targets {
					if t != EndID && !has(gs.Before, t) && r.Chance(1, 2) {
						gs.Before = append(gs.Before, t)
					}
				}
			}
		}
	}
	if r.Chance(1, 5) {
		for _, b := range gs.Branches {
			for _, t := range b.Targets {
				if t != EndID && !has(gs.Before, t) && r.Chance(1, 2) {
					gs.Before = append(gs.Before, t)
				}
			}
			if b.From != StartID && !has(gs.After, b.From) && r.Chance(1, 3) {
				gs.After = append(gs.After, b.From)
			}
		}
	}
	gs.Before = sortedCopy(gs.Before)
	gs.After = sortedCopy(gs.After)
	g.c.Graphs[gi] = gs
	for i := range gs.Nodes {
		if gs.Nodes[i].Sub == -1 {
			si := g.graph(depth+1, gs.Mode)
			g.c.Graphs[gi].Nodes[i].Sub = si
		}
	}
	return gi
}

// branchTable draws the decision table of a branch. exit >= 0: the branch closes a cycle,
// make sure some row leaves it.
func (g *genCtx) branchTable(src int, targets []int, exit int) BranchSpec {
	r := g.r
	b := BranchSpec{From: src, Targets: targets}
	b.Multi = exit < 0 && len(targets) > 1 && r.Chance(1, 3)
	rows := r.Range(1, 4)
	for i := 0; i < rows; i++ {
		if b.Multi {
			var row []int
			for _, t := range targets {
				if r.Chance(1, 2) {
					row = append(row, t)
				}
			}
			if len(row) == 0 && !r.Chance(1, 6) {
				row = []int{targets[r.Intn(len(targets))]}
			}
			if row == nil {
				row = []int{}
			}
			b.Table = append(b.Table, row)
		} else {
			b.Table = append(b.Table, []int{targets[r.Intn(len(targets))]})
		}
	}
	if exit >= 0 {
		b.Table[r.Intn(len(b.Table))] = []int{exit}
		if r.Chance(2, 3) && len(b.Table) > 1 {
			// make at least one row loop, so the cycle is actually taken sometimes
			i := r.Intn(len(b.Table))
			if len(b.Table[i]) == 1 && b.Table[i][0] == exit {
				i = (i + 1) % len(b.Table)
			}
			b.Table[i] = []int{targets[0]}
		}
	}
	return b
}
