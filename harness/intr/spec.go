// Package intr is the engine shared by properties C05 (interrupt + resume == uninterrupted)
// and C06 (interrupt points honoured and reported exactly).
//
// A case is a forest of graph specifications (index 0 = top level; a node with Sub > 0 is
// a nested graph), interrupt-before/after sets at every level, rerun tables (a node asks
// for InterruptAndRerun on given attempts), and a plan of calls (Invoke/Stream, with or
// without a state modifier).  The harness builds the real compose graphs twice: once
// without any interrupt configuration (reference run) and once with it; the second one is
// driven through a byte-level in-memory checkpoint store until it completes.
package intr

import (
	"fmt"
	"sort"
)

// Node ids are globally unique over the whole case: 0 = START, 1 = END (of the graph the
// edge belongs to), >= 2 real nodes. The compose node key of node id is "n<id>".
const (
	StartID = 0
	EndID   = 1
)

type NodeSpec struct {
	ID    int   `json:"id"`
	Sub   int   `json:"sub,omitempty"`   // > 0: index into Case.Graphs of the nested graph
	St    bool  `json:"st,omitempty"`    // has the state pre-handler (stamp + save / rebuild)
	Rerun []int `json:"rerun,omitempty"` // attempts (1-based, counted over the whole run) that return InterruptAndRerun
	Delay int   `json:"delay,omitempty"` // sleep in units of 300us before returning (eager schedules)
	// Leaf: (workflow lambdas only) the node's output type is string, not a map: it returns the size of
	// its input; every data edge out of it is mapped with ToField("n<id>").
	Leaf bool `json:"leaf,omitempty"`
	// InKey > 0: the node is added WithInputKey("n<InKey>"), InKey being its only data predecessor.
	InKey int `json:"inkey,omitempty"`
	// Atom: (workflow lambdas only) the node's INPUT type is string, not a map: its only data predecessor is a Leaf
	// node whose output reaches it unmapped; it returns {n<id>: input}. What a checkpoint holds for it (pending input,
	// channel value, the placeholder of a rerun) is a string / a nil value, not a map.
	Atom bool `json:"atom,omitempty"`
	// Empty (C06, direct oracle only: such a case is not sent to the model): a plain lambda of a Graph (not a Workflow:
	// the field mappings of a workflow read keys of the output) that answers with the EMPTY map. Whether a node is an
	// interrupt point has nothing to do with what it returns.
	Empty bool `json:"empty,omitempty"`
}

// Edge kinds: 0 = data + control (Graph.AddEdge / Workflow AddInput),
// 1 = control only (Workflow AddDependency), 2 = data only (Workflow WithNoDirectDependency).
type EdgeSpec struct {
	From int `json:"from"`
	To   int `json:"to"`
	Kind int `json:"kind,omitempty"`
}

// BranchSpec: the condition is table driven: choice = Table[size(input) mod len(Table)].
type BranchSpec struct {
	From    int     `json:"from"`
	Targets []int   `json:"targets"`
	Multi   bool    `json:"multi,omitempty"`
	Table   [][]int `json:"table"`
}

type GraphSpec struct {
	Mode     string       `json:"mode"` // pregel | dag | wf
	Nodes    []NodeSpec   `json:"nodes"`
	Edges    []EdgeSpec   `json:"edges"`
	Branches []BranchSpec `json:"branches,omitempty"`
	Before   []int        `json:"before,omitempty"`
	After    []int        `json:"after,omitempty"`
	MaxSteps int          `json:"max_steps,omitempty"` // pregel only; 0 = default (|nodes|+10)
	State    bool         `json:"state,omitempty"`
}

type CallSpec struct {
	Stream bool `json:"stream,omitempty"`
	Mod    bool `json:"mod,omitempty"` // pass WithStateModifier (observes, and bumps St.Mods)
}

// ListSpec: the interrupt configuration the way an application hands it to Compile: ONE list per kind
// (the very same []string object) is given to WithInterruptBeforeNodes / WithInterruptAfterNodes of
// every graph listed in Graphs, each graph picking out the names it contains. The lists are passed
// as they stand: any order, names given twice, names of other graphs of the forest, names of no graph
// at all (ids that no graph declares; 0 = "start", 1 = "end"). For the graphs listed, GraphSpec.Before /
// GraphSpec.After are DERIVED (Case.Normalise): the sorted set of the graph's own nodes in the list.
// The graphs not listed get fresh slices of their own Before / After, as do all graphs without a ListSpec.
type ListSpec struct {
	Graphs []int `json:"graphs"`
	Before []int `json:"before,omitempty"`
	After  []int `json:"after,omitempty"`
}

type Case struct {
	Graphs []GraphSpec `json:"graphs"`
	Input  int         `json:"input"`
	Calls  []CallSpec  `json:"calls"` // used cyclically, call k uses Calls[k mod len]
	NoID   bool        `json:"no_id,omitempty"`
	Seed   uint64      `json:"seed,omitempty"` // only for delays jitter; not semantic
	Lists  *ListSpec   `json:"lists,omitempty"`
	// Twice: when the driven run is over, the same compiled runnable is driven a second time from the same
	// input under another checkpoint id (what a server does with one compiled graph and many sessions).
	Twice bool `json:"twice,omitempty"`
	// NoStore (only with NoID): the graph is compiled without WithCheckPointStore altogether.
	NoStore bool `json:"no_store,omitempty"`
	// SetFailAt > 0: the store's k-th Set call fails. Such a case is judged by the direct oracle only (the
	// call must not return an interrupt: no checkpoint was written) and is not sent to the model.
	SetFailAt int `json:"set_fail_at,omitempty"`
	// Restart: every resume call is made on a freshly compiled runnable (same store): the process that resumes is
	// not the process that was interrupted; nothing but the stored bytes links the two.
	Restart bool `json:"restart,omitempty"`
	// Retry (C05): when the driven run is over, the same compiled runnable is driven once more from the same input
	// under another checkpoint id; one of its resume calls fails with a transient node error (nothing is written),
	// and is then made again: it resumes from the same stored bytes. Retry-1 = which resume call fails (mod the
	// number of resume calls of the first run).
	Retry int `json:"retry,omitempty"`
	// EmptyID (C06): the checkpoint id the caller supplies for the first driven run is the empty string - an id like
	// any other (the store is a key/value store; WithCheckPointID("") is "an id was supplied").
	EmptyID bool `json:"empty_id,omitempty"`
	// Conc > 1 (C06, direct oracle only): when everything else is over the forest is compiled afresh (twice)
	// and Conc callers make the FIRST calls on the fresh runnable at the same moment (what a server does with the
	// first requests after start-up), each under its own checkpoint id. Every one of them must honour the interrupt
	// points like a call made alone. Pad > 0: every interrupt list handed to that Compile carries Pad more names of
	// nodes no graph has (legal, see ListSpec; long lists = a long-running first look at the configuration).
	Conc int `json:"conc,omitempty"`
	Pad  int `json:"pad,omitempty"`
	// Typed (C05, direct oracle only): the case is a member of the typed family of typed.go (nodes declared over `any`,
	// nil values / streams without chunks in the checkpoint) instead of a forest; every other field is ignored.
	Typed *TypedSpec `json:"typed,omitempty"`
}

// sharesLists: graph gi is handed the shared lists of c.Lists.
func (c *Case) sharesLists(gi int) bool { return c.Lists != nil && has(c.Lists.Graphs, gi) }

// PassedBefore / PassedAfter: the list handed to Compile for graph gi, as it stands.
func (c *Case) PassedBefore(gi int) []int {
	if c.sharesLists(gi) {
		return c.Lists.Before
	}
	return c.Graphs[gi].Before
}

func (c *Case) PassedAfter(gi int) []int {
	if c.sharesLists(gi) {
		return c.Lists.After
	}
	return c.Graphs[gi].After
}

// ownSet: the sorted duplicate-free list of the nodes of g named in xs.
func ownSet(g *GraphSpec, xs []int) []int {
	var r []int
	for _, x := range xs {
		if g.node(x) != nil && !has(r, x) {
			r = append(r, x)
		}
	}
	sort.Ints(r)
	return r
}

// Normalise derives Before / After of the graphs that are handed the shared lists.
func (c *Case) Normalise() {
	if c.Lists == nil {
		return
	}
	for gi := range c.Graphs {
		if c.sharesLists(gi) {
			c.Graphs[gi].Before = ownSet(&c.Graphs[gi], c.Lists.Before)
			c.Graphs[gi].After = ownSet(&c.Graphs[gi], c.Lists.After)
		}
	}
}

func key(id int) string {
	switch id {
	case StartID:
		return "start"
	case EndID:
		return "end"
	}
	return fmt.Sprintf("n%d", id)
}

func (g *GraphSpec) node(id int) *NodeSpec {
	for i := range g.Nodes {
		if g.Nodes[i].ID == id {
			return &g.Nodes[i]
		}
	}
	return nil
}

// hasEmpty: some node of the forest answers with the empty map (Case not sent to the model).
func (c *Case) hasEmpty() bool {
	for _, g := range c.Graphs {
		for _, n := range g.Nodes {
			if n.Empty {
				return true
			}
		}
	}
	return false
}

func has(xs []int, x int) bool {
	for _, y := range xs {
		if y == x {
			return true
		}
	}
	return false
}

func sortedCopy(xs []int) []int {
	r := append([]int(nil), xs...)
	sort.Ints(r)
	return r
}

// Validate rejects cases the builder cannot express (used for corpus / replay input).
func (c *Case) Validate() error {
	if c.Typed != nil {
		return c.Typed.validate()
	}
	if len(c.Graphs) == 0 {
		return fmt.Errorf("no graphs")
	}
	if len(c.Calls) == 0 {
		return fmt.Errorf("no calls")
	}
	if c.NoStore && !c.NoID {
		return fmt.Errorf("no_store needs no_id (an id without a store is refused by the run)")
	}
	if c.EmptyID && c.NoID {
		return fmt.Errorf("empty_id is an id: not with no_id")
	}
	if c.Conc < 0 || c.Conc > 8 || c.Pad < 0 || c.Pad > 300000 {
		return fmt.Errorf("conc in 0..8, pad in 0..300000")
	}
	if l := c.Lists; l != nil {
		for _, gi := range l.Graphs {
			if gi < 0 || gi >= len(c.Graphs) {
				return fmt.Errorf("lists: graph index %d out of range", gi)
			}
		}
		for _, id := range append(append([]int{}, l.Before...), l.After...) {
			if id < 0 {
				return fmt.Errorf("lists: negative id %d", id)
			}
		}
	}
	seen := map[int]bool{}
	for gi, g := range c.Graphs {
		if g.Mode != "pregel" && g.Mode != "dag" && g.Mode != "wf" {
			return fmt.Errorf("graph %d: bad mode %q", gi, g.Mode)
		}
		for _, n := range g.Nodes {
			if n.ID < 2 || seen[n.ID] {
				return fmt.Errorf("graph %d: bad or duplicate node id %d", gi, n.ID)
			}
			seen[n.ID] = true
			if n.Sub != 0 && (n.Sub <= gi || n.Sub >= len(c.Graphs)) {
				return fmt.Errorf("graph %d node %d: sub index %d out of order", gi, n.ID, n.Sub)
			}
			if (n.St || len(n.Rerun) > 0) && !g.State {
				return fmt.Errorf("graph %d node %d: stateful node in a graph without state", gi, n.ID)
			}
			if len(n.Rerun) > 0 && n.Sub != 0 {
				return fmt.Errorf("graph %d node %d: a graph node cannot be a rerun node", gi, n.ID)
			}
			if n.Empty {
				if g.Mode == "wf" || n.Sub != 0 || n.Leaf || n.Atom {
					return fmt.Errorf("graph %d node %d: an empty-output node is a plain lambda of a Graph", gi, n.ID)
				}
				for _, m := range g.Nodes {
					if m.InKey == n.ID {
						return fmt.Errorf("graph %d node %d: an empty-output node has no key a successor could ask for", gi, n.ID)
					}
				}
			}
			if n.Leaf && (g.Mode != "wf" || n.Sub != 0 || n.InKey != 0) {
				return fmt.Errorf("graph %d node %d: a leaf node is a plain workflow lambda", gi, n.ID)
			}
		}
		if g.Mode == "wf" && !g.State {
			return fmt.Errorf("graph %d: workflow graphs carry state (schedule observation)", gi)
		}
		ok := func(id int) bool { return id == StartID || id == EndID || g.node(id) != nil }
		for _, e := range g.Edges {
			if !ok(e.From) || !ok(e.To) || e.From == EndID || e.To == StartID {
				return fmt.Errorf("graph %d: bad edge %v", gi, e)
			}
			if e.Kind != 0 && g.Mode != "wf" {
				return fmt.Errorf("graph %d: edge kind %d only in workflows", gi, e.Kind)
			}
		}
		for _, b := range g.Branches {
			if !ok(b.From) || b.From == EndID || len(b.Targets) == 0 || len(b.Table) == 0 {
				return fmt.Errorf("graph %d: bad branch %v", gi, b)
			}
			for _, t := range b.Targets {
				if !ok(t) || t == StartID {
					return fmt.Errorf("graph %d: bad branch target %d", gi, t)
				}
			}
			for _, row := range b.Table {
				if !b.Multi && len(row) != 1 {
					return fmt.Errorf("graph %d: single branch row must be a singleton", gi)
				}
				for _, t := range row {
					if !has(b.Targets, t) {
						return fmt.Errorf("graph %d: branch row outside targets", gi)
					}
				}
			}
		}
		for _, n := range g.Nodes {
			if n.Leaf {
				for _, b := range g.Branches {
					if b.From == n.ID {
						return fmt.Errorf("graph %d node %d: a leaf node cannot carry a branch", gi, n.ID)
					}
				}
			}
			if n.Atom {
				if g.Mode != "wf" || n.Sub != 0 || n.Leaf || n.InKey != 0 {
					return fmt.Errorf("graph %d node %d: an atom node is a plain workflow lambda", gi, n.ID)
				}
				nd := 0
				for _, e := range g.Edges {
					if e.To == n.ID && e.Kind != 1 {
						nd++
						if p := g.node(e.From); p == nil || !p.Leaf {
							return fmt.Errorf("graph %d node %d: the data predecessor of an atom node is a leaf node", gi, n.ID)
						}
					}
				}
				if nd != 1 {
					return fmt.Errorf("graph %d node %d: an atom node has exactly one data predecessor", gi, n.ID)
				}
			}
			if n.InKey != 0 {
				p := g.node(n.InKey)
				if p == nil || p.Leaf {
					return fmt.Errorf("graph %d node %d: input key of an unknown or leaf node", gi, n.ID)
				}
				for _, e := range g.Edges {
					if e.To == n.ID && e.Kind != 1 && e.From != n.InKey {
						return fmt.Errorf("graph %d node %d: input key needs a single data predecessor", gi, n.ID)
					}
				}
				if g.Mode == "wf" {
					return fmt.Errorf("graph %d node %d: input keys are not used in workflows", gi, n.ID)
				}
			}
		}
		for _, id := range append(append([]int{}, g.Before...), g.After...) {
			if g.node(id) == nil {
				return fmt.Errorf("graph %d: interrupt node %d unknown", gi, id)
			}
		}
	}
	return nil
}

// ---- values: trees of maps with string leaves (uninterpreted data-flow terms) ----

// Val is the canonical form of a value: either a leaf or a map sorted by key.
type Val struct {
	Leaf string   `json:"l,omitempty"`
	Keys []string `json:"k,omitempty"`
	Vals []*Val   `json:"v,omitempty"`
	Map  bool     `json:"m,omitempty"`
}

func canon(x any) *Val {
	switch t := x.(type) {
	case nil:
		return &Val{Map: true}
	case string:
		return &Val{Leaf: t}
	case map[string]any:
		ks := make([]string, 0, len(t))
		for k := range t {
			ks = append(ks, k)
		}
		sort.Strings(ks)
		v := &Val{Map: true}
		for _, k := range ks {
			v.Keys = append(v.Keys, k)
			v.Vals = append(v.Vals, canon(t[k]))
		}
		return v
	case map[string]map[string]any:
		m := make(map[string]any, len(t))
		for k, e := range t {
			m[k] = e
		}
		return canon(m)
	case int:
		return &Val{Leaf: fmt.Sprintf("%d", t)}
	case map[string]string:
		m := make(map[string]any, len(t))
		for k, e := range t {
			m[k] = e
		}
		return canon(m)
	}
	return &Val{Leaf: fmt.Sprintf("?%T", x)}
}

func (v *Val) String() string {
	if v == nil {
		return "<nil>"
	}
	if !v.Map {
		return v.Leaf
	}
	s := "{"
	for i, k := range v.Keys {
		if i > 0 {
			s += ","
		}
		s += k + ":" + v.Vals[i].String()
	}
	return s + "}"
}

func (v *Val) get(k string) *Val {
	if v == nil || !v.Map {
		return nil
	}
	for i, kk := range v.Keys {
		if kk == k {
			return v.Vals[i]
		}
	}
	return nil
}

// size is the number of constructors: the branch tables are indexed by it.
func size(x any) int {
	switch t := x.(type) {
	case map[string]any:
		n := 1
		for _, e := range t {
			n += size(e)
		}
		return n
	case nil:
		return 1
	}
	return 1
}

func (v *Val) size() int {
	if v == nil {
		return 0
	}
	n := 1
	for _, e := range v.Vals {
		n += e.size()
	}
	return n
}
