package intr

import (
	"encoding/json"
	"fmt"
	"sort"
	"strings"
)

// index gives the position of every node in the forest.
type index struct {
	c      *Case
	gOf    map[int]int // node id -> graph index
	holder map[int]int // graph index -> id of the graph node holding it (top level: absent)
}

func newIndex(c *Case) *index {
	ix := &index{c: c, gOf: map[int]int{}, holder: map[int]int{}}
	for gi, g := range c.Graphs {
		for _, n := range g.Nodes {
			ix.gOf[n.ID] = gi
			if n.Sub > 0 {
				ix.holder[n.Sub] = n.ID
			}
		}
	}
	return ix
}

// chain returns the node ids from the top-level ancestor down to id itself.
func (ix *index) chain(id int) []int {
	var rev []int
	for {
		rev = append(rev, id)
		h, ok := ix.holder[ix.gOf[id]]
		if !ok {
			break
		}
		id = h
	}
	for i, j := 0, len(rev)-1; i < j; i, j = i+1, j-1 {
		rev[i], rev[j] = rev[j], rev[i]
	}
	return rev
}

// levelInfo follows info.Subs along the ancestors of a node (excluding the node itself).
func levelInfo(info *InfoObs, chain []int) *InfoObs {
	cur := info
	for _, a := range chain[:len(chain)-1] {
		if cur == nil {
			return nil
		}
		cur = cur.sub(a)
	}
	return cur
}

func execKey(e *Exec) string { return fmt.Sprintf("%d|%s|t%d", e.ID, e.In.String(), e.Touch) }

func multiset(es []*Exec, keepAborted bool) map[string]int {
	m := map[string]int{}
	for _, e := range es {
		if e.Abort && !keepAborted {
			continue
		}
		m[execKey(e)]++
	}
	return m
}

func allExecs(obs *RunObs) []*Exec {
	var all []*Exec
	for _, s := range obs.Segs {
		all = append(all, s.Execs...)
	}
	return all
}

func perNode(es []*Exec) map[int][]string {
	m := map[int][]string{}
	for _, e := range es {
		if !e.Abort {
			m[e.ID] = append(m[e.ID], e.In.String())
		}
	}
	return m
}

type Failure struct {
	What string
	Sig  string
}

// OracleC05: resume o interrupt == uninterrupted (evaluated on the implementation alone).
func OracleC05(c *Case, obs *RunObs) *Failure {
	if obs.CompileErr != "" || obs.Ref == nil {
		return nil
	}
	for j, s := range obs.Segs {
		if s.Class == "panic" || s.Class == "hang" {
			if obs.Ref.Class == s.Class {
				continue
			}
			return &Failure{fmt.Sprintf("call %d: %s (%s) while the uninterrupted run ends with %s", j, s.Class, s.Err, obs.Ref.Class), "resume-" + s.Class}
		}
	}
	// resuming is a function of the stored bytes: the last call, made once more, does what it did
	if rp := obs.Repeat; rp != nil {
		if f := repeatable(c, obs.Segs[len(obs.Segs)-1], rp); f != nil {
			return f
		}
	}
	// a resume call that failed with a transient node error and is made again resumes from the same stored bytes
	if f := retried(c, obs); f != nil {
		return f
	}
	ref := obs.Ref
	if ref.Class != "done" && ref.Class != "fail" {
		return nil // step limit (restarts on resume: documented caveat), panic/hang of the reference: not comparable
	}
	all := allExecs(obs)
	if ref.Class == "fail" && hasEager(c) {
		// a failing node makes an eager run return while its siblings are still running: which
		// of them got to start is a matter of scheduling, only the outcome class is comparable
		if obs.Finished && obs.Segs[len(obs.Segs)-1].Class != "fail" {
			last := obs.Segs[len(obs.Segs)-1]
			return &Failure{fmt.Sprintf("uninterrupted run ends with %s, interrupted+resumed run with %s (%s)", ref.Class, last.Class, last.Err), "class-differs"}
		}
		return nil
	}
	// nothing is executed that the uninterrupted run does not execute, nothing twice
	refMS := multiset(ref.Execs, false)
	gotMS := multiset(all, false)
	for k, n := range gotMS {
		if n > refMS[k] {
			return &Failure{fmt.Sprintf("execution %s happens %d time(s) in the interrupted run, %d in the uninterrupted one", k, n, refMS[k]), "reexecuted-or-foreign"}
		}
	}
	// state survives the round trip: what the state modifier sees on resume is what the
	// preceding interrupt reported
	ix := newIndex(c)
	for j, s := range obs.Segs {
		for _, m := range s.Mods {
			if j == 0 {
				return &Failure{"state modifier called in a fresh run", "modifier-fresh"}
			}
			info := obs.Segs[j-1].Info
			lvl := info
			if m.Path != "" {
				// path is a/b/c of graph nodes
				ids := pathIDs(m.Path)
				lvl = levelInfo(info, append(ids, -1))
			}
			if lvl == nil {
				return &Failure{fmt.Sprintf("call %d: state modifier called for path %q which the previous interrupt did not report", j, m.Path), "modifier-unreported"}
			}
			if lvl.State.String() != m.State.String() {
				return &Failure{fmt.Sprintf("call %d path %q: restored state %s differs from the state reported at the interrupt %s", j, m.Path, m.State, lvl.State), "state-roundtrip"}
			}
		}
	}
	// a resumed call that carries a state modifier hands it the restored state of every graph the preceding
	// interrupt reported a state for, each exactly once and under the path of that graph
	for j, s := range obs.Segs {
		if j == 0 || !s.Call.Mod || !s.WithID || (s.Class != "done" && s.Class != "interrupt") {
			continue // a failing call may return while restored tasks are still starting (eager mode)
		}
		prev := obs.Segs[j-1]
		if prev.Class != "interrupt" || !prev.Stored || prev.Sets != 1 {
			continue
		}
		want, got := map[string]int{}, map[string]int{}
		var walk func(i *InfoObs, path string)
		walk = func(i *InfoObs, path string) {
			if i == nil {
				return
			}
			if i.State != nil {
				want[path]++
			}
			for _, sub := range i.Subs {
				walk(sub.Info, subPath(path, sub.ID))
			}
		}
		walk(prev.Info, "")
		for _, m := range s.Mods {
			got[m.Path]++
		}
		for p, n := range want {
			if got[p] != n {
				return &Failure{fmt.Sprintf("call %d: the state modifier was called %d time(s) for path %q, the preceding interrupt reported a state there (calls by path: %v)", j, got[p], p, got), "modifier-paths"}
			}
		}
		for p, n := range got {
			if want[p] != n {
				return &Failure{fmt.Sprintf("call %d: the state modifier was called %d time(s) for path %q, expected %d (calls by path: %v)", j, n, p, want[p], got), "modifier-paths"}
			}
		}
	}
	_ = ix
	// state survives: the updates made by the nodes of stateless nested graphs (which share the top-level
	// state) are all there in the state every top-level interrupt reports, also after a resume
	{
		b := &builder{c: c}
		done := map[int]int{}
		for j, s := range obs.Segs {
			for _, e := range s.Execs {
				if !e.Abort && b.sharesTopState(ix.gOf[e.ID]) {
					done[e.ID]++
				}
			}
			if s.Class != "interrupt" || s.Info == nil || s.Info.State == nil {
				continue
			}
			for id, n := range done {
				if s.Info.Touch[id] != n {
					return &Failure{fmt.Sprintf("call %d: the state reported by the interrupt has seen %d completed execution(s) of n%d, %d happened", j, s.Info.Touch[id], id, n), "state-update-lost"}
				}
			}
		}
	}
	// an aborted attempt is re-run with the same (rebuilt) input
	for i, e := range all {
		if !e.Abort {
			continue
		}
		found := false
		for _, f := range all[i+1:] {
			if f.ID == e.ID {
				if f.In.String() != e.In.String() {
					return &Failure{fmt.Sprintf("node %s asked for a rerun on input %s and was re-run on %s", e.Path, e.In, f.In), "rerun-input"}
				}
				if f.Seg == e.Seg {
					return &Failure{fmt.Sprintf("node %s asked for a rerun and ran again in the same call", e.Path), "rerun-same-call"}
				}
				found = true
				break
			}
		}
		if !found && obs.Finished && obs.Segs[len(obs.Segs)-1].Class == "done" {
			// (a run that ends with a failure stops wherever the failure surfaces: the re-run may not have come yet)
			return &Failure{fmt.Sprintf("node %s asked for a rerun and was never re-run", e.Path), "rerun-lost"}
		}
	}
	if !obs.Finished {
		return nil
	}
	last := obs.Segs[len(obs.Segs)-1]
	if last.Class != ref.Class {
		return &Failure{fmt.Sprintf("uninterrupted run ends with %s, interrupted+resumed run with %s (%s)", ref.Class, last.Class, last.Err), "class-differs"}
	}
	if ref.Class == "done" && ref.Out.String() != last.Out.String() {
		return &Failure{fmt.Sprintf("final output differs: uninterrupted %s, resumed %s", ref.Out, last.Out), "output-differs"}
	}
	if ref.Class == "fail" {
		// a failing run stops wherever the failure surfaces; interrupts shift that point relative to
		// the other nodes of the step, so only the class and the inclusion above are comparable
		return nil
	}
	for k, n := range refMS {
		if gotMS[k] != n {
			return &Failure{fmt.Sprintf("execution %s happens %d time(s) in the uninterrupted run, %d in the interrupted one", k, n, gotMS[k]), "execution-lost"}
		}
	}
	// state handlers: the pre-handler of a node runs once per execution in both runs; only a node that
	// asked for a rerun runs it again (to rebuild its input) — in particular a nested graph that
	// continues from its nested checkpoint does not run it again
	{
		refPre, gotPre, aborts := map[int]int{}, map[int]int{}, map[int]int{}
		for _, ev := range ref.Events {
			if ev.Kind == "pre" {
				refPre[ev.ID]++
			}
		}
		for _, s := range obs.Segs {
			for _, ev := range s.Events {
				if ev.Kind == "pre" {
					gotPre[ev.ID]++
				}
			}
		}
		for _, e := range all {
			if e.Abort {
				aborts[e.ID]++
			}
		}
		ids := map[int]bool{}
		for id := range refPre {
			ids[id] = true
		}
		for id := range gotPre {
			ids[id] = true
		}
		for id := range ids {
			if gotPre[id] != refPre[id]+aborts[id] {
				return &Failure{fmt.Sprintf("the state pre-handler of n%d ran %d time(s) in the interrupted run, %d in the uninterrupted one (+%d aborted attempts)", id, gotPre[id], refPre[id], aborts[id]), "pre-handler-count"}
			}
		}
	}
	a, b := perNode(ref.Execs), perNode(all)
	for id, seq := range a {
		if fmt.Sprint(seq) != fmt.Sprint(b[id]) {
			return &Failure{fmt.Sprintf("node n%d sees its inputs in a different order", id), "order-differs"}
		}
	}
	return nil
}

// repeatable: [last] ended without writing a checkpoint, [rp] is the same call (same id, same options) made once
// more: it resumes from the same stored bytes and must end the same way, with the same output, the same
// executions (node, input, what it saw of the shared state) and the same state pre-handler runs.
func repeatable(c *Case, last, rp *SegObs) *Failure {
	eager := hasEager(c)
	if eager && (last.Class == "done" && rp.Class == "interrupt" || last.Class == "fail" || rp.Class == "fail") {
		// eager mode: whether an interrupt-after node is collected before or after the task whose completion makes END
		// ready, and which task of a failing step surfaces first, is a matter of scheduling
		return nil
	}
	if rp.Class != last.Class {
		return &Failure{fmt.Sprintf("the last call ended with %s without writing a checkpoint; the same call made once more (same id, same stored bytes) ends with %s (%s)", last.Class, rp.Class, rp.Err), "resume-not-repeatable"}
	}
	if rp.Sets != 0 {
		return &Failure{fmt.Sprintf("the repeated last call (%s) wrote %d checkpoint(s)", rp.Class, rp.Sets), "resume-not-repeatable"}
	}
	if eager && last.Class == "done" {
		if last.Out.String() != rp.Out.String() {
			return &Failure{fmt.Sprintf("resumed twice from the same stored checkpoint: output %s the first time, %s the second", last.Out, rp.Out), "resume-not-repeatable"}
		}
		return nil
	}
	if last.Class != "done" {
		return nil // a failing run stops wherever the failure surfaces (eager: scheduling); only the class is comparable
	}
	if last.Out.String() != rp.Out.String() {
		return &Failure{fmt.Sprintf("resumed twice from the same stored checkpoint: output %s the first time, %s the second", last.Out, rp.Out), "resume-not-repeatable"}
	}
	a, b := multiset(last.Execs, true), multiset(rp.Execs, true)
	for k, n := range a {
		if b[k] != n {
			return &Failure{fmt.Sprintf("resumed twice from the same stored checkpoint: execution %s happens %d time(s) the first time, %d the second", k, n, b[k]), "resume-not-repeatable"}
		}
	}
	for k, n := range b {
		if a[k] != n {
			return &Failure{fmt.Sprintf("resumed twice from the same stored checkpoint: execution %s happens %d time(s) the first time, %d the second", k, a[k], n), "resume-not-repeatable"}
		}
	}
	pa, pb := map[int]int{}, map[int]int{}
	for _, ev := range last.Events {
		if ev.Kind == "pre" {
			pa[ev.ID]++
		}
	}
	for _, ev := range rp.Events {
		if ev.Kind == "pre" {
			pb[ev.ID]++
		}
	}
	if fmt.Sprint(pa) != fmt.Sprint(pb) {
		return &Failure{fmt.Sprintf("resumed twice from the same stored checkpoint: state pre-handler runs %v the first time, %v the second", pa, pb), "resume-not-repeatable"}
	}
	return nil
}

// callSummary: everything one call showed that does not depend on goroutine scheduling in a forest without Workflow.
func callSummary(s *SegObs) string {
	info, _ := json.Marshal(s.Info)
	ms := multiset(s.Execs, true)
	ks := make([]string, 0, len(ms))
	for k, n := range ms {
		ks = append(ks, fmt.Sprintf("%s*%d", k, n))
	}
	sort.Strings(ks)
	pre := map[int]int{}
	for _, ev := range s.Events {
		if ev.Kind == "pre" {
			pre[ev.ID]++
		}
	}
	mods := make([]string, 0, len(s.Mods))
	for _, m := range s.Mods {
		mods = append(mods, m.Path+"="+m.State.String())
	}
	sort.Strings(mods)
	return fmt.Sprintf("%s out=%s info=%s sets=%d execs=%v pre-handlers=%v modifier=%v", s.Class, s.Out, info, s.Sets, ks, pre, mods)
}

// retried: the retry phase (Case.Retry). The driven run was made once more under another id; its call RetryAt failed
// with a transient node error and was made again. A failed call writes nothing, so the repeated call resumes from
// the bytes the preceding interrupt stored, and from there on the run is, call by call, the first driven run.
func retried(c *Case, obs *RunObs) *Failure {
	if obs.RetryAt == 0 || len(obs.RetrySegs) == 0 {
		return nil
	}
	what := "nothing failed in it (no lambda started)"
	if f := obs.RetryFault; f != nil {
		if f.Class != "fail" {
			return nil // the injected error did not surface as a failure of the call (not this property's business)
		}
		what = fmt.Sprintf("the call failed with a transient node error after %d execution(s) and was made again under the same id", len(f.Execs))
	}
	for k := 0; k < len(obs.Segs) || k < len(obs.RetrySegs); k++ {
		a, b := "(no such call)", "(no such call)"
		if k < len(obs.Segs) {
			a = callSummary(obs.Segs[k])
		}
		if k < len(obs.RetrySegs) {
			b = callSummary(obs.RetrySegs[k])
		}
		if a != b {
			return &Failure{fmt.Sprintf("the same compiled graph driven again from the same input (another id), resume call %d: %s; call %d then shows %s, in the first run it showed %s", obs.RetryAt, what, k, b, a), "retry-after-failed-resume-differs"}
		}
	}
	return nil
}

func hasEager(c *Case) bool {
	for _, g := range c.Graphs {
		if g.Mode == "wf" {
			return true
		}
	}
	return false
}

func pathIDs(p string) []int {
	var ids []int
	cur := ""
	for i := 0; i <= len(p); i++ {
		if i == len(p) || p[i] == '/' {
			ids = append(ids, parseKey(cur))
			cur = ""
		} else {
			cur += string(p[i])
		}
	}
	return ids
}

func infoEmpty(i *InfoObs) bool {
	return i == nil || (len(i.Before) == 0 && len(i.After) == 0 && len(i.Rerun) == 0 && len(i.Subs) == 0)
}

// instances counts the invocations of graph node x (of graph gi) in segment seg: one per
// pre-handler event plus the instance continued from the previous interrupt. ok = false
// if the holding graph has no state (no events).
func instances(c *Case, ix *index, seg *SegObs, prev *InfoObs, x int) (int, bool) {
	gi := ix.gOf[x]
	if !c.Graphs[gi].State {
		return 0, false
	}
	n := 0
	for _, ev := range seg.Events {
		if ev.Kind == "pre" && ev.ID == x {
			n++
		}
	}
	if lvl := levelInfo(prev, ix.chain(x)); lvl != nil && lvl.sub(x) != nil {
		n++
	}
	return n, true
}

// OracleC06: interrupt points honoured and reported exactly.
func OracleC06(c *Case, obs *RunObs) *Failure {
	f := oracleC06(c, obs)
	if f != nil && obs.ListNote != "" {
		f.What += " [" + obs.ListNote + "]"
	}
	return f
}

func oracleC06(c *Case, obs *RunObs) *Failure {
	if obs.CompileErr != "" || obs.Ref == nil {
		return nil
	}
	if f := oracleSegs(c, obs.Segs); f != nil {
		return f
	}
	if f := oracleTwice(c, obs); f != nil {
		return f
	}
	return oracleConc(c, obs)
}

func oracleTwice(c *Case, obs *RunObs) *Failure {
	if len(obs.Segs2) == 0 {
		return nil
	}
	// the same compiled runnable driven a second time under another id: every clause again ...
	if f := oracleSegs(c, obs.Segs2); f != nil {
		f.What = "second run on the same compiled graph: " + f.What
		return f
	}
	// ... and, where nothing depends on goroutine scheduling (no Workflow in the forest), call by call what
	// the first run showed: the compiled graph keeps nothing of a run
	if hasEager(c) || c.SetFailAt > 0 {
		return nil
	}
	sum := segSummary
	for j := 0; j < len(obs.Segs) || j < len(obs.Segs2); j++ {
		a, b := "(no such call)", "(no such call)"
		if j < len(obs.Segs) {
			a = sum(obs.Segs[j])
		}
		if j < len(obs.Segs2) {
			b = sum(obs.Segs2[j])
		}
		if a != b {
			return &Failure{fmt.Sprintf("second run on the same compiled graph (same input, another checkpoint id) differs at call %d: first run %s, second run %s", j, a, b), "second-run-differs"}
		}
	}
	return nil
}

// segSummary: what a call showed, as far as it does not depend on goroutine scheduling in a forest without Workflows.
func segSummary(s *SegObs) string { return segSummaryStrip(s, "") }

// segSummaryStrip: the summary with every occurrence of mark taken out of the values (see concMark).
func segSummaryStrip(s *SegObs, mark string) string {
	strip := func(x string) string {
		if mark == "" {
			return x
		}
		return strings.ReplaceAll(x, mark, "")
	}
	info, _ := json.Marshal(s.Info)
	ms := map[string]int{}
	for k, n := range multiset(s.Execs, true) {
		ms[strip(k)] += n
	}
	ks := make([]string, 0, len(ms))
	for k, n := range ms {
		ks = append(ks, fmt.Sprintf("%s*%d", k, n))
	}
	sort.Strings(ks)
	return fmt.Sprintf("%s out=%s info=%s sets=%d execs=%v", s.Class, strip(s.Out.String()), strip(string(info)), s.Sets, ks)
}

// batchChain: neither the graph of node id nor any graph around it is a Workflow (eager): every task of a step is
// collected before the run loop looks at any of them.
func batchChain(c *Case, ix *index, id int) bool {
	for _, x := range ix.chain(id) {
		if c.Graphs[ix.gOf[x]].Mode == "wf" {
			return false
		}
	}
	return true
}

// oracleSegs evaluates the clauses on the calls of one driven run.
func oracleSegs(c *Case, segs []*SegObs) *Failure {
	ix := newIndex(c)
	for j, s := range segs {
		if s.Class == "panic" || s.Class == "hang" {
			continue // C05 reports it
		}
		var prev *InfoObs
		if j > 0 {
			prev = segs[j-1].Info
		}
		// (d) a store that refuses the write: no checkpoint exists, so no interrupt error may be returned
		if s.SetFailed {
			if s.Class == "interrupt" || s.Class == "done" {
				return &Failure{fmt.Sprintf("call %d: the store refused the checkpoint and the call ended with %s", j, s.Class), "store-failure-ignored"}
			}
			continue
		}
		// (d) checkpoint written exactly when an interrupt error is returned and an id was given
		wantSets := 0
		if s.WithID && s.Class == "interrupt" {
			wantSets = 1
		}
		if s.Sets != wantSets {
			return &Failure{fmt.Sprintf("call %d (%s, id given: %v): %d checkpoint write(s), expected %d", j, s.Class, s.WithID, s.Sets, wantSets), fmt.Sprintf("store-writes-%s", s.Class)}
		}
		for _, id := range s.SetIDs {
			if id != s.ID {
				return &Failure{fmt.Sprintf("call %d: checkpoint written under id %q, the caller gave %q", j, id, s.ID), "store-write-wrong-id"}
			}
		}
		if s.WrapLost {
			return &Failure{fmt.Sprintf("call %d: the interrupt information cannot be extracted (or is not the same) once the caller wraps the returned error with %%w", j), "info-lost-when-wrapped"}
		}
		// (c) a node that asks for a rerun (InterruptAndRerun, bare or wrapped with %w) IS an interrupt: the call returns an
		// error from which the information can be extracted. Claimed where the run loop has collected the node's task
		// whatever the schedule (no Workflow around it) and no other node of the step failed (no node fails in these runs
		// but through a nested run-level failure, which carries a node path).
		if s.Class != "interrupt" && !s.NodeErr {
			for _, e := range s.Execs {
				if e.Abort && batchChain(c, ix, e.ID) {
					return &Failure{fmt.Sprintf("call %d: %s asked for a rerun (InterruptAndRerun) but the call ended with %s %s: no interrupt information can be extracted from what it returned", j, e.Path, s.Class, s.Err), "rerun-request-not-an-interrupt"}
				}
			}
		}
		if s.Class == "interrupt" && infoEmpty(s.Info) {
			return &Failure{fmt.Sprintf("call %d: interrupt error without any interrupt information", j), "info-empty"}
		}
		// (c) the information is faithful to what ran
		if s.Class == "interrupt" {
			if f := checkInfo(c, ix, j, s, s.Info, 0); f != nil {
				return f
			}
		}
		// (a) interrupt-before
		count := map[int]int{}
		for _, e := range s.Execs {
			count[e.ID]++
		}
		for _, e := range s.Execs {
			ch := ix.chain(e.ID)
			for d, x := range ch {
				g := &c.Graphs[ix.gOf[x]]
				if !has(g.Before, x) {
					continue
				}
				lvl := levelInfo(prev, ch[:d+1])
				reported := lvl != nil && (has(lvl.Before, x) || has(lvl.Rerun, x) || lvl.sub(x) != nil)
				if !reported {
					return &Failure{fmt.Sprintf("call %d: %s executes although interrupt-before node n%d was not reported by a preceding interrupt", j, e.Path, x),
						beforeSig(c, ix, x)}
				}
				if x == e.ID {
					if count[x] > 1 {
						return &Failure{fmt.Sprintf("call %d: interrupt-before node %s executes %d times in one call", j, e.Path, count[x]), "before-twice"}
					}
				} else if n, ok := instances(c, ix, s, prev, x); ok && n > 1 {
					return &Failure{fmt.Sprintf("call %d: interrupt-before graph node n%d is invoked %d times in one call", j, x, n), "before-twice"}
				}
			}
		}
		// (b) interrupt-after
		for _, e := range s.Execs {
			if e.Abort {
				continue
			}
			g := &c.Graphs[ix.gOf[e.ID]]
			if !has(g.After, e.ID) {
				continue
			}
			ch := ix.chain(e.ID)
			if s.NodeErr {
				continue // another node of the same step failed: the error wins, nothing is claimed
			}
			// the segment of the node's own graph ends with that step: interrupted, done, or failed in the
			// channel layer; for a top-level node a call that runs into the step limit has gone on
			if len(ch) == 1 && s.Class == "steplimit" {
				return &Failure{fmt.Sprintf("call %d: interrupt-after node %s completed but the call ended with %s", j, e.Path, s.Class), "after-no-stop"}
			}
			single := true
			for _, a := range ch[:len(ch)-1] {
				if n, ok := instances(c, ix, s, prev, a); !ok || n != 1 {
					single = false
				}
			}
			if s.Class == "interrupt" && single {
				lvl := levelInfo(s.Info, ch)
				if len(ch) == 1 && !has(lvl.After, e.ID) {
					return &Failure{fmt.Sprintf("call %d: interrupt-after node %s completed but is not reported", j, e.Path), "after-unreported"}
				}
				if len(ch) > 1 && lvl != nil && !has(lvl.After, e.ID) {
					return &Failure{fmt.Sprintf("call %d: nested interrupt-after node %s completed, its graph was interrupted, but it is not reported", j, e.Path), "after-unreported"}
				}
			}
			// no successor starts in this call. By structure, where a successor cannot have been started by anything
			// else: in an all-predecessor graph (dag, Workflow control edges) a node behind an edge or a branch of e
			// runs at most once per run of its graph and only after e completed (whatever e returned: an empty output too)
			if single && g.Mode != "pregel" {
				for _, f := range s.Execs {
					if f.Seq > e.Seq && ix.gOf[f.ID] == ix.gOf[e.ID] && staticSucc(g, e.ID, f.ID) {
						return &Failure{fmt.Sprintf("call %d: %s, a successor of interrupt-after node %s, starts in the call in which %s completed", j, f.Path, e.Path, e.Path), "after-successor-ran"}
					}
				}
			}
			// by value: no task created from its output starts in this call
			k := key(e.ID)
			for _, f := range s.Execs {
				if f == e {
					continue
				}
				fch := ix.chain(f.ID)
				if len(fch) < len(ch) {
					continue
				}
				same := true
				for i := range ch[:len(ch)-1] {
					if fch[i] != ch[i] {
						same = false
					}
				}
				if !same {
					continue
				}
				if v := f.In.get(k); v != nil && v.String() == e.In.String() {
					return &Failure{fmt.Sprintf("call %d: %s starts on the output of interrupt-after node %s in the same call", j, f.Path, e.Path), "after-successor-ran"}
				}
			}
		}
	}
	return nil
}

// staticSucc: f is behind a control-carrying edge or a branch of e in g.
func staticSucc(g *GraphSpec, e, f int) bool {
	for _, ed := range g.Edges {
		if ed.From == e && ed.To == f && ed.Kind != 2 {
			return true
		}
	}
	for _, b := range g.Branches {
		if b.From == e && has(b.Targets, f) {
			return true
		}
	}
	return false
}

func beforeSig(c *Case, ix *index, x int) string {
	g := &c.Graphs[ix.gOf[x]]
	first := false
	for _, e := range g.Edges {
		if e.From == StartID && e.To == x {
			first = true
		}
	}
	for _, b := range g.Branches {
		if b.From == StartID && has(b.Targets, x) {
			first = true
		}
	}
	if first {
		return "before-ignored-after-start"
	}
	return "before-ignored"
}

func checkInfo(c *Case, ix *index, j int, s *SegObs, info *InfoObs, gi int) *Failure {
	g := &c.Graphs[gi]
	if (info.State != nil) != g.State {
		return &Failure{fmt.Sprintf("call %d: graph %d state reported: %v, graph has state: %v", j, gi, info.State != nil, g.State), "info-state"}
	}
	for _, b := range info.Before {
		if !has(g.Before, b) {
			return &Failure{fmt.Sprintf("call %d: n%d reported as interrupt-before node but not configured", j, b), "info-before-foreign"}
		}
	}
	done := map[int]bool{}
	var aborted []int
	for _, e := range s.Execs {
		if ix.gOf[e.ID] != gi {
			continue
		}
		if e.Abort {
			if !has(aborted, e.ID) {
				aborted = append(aborted, e.ID)
			}
		} else {
			done[e.ID] = true
		}
	}
	sort.Ints(aborted)
	for _, a := range info.After {
		if !has(g.After, a) {
			return &Failure{fmt.Sprintf("call %d: n%d reported as interrupt-after node but not configured", j, a), "info-after-foreign"}
		}
		if g.node(a).Sub == 0 && !done[a] {
			return &Failure{fmt.Sprintf("call %d: n%d reported as interrupt-after node but did not complete in this call", j, a), "info-after-not-run"}
		}
	}
	if fmt.Sprint(info.Rerun) != fmt.Sprint(aborted) {
		// several instances of a nested graph in one call may each have aborted attempts; only the last one is reported
		if gi == 0 || len(info.Rerun) > len(aborted) {
			return &Failure{fmt.Sprintf("call %d: rerun nodes reported %v, nodes that asked for a rerun %v", j, info.Rerun, aborted), "info-rerun"}
		}
		for _, r := range info.Rerun {
			if !has(aborted, r) {
				return &Failure{fmt.Sprintf("call %d: rerun node n%d reported but it did not ask", j, r), "info-rerun"}
			}
		}
	}
	for _, sub := range info.Subs {
		n := g.node(sub.ID)
		if n == nil || n.Sub == 0 {
			return &Failure{fmt.Sprintf("call %d: nested information for n%d which is not a graph node", j, sub.ID), "info-sub-foreign"}
		}
		if infoEmpty(sub.Info) {
			return &Failure{fmt.Sprintf("call %d: nested information for n%d is empty", j, sub.ID), "info-empty"}
		}
		if f := checkInfo(c, ix, j, s, sub.Info, n.Sub); f != nil {
			return f
		}
	}
	return nil
}
