package intr

// Typed family (C05, round 6; judged by the direct oracle alone, not sent to the model).
//
// The forests of the main generator move map[string]any (and, for leaf / atom nodes, string) values only, so a
// checkpoint never holds the nil value of an interface type, a value behind an `any`-typed node, or a stream
// without chunks. This family fills that dimension with small hand-shaped graphs whose nodes are declared over
// `any`: the value that sits in the checkpoint (as a pending input, or folded into a channel next to a sibling
// that asked for a rerun) is nil, "", a string, an empty map, a map, one nil chunk, no chunk at all, or several
// chunks; producer and consumer are invokable or streaming lambdas; the calls mix Invoke and Stream; a resume
// may happen on a freshly compiled runnable. The oracle is the property itself: the run driven through the byte
// store ends like the uninterrupted run (class and output) and executes the same (node, input) multiset.

import (
	"context"
	"fmt"
	"io"
	"sort"
	"strings"
	"sync"
	"time"

	"github.com/cloudwego/eino/compose"
	"github.com/cloudwego/eino/schema"

	"verif/harness/lib"
)

// Value codes of TypedSpec.Val / TypedSpec.In.
const (
	tvNil      = 0 // the nil value of the interface type
	tvEmptyStr = 1 // ""
	tvStr      = 2 // "s"
	tvEmptyMap = 3 // map[string]any{}
	tvMap      = 4 // map[string]any{"k": "v"}
	tvNoChunk  = 5 // (streaming producer only) a stream without chunks
	tvChunks   = 6 // (streaming producer only) the chunks "s", "", "t"
	tvNilInMap = 7 // map[string]any{"k": nil}
	tvMax      = 7
)

type TypedSpec struct {
	// Topo 0: START -> a -> b -> END (b under output key "b").
	// Topo 1: START -> a -> b -> END, START -> r -> c -> END; r asks for a rerun on its first attempt (its
	// state pre-handler rebuilds the input), so the checkpoint is assembled mid-step: a's answer has been
	// folded into b's channel.
	// Topo 2: START -> p -> g -> END where g is the topo-0 graph as a NESTED graph (the interrupt points are inside
	// it: the nil value sits in the nested checkpoint; bit 3 of Points: also before g).
	Topo int    `json:"topo"`
	Mode string `json:"mode"` // pregel | dag | wf (wf: not topo 1; topo 2: the nested graph is a Workflow, the outer one a Graph)
	In   int    `json:"in"`   // value code of the graph input (0..4, 6, 7; topo 1: not nil); 6: "st", handed to Collect / Transform as the chunks "s", "", "t"
	Val  int    `json:"val"`  // value code of a's answer
	Prod int    `json:"prod"` // a: 0 invokable, 1 streamable
	Cons int    `json:"cons"` // b: 0 invokable, 1 transformable
	// Points: interrupt configuration, bit 0 = before a, bit 1 = after a, bit 2 = before b, bit 3 = before c (topo 1)
	Points int   `json:"points"`
	State  bool  `json:"state,omitempty"` // the graph declares a local state (topo 1: always)
	Plan   []int `json:"plan"`            // paradigm of call k = Plan[k mod len]: 0 Invoke, 1 Stream, 2 Collect, 3 Transform
	Fresh  bool  `json:"fresh,omitempty"` // every resume call on a freshly compiled runnable (same byte store)
	// Conc > 1: that many callers drive the freshly compiled runnable at the same moment, each under its own checkpoint
	// id, drive j starting its plan at position j (what a server does with one compiled graph and many sessions; every
	// caller drives typedRounds sessions one after the other); every one of them must end like the uninterrupted run. The callers hand in DIFFERENT inputs (callerIn), so that whatever
	// one session leaks into another shows. Fresh is ignored then.
	Conc int `json:"conc,omitempty"`
}

func (t *TypedSpec) validate() error {
	if t.Topo < 0 || t.Topo > 2 || t.Val < 0 || t.Val > tvMax || t.In < 0 || t.In > tvMax || len(t.Plan) == 0 {
		return fmt.Errorf("typed: field out of range")
	}
	if t.Mode != "pregel" && t.Mode != "dag" && t.Mode != "wf" || t.Mode == "wf" && t.Topo == 1 {
		return fmt.Errorf("typed: bad mode %q for topo %d", t.Mode, t.Topo)
	}
	if (t.Val == tvNoChunk || t.Val == tvChunks) && t.Prod != 1 {
		return fmt.Errorf("typed: value %d needs a streaming producer", t.Val)
	}
	if t.In == tvNoChunk || t.Topo == 1 && t.In == tvNil {
		return fmt.Errorf("typed: bad input code %d", t.In)
	}
	if t.Topo != 1 && t.Points&7 == 0 {
		return fmt.Errorf("typed: no interrupt point")
	}
	if t.Conc < 0 || t.Conc == 1 || t.Conc > 6 {
		return fmt.Errorf("typed: conc %d", t.Conc)
	}
	for _, p := range t.Plan {
		if p < 0 || p > 3 {
			return fmt.Errorf("typed: paradigm %d", p)
		}
	}
	return nil
}

// TSt: local state of a typed graph. Saved = what r's pre-handler stamped (rebuilds r's input at the re-run).
type TSt struct {
	Saved any
	Runs  int
}

func init() {
	_ = compose.RegisterSerializableType[TSt]("verif_intr_tst")
}

func tval(code int) any {
	switch code {
	case tvEmptyStr:
		return ""
	case tvStr:
		return "s"
	case tvEmptyMap:
		return map[string]any{}
	case tvMap:
		return map[string]any{"k": "v"}
	case tvNilInMap:
		return map[string]any{"k": nil}
	case tvChunks:
		return "st"
	}
	return nil
}

// tchunks: the value as the input stream of Collect / Transform.
func tchunks(code int) []any {
	if code == tvChunks {
		return []any{"s", "", "t"}
	}
	return []any{tval(code)}
}

const (
	pInvoke    = 0
	pStream    = 1
	pCollect   = 2
	pTransform = 3
)

var pNames = "ISCT"

func tdesc(x any) string {
	switch v := x.(type) {
	case nil:
		return "nil"
	case string:
		return "str(" + v + ")"
	case map[string]any:
		ks := make([]string, 0, len(v))
		for k := range v {
			ks = append(ks, k)
		}
		sort.Strings(ks)
		s := "map("
		for i, k := range ks {
			if i > 0 {
				s += ","
			}
			s += k + ":" + tdesc(v[k])
		}
		return s + ")"
	}
	return fmt.Sprintf("?%T", x)
}

// tdescChunks: what a streaming consumer makes of its chunks - invariant under concatenation, so that it says the
// same whether the chunks arrive one by one (Stream) or concatenated into one (Invoke).
func tdescChunks(cs []any) string {
	if len(cs) == 0 {
		return "nothing"
	}
	if len(cs) == 1 {
		return tdesc(cs[0])
	}
	s := ""
	for _, c := range cs {
		str, ok := c.(string)
		if !ok {
			return fmt.Sprintf("?%d chunks", len(cs))
		}
		s += str
	}
	return tdesc(s)
}

type TExec struct {
	Seg   int    `json:"seg"`
	Node  string `json:"node"`
	In    string `json:"in"`
	Abort bool   `json:"abort,omitempty"`
}

// trec: the log of the node executions, kept per caller: a node body is reached with a context derived from its caller's,
// which carries the caller's number (0 for a call made alone).
type trec struct {
	mu       sync.Mutex
	segs     map[int]int
	execs    map[int][]*TExec
	attempts map[string]int
	rerunOn  bool
}

func newTrec(rerunOn bool) *trec {
	return &trec{segs: map[int]int{}, execs: map[int][]*TExec{}, attempts: map[string]int{}, rerunOn: rerunOn}
}

type tcallerKey struct{}

func (r *trec) begin(ctx context.Context, node, in string) (*TExec, int) {
	who, _ := ctx.Value(tcallerKey{}).(int)
	r.mu.Lock()
	defer r.mu.Unlock()
	a := fmt.Sprintf("%d/%s", who, node)
	r.attempts[a]++
	e := &TExec{Seg: r.segs[who], Node: node, In: in}
	r.execs[who] = append(r.execs[who], e)
	return e, r.attempts[a]
}

func recvAll(sr *schema.StreamReader[any]) ([]any, error) {
	defer sr.Close()
	var cs []any
	for {
		c, err := sr.Recv()
		if err == io.EOF {
			return cs, nil
		}
		if err != nil {
			return nil, err
		}
		cs = append(cs, c)
	}
}

func (t *TypedSpec) producer(rec *trec) *compose.Lambda {
	if t.Prod == 1 {
		return compose.StreamableLambda(func(ctx context.Context, in any) (*schema.StreamReader[any], error) {
			rec.begin(ctx, "a", tdesc(in))
			switch t.Val {
			case tvNoChunk:
				return schema.StreamReaderFromArray([]any{}), nil
			case tvChunks:
				return schema.StreamReaderFromArray([]any{"s", "", "t"}), nil
			}
			return schema.StreamReaderFromArray([]any{tval(t.Val)}), nil
		})
	}
	return compose.InvokableLambda(func(ctx context.Context, in any) (any, error) {
		rec.begin(ctx, "a", tdesc(in))
		return tval(t.Val), nil
	})
}

func (t *TypedSpec) consumer(rec *trec, name string, kind int) *compose.Lambda {
	if kind == 1 {
		return compose.TransformableLambda(func(ctx context.Context, in *schema.StreamReader[any]) (*schema.StreamReader[any], error) {
			cs, err := recvAll(in)
			if err != nil {
				return nil, err
			}
			d := tdescChunks(cs)
			rec.begin(ctx, name, d)
			return schema.StreamReaderFromArray([]any{name + "<" + d + ">"}), nil
		})
	}
	return compose.InvokableLambda(func(ctx context.Context, in any) (any, error) {
		d := tdesc(in)
		rec.begin(ctx, name, d)
		return name + "<" + d + ">", nil
	})
}

func (t *TypedSpec) rerunner(rec *trec) *compose.Lambda {
	return compose.InvokableLambda(func(ctx context.Context, in any) (any, error) {
		e, att := rec.begin(ctx, "r", tdesc(in))
		if rec.rerunOn && att == 1 {
			rec.mu.Lock()
			e.Abort = true
			rec.mu.Unlock()
			return nil, compose.InterruptAndRerun
		}
		return in, nil
	})
}

func (t *TypedSpec) points() (before, after []string) {
	if t.Points&1 != 0 {
		before = append(before, "a")
	}
	if t.Points&2 != 0 {
		after = append(after, "a")
	}
	if t.Points&4 != 0 {
		before = append(before, "b")
	}
	if t.Points&8 != 0 && t.Topo == 1 {
		before = append(before, "c")
	}
	return
}

// inner: the graph that holds a, b (and r, c): the whole thing for topo 0 / 1, the nested graph for topo 2.
func (t *TypedSpec) inner(rec *trec) (compose.AnyGraph, error) {
	var gopts []compose.NewGraphOption
	if t.State || t.Topo == 1 {
		gopts = append(gopts, compose.WithGenLocalState(func(ctx context.Context) *TSt { return &TSt{} }))
	}
	if t.Mode == "wf" {
		wf := compose.NewWorkflow[any, map[string]any](gopts...)
		wf.AddLambdaNode("a", t.producer(rec)).AddInput(compose.START)
		wf.AddLambdaNode("b", t.consumer(rec, "b", t.Cons)).AddInput("a")
		wf.End().AddInput("b", compose.ToField("b"))
		return wf, nil
	}
	g := compose.NewGraph[any, map[string]any](gopts...)
	if err := g.AddLambdaNode("a", t.producer(rec)); err != nil {
		return nil, err
	}
	if err := g.AddLambdaNode("b", t.consumer(rec, "b", t.Cons), compose.WithOutputKey("b")); err != nil {
		return nil, err
	}
	edges := [][2]string{{compose.START, "a"}, {"a", "b"}, {"b", compose.END}}
	if t.Topo == 1 {
		pre := func(ctx context.Context, in any, st *TSt) (any, error) {
			if in == nil { // the zero input: the node is re-run, rebuild its input from the state
				return st.Saved, nil
			}
			st.Saved = in
			st.Runs++
			return in, nil
		}
		if err := g.AddLambdaNode("r", t.rerunner(rec), compose.WithStatePreHandler(pre)); err != nil {
			return nil, err
		}
		if err := g.AddLambdaNode("c", t.consumer(rec, "c", 0), compose.WithOutputKey("c")); err != nil {
			return nil, err
		}
		edges = append(edges, [2]string{compose.START, "r"}, [2]string{"r", "c"}, [2]string{"c", compose.END})
	}
	for _, e := range edges {
		if err := g.AddEdge(e[0], e[1]); err != nil {
			return nil, err
		}
	}
	return g, nil
}

func (t *TypedSpec) compile(rec *trec, withIntr bool, store compose.CheckPointStore) (compose.Runnable[any, map[string]any], error) {
	ctx := context.Background()
	var copts []compose.GraphCompileOption // of the graph that holds a and b
	if t.Mode == "dag" {
		copts = append(copts, compose.WithNodeTriggerMode(compose.AllPredecessor))
	}
	if withIntr {
		before, after := t.points()
		if len(before) > 0 {
			copts = append(copts, compose.WithInterruptBeforeNodes(before))
		}
		if len(after) > 0 {
			copts = append(copts, compose.WithInterruptAfterNodes(after))
		}
	}
	in, err := t.inner(rec)
	if err != nil {
		return nil, err
	}
	if t.Topo == 2 {
		// START -> p -> g -> END: g is the nested graph (its interrupt points and trigger mode travel with the node)
		var oopts []compose.GraphCompileOption
		if t.Mode != "pregel" {
			oopts = append(oopts, compose.WithNodeTriggerMode(compose.AllPredecessor))
		}
		if withIntr && t.Points&8 != 0 {
			oopts = append(oopts, compose.WithInterruptBeforeNodes([]string{"g"}))
		}
		if store != nil {
			oopts = append(oopts, compose.WithCheckPointStore(store))
		}
		outer := compose.NewGraph[any, map[string]any]()
		pass := compose.InvokableLambda(func(ctx context.Context, in any) (any, error) {
			rec.begin(ctx, "p", tdesc(in))
			return in, nil
		})
		if err := outer.AddLambdaNode("p", pass); err != nil {
			return nil, err
		}
		if err := outer.AddGraphNode("g", in, compose.WithGraphCompileOptions(copts...)); err != nil {
			return nil, err
		}
		for _, e := range [][2]string{{compose.START, "p"}, {"p", "g"}, {"g", compose.END}} {
			if err := outer.AddEdge(e[0], e[1]); err != nil {
				return nil, err
			}
		}
		return outer.Compile(ctx, oopts...)
	}
	if store != nil {
		copts = append(copts, compose.WithCheckPointStore(store))
	}
	switch g := in.(type) {
	case *compose.Workflow[any, map[string]any]:
		return g.Compile(ctx, copts...)
	case *compose.Graph[any, map[string]any]:
		return g.Compile(ctx, copts...)
	}
	return nil, fmt.Errorf("typed: unexpected graph value %T", in)
}

type TSeg struct {
	Par   int      `json:"par"`   // 0 Invoke, 1 Stream, 2 Collect, 3 Transform
	Class string   `json:"class"` // done | interrupt | fail | panic | hang
	Out   *Val     `json:"out,omitempty"`
	Err   string   `json:"err,omitempty"`
	Execs []*TExec `json:"execs,omitempty"`
	Sets  int      `json:"sets"`
}

type TypedObs struct {
	CompileErr string  `json:"compile_err,omitempty"`
	Refs       []*TSeg `json:"refs,omitempty"` // the uninterrupted run in each of the four paradigms
	Segs       []*TSeg `json:"segs,omitempty"`
	Finished   bool    `json:"finished"`
	// Conc: the drives of the concurrent callers (Segs / Finished repeat the first one's)
	Conc []*TDrive `json:"conc,omitempty"`
}

// TDrive: one caller's run driven until it completes; its call k uses Plan[(k+Off) mod len]; In = value code of its input,
// Refs = the uninterrupted run on that input in the four paradigms.
type TDrive struct {
	Off      int     `json:"off"`
	In       int     `json:"in"`
	Refs     []*TSeg `json:"refs,omitempty"`
	Segs     []*TSeg `json:"segs"`
	Finished bool    `json:"finished"`
}

func tcall(r compose.Runnable[any, map[string]any], rec *trec, st *byteStore, who, par int, id string, in int) *TSeg {
	seg := &TSeg{Par: par}
	input := tval(in)
	rec.mu.Lock()
	e0 := len(rec.execs[who])
	rec.mu.Unlock()
	sets0 := 0
	if st != nil {
		sets0, _ = st.snapshot()
	}
	var opts []compose.Option
	if id != "" {
		opts = append(opts, compose.WithCheckPointID(id))
	}
	type res struct {
		out map[string]any
		err error
		p   any
	}
	ch := make(chan res, 1)
	go func() {
		var rr res
		rr.p = recoverStack(func() {
			ctx := context.WithValue(context.Background(), tcallerKey{}, who)
			if par == pCollect {
				rr.out, rr.err = r.Collect(ctx, schema.StreamReaderFromArray(tchunks(in)), opts...)
			} else if par != pInvoke {
				var sr *schema.StreamReader[map[string]any]
				var err error
				if par == pStream {
					sr, err = r.Stream(ctx, input, opts...)
				} else {
					sr, err = r.Transform(ctx, schema.StreamReaderFromArray(tchunks(in)), opts...)
				}
				if err != nil {
					rr.err = err
					return
				}
				var chunks []map[string]any
				for {
					c, e := sr.Recv()
					if e == io.EOF {
						break
					}
					if e != nil {
						rr.err = e
						sr.Close()
						return
					}
					chunks = append(chunks, c)
				}
				sr.Close()
				rr.out, rr.err = mergeChunks(chunks)
			} else {
				rr.out, rr.err = r.Invoke(ctx, input, opts...)
			}
		})
		ch <- rr
	}()
	var rr res
	select {
	case rr = <-ch:
		switch {
		case rr.p != nil:
			seg.Class, seg.Err = "panic", fmt.Sprint(rr.p)
		case rr.err == nil:
			seg.Class, seg.Out = "done", canon(rr.out)
		default:
			if _, ok := compose.ExtractInterruptInfo(rr.err); ok {
				seg.Class = "interrupt"
			} else {
				seg.Class, seg.Err = "fail", rr.err.Error()
			}
		}
	case <-time.After(20 * time.Second):
		seg.Class = "hang"
	}
	if len(seg.Err) > 300 {
		seg.Err = seg.Err[:300]
	}
	rec.mu.Lock()
	seg.Execs = append([]*TExec(nil), rec.execs[who][e0:]...)
	rec.segs[who]++
	rec.mu.Unlock()
	if st != nil {
		for _, x := range st.setsSince(sets0) {
			if x == id {
				seg.Sets++
			}
		}
	}
	return seg
}

const typedMaxCalls = 8

// typedRounds: sessions per concurrent caller.
const typedRounds = 3

// callerIn: the input of concurrent caller i (caller 0: the case's own).
func (t *TypedSpec) callerIn(i int) int {
	ins := []int{tvStr, tvMap, tvNilInMap, tvEmptyMap, tvChunks, tvEmptyStr}
	if t.Topo != 1 {
		ins = append(ins, tvNil)
	}
	pos := 0
	for k, x := range ins {
		if x == t.In {
			pos = k
		}
	}
	if i == 0 {
		return t.In
	}
	return ins[(pos+i)%len(ins)]
}

// uninterrupted: the run without interrupt configuration on the given input, once per paradigm.
func (t *TypedSpec) uninterrupted(in int) ([]*TSeg, error) {
	var refs []*TSeg
	for par := 0; par < 4; par++ {
		rec := newTrec(false)
		r, err := t.compile(rec, false, nil)
		if err != nil {
			return nil, err
		}
		refs = append(refs, tcall(r, rec, nil, 0, par, "", in))
	}
	return refs, nil
}

func executeTyped(t *TypedSpec) *TypedObs {
	obs := &TypedObs{}
	var err error
	if obs.Refs, err = t.uninterrupted(t.In); err != nil {
		obs.CompileErr = err.Error()
		return obs
	}
	rec := newTrec(true)
	store := newStore()
	r, cerr := t.compile(rec, true, store)
	if err = cerr; err != nil {
		obs.CompileErr = err.Error()
		return obs
	}
	if t.Conc > 1 {
		// the first calls on the fresh runnable, made at the same moment
		obs.Conc = make([]*TDrive, t.Conc*typedRounds)
		for i := range obs.Conc {
			d := &TDrive{Off: i, In: t.callerIn(i), Refs: obs.Refs}
			if i > 0 {
				if d.Refs, err = t.uninterrupted(d.In); err != nil {
					obs.CompileErr = err.Error()
					return obs
				}
			}
			obs.Conc[i] = d
		}
		var wg sync.WaitGroup
		start := make(chan struct{})
		for i := 0; i < t.Conc; i++ {
			i := i
			wg.Add(1)
			go func() {
				defer wg.Done()
				<-start
				// every caller drives typedRounds sessions one after the other (drive j = round*Conc + caller), each under
				// its own id and with its own input: the sessions of the other callers are at all stages meanwhile
				for j := i; j < len(obs.Conc); j += t.Conc {
					d := obs.Conc[j]
					for k := 0; k < typedMaxCalls; k++ {
						s := tcall(r, rec, store, j+1, t.Plan[(k+j)%len(t.Plan)], fmt.Sprintf("typed-%d", j), d.In)
						d.Segs = append(d.Segs, s)
						if s.Class != "interrupt" {
							d.Finished = true
							break
						}
					}
				}
			}()
		}
		close(start)
		wg.Wait()
		obs.Segs, obs.Finished = obs.Conc[0].Segs, obs.Conc[0].Finished
		return obs
	}
	for k := 0; k < typedMaxCalls; k++ {
		if k > 0 && t.Fresh {
			if r, err = t.compile(rec, true, store); err != nil {
				obs.CompileErr = err.Error()
				return obs
			}
		}
		s := tcall(r, rec, store, 0, t.Plan[k%len(t.Plan)], "typed", t.In)
		obs.Segs = append(obs.Segs, s)
		if s.Class != "interrupt" {
			obs.Finished = true
			break
		}
	}
	return obs
}

func tmultiset(es []*TExec) map[string]int {
	m := map[string]int{}
	for _, e := range es {
		if !e.Abort {
			m[e.Node+"|"+e.In]++
		}
	}
	return m
}

func sameEnd(a, b *TSeg) bool {
	if a.Class != b.Class {
		return false
	}
	return a.Class != "done" || a.Out.String() == b.Out.String()
}

// SigZeroChunkResumedWithoutStreams: signature of the known finding F-C05i (known_findings.json, corpus/C05/18).
const SigZeroChunkResumedWithoutStreams = "typed-zero-chunk-stream-resumed-without-streams"

// zeroChunkResumedWithoutStreams recognises exactly the class of F-C05i. The streaming producer a (output type any)
// emits a stream WITHOUT chunks and its successor b is a consumer without streams, so every uninterrupted run fails
// with 'stream reader is empty' (Invoke when a's stream is concatenated, Stream / Collect / Transform - all three run
// the graph in stream mode - when b's input is). In the driven run a executes in a stream-mode call that ends in an
// interrupt: the checkpoint conversion (defaultStreamConvertPair.concatStream) writes the stream without chunks as a
// plain nil. A resume in stream mode rebuilds the stream without chunks from it (b fails as in the uninterrupted run);
// a resume through Invoke does not convert at all (restore with isStream false only turns the nilChunk marker back),
// takes the plain nil for the nil VALUE of b's interface input type, and the run completes with b<nil> (in that call,
// or - the value written back as the nilChunk marker by another interrupt - in a later call of any paradigm).
// (For a concrete input type the same resume fails too - 'unexpected input type ... got: <nil>' - so the class is the
// interface-typed one only; all nodes of the family are declared over any.)
func zeroChunkResumedWithoutStreams(t *TypedSpec, refs []*TSeg, obs *TDrive) bool {
	if t.Val != tvNoChunk || t.Prod != 1 || len(obs.Segs) < 2 {
		return false
	}
	for _, r := range refs {
		if r.Class != "fail" || !strings.Contains(r.Err, "stream reader is empty") {
			return false
		}
		for _, e := range r.Execs {
			if e.Node == "b" {
				return false
			}
		}
	}
	last := obs.Segs[len(obs.Segs)-1]
	if last.Class != "done" {
		return false
	}
	bOnNil := false
	for _, e := range last.Execs {
		if e.Node == "a" {
			return false
		}
		if e.Node == "b" {
			if e.In != "nil" {
				return false
			}
			bOnNil = true
		}
	}
	if !bOnNil {
		return false
	}
	// the call in which a ran: in stream mode, ended in an interrupt (its checkpoint holds a's stream), and b has not
	// run in any call but the last
	ranA := -1
	for k, s := range obs.Segs[:len(obs.Segs)-1] {
		if s.Class != "interrupt" {
			return false
		}
		for _, e := range s.Execs {
			switch e.Node {
			case "a":
				ranA = k
			case "b":
				return false
			}
		}
	}
	if ranA < 0 || obs.Segs[ranA].Par == pInvoke {
		return false
	}
	// some later call is an Invoke: it reads the plain nil as the nil value (and, when it is interrupted again, writes it
	// back as the nilChunk marker, from which a later stream-mode call rebuilds a stream of ONE nil chunk); with stream-mode
	// calls only b receives the stream without chunks again and fails like the uninterrupted run
	for _, s := range obs.Segs[ranA+1:] {
		if s.Par == pInvoke {
			return true
		}
	}
	return false
}

func tsummary(s *TSeg) string {
	switch s.Class {
	case "done":
		return "done " + s.Out.String()
	case "interrupt":
		return "interrupt"
	}
	return s.Class + " (" + s.Err + ")"
}

// oracleTyped: the property on the implementation's own outputs. The uninterrupted run is made in all four paradigms; when
// they agree (always, unless a stream without chunks is involved: a consumer without streams fails on one by design, and Invoke
// and Collect differ from Stream and Transform there) every plan is measured against it, otherwise only the plans whose calls
// all have uninterrupted runs that agree with each other, against those.
func oracleTyped(t *TypedSpec, obs *TypedObs) (*Failure, *TSeg) {
	if obs.CompileErr != "" {
		return nil, nil
	}
	if len(obs.Conc) > 0 {
		var ref0 *TSeg
		for i, d := range obs.Conc {
			f, ref := oracleDrive(t, d.Refs, d)
			if i == 0 {
				ref0 = ref
			}
			if f != nil {
				f.What = fmt.Sprintf("session %d of caller %d (%d concurrent callers on a fresh runnable): %s", i/t.Conc+1, i%t.Conc+1, t.Conc, f.What)
				return f, ref
			}
		}
		return nil, ref0
	}
	return oracleDrive(t, obs.Refs, &TDrive{Segs: obs.Segs, Finished: obs.Finished})
}

func oracleDrive(t *TypedSpec, refs []*TSeg, obs *TDrive) (*Failure, *TSeg) {
	agree := func(a, b *TSeg) bool {
		return sameEnd(a, b) && fmt.Sprint(tmultiset(a.Execs)) == fmt.Sprint(tmultiset(b.Execs))
	}
	ref := refs[t.Plan[obs.Off%len(t.Plan)]]
	for k := range obs.Segs {
		if !agree(ref, refs[t.Plan[(k+obs.Off)%len(t.Plan)]]) {
			return nil, nil
		}
	}
	if ref.Class == "panic" || ref.Class == "hang" {
		return nil, ref // not this property's business (C13 / C03)
	}
	if !obs.Finished {
		return &Failure{What: fmt.Sprintf("typed family: still interrupted after %d calls, the uninterrupted run ends with %s", len(obs.Segs), tsummary(ref)), Sig: "typed-unfinished"}, ref
	}
	last := obs.Segs[len(obs.Segs)-1]
	if !sameEnd(ref, last) {
		if zeroChunkResumedWithoutStreams(t, refs, obs) {
			return &Failure{What: fmt.Sprintf("typed family (known finding F-C05i): a's stream without chunks was written to the checkpoint by a stream-mode call as a plain nil, a resume through Invoke took it for the nil value, b ran on nil and the run (call %d) ended with %s; every uninterrupted run ends with %s",
				len(obs.Segs), tsummary(last), tsummary(ref)), Sig: SigZeroChunkResumedWithoutStreams}, ref
		}
		return &Failure{What: fmt.Sprintf("typed family: the uninterrupted run ends with %s, the interrupted+resumed run (call %d) with %s", tsummary(ref), len(obs.Segs), tsummary(last)), Sig: "typed-end-differs"}, ref
	}
	if ref.Class == "done" {
		var all []*TExec
		for _, s := range obs.Segs {
			all = append(all, s.Execs...)
		}
		mu, mi := tmultiset(ref.Execs), tmultiset(all)
		keys := map[string]bool{}
		for k := range mu {
			keys[k] = true
		}
		for k := range mi {
			keys[k] = true
		}
		var ks []string
		for k := range keys {
			ks = append(ks, k)
		}
		sort.Strings(ks)
		for _, k := range ks {
			if mu[k] != mi[k] {
				return &Failure{What: fmt.Sprintf("typed family: execution %s happens %d time(s) in the interrupted run, %d in the uninterrupted one", k, mi[k], mu[k]), Sig: "typed-executions-differ"}, ref
			}
		}
	}
	for k, s := range obs.Segs {
		if s.Class == "interrupt" && s.Sets == 0 {
			return &Failure{What: fmt.Sprintf("typed family: call %d returned an interrupt and wrote no checkpoint under its id", k+1), Sig: "typed-writes"}, ref
		}
	}
	return nil, ref
}

// paradigmsUsed: the set of paradigms among the first n calls of the plan, e.g. "IT".
func (t *TypedSpec) paradigmsUsed(n int) string {
	used := [4]bool{}
	for k := 0; k < n; k++ {
		used[t.Plan[k%len(t.Plan)]] = true
	}
	var b strings.Builder
	for p, u := range used {
		if u {
			b.WriteByte(pNames[p])
		}
	}
	return b.String()
}

var tvNames = []string{"nil", "empty-string", "string", "empty-map", "map", "no-chunk", "chunks", "nil-in-map"}

func runTyped(c *Case) lib.Result {
	t := c.Typed
	obs := executeTyped(t)
	res := lib.Result{Obs: obs}
	f, ref := oracleTyped(t, obs)
	if f != nil {
		res.Oracle, res.Sig = f.What, f.Sig
	}
	tags := []string{"typed", fmt.Sprintf("typed:topo-%d", t.Topo), "typed:mode-" + t.Mode, "typed:value-" + tvNames[t.Val], "typed:input-" + tvNames[t.In],
		fmt.Sprintf("typed:producer-%d:consumer-%d", t.Prod, t.Cons)}
	if obs.CompileErr != "" {
		res.Tags = append(tags, "typed:compile-error")
		return res
	}
	tags = append(tags, "typed:paradigms-"+t.paradigmsUsed(len(obs.Segs)), fmt.Sprintf("typed:calls-%d", len(obs.Segs)))
	for par, rs := range obs.Refs {
		tags = append(tags, "typed:uninterrupted-"+string(pNames[par])+"-"+rs.Class)
	}
	if ref == nil {
		tags = append(tags, "typed:not-judged(paradigms-differ-uninterrupted)")
	}
	if len(obs.Conc) > 0 {
		tags = append(tags, fmt.Sprintf("typed:concurrent-callers-%d", t.Conc))
	}
	if t.Fresh && t.Conc == 0 && len(obs.Segs) > 1 {
		tags = append(tags, "typed:resumes-on-a-fresh-runnable")
	}
	if len(obs.Segs) > 0 {
		tags = append(tags, "typed:final-"+obs.Segs[len(obs.Segs)-1].Class)
	}
	res.Tags = tags
	res.Nontrivial = len(obs.Segs) > 1
	return res
}

// GenerateTyped draws a member of the family.
func GenerateTyped(r *lib.Rng) *TypedSpec {
	t := &TypedSpec{}
	switch x := r.Intn(10); {
	case x < 4:
		t.Topo = 1
	case x < 6:
		t.Topo = 2
	}
	switch x := r.Intn(10); {
	case x < 4:
		t.Mode = "pregel"
	case x < 8 || t.Topo == 1:
		t.Mode = "dag"
	default:
		t.Mode = "wf"
	}
	t.Prod = r.Intn(2)
	t.Cons = r.Intn(2)
	vals := []int{tvNil, tvNil, tvNil, tvEmptyStr, tvStr, tvEmptyMap, tvMap, tvNilInMap}
	if t.Prod == 1 {
		vals = append(vals, tvNoChunk, tvNoChunk, tvChunks)
	}
	t.Val = vals[r.Intn(len(vals))]
	if t.Val == tvNoChunk && r.Chance(3, 4) {
		t.Cons = 1
	}
	ins := []int{tvNil, tvNil, tvEmptyStr, tvStr, tvEmptyMap, tvMap, tvNilInMap, tvChunks}
	if t.Topo == 1 {
		ins = []int{tvStr, tvMap, tvNilInMap, tvEmptyMap, tvChunks}
	}
	t.In = ins[r.Intn(len(ins))]
	if t.Topo != 1 {
		t.Points = []int{1, 2, 4, 4, 5, 3, 6, 7}[r.Intn(8)]
		t.State = r.Chance(1, 2)
		if t.Topo == 2 && r.Chance(1, 3) {
			t.Points |= 8
		}
	} else {
		t.Points = []int{0, 0, 4, 8, 12, 2}[r.Intn(6)]
		t.State = true
	}
	np := r.Range(1, 3)
	for i := 0; i < np; i++ {
		t.Plan = append(t.Plan, []int{pInvoke, pInvoke, pInvoke, pStream, pStream, pCollect, pTransform, pTransform}[r.Intn(8)])
	}
	if t.Val == tvNoChunk && r.Chance(1, 2) {
		t.Plan = []int{[]int{pStream, pTransform}[r.Intn(2)]}
	}
	t.Fresh = r.Chance(1, 3)
	if r.Chance(1, 3) {
		t.Conc = r.Range(2, 5)
	}
	return t
}
