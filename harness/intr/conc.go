package intr

import (
	"context"
	"errors"
	"fmt"
	"io"
	"strconv"
	"strings"
	"sync"
	"time"

	"github.com/cloudwego/eino/compose"

	"verif/harness/lib"
)

// Concurrent sessions on a freshly compiled runnable (property C06, Case.Conc): the forest is compiled afresh and
// Conc callers make the FIRST calls on the fresh runnable at the same moment, each under a checkpoint id of its
// own, with a context that carries its number (see concKey) and an input that carries its mark (concMark). The
// callers that were interrupted then make their resume calls together, and so on until every session is over
// (what a server does with one compiled graph and several sessions that start with the process). The property
// speaks of every run: a run that is in flight while other runs of the same compiled graph are - in particular
// while another run takes the first look at the interrupt configuration - honours the interrupt points like a
// run made alone. Judged by the direct oracle only (the clauses of oracleSegs on every session; without Workflow
// graphs also: every call shows what the same call of the driven run showed).
//
// Nothing here measures time: the callers are released together and waited for (watchdog 30 s as elsewhere).

func concID(k int) string { return fmt.Sprintf("conc-%d", k) }

func concMark(k int) string { return fmt.Sprintf("@caller%d", k) }

type concRes struct {
	out map[string]any
	err error
	p   any
}

// concClassify: the outcome of one call as a SegObs (as call does for the calls of the driven run).
func concClassify(seg *SegObs, rr concRes) {
	switch {
	case rr.p != nil:
		seg.Class = "panic"
		seg.Err = fmt.Sprint(rr.p)
		if len(seg.Err) > 300 {
			seg.Err = seg.Err[:300]
		}
	case rr.err == nil:
		seg.Class = "done"
		seg.Out = canon(rr.out)
	default:
		seg.NodeErr = strings.Contains(rr.err.Error(), "node path: [")
		if info, ok := compose.ExtractInterruptInfo(rr.err); ok {
			seg.Class = "interrupt"
			seg.Info = canonInfo(info)
			if info2, ok2 := compose.ExtractInterruptInfo(fmt.Errorf("session 42: %w", rr.err)); !ok2 || info2 != info {
				seg.WrapLost = true
			}
			scribble(info)
		} else if errors.Is(rr.err, compose.ErrExceedMaxSteps) || strings.Contains(rr.err.Error(), compose.ErrExceedMaxSteps.Error()) {
			seg.Class = "steplimit"
		} else {
			seg.Class = "fail"
			seg.Err = rr.err.Error()
			if len(seg.Err) > 300 {
				seg.Err = seg.Err[:300]
			}
		}
	}
}

// concurrentFirstCalls: out[round][caller-1] = the calls of that caller's session, in order.
func concurrentFirstCalls(ctx context.Context, c *Case, rounds int) (out [][][]*SegObs, compileErr string) {
	compose.VerifC03End() // the protocol trace takes a global lock per event: off, nobody reads it here
	for round := 0; round < rounds; round++ {
		rec := newRecorder(true)
		var st *byteStore
		b := &builder{c: c, rec: rec, withIntr: true, pad: c.Pad}
		if !c.NoStore {
			st = newStore()
			b.store = st
		}
		var r compose.Runnable[map[string]any, map[string]any]
		var err error
		if p := lib.Recover(func() { r, err = b.compile(ctx) }); p != nil {
			return out, fmt.Sprint("panic: ", p)
		}
		if err != nil {
			return out, err.Error()
		}
		sessions := make([][]*SegObs, c.Conc)
		active := make([]bool, c.Conc)
		for i := range active {
			active[i] = true
		}
		hung := false
		for k := 0; k <= MaxResumes && !hung; k++ {
			cs := c.Calls[k%len(c.Calls)]
			var who []int
			for i, a := range active {
				if a {
					who = append(who, i)
				}
			}
			if len(who) == 0 {
				break
			}
			rec.mu.Lock()
			rec.seg = k
			e0, v0 := len(rec.execs), len(rec.events)
			rec.mu.Unlock()
			sets0 := 0
			if st != nil {
				sets0, _ = st.snapshot()
			}
			results := make([]concRes, c.Conc)
			var ready, done sync.WaitGroup
			start := make(chan struct{})
			for _, i := range who {
				ready.Add(1)
				done.Add(1)
				go func(i int) {
					defer done.Done()
					cctx := context.WithValue(context.Background(), concKey{}, i+1)
					var opts []compose.Option
					if !c.NoID {
						opts = append(opts, compose.WithCheckPointID(concID(i+1)))
					}
					if cs.Mod {
						opts = append(opts, compose.WithStateModifier(func(ctx context.Context, path compose.NodePath, state any) error {
							if s, _ := state.(*St); s != nil {
								s.Mods++
							}
							return nil
						}))
					}
					// every caller's input carries the caller's mark: values only flow through the nodes (sizes and branch
					// tables do not look at strings), so whatever a caller is handed - output, state, executions - bears its
					// own mark and nobody else's
					in := map[string]any{"x": strconv.Itoa(c.Input) + concMark(i+1)}
					if k > 0 {
						in = map[string]any{"resume": strconv.Itoa(k)} // must be ignored by a resumed run
					}
					ready.Done()
					<-start
					rr := &results[i]
					rr.p = recoverStack(func() {
						if cs.Stream {
							sr, e := r.Stream(cctx, in, opts...)
							if e != nil {
								rr.err = e
								return
							}
							var chunks []map[string]any
							for {
								ch, e := sr.Recv()
								if e == io.EOF {
									break
								}
								if e != nil {
									rr.err = e
									sr.Close()
									return
								}
								chunks = append(chunks, ch)
							}
							sr.Close()
							rr.out, rr.err = mergeChunks(chunks)
						} else {
							rr.out, rr.err = r.Invoke(cctx, in, opts...)
						}
					})
				}(i)
			}
			ready.Wait()
			close(start)
			fin := make(chan struct{})
			go func() { done.Wait(); close(fin) }()
			select {
			case <-fin:
			case <-time.After(30 * time.Second):
				hung = true
			}
			settle := false
			segOf := map[int]*SegObs{}
			for _, i := range who {
				seg := &SegObs{Call: cs, WithID: !c.NoID}
				if !c.NoID {
					seg.ID = concID(i + 1)
				}
				segOf[i] = seg
				sessions[i] = append(sessions[i], seg)
				if hung {
					seg.Class = "hang" // which caller hangs is not looked at: the watchdog fired for the group
					active[i] = false
					continue
				}
				concClassify(seg, results[i])
				if seg.Class != "done" && seg.Class != "interrupt" {
					settle = true
				}
				active[i] = seg.Class == "interrupt" && !c.NoID
			}
			if hung {
				break
			}
			// abandoned tasks of a failed eager run land in the log before it is cut
			if settle && hasEager(c) {
				time.Sleep(3 * time.Millisecond)
			} else {
				time.Sleep(200 * time.Microsecond)
			}
			rec.mu.Lock()
			for _, e := range rec.execs[e0:] {
				if seg := segOf[e.Conc-1]; seg != nil && e.Conc >= 1 {
					seg.Execs = append(seg.Execs, e)
				}
			}
			for _, ev := range rec.events[v0:] {
				if seg := segOf[ev.Conc-1]; seg != nil && ev.Conc >= 1 {
					seg.Events = append(seg.Events, ev)
				}
			}
			rec.mu.Unlock()
			if st != nil {
				_, stored := st.snapshot()
				for _, i := range who {
					seg := segOf[i]
					for _, id := range st.setsSince(sets0) {
						// a write under an id nobody gave is charged to every caller (it is nobody's)
						own := false
						for q := 1; q <= c.Conc; q++ {
							own = own || id == concID(q)
						}
						if id == concID(i+1) || !own {
							seg.Sets++
							seg.SetIDs = append(seg.SetIDs, id)
						}
					}
					for _, id := range stored {
						seg.Stored = seg.Stored || id == concID(i+1)
					}
				}
			}
		}
		out = append(out, sessions)
		if hung {
			break
		}
	}
	return out, ""
}

// oracleConc: every session of the concurrent callers is judged like a session driven alone.
func oracleConc(c *Case, obs *RunObs) *Failure {
	for r, sessions := range obs.Conc {
		for i, segs := range sessions {
			where := fmt.Sprintf("concurrent sessions on a freshly compiled graph (%d callers starting together, %d extra list names; round %d, caller %d): ", c.Conc, c.Pad, r, i+1)
			judged := segs
			for k, s := range segs {
				if s.Class == "hang" {
					judged = segs[:k] // the watchdog of the group fired: a matter of time, never an alarm (see the tags)
					break
				}
				if s.Class == "panic" && !(k < len(obs.Segs) && obs.Segs[k].Class == "panic") {
					alone := "(no such call)"
					if k < len(obs.Segs) {
						alone = obs.Segs[k].Class
					}
					return &Failure{where + fmt.Sprintf("call %d: panic (%s) while the same call of a session driven alone ends with %s", k, s.Err, alone), "concurrent-call-panic"}
				}
			}
			if f := oracleSegs(c, judged); f != nil {
				f.What = where + f.What
				return f
			}
			if hasEager(c) {
				continue
			}
			// with the caller's own mark taken off, every call shows what the same call of the session driven alone showed
			// (another caller's mark in it: the runs were mixed up)
			for k, s := range judged {
				if k >= len(obs.Segs) {
					if obs.Finished {
						return &Failure{where + fmt.Sprintf("call %d: the session driven alone was over after %d call(s)", k, len(obs.Segs)), "concurrent-call-differs"}
					}
					break
				}
				if obs.Segs[k].Class == "panic" || obs.Segs[k].Class == "hang" {
					break
				}
				if a, b := segSummary(obs.Segs[k]), segSummaryStrip(s, concMark(i+1)); a != b {
					return &Failure{where + fmt.Sprintf("call %d differs from the same call of the session driven alone: alone %s, concurrent %s", k, a, b), "concurrent-call-differs"}
				}
			}
		}
	}
	return nil
}
