package intr

import (
	"context"
	"errors"
	"fmt"
	"io"
	"os"
	"runtime/debug"
	"sort"
	"strconv"
	"strings"
	"sync"
	"time"

	"github.com/cloudwego/eino/compose"

	"verif/harness/lib"
)

const MaxResumes = 12

// byteStore keeps only bytes (copies on the way in and out) and counts the calls.
type byteStore struct {
	mu     sync.Mutex
	m      map[string][]byte
	sets   int
	gets   int
	setIDs []string // the id of every Set call, in order
	failAt int      // > 0: the failAt-th Set call fails (and stores nothing)
	failed int      // Set calls that failed
}

func newStore() *byteStore { return &byteStore{m: map[string][]byte{}} }

func (s *byteStore) Get(ctx context.Context, id string) ([]byte, bool, error) {
	s.mu.Lock()
	defer s.mu.Unlock()
	s.gets++
	v, ok := s.m[id]
	if !ok {
		return nil, false, nil
	}
	return append([]byte(nil), v...), true, nil
}

func (s *byteStore) Set(ctx context.Context, id string, b []byte) error {
	s.mu.Lock()
	defer s.mu.Unlock()
	s.sets++
	s.setIDs = append(s.setIDs, id)
	if s.failAt > 0 && s.sets == s.failAt {
		s.failed++
		return errors.New("store: disk full")
	}
	s.m[id] = append([]byte(nil), b...)
	return nil
}

func (s *byteStore) failures() int {
	s.mu.Lock()
	defer s.mu.Unlock()
	return s.failed
}

func (s *byteStore) setsSince(n int) []string {
	s.mu.Lock()
	defer s.mu.Unlock()
	return append([]string(nil), s.setIDs[n:]...)
}

func (s *byteStore) snapshot() (sets int, ids []string) {
	s.mu.Lock()
	defer s.mu.Unlock()
	for k := range s.m {
		ids = append(ids, k)
	}
	sort.Strings(ids)
	return s.sets, ids
}

// InfoObs is the canonical form of an InterruptInfo.
type InfoObs struct {
	State  *Val       `json:"state"` // nil = no state
	Before []int      `json:"before"`
	After  []int      `json:"after"`
	Rerun  []int      `json:"rerun"`
	Subs   []*SubInfo `json:"subs,omitempty"`
	Touch  map[int]int `json:"touch,omitempty"` // St.Touch of the reported state (oracle only, not part of the canonical state)
}

type SubInfo struct {
	ID   int      `json:"id"`
	Info *InfoObs `json:"info"`
}

func (i *InfoObs) sub(id int) *InfoObs {
	if i == nil {
		return nil
	}
	for _, s := range i.Subs {
		if s.ID == id {
			return s.Info
		}
	}
	return nil
}

func parseKey(k string) int {
	if strings.HasPrefix(k, "n") {
		if v, err := strconv.Atoi(k[1:]); err == nil {
			return v
		}
	}
	if k == compose.START {
		return StartID
	}
	if k == compose.END {
		return EndID
	}
	return -1
}

// parseKeys: a reported node list as a sorted SET (the property speaks of which nodes are reported;
// getHitKey reports a node once per occurrence in the configured list, a name configured twice is
// reported twice: the multiplicity is not compared).
func parseKeys(ks []string) []int {
	r := make([]int, 0, len(ks))
	for _, k := range ks {
		if id := parseKey(k); !has(r, id) {
			r = append(r, id)
		}
	}
	sort.Ints(r)
	return r
}

func canonInfo(info *compose.InterruptInfo) *InfoObs {
	if info == nil {
		return nil
	}
	o := &InfoObs{Before: parseKeys(info.BeforeNodes), After: parseKeys(info.AfterNodes), Rerun: parseKeys(info.RerunNodes)}
	if st, ok := info.State.(*St); ok && st != nil {
		o.State = stCanon(st)
		if len(st.Touch) > 0 {
			o.Touch = map[int]int{}
			for k, v := range st.Touch {
				o.Touch[parseKey(k)] = v
			}
		}
	} else if info.State != nil {
		o.State = &Val{Leaf: fmt.Sprintf("?%T", info.State)}
	}
	ids := make([]string, 0, len(info.SubGraphs))
	for k := range info.SubGraphs {
		ids = append(ids, k)
	}
	sort.Slice(ids, func(a, b int) bool { return parseKey(ids[a]) < parseKey(ids[b]) })
	for _, k := range ids {
		o.Subs = append(o.Subs, &SubInfo{ID: parseKey(k), Info: canonInfo(info.SubGraphs[k])})
	}
	return o
}

// scribble overwrites the node lists of an InterruptInfo the caller was handed (they are the caller's:
// if the run loop kept using their backing arrays, its later calls would show it).
func scribble(info *compose.InterruptInfo) {
	if info == nil {
		return
	}
	for _, l := range [][]string{info.BeforeNodes, info.AfterNodes, info.RerunNodes} {
		for i := range l[:cap(l)] {
			l[:cap(l)][i] = "scribbled"
		}
	}
	for _, s := range info.SubGraphs {
		scribble(s)
	}
}

// SegObs is what one call (a "segment" of the run) showed.
type SegObs struct {
	Call    CallSpec `json:"call"`
	WithID  bool     `json:"with_id"`
	Class   string   `json:"class"` // done | interrupt | steplimit | fail | panic | hang
	Err     string   `json:"err,omitempty"`
	NodeErr bool     `json:"node_err,omitempty"` // the error was raised by a node (path attached), not by the top-level loop
	Out     *Val     `json:"out,omitempty"`
	Info    *InfoObs `json:"info,omitempty"`
	ID      string   `json:"id,omitempty"`      // the checkpoint id given (if any)
	SetIDs  []string `json:"set_ids,omitempty"` // the ids the call wrote under
	// WrapLost: the information could be extracted from the returned error but not from the same error
	// wrapped once more by the caller (fmt.Errorf("...: %w", err)), or not the same information
	WrapLost bool `json:"wrap_lost,omitempty"`
	SetFailed bool   `json:"set_failed,omitempty"` // a store.Set call made by this call returned an error
	Sets    int      `json:"sets"`   // store.Set calls made by this call
	Stored  bool     `json:"stored"` // a checkpoint exists under the id after the call
	Execs   []*Exec  `json:"execs"`
	Events  []Event  `json:"events,omitempty"`
	Mods    []ModObs `json:"mods,omitempty"`
}

type RunObs struct {
	CompileErr string     `json:"compile_err,omitempty"`
	ListNote   string     `json:"list_note,omitempty"` // the caller's shared interrupt lists were written to by Compile (explanation only)
	Ref        *SegObs    `json:"ref,omitempty"`
	Segs       []*SegObs  `json:"segs,omitempty"`
	Finished   bool       `json:"finished"`
	Segs2      []*SegObs  `json:"segs2,omitempty"` // Case.Twice: the second run on the same compiled runnable
	Finished2  bool       `json:"finished2,omitempty"`
	// Repeat: the last call of the driven run ended without writing (it completed or failed), so the checkpoint of
	// the last interrupt is still in the store; the same call made once more resumes from those bytes again (C05).
	Repeat    *SegObs    `json:"repeat,omitempty"`
	// Retry phase (Case.Retry, C05): RetrySegs = the calls of one more driven run on the same compiled runnable
	// (another id), in which the call RetryAt failed with an injected transient node error (RetryFault, nothing
	// written) and was then made again; RetrySegs[k] is the k-th call that was not the faulted one.
	RetrySegs  []*SegObs `json:"retry_segs,omitempty"`
	RetryFault *SegObs   `json:"retry_fault,omitempty"`
	RetryAt    int       `json:"retry_at,omitempty"`
	// Conc[r][i]: the calls of the session of caller i+1 in round r of the concurrent sessions (Case.Conc); ConcErr: the
	// fresh compile failed (cannot happen: the same construction compiled a moment ago)
	Conc       [][][]*SegObs `json:"conc,omitempty"`
	ConcErr    string      `json:"conc_err,omitempty"`
	RefScheds  []SchedObs `json:"ref_scheds,omitempty"`
	Scheds     []SchedObs `json:"scheds,omitempty"`
}

// SchedObs: the collection orders (taskManager.waitOne receive order, from the C03 protocol
// trace) of the successive task managers of one eager (workflow) graph, in order of creation.
type SchedObs struct {
	Graph  int     `json:"g"`
	Orders [][]int `json:"orders"`
}

// collectScheds reads the protocol trace recorded since the last VerifC03Begin. A task manager
// is attributed to the graph of the first task it submits (node ids are unique over the case);
// one that never submits a task collects nothing and is dropped.
func collectScheds(c *Case) []SchedObs {
	evs := compose.VerifC03Events()
	ix := newIndex(c)
	tmGraph := map[int]int{}
	var tmOrder []int
	recv := map[int][]int{}
	for _, ev := range evs {
		switch ev.Kind {
		case "spawn", "sync":
			if _, ok := tmGraph[ev.TM]; !ok {
				id := parseKey(ev.Key)
				gi, known := ix.gOf[id]
				if !known {
					gi = -1
				}
				tmGraph[ev.TM] = gi
				tmOrder = append(tmOrder, ev.TM)
			}
		case "recv":
			recv[ev.TM] = append(recv[ev.TM], parseKey(ev.Key))
		}
	}
	byGraph := map[int][][]int{}
	var gs []int
	for _, tm := range tmOrder {
		gi := tmGraph[tm]
		if gi < 0 || c.Graphs[gi].Mode != "wf" {
			continue
		}
		if _, ok := byGraph[gi]; !ok {
			gs = append(gs, gi)
		}
		order := recv[tm]
		if order == nil {
			order = []int{}
		}
		byGraph[gi] = append(byGraph[gi], order)
	}
	sort.Ints(gs)
	var out []SchedObs
	for _, gi := range gs {
		out = append(out, SchedObs{Graph: gi, Orders: byGraph[gi]})
	}
	return out
}

// mergeChunks concatenates the chunks of an output stream the way eino concatenates
// map[string]any chunks: key-wise, nested maps recursively.
func mergeChunks(chunks []map[string]any) (map[string]any, error) {
	if len(chunks) == 0 {
		return nil, nil
	}
	out := map[string]any{}
	for _, c := range chunks {
		if err := mergeInto(out, c); err != nil {
			return nil, err
		}
	}
	return out, nil
}

func mergeInto(dst, src map[string]any) error {
	for k, v := range src {
		old, dup := dst[k]
		if !dup {
			if m, ok := v.(map[string]any); ok {
				cp := map[string]any{}
				if err := mergeInto(cp, m); err != nil {
					return err
				}
				dst[k] = cp
			} else {
				dst[k] = v
			}
			continue
		}
		om, ok1 := old.(map[string]any)
		vm, ok2 := v.(map[string]any)
		if !ok1 || !ok2 {
			return fmt.Errorf("key %s delivered twice across chunks", k)
		}
		if err := mergeInto(om, vm); err != nil {
			return err
		}
	}
	return nil
}

const cpID = "cp"

// recoverStack is lib.Recover that keeps the first frames of the stack (VERIF_STACK=1).
func recoverStack(f func()) (p any) {
	defer func() {
		if r := recover(); r != nil {
			p = r
			if os.Getenv("VERIF_STACK") != "" {
				p = fmt.Sprint(r, "\n", string(debug.Stack()))
			}
		}
	}()
	f()
	return nil
}

// call performs one Invoke / Stream on r and classifies the outcome.
func call(r compose.Runnable[map[string]any, map[string]any], rec *recorder, st *byteStore, cs CallSpec, withID bool, id string, input map[string]any) *SegObs {
	seg := &SegObs{Call: cs, WithID: withID}
	if withID {
		seg.ID = id
	}
	rec.mu.Lock()
	seg0 := rec.seg
	e0, v0, m0 := len(rec.execs), len(rec.events), len(rec.mods)
	rec.mu.Unlock()
	sets0, fails0 := 0, 0
	if st != nil {
		sets0, _ = st.snapshot()
		fails0 = st.failures()
	}
	var opts []compose.Option
	if withID {
		opts = append(opts, compose.WithCheckPointID(id))
	}
	if cs.Mod {
		opts = append(opts, compose.WithStateModifier(func(ctx context.Context, path compose.NodePath, state any) error {
			s, _ := state.(*St)
			rec.mu.Lock()
			rec.mods = append(rec.mods, ModObs{Seg: seg0, Path: strings.Join(path.GetPath(), "/"), State: stCanon(s)})
			rec.mu.Unlock()
			if s != nil {
				s.Mods++
			}
			return nil
		}))
	}
	type res struct {
		out map[string]any
		err error
		p   any
	}
	ch := make(chan res, 1)
	go func() {
		var rr res
		rr.p = recoverStack(func() {
			ctx := context.Background()
			if cs.Stream {
				sr, err := r.Stream(ctx, input, opts...)
				if err != nil {
					rr.err = err
					return
				}
				var chunks []map[string]any
				for {
					c, e := sr.Recv()
					if e == io.EOF {
						break
					}
					if e != nil {
						rr.err = e
						sr.Close()
						return
					}
					chunks = append(chunks, c)
				}
				sr.Close()
				rr.out, rr.err = mergeChunks(chunks)
			} else {
				rr.out, rr.err = r.Invoke(ctx, input, opts...)
			}
		})
		ch <- rr
	}()
	var rr res
	select {
	case rr = <-ch:
	case <-time.After(20 * time.Second):
		seg.Class = "hang"
	}
	if seg.Class == "" {
		switch {
		case rr.p != nil:
			seg.Class = "panic"
			seg.Err = fmt.Sprint(rr.p)
			if len(seg.Err) > 300 && os.Getenv("VERIF_STACK") == "" {
				seg.Err = seg.Err[:300]
			}
		case rr.err == nil:
			seg.Class = "done"
			seg.Out = canon(rr.out)
		default:
			seg.NodeErr = strings.Contains(rr.err.Error(), "node path: [")
			if info, ok := compose.ExtractInterruptInfo(rr.err); ok {
				seg.Class = "interrupt"
				seg.Info = canonInfo(info)
				// a caller that adds its own context to the error still gets at the information
				if info2, ok2 := compose.ExtractInterruptInfo(fmt.Errorf("session 42: %w", rr.err)); !ok2 || info2 != info {
					seg.WrapLost = true
				}
				scribble(info)
			} else if errors.Is(rr.err, compose.ErrExceedMaxSteps) || strings.Contains(rr.err.Error(), compose.ErrExceedMaxSteps.Error()) {
				seg.Class = "steplimit"
			} else {
				seg.Class = "fail"
				seg.Err = rr.err.Error()
				if len(seg.Err) > 300 {
					seg.Err = seg.Err[:300]
				}
			}
		}
	}
	// In eager mode a run may return while abandoned tasks are still running; give them a
	// moment so that their log entries land in this segment and not in the next one.
	time.Sleep(200 * time.Microsecond)
	rec.mu.Lock()
	seg.Execs = append([]*Exec(nil), rec.execs[e0:]...)
	seg.Events = append([]Event(nil), rec.events[v0:]...)
	seg.Mods = append([]ModObs(nil), rec.mods[m0:]...)
	rec.seg++
	rec.mu.Unlock()
	if st != nil {
		sets1, ids := st.snapshot()
		seg.Sets = sets1 - sets0
		seg.SetIDs = st.setsSince(sets0)
		seg.SetFailed = st.failures() > fails0
		seg.Stored = len(ids) > 0
	}
	return seg
}

func (c *Case) input() map[string]any {
	return map[string]any{"x": strconv.Itoa(c.Input)}
}

// Execute runs the reference (uninterrupted, no interrupt configuration, rerun tables off)
// and then the interrupted run with up to MaxResumes resumes.
func Execute(c *Case) *RunObs { return ExecuteFor(c, false) }

// ExecuteFor: retryPhase = also run the retry phase of Case.Retry (C05 only); otherwise (C06) the phase of
// concurrent first calls of Case.Conc.
func ExecuteFor(c *Case, retryPhase bool) *RunObs {
	concPhase := !retryPhase
	obs := &RunObs{}
	ctx := context.Background()

	refRec := newRecorder(false)
	rb := &builder{c: c, rec: refRec, withIntr: false, store: nil}
	var rr compose.Runnable[map[string]any, map[string]any]
	var err error
	if p := lib.Recover(func() { rr, err = rb.compile(ctx) }); p != nil {
		obs.CompileErr = fmt.Sprint("panic: ", p)
		return obs
	}
	if err != nil {
		obs.CompileErr = err.Error()
		return obs
	}
	eager := hasEager(c)
	if eager {
		compose.VerifC03Begin(0, true)
		defer compose.VerifC03End()
	}
	obs.Ref = call(rr, refRec, nil, CallSpec{}, false, "", c.input())
	if eager {
		if obs.Ref.Class != "done" {
			time.Sleep(3 * time.Millisecond) // abandoned tasks of a failed eager run finish before the next trace starts
		}
		obs.RefScheds = collectScheds(c)
		compose.VerifC03Begin(0, true)
	}

	rec := newRecorder(true)
	st := newStore()
	ib := &builder{c: c, rec: rec, withIntr: true, store: st}
	if c.NoStore {
		st = nil
		ib.store = nil
	} else {
		st.failAt = c.SetFailAt
	}
	var ir compose.Runnable[map[string]any, map[string]any]
	if p := lib.Recover(func() { ir, err = ib.compile(ctx) }); p != nil {
		obs.CompileErr = fmt.Sprint("panic: ", p)
		return obs
	}
	if err != nil {
		obs.CompileErr = err.Error()
		return obs
	}
	obs.ListNote = ib.listNote()
	// the runnable a resume call is made on: the one that was interrupted, or (Case.Restart) a freshly compiled
	// one that shares nothing with it but the store
	resumeOn := func() compose.Runnable[map[string]any, map[string]any] {
		if !c.Restart {
			return ir
		}
		nb := &builder{c: c, rec: rec, withIntr: true, store: ib.store}
		var nr compose.Runnable[map[string]any, map[string]any]
		var nerr error
		if p := lib.Recover(func() { nr, nerr = nb.compile(ctx) }); p != nil || nerr != nil {
			return ir // cannot happen: the same construction compiled a moment ago
		}
		return nr
	}
	driveRun := func(id string) (segs []*SegObs, finished bool) {
		for k := 0; k <= MaxResumes; k++ {
			cs := c.Calls[k%len(c.Calls)]
			var in map[string]any
			if k == 0 {
				in = c.input()
			} else {
				in = map[string]any{"resume": strconv.Itoa(k)} // must be ignored by a resumed run
			}
			on := ir
			if k > 0 {
				on = resumeOn()
			}
			seg := call(on, rec, st, cs, !c.NoID, id, in)
			segs = append(segs, seg)
			if seg.Class != "interrupt" {
				finished = true
				break
			}
			if c.NoID {
				break // nothing was stored: the run cannot be resumed
			}
		}
		if eager {
			if last := segs[len(segs)-1]; last.Class != "done" && last.Class != "interrupt" {
				time.Sleep(3 * time.Millisecond)
			}
		}
		return
	}
	firstID := cpID
	if c.EmptyID {
		firstID = "" // an id like any other
	}
	obs.Segs, obs.Finished = driveRun(firstID)
	if eager {
		obs.Scheds = collectScheds(c)
	}
	// Resuming is a function of the stored bytes. The last call did not write: a further call under the same id and
	// with the same options resumes from the checkpoint of the last interrupt once more and must behave like the
	// last call did (rerun tables off: a call that did not end interrupted had no aborted attempt).
	if n := len(obs.Segs); !c.NoID && st != nil && obs.Finished && n >= 2 && obs.Segs[n-1].Sets == 0 && obs.Segs[n-1].Stored &&
		obs.Segs[n-1].Class != "panic" && obs.Segs[n-1].Class != "hang" {
		rec.mu.Lock()
		rec.rerunOn = false
		rec.mu.Unlock()
		obs.Repeat = call(resumeOn(), rec, st, c.Calls[(n-1)%len(c.Calls)], true, firstID, map[string]any{"resume": strconv.Itoa(n - 1)})
		rec.mu.Lock()
		rec.rerunOn = true
		rec.mu.Unlock()
		if eager && obs.Repeat.Class != "done" && obs.Repeat.Class != "interrupt" {
			time.Sleep(3 * time.Millisecond)
		}
	}
	if c.Twice {
		// the same compiled runnable, another session: the rerun tables count from 1 again
		if eager {
			compose.VerifC03Begin(0, true)
		}
		rec.mu.Lock()
		rec.attempts = map[int]int{}
		rec.mu.Unlock()
		obs.Segs2, obs.Finished2 = driveRun(cpID + "-second")
	}
	// Retry phase: a resume call that fails (a transient node error: nothing is written, the checkpoint of the
	// preceding interrupt stays in the store) and is then made again resumes from the same stored bytes: apart
	// from the failed call the run shows, call by call, what the first driven run showed. Only where nothing
	// depends on goroutine scheduling (no Workflow in the forest).
	if n := len(obs.Segs); retryPhase && c.Retry > 0 && !c.NoID && st != nil && !eager && obs.Finished && n >= 2 && c.SetFailAt == 0 {
		at := 1 + (c.Retry-1)%(n-1)
		obs.RetryAt = at
		rec.mu.Lock()
		rec.attempts = map[int]int{}
		rec.mu.Unlock()
		id := cpID + "-retry"
		for k := 0; k < n; k++ {
			cs := c.Calls[k%len(c.Calls)]
			in := c.input()
			if k > 0 {
				in = map[string]any{"resume": strconv.Itoa(k)}
			}
			on := ir
			if k > 0 {
				on = resumeOn()
			}
			if k == at {
				rec.mu.Lock()
				saved := make(map[int]int, len(rec.attempts))
				for a, b := range rec.attempts {
					saved[a] = b
				}
				rec.failNext = true
				rec.mu.Unlock()
				f := call(on, rec, st, cs, true, id, in)
				rec.mu.Lock()
				injected := !rec.failNext
				rec.failNext = false
				rec.mu.Unlock()
				if injected {
					obs.RetryFault = f
					rec.mu.Lock()
					rec.attempts = saved
					rec.mu.Unlock()
					on = ir
					if k > 0 {
						on = resumeOn()
					}
				} else {
					// no lambda started in this call (it stopped at once): nothing failed, it is call k itself
					obs.RetrySegs = append(obs.RetrySegs, f)
					if f.Class != "interrupt" {
						break
					}
					continue
				}
			}
			seg := call(on, rec, st, cs, true, id, in)
			obs.RetrySegs = append(obs.RetrySegs, seg)
			if seg.Class != "interrupt" {
				break
			}
		}
	}
	// Concurrent first calls on a freshly compiled runnable (C06, Case.Conc; direct oracle only)
	if c.Conc > 1 && concPhase {
		obs.Conc, obs.ConcErr = concurrentFirstCalls(ctx, c, 2)
	}
	return obs
}
