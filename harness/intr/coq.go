package intr

import (
	"sort"
	"strconv"
	"strings"

	"verif/harness/lib"
)

// Gallina printer: the case and what was observed, as an `icase` of coq/Model/IntrObs.v.
//
// Map keys of values are numbered: "x" (the top-level input key) = 0, "#" (the pre-handler's
// stamp) = 1, "n<id>" = id; anything else (e.g. the "resume" key of the inputs handed to the
// resume calls, which a resumed run must ignore) = 999999, a number the model never produces.

const foreignCode = 999999

func keyCode(k string) uint64 {
	switch k {
	case "x":
		return 0
	case "#":
		return 1
	}
	if id := parseKey(k); id >= 2 {
		return uint64(id)
	}
	return foreignCode
}

func coqVal(v *Val) string {
	if v == nil {
		return "VNil"
	}
	if !v.Map {
		if v.Leaf == "" {
			// the zero string: what an atom node (input type string) is handed when it runs without data (its leaf
			// predecessor skipped, triggered by a control-only edge) — the model's zero input
			return "VNil"
		}
		n, err := strconv.ParseUint(v.Leaf, 10, 62)
		if err != nil {
			n = foreignCode
		}
		return lib.CoqApp("VAtom", lib.CoqN(n))
	}
	type kv struct {
		k uint64
		s string
	}
	kvs := make([]kv, len(v.Keys))
	for i, k := range v.Keys {
		kvs[i] = kv{keyCode(k), coqVal(v.Vals[i])}
	}
	sort.SliceStable(kvs, func(a, b int) bool { return kvs[a].k < kvs[b].k })
	items := make([]string, len(kvs))
	for i, e := range kvs {
		items[i] = lib.CoqPair(lib.CoqN(e.k), e.s)
	}
	return lib.CoqApp("VMap", lib.CoqList(items))
}

func coqIDs(ids []int) string {
	ns := make([]uint64, len(ids))
	for i, id := range ids {
		ns[i] = uint64(id)
	}
	return lib.CoqNList(ns)
}

func coqBranch(b *BranchSpec, nodata bool) string {
	rows := make([]string, len(b.Table))
	for i, r := range b.Table {
		rows[i] = coqIDs(r)
	}
	return lib.CoqApp("Build_branch", coqIDs(b.Targets), lib.CoqBool(nodata), lib.CoqList(rows))
}

func coqNode(g *GraphSpec, id int, sub int) string {
	var dsucc, csucc []int
	for _, e := range g.Edges {
		if e.From != id {
			continue
		}
		if e.Kind != 1 {
			dsucc = append(dsucc, e.To)
		}
		if e.Kind != 2 {
			csucc = append(csucc, e.To)
		}
	}
	var bs []string
	for i := range g.Branches {
		if g.Branches[i].From == id {
			bs = append(bs, coqBranch(&g.Branches[i], g.Mode == "wf"))
		}
	}
	kind := "KLambda"
	if sub > 0 {
		kind = "(KSub " + lib.CoqNat(sub) + ")"
	}
	var dmap []string
	if n := g.node(id); n != nil && n.Leaf {
		for _, t := range dsucc {
			if tn := g.node(t); tn != nil && tn.Atom {
				continue // the string reaches an atom node unmapped
			}
			dmap = append(dmap, lib.CoqPair(lib.CoqN(uint64(t)), lib.CoqN(uint64(id))))
		}
	}
	return lib.CoqApp("Build_node", lib.CoqN(uint64(id)), kind, "None", coqIDs(dsucc), coqIDs(csucc), lib.CoqList(dmap), lib.CoqList(bs))
}

func coqGraph(g *GraphSpec) string {
	ns := []string{coqNode(g, StartID, 0)}
	for _, n := range g.Nodes {
		ns = append(ns, coqNode(g, n.ID, n.Sub))
	}
	mode := "Dag"
	max := 0
	if g.Mode == "pregel" {
		mode = "Pregel"
		max = g.MaxSteps
	}
	return lib.CoqApp("Build_graph", "["+strings.Join(ns, ";\n     ")+"]", mode, lib.CoqBool(g.Mode == "wf"), lib.CoqNat(max))
}

func coqSpec(c *Case, gi int) string {
	g := &c.Graphs[gi]
	var st, leaf []int
	var reruns, inkeys []string
	for _, n := range g.Nodes {
		if n.St {
			st = append(st, n.ID)
		}
		if n.Leaf {
			leaf = append(leaf, n.ID)
		}
		if n.InKey > 0 {
			inkeys = append(inkeys, lib.CoqPair(lib.CoqN(uint64(n.ID)), lib.CoqN(uint64(n.InKey))))
		}
		if len(n.Rerun) > 0 {
			reruns = append(reruns, lib.CoqPair(lib.CoqN(uint64(n.ID)), coqIDs(n.Rerun)))
		}
	}
	return lib.CoqApp("Build_gspec", coqGraph(g), lib.CoqBool(g.State), coqIDs(st), lib.CoqList(reruns), coqIDs(c.PassedBefore(gi)), coqIDs(c.PassedAfter(gi)),
		coqIDs(leaf), lib.CoqList(inkeys))
}

// coqState prints the canonical state value {mods, saved, seen} as (Some gstate); nil = None.
func coqState(v *Val) string {
	if v == nil {
		return "None"
	}
	mods := uint64(foreignCode)
	if m := v.get("mods"); m != nil && !m.Map {
		if n, err := strconv.ParseUint(m.Leaf, 10, 62); err == nil {
			mods = n
		}
	}
	var seen, saved []string
	if s := v.get("seen"); s != nil {
		for i, k := range s.Keys {
			n := uint64(foreignCode)
			if !s.Vals[i].Map {
				if x, err := strconv.ParseUint(s.Vals[i].Leaf, 10, 62); err == nil {
					n = x
				}
			}
			seen = append(seen, lib.CoqPair(lib.CoqN(keyCode(k)), lib.CoqN(n)))
		}
	}
	if s := v.get("saved"); s != nil {
		for i, k := range s.Keys {
			saved = append(saved, lib.CoqPair(lib.CoqN(keyCode(k)), coqVal(s.Vals[i])))
		}
	}
	return lib.CoqSome(lib.CoqApp("Build_gstate", lib.CoqList(seen), lib.CoqList(saved), lib.CoqN(mods)))
}

func coqInfo(i *InfoObs) string {
	subs := make([]string, len(i.Subs))
	for k, s := range i.Subs {
		inner := "(OInfo None [] [] [] [])"
		if s.Info != nil {
			inner = coqInfo(s.Info)
		}
		subs[k] = lib.CoqPair(lib.CoqN(uint64(s.ID)), inner)
	}
	return lib.CoqApp("OInfo", coqState(i.State), coqIDs(i.Before), coqIDs(i.After), coqIDs(i.Rerun), lib.CoqList(subs))
}

func classCode(class string) uint64 {
	switch class {
	case "done":
		return 0
	case "interrupt":
		return 1
	case "steplimit":
		return 2
	case "fail":
		return 3
	}
	return 9
}

func coqSeg(c *Case, s *SegObs) string {
	out := "VNil"
	if s.Class == "done" {
		out = coqVal(s.Out)
	}
	info := "None"
	if s.Class == "interrupt" && s.Info != nil {
		info = lib.CoqSome(coqInfo(s.Info))
	}
	execs := make([]string, len(s.Execs))
	for i, e := range s.Execs {
		execs[i] = lib.CoqTuple(lib.CoqN(uint64(e.ID)), coqVal(e.In), lib.CoqBool(e.Abort))
	}
	var pres []int
	for _, ev := range s.Events {
		if ev.Kind == "pre" {
			pres = append(pres, ev.ID)
		}
	}
	cmp := !(hasEager(c) && s.Class != "done" && s.Class != "interrupt")
	return lib.CoqApp("Build_oseg", lib.CoqN(classCode(s.Class)), out, info, lib.CoqList(execs), coqIDs(pres),
		lib.CoqBool(cmp), lib.CoqBool(s.Sets == 1), lib.CoqBool(s.Sets <= 1))
}

func coqScheds(ss []SchedObs) string {
	items := make([]string, len(ss))
	for i, s := range ss {
		orders := make([]string, len(s.Orders))
		for j, o := range s.Orders {
			orders[j] = coqIDs(o)
		}
		items[i] = lib.CoqPair(lib.CoqN(uint64(s.Graph)), lib.CoqList(orders))
	}
	return lib.CoqList(items)
}

// CoqTerm prints the case and the observation as a Gallina term (empty: not sent to the model).
func CoqTerm(c *Case, obs *RunObs) string {
	if obs.CompileErr != "" || obs.Ref == nil || len(obs.Segs) == 0 || c.SetFailAt > 0 || c.hasEmpty() {
		return "" // a failing store is not modelled: direct oracle only
	}
	gs := make([]string, len(c.Graphs))
	for i := range c.Graphs {
		gs[i] = coqSpec(c, i) // gs_before / gs_after: the lists as handed to Compile (shared lists: unsorted, duplicates, foreign names)
	}
	mods := make([]string, len(c.Calls))
	for i, cs := range c.Calls {
		mods[i] = lib.CoqBool(cs.Mod)
	}
	segs := make([]string, len(obs.Segs))
	for i, s := range obs.Segs {
		segs[i] = coqSeg(c, s)
	}
	input := coqVal(canon(c.input()))
	return lib.CoqApp("Build_icase", "["+strings.Join(gs, ";\n    ")+"]", input, lib.CoqBool(c.NoID), lib.CoqList(mods),
		coqScheds(obs.RefScheds), coqScheds(obs.Scheds), coqSeg(c, obs.Ref), "["+strings.Join(segs, ";\n    ")+"]")
}
