package intr

// CoqTerm prints the case and the observation as a Gallina term (empty: not sent to the model).
func CoqTerm(c *Case, obs *RunObs) string { return "" }
