package intr

import (
	"encoding/json"
	"fmt"

	"verif/harness/lib"
)

// Engine serves C05 and C06: same cases, same run, different oracle and comparison.
type Engine struct{ Prop string }

func (e Engine) ID() string { return e.Prop }

func (e Engine) CoqHeader() string {
	return "From Eino Require Import Base.Util Model.Graph Model.RunLoop Model.Interrupt Model.IntrObs Corr." + e.Prop + ".\nOpen Scope N_scope.\n"
}

func (e Engine) CoqCaseType() string { return "ccase" }

func (e Engine) Generate(r *lib.Rng, tier string, i int) any {
	c := Generate(r, tier)
	// C06 only (a failing store has nothing to say about C05's equivalence): 2.5% of the cases with an id
	// run against a store whose k-th write fails; judged by the direct oracle alone
	if e.Prop == "C06" && !c.NoID && r.Chance(1, 40) {
		c.SetFailAt = r.Range(1, 3)
		c.Twice = false
	}
	if e.Prop == "C05" && c.Seed%10 == 5 {
		// C05 only (no shift of the other cases: every case has its own forked generator): 1 case in 10 is a member
		// of the typed family (typed.go) instead of a forest
		return &Case{Seed: c.Seed, Typed: GenerateTyped(r)}
	}
	if e.Prop == "C06" {
		// C06 only, drawn last (the cases are otherwise what they were): 8% of the cases with an id give the EMPTY
		// string as checkpoint id of the first driven run; 4% make the first calls on a fresh compile concurrently
		// (2-5 callers), two thirds of them with long interrupt lists (20 000 / 100 000 names of no node)
		if !c.NoID && r.Chance(2, 25) {
			c.EmptyID = true
		}
		// 5%: one or two plain lambdas of Graphs (interrupt-after nodes first) answer with the EMPTY map; direct oracle only
		if r.Chance(1, 20) {
			markEmpty(c, r)
		}
		if r.Chance(1, 25) && c.SetFailAt == 0 {
			c.Conc = r.Range(2, 5)
			switch r.Intn(3) {
			case 1:
				c.Pad = 20000
			case 2:
				c.Pad = 100000
			}
		}
	}
	return c
}

// markEmpty: up to two eligible nodes (see NodeSpec.Empty) get the empty output, interrupt-after nodes first.
func markEmpty(c *Case, r *lib.Rng) {
	type pos struct{ gi, ni int }
	var after, other []pos
	for gi := range c.Graphs {
		g := &c.Graphs[gi]
		if g.Mode == "wf" {
			continue
		}
		for ni, n := range g.Nodes {
			if n.Sub != 0 || n.Leaf || n.Atom {
				continue
			}
			asked := false
			for _, m := range g.Nodes {
				asked = asked || m.InKey == n.ID
			}
			if asked {
				continue
			}
			if has(g.After, n.ID) {
				// twice as likely when something other than END is behind it
				for _, ed := range g.Edges {
					if ed.From == n.ID && ed.To != EndID {
						after = append(after, pos{gi, ni})
						break
					}
				}
				after = append(after, pos{gi, ni})
			} else {
				other = append(other, pos{gi, ni})
			}
		}
	}
	for k := r.Range(1, 2); k > 0; k-- {
		pool := &after
		if len(after) == 0 || len(other) > 0 && r.Chance(1, 4) {
			pool = &other
		}
		if len(*pool) == 0 {
			return
		}
		i := r.Intn(len(*pool))
		p := (*pool)[i]
		c.Graphs[p.gi].Nodes[p.ni].Empty = true
		var rest []pos
		for _, q := range *pool {
			if q != p {
				rest = append(rest, q)
			}
		}
		*pool = rest
	}
}

func (e Engine) Decode(raw json.RawMessage) (any, error) {
	c := &Case{}
	if err := json.Unmarshal(raw, c); err != nil {
		return nil, err
	}
	if c.Lists != nil {
		for _, gi := range c.Lists.Graphs {
			if gi < 0 || gi >= len(c.Graphs) {
				return nil, fmt.Errorf("lists: graph index %d out of range", gi)
			}
		}
	}
	c.Normalise()
	if err := c.Validate(); err != nil {
		return nil, err
	}
	return c, nil
}

func (e Engine) Run(x any) lib.Result {
	c := x.(*Case)
	if c.Typed != nil {
		return runTyped(c)
	}
	if e.Prop != "C06" && c.SetFailAt > 0 {
		cc := *c
		cc.SetFailAt = 0
		c = &cc
	}
	obs := ExecuteFor(c, e.Prop == "C05")
	res := lib.Result{Obs: obs}
	var f *Failure
	if e.Prop == "C05" {
		f = OracleC05(c, obs)
	} else {
		f = OracleC06(c, obs)
	}
	if f != nil {
		res.Oracle, res.Sig = f.What, f.Sig
	}
	res.Tags, res.Nontrivial = tags(c, obs)
	res.CoqTerm = CoqTerm(c, obs)
	return res
}

func tags(c *Case, obs *RunObs) ([]string, bool) {
	t := []string{fmt.Sprintf("graphs:%d", len(c.Graphs)), "top:" + c.Graphs[0].Mode, fmt.Sprintf("topnodes:%d", len(c.Graphs[0].Nodes))}
	if obs.CompileErr != "" {
		return append(t, "compile-error"), false
	}
	t = append(t, "ref:"+obs.Ref.Class, fmt.Sprintf("calls:%d", len(obs.Segs)))
	if !obs.Finished {
		t = append(t, "unfinished")
	}
	kinds := map[string]bool{}
	var walk func(i *InfoObs, depth int)
	walk = func(i *InfoObs, depth int) {
		if i == nil {
			return
		}
		if len(i.Before) > 0 {
			kinds["before"] = true
		}
		if len(i.After) > 0 {
			kinds["after"] = true
		}
		if len(i.Rerun) > 0 {
			kinds["rerun"] = true
		}
		if len(i.Subs) > 0 {
			kinds[fmt.Sprintf("nested-depth:%d", depth+1)] = true
		}
		for _, s := range i.Subs {
			walk(s.Info, depth+1)
		}
	}
	interrupts := 0
	for _, s := range obs.Segs {
		if s.Class == "interrupt" {
			interrupts++
			walk(s.Info, 0)
		}
		if s.Call.Stream {
			kinds["stream-call"] = true
		}
	}
	if len(obs.Segs) > 0 {
		t = append(t, "final:"+obs.Segs[len(obs.Segs)-1].Class)
	}
	for k := range kinds {
		t = append(t, "intr:"+k)
	}
	cyc := false
	for _, g := range c.Graphs {
		if g.Mode == "pregel" {
			pos := map[int]int{}
			for i, n := range g.Nodes {
				pos[n.ID] = i
			}
			for _, b := range g.Branches {
				for _, tg := range b.Targets {
					if tg != EndID && b.From != StartID && pos[tg] <= pos[b.From] {
						cyc = true
					}
				}
			}
		}
	}
	if cyc {
		t = append(t, "cycle")
	}
	leaf, inkey, atom, atomRerun := false, false, false, false
	for _, g := range c.Graphs {
		for _, n := range g.Nodes {
			leaf = leaf || n.Leaf
			inkey = inkey || n.InKey > 0
			atom = atom || n.Atom
			atomRerun = atomRerun || n.Atom && len(n.Rerun) > 0
		}
	}
	nodata := false
	for _, g := range c.Graphs {
		if g.Mode != "wf" {
			continue
		}
		for _, n := range g.Nodes {
			nd, nc := 0, 0
			for _, e := range g.Edges {
				if e.To == n.ID {
					if e.Kind != 1 {
						nd++
					} else {
						nc++
					}
				}
			}
			for _, b := range g.Branches {
				for _, tg := range b.Targets {
					if tg == n.ID {
						nd++
					}
				}
			}
			nodata = nodata || nd == 0 && nc > 0
		}
	}
	if nodata {
		t = append(t, "control-only-node")
		if len(obs.Segs) > 1 {
			t = append(t, "control-only-node:resumed-run")
		}
	}
	if atom {
		t = append(t, "atom-input")
	}
	if atomRerun {
		t = append(t, "atom-input-rerun")
	}
	if leaf {
		t = append(t, "leaf-output")
	}
	if inkey {
		t = append(t, "input-key")
	}
	if c.NoID {
		t = append(t, "no-id")
	}
	if obs.Repeat != nil {
		t = append(t, "repeat:"+obs.Repeat.Class)
	}
	if c.Twice {
		t = append(t, "second-run")
	}
	if c.Restart && len(obs.Segs) > 1 {
		t = append(t, "restart:resumes-on-a-fresh-runnable")
	}
	if obs.RetryFault != nil {
		t = append(t, "retry:"+obs.RetryFault.Class)
	} else if obs.RetryAt > 0 {
		t = append(t, "retry:no-lambda-started")
	}
	if c.NoStore {
		t = append(t, "no-store")
	}
	if c.EmptyID {
		t = append(t, "empty-checkpoint-id")
	}
	if c.hasEmpty() {
		t = append(t, "empty-output-node")
		for _, g := range c.Graphs {
			for _, n := range g.Nodes {
				if n.Empty && has(g.After, n.ID) {
					t = append(t, "empty-output-node:interrupt-after")
				}
			}
		}
	}
	if len(obs.Conc) > 0 {
		t = append(t, fmt.Sprintf("concurrent-first-calls:%d", c.Conc), fmt.Sprintf("concurrent-first-calls:pad-%d", c.Pad))
		seen := map[string]bool{}
		longest := 0
		for _, sess := range obs.Conc[0] {
			if len(sess) > longest {
				longest = len(sess)
			}
			if len(sess) > 0 && !seen[sess[0].Class] {
				seen[sess[0].Class] = true
				t = append(t, "concurrent-first-calls:"+sess[0].Class)
			}
			for _, s := range sess {
				if s.Class == "hang" {
					t = append(t, "concurrent-first-calls:watchdog")
				}
			}
		}
		if longest > 1 {
			t = append(t, "concurrent-first-calls:resumed-together")
		}
	}
	if c.SetFailAt > 0 {
		t = append(t, "store-set-fails")
	}
	if l := c.Lists; l != nil {
		t = append(t, fmt.Sprintf("lists:shared-by-%d", len(l.Graphs)))
		foreign, dup := false, false
		for _, xs := range [][]int{l.Before, l.After} {
			for i, x := range xs {
				own := false
				for _, gi := range l.Graphs {
					own = own || c.Graphs[gi].node(x) != nil
				}
				foreign = foreign || !own
				dup = dup || has(xs[:i], x)
			}
		}
		if foreign {
			t = append(t, "lists:foreign-names")
		}
		if dup {
			t = append(t, "lists:names-twice")
		}
	} else {
		t = append(t, "lists:own")
	}
	return t, interrupts > 0
}
