package intr

import (
	"encoding/json"
	"sync/atomic"
	"time"
)

// Shrink (lib.Shrinker): greedy minimisation of a case on which the direct oracle fails. Every candidate is a
// copy with one thing taken away (second run, shared lists, call options, interrupt points, rerun tables,
// state handlers, delays, nested graphs turned into lambdas, plain nodes bridged over); it is kept when the
// oracle still fails with the same signature. Bounded: the first 6 failing cases of a process, 4 s each
// (a failure that depends on timing may not survive a step: that step is simply not taken).
var shrunk int32

func cloneCase(c *Case) *Case {
	b, _ := json.Marshal(c)
	d := &Case{}
	_ = json.Unmarshal(b, d)
	return d
}

// gcGraphs removes the graphs no graph node refers to any more and renumbers the rest.
func gcGraphs(c *Case) {
	reach := map[int]bool{0: true}
	work := []int{0}
	for len(work) > 0 {
		gi := work[0]
		work = work[1:]
		for _, n := range c.Graphs[gi].Nodes {
			if n.Sub > 0 && n.Sub < len(c.Graphs) && !reach[n.Sub] {
				reach[n.Sub] = true
				work = append(work, n.Sub)
			}
		}
	}
	if len(reach) == len(c.Graphs) {
		return
	}
	renum := map[int]int{}
	var gs []GraphSpec
	for gi := range c.Graphs {
		if reach[gi] {
			renum[gi] = len(gs)
			gs = append(gs, c.Graphs[gi])
		}
	}
	for gi := range gs {
		for ni := range gs[gi].Nodes {
			if s := gs[gi].Nodes[ni].Sub; s > 0 {
				gs[gi].Nodes[ni].Sub = renum[s]
			}
		}
	}
	if c.Lists != nil {
		var keep []int
		for _, gi := range c.Lists.Graphs {
			if reach[gi] {
				keep = append(keep, renum[gi])
			}
		}
		c.Lists.Graphs = keep
	}
	c.Graphs = gs
}

func without(xs []int, x int) []int {
	var r []int
	for _, y := range xs {
		if y != x {
			r = append(r, y)
		}
	}
	return r
}

// bridge removes node id from graph g (a node no branch mentions), connecting its predecessors to its successors.
func bridge(g *GraphSpec, id int) bool {
	for _, b := range g.Branches {
		if b.From == id || has(b.Targets, id) {
			return false
		}
	}
	var preds, succs []int
	var edges []EdgeSpec
	for _, e := range g.Edges {
		switch {
		case e.From == id && e.To == id:
		case e.To == id:
			preds = append(preds, e.From)
		case e.From == id:
			succs = append(succs, e.To)
		default:
			edges = append(edges, e)
		}
	}
	for _, p := range preds {
		for _, s := range succs {
			dup := false
			for _, e := range edges {
				dup = dup || (e.From == p && e.To == s)
			}
			if !dup {
				edges = append(edges, EdgeSpec{From: p, To: s})
			}
		}
	}
	g.Edges = edges
	var nodes []NodeSpec
	for _, n := range g.Nodes {
		if n.ID != id {
			if n.InKey == id {
				n.InKey = 0
			}
			nodes = append(nodes, n)
		}
	}
	g.Nodes = nodes
	g.Before = without(g.Before, id)
	g.After = without(g.After, id)
	return len(nodes) > 0
}

func (e Engine) Shrink(x any, stillFails func(any) bool) any {
	c := x.(*Case)
	if c.Typed != nil || atomic.AddInt32(&shrunk, 1) > 6 {
		return c
	}
	deadline := time.Now().Add(4 * time.Second)
	try := func(mut func(d *Case) bool) bool {
		if time.Now().After(deadline) {
			return false
		}
		d := cloneCase(c)
		if !mut(d) {
			return false
		}
		gcGraphs(d)
		d.Normalise()
		if d.Validate() != nil {
			return false
		}
		if hashCaseJSON(d) == hashCaseJSON(c) || !stillFails(d) {
			return false
		}
		c = d
		return true
	}
	for changed := true; changed && time.Now().Before(deadline); {
		changed = false
		changed = try(func(d *Case) bool { ok := d.Conc > 0 || d.Pad > 0; d.Conc, d.Pad = 0, 0; return ok }) || changed
		changed = try(func(d *Case) bool { ok := d.EmptyID; d.EmptyID = false; return ok }) || changed
		changed = try(func(d *Case) bool { ok := d.Twice; d.Twice = false; return ok }) || changed
		changed = try(func(d *Case) bool { ok := d.Restart; d.Restart = false; return ok }) || changed
		changed = try(func(d *Case) bool { ok := d.Retry > 0; d.Retry = 0; return ok }) || changed
		changed = try(func(d *Case) bool { ok := d.Lists != nil; d.Lists = nil; return ok }) || changed
		changed = try(func(d *Case) bool {
			if d.Lists == nil {
				return false
			}
			clean := func(xs []int) []int { // names of the group's own nodes, once each, in order
				var r []int
				for _, v := range xs {
					own := false
					for _, gi := range d.Lists.Graphs {
						own = own || d.Graphs[gi].node(v) != nil
					}
					if own && !has(r, v) {
						r = append(r, v)
					}
				}
				return r
			}
			d.Lists.Before, d.Lists.After = clean(d.Lists.Before), clean(d.Lists.After)
			return true
		}) || changed
		changed = try(func(d *Case) bool { ok := len(d.Calls) > 1 || d.Calls[0] != (CallSpec{}); d.Calls = []CallSpec{{}}; return ok }) || changed
		for ci := range c.Calls {
			ci := ci
			changed = try(func(d *Case) bool { ok := d.Calls[ci].Stream; d.Calls[ci].Stream = false; return ok }) || changed
			changed = try(func(d *Case) bool { ok := d.Calls[ci].Mod; d.Calls[ci].Mod = false; return ok }) || changed
		}
		// nested graphs -> lambdas, nodes bridged over, attributes dropped (graphs from the last to the first)
		for gi := len(c.Graphs) - 1; gi >= 0; gi-- {
			if gi >= len(c.Graphs) {
				continue
			}
			gi := gi
			for _, n := range append([]NodeSpec(nil), c.Graphs[gi].Nodes...) {
				id := n.ID
				changed = try(func(d *Case) bool {
					if gi >= len(d.Graphs) {
						return false
					}
					nd := d.Graphs[gi].node(id)
					if nd == nil || nd.Sub == 0 {
						return false
					}
					nd.Sub = 0
					return true
				}) || changed
				changed = try(func(d *Case) bool { return gi < len(d.Graphs) && d.Graphs[gi].node(id) != nil && bridge(&d.Graphs[gi], id) }) || changed
				changed = try(func(d *Case) bool {
					if gi >= len(d.Graphs) {
						return false
					}
					nd := d.Graphs[gi].node(id)
					if nd == nil || (len(nd.Rerun) == 0 && !nd.St && nd.Delay == 0 && nd.InKey == 0) {
						return false
					}
					nd.Rerun, nd.St, nd.Delay, nd.InKey = nil, false, 0, 0
					return true
				}) || changed
				changed = try(func(d *Case) bool {
					if gi >= len(d.Graphs) {
						return false
					}
					nd := d.Graphs[gi].node(id)
					if nd == nil || !nd.Empty {
						return false
					}
					nd.Empty = false
					return true
				}) || changed
				for _, after := range []bool{false, true} {
					after := after
					changed = try(func(d *Case) bool {
						if gi >= len(d.Graphs) {
							return false
						}
						g := &d.Graphs[gi]
						if d.sharesLists(gi) {
							if after {
								ok := has(d.Lists.After, id)
								d.Lists.After = without(d.Lists.After, id)
								return ok
							}
							ok := has(d.Lists.Before, id)
							d.Lists.Before = without(d.Lists.Before, id)
							return ok
						}
						if after {
							ok := has(g.After, id)
							g.After = without(g.After, id)
							return ok
						}
						ok := has(g.Before, id)
						g.Before = without(g.Before, id)
						return ok
					}) || changed
				}
			}
			changed = try(func(d *Case) bool {
				if gi >= len(d.Graphs) || d.Graphs[gi].MaxSteps == 0 {
					return false
				}
				d.Graphs[gi].MaxSteps = 0
				return true
			}) || changed
		}
	}
	return c
}

func hashCaseJSON(c *Case) string {
	b, _ := json.Marshal(c)
	return string(b)
}
