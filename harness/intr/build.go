package intr

import (
	"context"
	"errors"
	"fmt"
	"strconv"
	"sync"
	"time"

	"github.com/cloudwego/eino/compose"
)

// St is the local state of every graph with GraphSpec.State. It must survive the byte store.
type St struct {
	Seen  map[string]int            // node key -> number of (non-rebuild) pre-handler runs
	Saved map[string]map[string]any // node key -> last stamped input
	Mods  int                       // number of state-modifier applications
	Touch map[string]int            // node key -> completed executions of a node of a stateless nested graph
	//                                 that shares this state (not part of the canonical state: oracle only)
	SavedS map[string]string        // node key -> last stamped input of an atom node (string input)
}

func init() {
	_ = compose.RegisterSerializableType[St]("verif_intr_st")
	_ = compose.RegisterSerializableType[map[string]any]("verif_intr_map")
}

func stCanon(s *St) *Val {
	if s == nil {
		return nil
	}
	seen := map[string]any{}
	for k, v := range s.Seen {
		seen[k] = strconv.Itoa(v)
	}
	saved := map[string]any{}
	for k, v := range s.Saved {
		saved[k] = v
	}
	for k, v := range s.SavedS {
		saved[k] = v
	}
	return canon(map[string]any{"mods": strconv.Itoa(s.Mods), "saved": saved, "seen": seen})
}

// Exec is one execution of a lambda node.
type Exec struct {
	Seg   int    `json:"seg"`
	Seq   int    `json:"seq"`
	Graph int    `json:"g"`
	ID    int    `json:"id"`
	Path  string `json:"path"`
	In    *Val   `json:"in"`
	Abort bool   `json:"abort,omitempty"`
	Touch int    `json:"touch,omitempty"` // what the node saw of the state it shares with its ancestors
	Fault bool   `json:"fault,omitempty"` // the execution ended with the injected transient error (retry phase)
	Conc  int    `json:"conc,omitempty"`  // > 0: the execution belongs to that caller of the concurrent first calls (Case.Conc)
}

// Event: pre-handler (submit) / post-handler (collection) of a node in a stateful graph.
type Event struct {
	Seg   int    `json:"seg"`
	Graph int    `json:"g"`
	Kind  string `json:"k"` // pre | post
	ID    int    `json:"id"`
	Conc  int    `json:"conc,omitempty"`
}

type ModObs struct {
	Seg   int    `json:"seg"`
	Path  string `json:"path"`
	State *Val   `json:"state"`
}

type recorder struct {
	mu       sync.Mutex
	seg      int
	seq      int
	execs    []*Exec
	events   []Event
	mods     []ModObs
	attempts map[int]int
	rerunOn  bool
	failNext bool // the next lambda execution that starts fails with a transient error (retry phase)
}

var errTransient = errors.New("transient failure (injected)")

// takeFault: whether the execution e that has just begun is the one that fails.
func (r *recorder) takeFault(e *Exec) bool {
	r.mu.Lock()
	defer r.mu.Unlock()
	if !r.failNext {
		return false
	}
	r.failNext = false
	e.Fault = true
	return true
}

func newRecorder(rerunOn bool) *recorder {
	return &recorder{attempts: map[int]int{}, rerunOn: rerunOn}
}

// concKey: the context of a caller of the concurrent first calls (Case.Conc) carries its number (from 1); the
// context of every other call carries none (0). Node bodies and handlers are reached with a context derived
// from the caller's, which is how their log entries are attributed to one of several calls in flight.
type concKey struct{}

func concOf(ctx context.Context) int {
	k, _ := ctx.Value(concKey{}).(int)
	return k
}

// begin: the attempts of a node are counted per caller (the rerun tables of concurrent calls do not mix).
func (r *recorder) begin(ctx context.Context, gi, id int, path string, in any) (*Exec, int) {
	k := concOf(ctx)
	r.mu.Lock()
	defer r.mu.Unlock()
	a := id + k*10000000
	r.attempts[a]++
	e := &Exec{Seg: r.seg, Seq: r.seq, Graph: gi, ID: id, Path: path, In: canon(in), Conc: k}
	r.seq++
	r.execs = append(r.execs, e)
	return e, r.attempts[a]
}

func (r *recorder) event(ctx context.Context, gi int, kind string, id int) {
	k := concOf(ctx)
	r.mu.Lock()
	defer r.mu.Unlock()
	r.events = append(r.events, Event{Seg: r.seg, Graph: gi, Kind: kind, ID: id, Conc: k})
}

type builder struct {
	c        *Case
	rec      *recorder
	withIntr bool
	store    compose.CheckPointStore
	paths    map[int]string // graph index -> path of the graph node holding it ("" = top)
	// the two slices of Case.Lists: created once per build, the same objects for every graph that shares them
	shBefore, shAfter []string
	shMade            bool
	// pad > 0: every interrupt list handed to Compile carries pad more names that no graph declares (Case.Pad)
	pad int
}

// padded appends b.pad names of no node to a list that is about to be handed to Compile.
func (b *builder) padded(l []string) []string {
	if b.pad == 0 {
		return l
	}
	padMu.Lock()
	for i := len(padNames); i < b.pad; i++ {
		padNames = append(padNames, "absent-node-"+strconv.Itoa(i))
	}
	names := padNames[:b.pad]
	padMu.Unlock()
	out := make([]string, 0, len(l)+b.pad)
	return append(append(out, l...), names...) // the caller's own slice every time
}

var (
	padMu    sync.Mutex
	padNames []string
)

// sharedLists returns the one []string per kind handed to every graph listed in Case.Lists.
func (b *builder) sharedLists() (before, after []string) {
	if !b.shMade {
		b.shMade = true
		b.shBefore = b.padded(keys(b.c.Lists.Before))
		b.shAfter = b.padded(keys(b.c.Lists.After))
	}
	return b.shBefore, b.shAfter
}

// listNote: what became of the caller's lists (Compile has no business writing to them).
func (b *builder) listNote() string {
	if !b.shMade {
		return ""
	}
	if b.pad == 0 && fmt.Sprint(b.shBefore) != fmt.Sprint(keys(b.c.Lists.Before)) {
		return fmt.Sprintf("the caller's interrupt-before list %v reads %v after Compile", keys(b.c.Lists.Before), b.shBefore)
	}
	if b.pad == 0 && fmt.Sprint(b.shAfter) != fmt.Sprint(keys(b.c.Lists.After)) {
		return fmt.Sprintf("the caller's interrupt-after list %v reads %v after Compile", keys(b.c.Lists.After), b.shAfter)
	}
	return ""
}

// sharesTopState: graph gi declares no state, every graph between it and the top level declares none
// either, and the top-level graph has one: the nodes of gi see the top-level state through ProcessState.
func (b *builder) sharesTopState(gi int) bool {
	if gi == 0 || b.c.Graphs[gi].State || !b.c.Graphs[0].State {
		return false
	}
	ix := newIndex(b.c)
	for cur := gi; cur != 0; {
		h, ok := ix.holder[cur]
		if !ok {
			return false
		}
		cur = ix.gOf[h]
		if cur != 0 && b.c.Graphs[cur].State {
			return false
		}
	}
	return true
}

// touch: a completed execution of a node of a stateless nested graph updates the state it shares.
func (b *builder) touch(ctx context.Context, gi int, k string, e *Exec) {
	if !b.sharesTopState(gi) {
		return
	}
	_ = compose.ProcessState[*St](ctx, func(ctx context.Context, st *St) error {
		if st.Touch == nil {
			st.Touch = map[string]int{}
		}
		st.Touch[k]++
		b.rec.mu.Lock()
		e.Touch = st.Touch[k]
		b.rec.mu.Unlock()
		return nil
	})
}

func copyMap(in map[string]any) map[string]any {
	out := make(map[string]any, len(in)+1)
	for k, v := range in {
		out[k] = v
	}
	return out
}

func (b *builder) preHandler(gi int, n NodeSpec) compose.StatePreHandler[map[string]any, *St] {
	k := key(n.ID)
	return func(ctx context.Context, in map[string]any, st *St) (map[string]any, error) {
		b.rec.event(ctx, gi, "pre", n.ID)
		if !n.St {
			return in, nil
		}
		if len(in) == 0 { // zero input: the node is re-run, rebuild its input from the state
			return st.Saved[k], nil
		}
		if st.Seen == nil {
			st.Seen = map[string]int{}
		}
		if st.Saved == nil {
			st.Saved = map[string]map[string]any{}
		}
		st.Seen[k]++
		out := copyMap(in)
		out["#"] = strconv.Itoa(st.Seen[k])
		st.Saved[k] = out
		return out, nil
	}
}

// atomPreHandler: the same handler for a node whose input is a string (zero input = "": rebuild).
func (b *builder) atomPreHandler(gi int, n NodeSpec) compose.StatePreHandler[string, *St] {
	k := key(n.ID)
	return func(ctx context.Context, in string, st *St) (string, error) {
		b.rec.event(ctx, gi, "pre", n.ID)
		if !n.St {
			return in, nil
		}
		if in == "" {
			return st.SavedS[k], nil
		}
		if st.Seen == nil {
			st.Seen = map[string]int{}
		}
		if st.SavedS == nil {
			st.SavedS = map[string]string{}
		}
		st.Seen[k]++
		st.SavedS[k] = in
		return in, nil
	}
}

// atomLambda: a node whose input is not a map (a string); it returns {n<id>: input}.
func (b *builder) atomLambda(gi int, n NodeSpec, path string) *compose.Lambda {
	k := key(n.ID)
	return compose.InvokableLambda(func(ctx context.Context, in string) (map[string]any, error) {
		e, att := b.rec.begin(ctx, gi, n.ID, path, in)
		if b.rec.takeFault(e) {
			return nil, errTransient
		}
		if n.Delay > 0 {
			time.Sleep(time.Duration(n.Delay) * 300 * time.Microsecond)
		}
		if b.rec.rerunOn && has(n.Rerun, att) {
			b.rec.mu.Lock()
			e.Abort = true
			b.rec.mu.Unlock()
			return nil, rerunErr(att)
		}
		b.touch(ctx, gi, k, e)
		return map[string]any{k: in}, nil
	})
}

func (b *builder) postHandler(gi int, n NodeSpec) compose.StatePostHandler[map[string]any, *St] {
	return func(ctx context.Context, out map[string]any, st *St) (map[string]any, error) {
		b.rec.event(ctx, gi, "post", n.ID)
		return out, nil
	}
}

func (b *builder) leafPostHandler(gi int, n NodeSpec) compose.StatePostHandler[string, *St] {
	return func(ctx context.Context, out string, st *St) (string, error) {
		b.rec.event(ctx, gi, "post", n.ID)
		return out, nil
	}
}

// leafLambda: a node whose output is not a map (a string: the size of its input).
func (b *builder) leafLambda(gi int, n NodeSpec, path string) *compose.Lambda {
	return compose.InvokableLambda(func(ctx context.Context, in map[string]any) (string, error) {
		e, att := b.rec.begin(ctx, gi, n.ID, path, in)
		if b.rec.takeFault(e) {
			return "", errTransient
		}
		if n.Delay > 0 {
			time.Sleep(time.Duration(n.Delay) * 300 * time.Microsecond)
		}
		if b.rec.rerunOn && has(n.Rerun, att) {
			b.rec.mu.Lock()
			e.Abort = true
			b.rec.mu.Unlock()
			return "", rerunErr(att)
		}
		b.touch(ctx, gi, key(n.ID), e)
		return strconv.Itoa(size(in)), nil
	})
}

// rerunErr: what a node returns to ask for a rerun: the sentinel itself, or (even attempts) the sentinel
// wrapped with the node's own context, as errors.Is-style sentinels are meant to be used.
func rerunErr(att int) error {
	if att%2 == 0 {
		return fmt.Errorf("not yet (attempt %d): %w", att, compose.InterruptAndRerun)
	}
	return compose.InterruptAndRerun
}

func (b *builder) lambda(gi int, n NodeSpec, path string) *compose.Lambda {
	if n.Leaf {
		return b.leafLambda(gi, n, path)
	}
	if n.Atom {
		return b.atomLambda(gi, n, path)
	}
	k := key(n.ID)
	return compose.InvokableLambda(func(ctx context.Context, in map[string]any) (map[string]any, error) {
		e, att := b.rec.begin(ctx, gi, n.ID, path, in)
		if b.rec.takeFault(e) {
			return nil, errTransient
		}
		if n.Delay > 0 {
			time.Sleep(time.Duration(n.Delay) * 300 * time.Microsecond)
		}
		if b.rec.rerunOn && has(n.Rerun, att) {
			b.rec.mu.Lock()
			e.Abort = true
			b.rec.mu.Unlock()
			return nil, rerunErr(att)
		}
		b.touch(ctx, gi, k, e)
		if n.Empty {
			return map[string]any{}, nil
		}
		return map[string]any{k: in}, nil
	})
}

func (b *builder) branch(br BranchSpec) *compose.GraphBranch {
	ends := map[string]bool{}
	for _, t := range br.Targets {
		ends[key(t)] = true
	}
	table := br.Table
	if br.Multi {
		return compose.NewGraphMultiBranch(func(ctx context.Context, in map[string]any) (map[string]bool, error) {
			row := table[size(in)%len(table)]
			out := map[string]bool{}
			for _, t := range row {
				out[key(t)] = true
			}
			return out, nil
		}, ends)
	}
	return compose.NewGraphBranch(func(ctx context.Context, in map[string]any) (string, error) {
		row := table[size(in)%len(table)]
		return key(row[0]), nil
	}, ends)
}

func keys(ids []int) []string {
	r := make([]string, len(ids))
	for i, id := range ids {
		r[i] = key(id)
	}
	return r
}

func (b *builder) compileOpts(gi int) []compose.GraphCompileOption {
	g := &b.c.Graphs[gi]
	var opts []compose.GraphCompileOption
	if g.Mode == "dag" {
		opts = append(opts, compose.WithNodeTriggerMode(compose.AllPredecessor))
	}
	if g.Mode == "pregel" && g.MaxSteps > 0 {
		opts = append(opts, compose.WithMaxRunSteps(g.MaxSteps))
	}
	if b.withIntr {
		if b.c.sharesLists(gi) {
			// the application's one list per kind: the same slice object for every graph
			before, after := b.sharedLists()
			if len(before) > 0 {
				opts = append(opts, compose.WithInterruptBeforeNodes(before))
			}
			if len(after) > 0 {
				opts = append(opts, compose.WithInterruptAfterNodes(after))
			}
		} else {
			if len(g.Before) > 0 {
				opts = append(opts, compose.WithInterruptBeforeNodes(b.padded(keys(g.Before))))
			}
			if len(g.After) > 0 {
				opts = append(opts, compose.WithInterruptAfterNodes(b.padded(keys(g.After))))
			}
		}
	}
	if gi == 0 && b.store != nil {
		opts = append(opts, compose.WithCheckPointStore(b.store))
	}
	return opts
}

func genState(ctx context.Context) *St {
	return &St{Seen: map[string]int{}, Saved: map[string]map[string]any{}}
}

func (b *builder) nodeOpts(gi int, n NodeSpec) []compose.GraphAddNodeOpt {
	g := &b.c.Graphs[gi]
	var opts []compose.GraphAddNodeOpt
	if g.State {
		if n.Leaf {
			opts = append(opts, compose.WithStatePreHandler(b.preHandler(gi, n)), compose.WithStatePostHandler(b.leafPostHandler(gi, n)))
		} else if n.Atom {
			opts = append(opts, compose.WithStatePreHandler(b.atomPreHandler(gi, n)), compose.WithStatePostHandler(b.postHandler(gi, n)))
		} else {
			opts = append(opts, compose.WithStatePreHandler(b.preHandler(gi, n)), compose.WithStatePostHandler(b.postHandler(gi, n)))
		}
	}
	if n.InKey > 0 {
		opts = append(opts, compose.WithInputKey(key(n.InKey)))
	}
	if n.Sub > 0 {
		opts = append(opts, compose.WithOutputKey(key(n.ID)), compose.WithGraphCompileOptions(b.compileOpts(n.Sub)...))
	}
	return opts
}

func subPath(path string, id int) string {
	if path == "" {
		return key(id)
	}
	return path + "/" + key(id)
}

// graph builds a compose.Graph for a pregel / dag specification.
func (b *builder) graph(gi int, path string) (*compose.Graph[map[string]any, map[string]any], error) {
	gs := &b.c.Graphs[gi]
	var g *compose.Graph[map[string]any, map[string]any]
	if gs.State {
		g = compose.NewGraph[map[string]any, map[string]any](compose.WithGenLocalState(genState))
	} else {
		g = compose.NewGraph[map[string]any, map[string]any]()
	}
	for _, n := range gs.Nodes {
		var err error
		if n.Sub > 0 {
			sub, e := b.any(n.Sub, subPath(path, n.ID))
			if e != nil {
				return nil, e
			}
			err = g.AddGraphNode(key(n.ID), sub, b.nodeOpts(gi, n)...)
		} else {
			err = g.AddLambdaNode(key(n.ID), b.lambda(gi, n, subPath(path, n.ID)), b.nodeOpts(gi, n)...)
		}
		if err != nil {
			return nil, fmt.Errorf("graph %d add node %d: %w", gi, n.ID, err)
		}
	}
	for _, e := range gs.Edges {
		if err := g.AddEdge(key(e.From), key(e.To)); err != nil {
			return nil, fmt.Errorf("graph %d add edge %v: %w", gi, e, err)
		}
	}
	for _, br := range gs.Branches {
		if err := g.AddBranch(key(br.From), b.branch(br)); err != nil {
			return nil, fmt.Errorf("graph %d add branch %v: %w", gi, br, err)
		}
	}
	return g, nil
}

// workflow builds a compose.Workflow (eager, all-predecessor, separate control / data edges).
func (b *builder) workflow(gi int, path string) (*compose.Workflow[map[string]any, map[string]any], error) {
	gs := &b.c.Graphs[gi]
	wf := compose.NewWorkflow[map[string]any, map[string]any](compose.WithGenLocalState(genState))
	wn := map[int]*compose.WorkflowNode{}
	for _, n := range gs.Nodes {
		if n.Sub > 0 {
			sub, e := b.any(n.Sub, subPath(path, n.ID))
			if e != nil {
				return nil, e
			}
			wn[n.ID] = wf.AddGraphNode(key(n.ID), sub, b.nodeOpts(gi, n)...)
		} else {
			wn[n.ID] = wf.AddLambdaNode(key(n.ID), b.lambda(gi, n, subPath(path, n.ID)), b.nodeOpts(gi, n)...)
		}
	}
	wn[EndID] = wf.End()
	for to, node := range wn {
		nData := 0
		for _, e := range gs.Edges {
			if e.To == to && e.Kind != 1 {
				nData++
			}
		}
		for _, e := range gs.Edges {
			if e.To != to {
				continue
			}
			switch {
			case e.Kind == 1:
				node.AddDependency(key(e.From))
			default:
				var maps []*compose.FieldMapping
				if tn := gs.node(to); tn != nil && tn.Atom {
					maps = nil // string -> string, unmapped
				} else if fn := gs.node(e.From); fn != nil && fn.Leaf {
					maps = []*compose.FieldMapping{compose.ToField(key(e.From))}
				} else if nData > 1 {
					if e.From == StartID {
						return nil, fmt.Errorf("graph %d: START must be the only data predecessor of %d", gi, to)
					}
					maps = []*compose.FieldMapping{compose.MapFields(key(e.From), key(e.From))}
				}
				if e.Kind == 2 {
					node.AddInputWithOptions(key(e.From), maps, compose.WithNoDirectDependency())
				} else {
					node.AddInput(key(e.From), maps...)
				}
			}
		}
	}
	for _, br := range gs.Branches {
		wf.AddBranch(key(br.From), b.branch(br))
	}
	return wf, nil
}

func (b *builder) any(gi int, path string) (compose.AnyGraph, error) {
	b.paths[gi] = path
	if b.c.Graphs[gi].Mode == "wf" {
		return b.workflow(gi, path)
	}
	return b.graph(gi, path)
}

// compile builds and compiles the top-level graph.
func (b *builder) compile(ctx context.Context) (compose.Runnable[map[string]any, map[string]any], error) {
	b.paths = map[int]string{}
	b.paths[0] = ""
	if b.c.Graphs[0].Mode == "wf" {
		wf, err := b.workflow(0, "")
		if err != nil {
			return nil, err
		}
		return wf.Compile(ctx, b.compileOpts(0)...)
	}
	g, err := b.graph(0, "")
	if err != nil {
		return nil, err
	}
	return g.Compile(ctx, b.compileOpts(0)...)
}
