// Engine C15 — the direct oracle's independent reference: what the property says a field
// mapping must produce, written as plain get/put over value trees. It deliberately knows
// nothing about eino's walker (no instantiate/newInstance distinctions, no trie): results
// are compared up to "instantiated but empty" containers.
package main

import (
	"fmt"
	"reflect"
	"strings"
)

func isNilable(te string) bool {
	return te == "any" || strings.HasPrefix(te, "*") || strings.HasPrefix(te, "map[") || strings.HasPrefix(te, "[]")
}

func fieldType(structName, field string) (string, bool) {
	t, ok := structTypes[structName]
	if !ok {
		return "", false
	}
	f, ok := t.FieldByName(field)
	if !ok || !f.IsExported() {
		return "", false
	}
	return typeExpr(f.Type), true
}

// refGet: the value found at a source path. class: "" ok | "missing" (map key absent) | "bad"
func refGet(v *V, p []string) (*V, string) {
	for _, f := range p {
		switch v.K {
		case "map":
			if v.IK {
				return nil, "bad"
			}
			e, ok := v.F[f]
			if v.Nil || !ok {
				return nil, "missing"
			}
			v = e
		case "ptr":
			// a pointer is followed only to a struct; *any is a pointer to an interface value
			if v.Nil || v.P.K != "struct" || v.T == "any" {
				return nil, "bad"
			}
			v = v.P
			fallthrough
		case "struct":
			ft, ok := fieldType(v.T, f)
			if !ok {
				return nil, "bad"
			}
			if e, ok := v.F[f]; ok {
				v = e
			} else {
				v = zeroV(ft)
			}
		default:
			return nil, "bad"
		}
	}
	return v, ""
}

func refAssignable(x *V, slot string) bool {
	if x.K == "nil" {
		return isNilable(slot)
	}
	return slot == "any" || x.dynType() == slot
}

// refPut returns the new content of a slot of static type slot currently holding cur
func refPut(cur *V, slot string, p []string, x *V) (*V, error) {
	if len(p) == 0 {
		if !refAssignable(x, slot) {
			return nil, fmt.Errorf("%s not assignable to %s", x.dynType(), slot)
		}
		if x.K == "nil" {
			return zeroV(slot), nil
		}
		return x, nil
	}
	f, rest := p[0], p[1:]
	if slot == "any" {
		if !(cur.K == "map" && !cur.IK && cur.T == "any" && !cur.Nil) {
			cur = vMap("any")
		}
		slot = "map[string]any"
	}
	switch {
	case strings.HasPrefix(slot, "map[string]"):
		el := slot[len("map[string]"):]
		m := cur.clone()
		if m.Nil || m.F == nil {
			m = vMap(el)
		}
		old, ok := m.F[f]
		if !ok {
			old = zeroV(el)
		}
		nv, err := refPut(old, el, rest, x)
		if err != nil {
			return nil, err
		}
		m.F[f] = nv
		return m, nil
	case strings.HasPrefix(slot, "*"):
		el := slot[1:]
		if _, ok := structTypes[el]; !ok {
			return nil, fmt.Errorf("pointer to non-struct %s", slot)
		}
		pointee := zeroV(el)
		if !cur.Nil && cur.P != nil {
			pointee = cur.P
		}
		nv, err := refPut(pointee, el, p, x)
		if err != nil {
			return nil, err
		}
		return vPtr(el, nv), nil
	}
	if _, ok := structTypes[slot]; ok {
		ft, ok := fieldType(slot, f)
		if !ok {
			return nil, fmt.Errorf("no field %s in %s", f, slot)
		}
		s := cur.clone()
		if s.F == nil {
			s.F = map[string]*V{}
		}
		old, ok := s.F[f]
		if !ok {
			old = zeroV(ft)
		}
		if len(rest) == 0 && x.K == "nil" {
			// a nil interface value mapped to a struct field leaves the field zero
			if !isNilable(ft) {
				return nil, fmt.Errorf("nil not assignable to %s", ft)
			}
			return s, nil
		}
		nv, err := refPut(old, ft, rest, x)
		if err != nil {
			return nil, err
		}
		s.F[f] = nv
		return s, nil
	}
	return nil, fmt.Errorf("cannot descend into %s", slot)
}

// expected result of mapping one value/chunk set. skipMissing: stream semantics.
// returns (value, "ok") | (nil, "err")
func refRun(T string, decls []Decl, vals []*V, skipMissing bool) (*V, string) {
	return refRunS(T, decls, vals, nil, skipMissing)
}

// is every static value a valid constant for its target path (what Compile has to establish)
func staticsValid(T string, statics []Static) bool {
	for _, s := range statics {
		if _, err := refPut(zeroV(T), T, s.To, s.Val); err != nil {
			return false
		}
		if len(s.To) > 0 && !pathStaticallyValid(T, s.To) {
			return false
		}
	}
	return true
}

// a target path the static walker accepts: struct fields (one pointer level), string-keyed maps,
// map keys below `any`
func pathStaticallyValid(te string, p []string) bool {
	for i, f := range p {
		switch {
		case strings.HasPrefix(te, "map[string]"):
			te = te[len("map[string]"):]
		case te == "any":
			return true
		default:
			base := strings.TrimPrefix(te, "*")
			ft, ok := fieldType(base, f)
			if !ok {
				return false
			}
			te = ft
		}
		_ = i
	}
	return true
}

func refRunS(T string, decls []Decl, vals []*V, statics []Static, skipMissing bool) (*V, string) {
	cur := zeroV(T)
	for _, s := range statics {
		nv, err := refPut(cur, T, s.To, s.Val)
		if err != nil {
			return nil, "err"
		}
		cur = nv
	}
	for i, d := range decls {
		if len(d.Maps) == 0 {
			// the value itself; a predecessor of interface type must hand over a value of the successor's input type
			if d.S == "any" && T != "any" && vals[i].dynType() != T {
				return nil, "err"
			}
			return vals[i], "ok"
		}
		for _, m := range d.Maps {
			x, cls := refGet(vals[i], m.From)
			if cls == "missing" && skipMissing {
				continue
			}
			if cls != "" {
				return nil, "err"
			}
			nv, err := refPut(cur, T, m.To, x)
			if err != nil {
				return nil, "err"
			}
			cur = nv
		}
	}
	return cur, "ok"
}

// ------------------------------------------------------------------ loose canonical form

// loose: nil map == empty map, nil pointer == pointer to an all-zero value, zero fields dropped
func loose(v *V) *V {
	switch v.K {
	case "struct":
		out := vStruct(v.T)
		for k, e := range v.F {
			le := loose(e)
			ft, ok := fieldType(v.T, k)
			if !ok {
				// unexported field
				if sf, ok2 := structTypes[v.T].FieldByName(k); ok2 {
					ft = typeExpr(sf.Type)
				}
			}
			if looseZero(le, ft) {
				continue
			}
			out.F[k] = le
		}
		return out
	case "ptr":
		if v.Nil {
			return v
		}
		lp := loose(v.P)
		if looseZero(lp, v.T) {
			return vNilPtr(v.T)
		}
		return vPtr(v.T, lp)
	case "map":
		if v.Nil || len(v.F) == 0 {
			n := vNilMap(v.T)
			n.IK = v.IK
			return n
		}
		out := vMap(v.T)
		out.IK = v.IK
		for k, e := range v.F {
			out.F[k] = loose(e)
		}
		return out
	}
	return v
}

// is the (already loose) value the zero of a slot of static type te
func looseZero(v *V, te string) bool {
	switch v.K {
	case "nil":
		return true
	case "int":
		return te != "any" && v.Z == 0
	case "str":
		return te != "any" && v.S == ""
	case "struct":
		return te != "any" && len(v.F) == 0
	case "ptr":
		return te != "any" && v.Nil
	case "map":
		return te != "any" && v.Nil
	case "arr":
		for _, e := range v.E {
			if e != 0 {
				return false
			}
		}
		return te != "any"
	case "sl":
		return te != "any" && (v.Nil || len(v.E) == 0)
	}
	return false
}

func looseEq(a, b *V) bool { return loose(a).String() == loose(b).String() }

// overlay two loose values of the same static type (stream chunks → one value); ok=false on a clash
func overlay(a, b *V, te string) (*V, bool) {
	if looseZero(a, te) {
		return b, true
	}
	if looseZero(b, te) {
		return a, true
	}
	if a.K != b.K || a.dynType() != b.dynType() {
		return nil, false
	}
	switch a.K {
	case "struct":
		out := vStruct(a.T)
		for k, e := range a.F {
			out.F[k] = e
		}
		for k, e := range b.F {
			if o, ok := out.F[k]; ok {
				ft := "any"
				if sf, ok2 := structTypes[a.T].FieldByName(k); ok2 {
					ft = typeExpr(sf.Type)
				}
				m, ok := overlay(o, e, ft)
				if !ok {
					return nil, false
				}
				out.F[k] = m
			} else {
				out.F[k] = e
			}
		}
		return out, true
	case "ptr":
		if a.Nil || b.Nil || a.P == nil || b.P == nil {
			// typed nil pointers (held by an interface slot): only equal ones combine
			return a, a.String() == b.String()
		}
		m, ok := overlay(a.P, b.P, a.T)
		if !ok {
			return nil, false
		}
		return vPtr(a.T, m), true
	case "map":
		if a.Nil || b.Nil {
			return a, a.String() == b.String()
		}
		out := vMap(a.T)
		out.IK = a.IK
		for k, e := range a.F {
			out.F[k] = e
		}
		for k, e := range b.F {
			if o, ok := out.F[k]; ok {
				m, ok := overlay(o, e, a.T)
				if !ok {
					return nil, false
				}
				out.F[k] = m
			} else {
				out.F[k] = e
			}
		}
		return out, true
	}
	if a.String() == b.String() {
		return a, true
	}
	return nil, false
}

// ------------------------------------------------------------------ overlap reference

func isPrefix(p, q []string) bool {
	if len(p) > len(q) {
		return false
	}
	return reflect.DeepEqual(append([]string{}, p...), append([]string{}, q[:len(p)]...))
}

func allTargets(c *Case) [][]string {
	ps := targetPaths(c.Decls)
	for _, s := range c.Statics {
		ps = append(ps, s.To)
	}
	return ps
}

// target paths of all declarations (a plain AddInput maps the whole input)
func targetPaths(decls []Decl) [][]string {
	var ps [][]string
	for _, d := range decls {
		if len(d.Maps) == 0 {
			ps = append(ps, []string{})
		}
		for _, m := range d.Maps {
			ps = append(ps, m.To)
		}
	}
	return ps
}

func hasConflict(ps [][]string) bool {
	for i := range ps {
		for j := range ps {
			if i != j && isPrefix(ps[i], ps[j]) {
				return true
			}
		}
	}
	return false
}

// ------------------------------------------------------------------ static reference

// what walking a path through a static type gives: the type of the slot at its end, whether the walk
// passed an interface-typed slot with steps remaining (then the rest is only known at request time),
// or that the path cannot be walked at all. Written from the rules the property states for paths:
// struct fields must exist and be exported, one pointer level in front of a struct, string-keyed maps.
func refWalk(te string, p []string, target bool) (end string, viaIface bool, ok bool) {
	for i, f := range p {
		switch {
		case strings.HasPrefix(te, "map[string]"):
			te = te[len("map[string]"):]
		case strings.HasPrefix(te, "map[int]"):
			return "", false, false
		case te == "any":
			if i < len(p)-1 {
				return "any", true, true
			}
			return "any", false, true
		default:
			st, isStruct := structTypes[strings.TrimPrefix(te, "*")]
			if !isStruct || strings.HasPrefix(te, "**") {
				return "", false, false
			}
			sf, found := st.FieldByName(f)
			if !found || !sf.IsExported() {
				return "", false, false
			}
			// a promoted field: the embedded fields on the way must be reachable too; on the target side an
			// embedded pointer has to be instantiated, which needs an exported embedded field
			for j := 1; j < len(sf.Index); j++ {
				ef := st.FieldByIndex(sf.Index[:j])
				if target && ef.Type.Kind() == reflect.Ptr && !ef.IsExported() {
					return "", false, false
				}
			}
			te = typeExpr(sf.Type)
		}
	}
	return te, false, true
}

func refStructOrMap(te string) bool {
	if strings.HasPrefix(te, "map[") || strings.HasPrefix(te, "*") {
		return true
	}
	_, ok := structTypes[te]
	return ok
}

// must Compile reject the declaration for a static reason (true), or must it let it through (false)
func refStaticReject(T string, d *Decl) bool {
	if len(d.Maps) == 0 {
		return !(d.S == T || T == "any" || d.S == "any")
	}
	fromAll, toAll := false, false
	for _, m := range d.Maps {
		if len(m.From) == 0 {
			fromAll = true
		}
		if len(m.To) == 0 {
			toAll = true
		}
	}
	if fromAll && toAll {
		return true
	}
	if !toAll && !refStructOrMap(T) && T != "any" {
		return true
	}
	if !fromAll && !refStructOrMap(d.S) {
		return true
	}
	for _, m := range d.Maps {
		pt, pvia, ok := refWalk(d.S, m.From, false)
		if !ok {
			return true
		}
		st, svia, ok := refWalk(T, m.To, true)
		if !ok {
			return true
		}
		if svia || pvia {
			continue // decided at request time
		}
		if !(pt == st || st == "any" || pt == "any") {
			return true
		}
	}
	return false
}
