//go:build !verif_c15wb

package main

import "reflect"

// built without the white-box group of C15 (see whitebox_on.go): convertTo is not reachable. The black-box twin of a
// unit case is a node whose input consists of static values alone (SetStaticValue(path, value) for every key, run
// through the public API): Compile refuses overlapping keys and values that do not fit, so only the valid
// overlap-free unit cases are run (executeUnitBlackBox); the others are reported as whitebox:unavailable.
const whiteBox = false

const hookPathSeparator = "\x1f"

func hookConvertTo(m map[string]any, T reflect.Type) (any, error) {
	panic("harness: built without the white-box group")
}
