//go:build verif_c15wb

package main

import (
	"reflect"

	"github.com/cloudwego/eino/compose"
)

// the white-box group of C15 (build tags verif && verif_c15wb, asked for by extra_tags of props/C15.json only):
// compose/verif_c15.go re-exports convertTo and the separator of joined paths for the unit cases. When the group does
// not compile against the tree under test (a rename the hook does not follow) ./check builds the harness without the
// sub-tag and whitebox_off.go takes over.
const whiteBox = true

const hookPathSeparator = compose.VerifC15PathSeparator

func hookConvertTo(m map[string]any, T reflect.Type) (any, error) { return compose.VerifC15ConvertTo(m, T) }
