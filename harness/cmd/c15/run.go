// Engine C15 — building and running the Workflow through the public API.
package main

import (
	"context"
	"errors"
	"fmt"
	"io"
	"reflect"
	"strings"
	"sync"
	"time"

	"github.com/cloudwego/eino/compose"
	"github.com/cloudwego/eino/schema"

	"verif/harness/lib"
)

// ------------------------------------------------------------------ case

type Mapping struct {
	From []string `json:"from"` // empty = the whole predecessor output
	To   []string `json:"to"`   // empty = the whole successor input
}

type Decl struct {
	FromStart bool   `json:"from_start,omitempty"` // the predecessor is START (S = Outer, the workflow's input), not a lambda node
	Indirect bool    `json:"indirect,omitempty"` // data through AddInputWithOptions(WithNoDirectDependency), control through a relay node
	S      string    `json:"s"`                // predecessor output type
	Val    *V        `json:"val"`              // what the predecessor returns (Invoke)
	Chunks []*V      `json:"chunks,omitempty"` // what it streams (Stream); empty = [Val]
	// a second request served by the SAME compiled runnables (Invoke, then Stream with this one chunk): what the
	// predecessor returns then; nil = Val again. The case has a second request iff some declaration has a Val2.
	Val2 *V `json:"val2,omitempty"`
	Maps   []Mapping `json:"maps"`             // empty = plain AddInput (no field mapping)
}

// a static value of the successor (WorkflowNode.SetStaticValue): a constant put at a target path
type Static struct {
	To  []string `json:"to"`
	Val *V       `json:"val"`
}

type Case struct {
	T       string   `json:"t"` // successor (END) input type
	Decls   []Decl   `json:"decls"`
	Statics []Static `json:"statics,omitempty"`
	Mid     bool     `json:"mid,omitempty"` // the successor is a middle node, not END
	// the middle node is a nested graph (Graph[T,T] around a stream-transparent identity node): the mapped input is
	// built by the pre-node handler of a graph node
	MidGraph bool `json:"mid_graph,omitempty"`
	// round 7: the successor is a middle node declared with WithInputKey("k") whose OWN input type is KeyT (a lambda
	// KeyT -> KeyT): what arrives at such a node — and what Compile validates the mappings against, and what the
	// pre-node converter must build — is a map[string]any (T), of which the node is handed the entry "k". The harness
	// reports what the node got as map[string]any{"k": value}; the generator maps to ["k"] only. Implies Mid.
	KeyT string `json:"key_t,omitempty"`
	// a unit case (non-empty Unit): convertTo (through the verif hook) on the map Unit for type T,
	// repeated; overlapping keys allowed (the Go map's iteration order then shows)
	Unit []Static `json:"unit,omitempty"`
	Short bool   `json:"short,omitempty"` // use FromField/ToField/MapFields for one-element paths
	Note  string `json:"note,omitempty"`  // generator's description of the pattern (not used by Run)
}

// the case with every path spelled the way the walkers resolve it (promoted fields through their embedded
// fields): what the reference and the overlap oracle work on
func (c *Case) expanded() *Case {
	x := *c
	x.Decls = make([]Decl, len(c.Decls))
	for i, d := range c.Decls {
		x.Decls[i] = d
		x.Decls[i].Maps = make([]Mapping, len(d.Maps))
		for j, m := range d.Maps {
			x.Decls[i].Maps[j] = Mapping{From: expandPath(d.S, m.From), To: expandPath(c.T, m.To)}
		}
	}
	x.Statics = make([]Static, len(c.Statics))
	for i, s := range c.Statics {
		x.Statics[i] = Static{To: expandPath(c.T, s.To), Val: s.Val}
	}
	x.Unit = make([]Static, len(c.Unit))
	for i, s := range c.Unit {
		x.Unit[i] = Static{To: expandPath(c.T, s.To), Val: s.Val}
	}
	return &x
}

func (d *Decl) val2() *V {
	if d.Val2 != nil {
		return d.Val2
	}
	return d.Val
}

// is there a second request on the same compiled runnables
func (c *Case) second() bool {
	for i := range c.Decls {
		if c.Decls[i].Val2 != nil {
			return true
		}
	}
	return false
}

func (c *Case) vals2() []*V {
	out := make([]*V, len(c.Decls))
	for i := range c.Decls {
		out[i] = c.Decls[i].val2()
	}
	return out
}

func (d *Decl) chunks() []*V {
	if len(d.Chunks) == 0 {
		return []*V{d.Val}
	}
	return d.Chunks
}

// ------------------------------------------------------------------ typed handles

// every top-level source / target type needs a static instantiation of the generic API
type wfAPI interface {
	AddLambdaNode(key string, lambda *compose.Lambda, opts ...compose.GraphAddNodeOpt) *compose.WorkflowNode
	AddGraphNode(key string, graph compose.AnyGraph, opts ...compose.GraphAddNodeOpt) *compose.WorkflowNode
	End() *compose.WorkflowNode
}

// reqs[r] = what the node produces in request r of the compiled runnable (one value, or the chunks it streams);
// *cur = the request being served (requests are issued one after the other)
type srcHandle interface {
	lambda(reqs [][]reflect.Value, cur *int) *compose.Lambda
}
type srcOf[S any] struct{}

// a workflow input Outer{N: reqMark + r} tells the source lambdas to produce the values of request r (used by the
// concurrent requests, which cannot share the variable *cur; generated ints are far below)
const reqMark = 1 << 40

func (srcOf[S]) lambda(reqs [][]reflect.Value, cur *int) *compose.Lambda {
	arrs := make([][]S, len(reqs))
	single := true
	for r, vals := range reqs {
		arrs[r] = make([]S, len(vals))
		for i, v := range vals {
			arrs[r][i], _ = v.Interface().(S) // a nil interface value (S = any) stays the nil S
		}
		if len(vals) != 1 {
			single = false
		}
	}
	// which request is being served: *cur, or — for concurrent requests with different data — what the workflow's input says
	pick := func(in Outer) int {
		if k := in.N - reqMark; k >= 0 && k < len(arrs) {
			return k
		}
		return *cur
	}
	if single {
		return compose.InvokableLambda(func(ctx context.Context, in Outer) (S, error) { return arrs[pick(in)][0], nil })
	}
	return compose.StreamableLambda(func(ctx context.Context, in Outer) (*schema.StreamReader[S], error) {
		cp := make([]S, len(arrs[pick(in)]))
		copy(cp, arrs[pick(in)])
		return schema.StreamReaderFromArray(cp), nil
	})
}

// every workflow takes an Outer as its input: a declaration of source type Outer may come from START itself
type runFns struct {
	invoke func(in Outer) (reflect.Value, error)
	stream func(in Outer) ([]reflect.Value, error)
	// the other two entries of the compiled runnable: the workflow's input arrives as a stream (one chunk)
	collect   func(in Outer) (reflect.Value, error)
	transform func(in Outer) ([]reflect.Value, error)
}

type tgtHandle interface {
	// mid: the successor of the mappings is a middle node (a stream-transparent identity lambda of
	// type T whose output goes to END by a plain edge) instead of END itself
	// inv: the middle node is an ordinary (invokable) node: in Stream execution the engine concatenates the
	// converted chunks into one input value before it calls the node
	build(mid, inv, sub bool, add func(wf wfAPI, succ *compose.WorkflowNode)) (*runFns, error)
	// the successor is a lambda T -> T behind the input key "k" (WithInputKey): its mapped input is a map[string]any
	buildKeyed(inv bool, add func(wf wfAPI, succ *compose.WorkflowNode)) (*runFns, error)
	// a second successor of the same predecessors: a stream-transparent consumer of type T that records every
	// (converted) chunk it is handed and produces an int
	tap(rec func(reflect.Value)) *compose.Lambda
}
type tgtOf[T any] struct{}

func (tgtOf[T]) tap(rec func(reflect.Value)) *compose.Lambda {
	return compose.TransformableLambda(func(ctx context.Context, in *schema.StreamReader[T]) (*schema.StreamReader[int], error) {
		defer in.Close()
		for {
			c, err := in.Recv()
			if errors.Is(err, io.EOF) {
				return schema.StreamReaderFromArray([]int{0}), nil
			}
			if err != nil {
				return nil, err
			}
			rv := reflect.New(reflect.TypeOf((*T)(nil)).Elem()).Elem()
			rv.Set(reflect.ValueOf(&c).Elem())
			rec(rv)
		}
	})
}

func (tgtOf[T]) build(mid, inv, sub bool, add func(wf wfAPI, succ *compose.WorkflowNode)) (*runFns, error) {
	ctx := context.Background()
	wf := compose.NewWorkflow[Outer, T]()
	if mid && sub && !inv {
		g := compose.NewGraph[T, T]()
		_ = g.AddLambdaNode("id", compose.TransformableLambda(func(ctx context.Context, in *schema.StreamReader[T]) (*schema.StreamReader[T], error) {
			return in, nil
		}))
		_ = g.AddEdge(compose.START, "id")
		_ = g.AddEdge("id", compose.END)
		succ := wf.AddGraphNode("mid", g)
		add(wf, succ)
		wf.End().AddInput("mid")
	} else if mid && inv {
		succ := wf.AddLambdaNode("mid", compose.InvokableLambda(func(ctx context.Context, in T) (T, error) {
			return in, nil
		}))
		add(wf, succ)
		wf.End().AddInput("mid")
	} else if mid {
		succ := wf.AddLambdaNode("mid", compose.TransformableLambda(func(ctx context.Context, in *schema.StreamReader[T]) (*schema.StreamReader[T], error) {
			return in, nil
		}))
		add(wf, succ)
		wf.End().AddInput("mid")
	} else {
		add(wf, wf.End())
	}
	r, err := wf.Compile(ctx)
	if err != nil {
		return nil, err
	}
	box := func(out *T) reflect.Value {
		rv := reflect.New(reflect.TypeOf((*T)(nil)).Elem()).Elem()
		rv.Set(reflect.ValueOf(out).Elem())
		return rv
	}
	return fnsOf(ctx, r, box), nil
}

const inputKey = "k"

func (tgtOf[T]) buildKeyed(inv bool, add func(wf wfAPI, succ *compose.WorkflowNode)) (*runFns, error) {
	ctx := context.Background()
	wf := compose.NewWorkflow[Outer, T]()
	var succ *compose.WorkflowNode
	if inv {
		succ = wf.AddLambdaNode("mid", compose.InvokableLambda(func(ctx context.Context, in T) (T, error) {
			return in, nil
		}), compose.WithInputKey(inputKey))
	} else {
		succ = wf.AddLambdaNode("mid", compose.TransformableLambda(func(ctx context.Context, in *schema.StreamReader[T]) (*schema.StreamReader[T], error) {
			return in, nil
		}), compose.WithInputKey(inputKey))
	}
	add(wf, succ)
	wf.End().AddInput("mid")
	r, err := wf.Compile(ctx)
	if err != nil {
		return nil, err
	}
	// what the node was handed, reported as the entry of the map that arrived at it
	box := func(out *T) reflect.Value {
		rv := reflect.New(reflect.TypeOf((*map[string]any)(nil)).Elem()).Elem()
		rv.Set(reflect.ValueOf(map[string]any{inputKey: *out}))
		return rv
	}
	return fnsOf(ctx, r, box), nil
}

func fnsOf[T any](ctx context.Context, r compose.Runnable[Outer, T], box func(out *T) reflect.Value) *runFns {
	drain := func(sr *schema.StreamReader[T]) ([]reflect.Value, error) {
		defer sr.Close()
		var outs []reflect.Value
		for {
			c, err := sr.Recv()
			if errors.Is(err, io.EOF) {
				return outs, nil
			}
			if err != nil {
				return nil, err
			}
			outs = append(outs, box(&c))
		}
	}
	return &runFns{
		invoke: func(in Outer) (reflect.Value, error) {
			out, err := r.Invoke(ctx, in)
			if err != nil {
				return reflect.Value{}, err
			}
			return box(&out), nil
		},
		stream: func(in Outer) ([]reflect.Value, error) {
			sr, err := r.Stream(ctx, in)
			if err != nil {
				return nil, err
			}
			return drain(sr)
		},
		collect: func(in Outer) (reflect.Value, error) {
			out, err := r.Collect(ctx, schema.StreamReaderFromArray([]Outer{in}))
			if err != nil {
				return reflect.Value{}, err
			}
			return box(&out), nil
		},
		transform: func(in Outer) ([]reflect.Value, error) {
			sr, err := r.Transform(ctx, schema.StreamReaderFromArray([]Outer{in}))
			if err != nil {
				return nil, err
			}
			return drain(sr)
		},
	}
}

var srcHandles = map[string]srcHandle{
	"Outer":                     srcOf[Outer]{},
	"*Outer":                    srcOf[*Outer]{},
	"Inner":                     srcOf[Inner]{},
	"*Inner":                    srcOf[*Inner]{},
	"**Inner":                   srcOf[**Inner]{},
	"Leaf":                      srcOf[Leaf]{},
	"*Leaf":                     srcOf[*Leaf]{},
	"map[string]any":            srcOf[map[string]any]{},
	"map[string]Inner":          srcOf[map[string]Inner]{},
	"map[string]*Inner":         srcOf[map[string]*Inner]{},
	"map[string]Leaf":           srcOf[map[string]Leaf]{},
	"map[string]int":            srcOf[map[string]int]{},
	"map[string]string":         srcOf[map[string]string]{},
	"map[int]string":            srcOf[map[int]string]{},
	"int":                       srcOf[int]{},
	"string":                    srcOf[string]{},
	"map[string]map[string]any": srcOf[map[string]map[string]any]{},
	"*any":                      srcOf[*any]{},
	"any":                       srcOf[any]{},
	"Emb":                       srcOf[Emb]{},
	"*Emb":                      srcOf[*Emb]{},
	"map[string]Emb":            srcOf[map[string]Emb]{},
	"Emb2":                      srcOf[Emb2]{},
	"*Emb2":                     srcOf[*Emb2]{},
	"*map[string]string":        srcOf[*map[string]string]{},
	"map[string]*map[string]string": srcOf[map[string]*map[string]string]{},
	// opaque leaf types (arrays, slices): direct oracle only, not in the model's universe
	"map[string][2]int":  srcOf[map[string][2]int]{},
	"map[string]*[2]int": srcOf[map[string]*[2]int]{},
	"map[string][]int":   srcOf[map[string][]int]{},
}

var tgtHandles = map[string]tgtHandle{
	"Outer":                     tgtOf[Outer]{},
	"*Outer":                    tgtOf[*Outer]{},
	"**Outer":                   tgtOf[**Outer]{},
	"Inner":                     tgtOf[Inner]{},
	"*Inner":                    tgtOf[*Inner]{},
	"Leaf":                      tgtOf[Leaf]{},
	"*Leaf":                     tgtOf[*Leaf]{},
	"any":                       tgtOf[any]{},
	"map[string]any":            tgtOf[map[string]any]{},
	"map[string]Inner":          tgtOf[map[string]Inner]{},
	"map[string]*Inner":         tgtOf[map[string]*Inner]{},
	"map[string]Leaf":           tgtOf[map[string]Leaf]{},
	"map[string]int":            tgtOf[map[string]int]{},
	"map[string]string":         tgtOf[map[string]string]{},
	"map[int]string":            tgtOf[map[int]string]{},
	"int":                       tgtOf[int]{},
	"string":                    tgtOf[string]{},
	"map[string]map[string]any": tgtOf[map[string]map[string]any]{},
	"*any":                      tgtOf[*any]{},
	"map[string]Outer":          tgtOf[map[string]Outer]{},
	"Emb":                       tgtOf[Emb]{},
	"*Emb":                      tgtOf[*Emb]{},
	"map[string]Emb":            tgtOf[map[string]Emb]{},
	"map[string]*Emb":           tgtOf[map[string]*Emb]{},
	"EmbU":                      tgtOf[EmbU]{},
	"Emb2":                      tgtOf[Emb2]{},
	"*Emb2":                     tgtOf[*Emb2]{},
	"map[string]Emb2":           tgtOf[map[string]Emb2]{},
	"*map[string]string":        tgtOf[*map[string]string]{},
	"map[string]*map[string]string": tgtOf[map[string]*map[string]string]{},
	"[2]int":                    tgtOf[[2]int]{},
	"*[2]int":                   tgtOf[*[2]int]{},
	"[]int":                     tgtOf[[]int]{},
	"map[string][2]int":         tgtOf[map[string][2]int]{},
	"map[string]*[2]int":        tgtOf[map[string]*[2]int]{},
}

// the Go value of a static value: an `any` holding the value of its dynamic type (invalid = nil)
func staticValue(v *V) reflect.Value {
	if v.K == "nil" {
		return reflect.Value{}
	}
	return build(v, goType(v.dynType()))
}

func fieldMapping(m Mapping, short bool) *compose.FieldMapping {
	from, to := compose.FieldPath(m.From), compose.FieldPath(m.To)
	switch {
	case len(from) == 0 && len(to) == 0:
		// not expressible as a single call; ToFieldPath of the empty path gives the same from="" to=""
		return compose.ToFieldPath(compose.FieldPath{})
	case len(from) == 0:
		if short && len(to) == 1 {
			return compose.ToField(to[0])
		}
		return compose.ToFieldPath(to)
	case len(to) == 0:
		if short && len(from) == 1 {
			return compose.FromField(from[0])
		}
		return compose.FromFieldPath(from)
	}
	if short && len(from) == 1 && len(to) == 1 {
		return compose.MapFields(from[0], to[0])
	}
	return compose.MapFieldPaths(from, to)
}

// ------------------------------------------------------------------ one execution

// the source values of one declaration (the last entry: the static values) in one compiled workflow
// inv / twin: the values of the first request and their pristine twins; inv2 / twin2: of the second (same runnable)
type built struct{ inv, twin, inv2, twin2 []reflect.Value }

func (b built) all() []reflect.Value { return append(append([]reflect.Value(nil), b.inv...), b.inv2...) }

type outcome struct {
	Compile string   `json:"compile"` // accept | overlap | static | other | panic
	CompMsg string   `json:"compile_msg,omitempty"`
	Invoke  string   `json:"invoke"` // none | ok | err | panic | hang
	InvVal  *V       `json:"invoke_val,omitempty"`
	InvMsg  string   `json:"invoke_msg,omitempty"`
	Stream  string   `json:"stream"` // none | ok | err | panic | hang
	StrVals []*V     `json:"stream_vals,omitempty"`
	StrMsg  string   `json:"stream_msg,omitempty"`
	SrcMod  []string `json:"source_modified,omitempty"`
	// Collect on the Invoke runnable and Transform on the Stream runnable (the workflow's input as a one-chunk
	// stream), rendered like outcome.key does: must be what Invoke / Stream gave
	Collect   string `json:"collect,omitempty"`
	ColMsg    string `json:"collect_msg,omitempty"`
	ColVal    *V     `json:"collect_val,omitempty"`
	Transform string `json:"transform,omitempty"`
	// the second request on the same compiled runnables (cases with a Val2): "" = not run
	Invoke2  string `json:"invoke2,omitempty"`
	InvVal2  *V     `json:"invoke2_val,omitempty"`
	InvMsg2  string `json:"invoke2_msg,omitempty"`
	Stream2  string `json:"stream2,omitempty"`
	StrVals2 []*V   `json:"stream2_vals,omitempty"`
	StrMsg2  string `json:"stream2_msg,omitempty"`
	// the FIRST request once more on the same compiled runnable, after the consumer of the earlier results used them as
	// scratch space (scribble): "" = not run
	Rerun    string `json:"rerun,omitempty"`
	RerunVal *V     `json:"rerun_val,omitempty"`
	RerunMsg string `json:"rerun_msg,omitempty"`
	// concurrent first requests on a freshly compiled runnable (execution 0 only; not part of key()): "" = not run or
	// every call gave what the sequential Invoke gave and no call saw what the consumer of another did to its result
	Burst string `json:"burst,omitempty"`
	// a SECOND successor of the same predecessors (execution 1 only; not part of key()): a workflow compiled with one more
	// node "tap" of type T that takes, from every predecessor, the LAST mapping of the declaration only (a sub-set of an
	// accepted set, which Compile need not accept: "compile"); what the tap was handed in Invoke / Stream, and what the first successor got beside it
	TapInv     string `json:"tap_invoke,omitempty"` // "" (not run) | ok | err | panic | hang | compile
	TapInvVals []*V   `json:"tap_invoke_vals,omitempty"`
	TapMainInv string `json:"tap_main_invoke,omitempty"`
	TapStr     string `json:"tap_stream,omitempty"`
	TapStrVals []*V   `json:"tap_stream_vals,omitempty"`
	TapMainStr string `json:"tap_main_stream,omitempty"`
	TapMsg     string `json:"tap_msg,omitempty"`
	// Stream with an ordinary (invokable) successor node: the concatenation of the converted chunks
	Concat string `json:"concat,omitempty"` // "" (not run) | ok | err | panic | hang
	ConVal *V     `json:"concat_val,omitempty"`
	ConMsg string `json:"concat_msg,omitempty"`
}

func classifyCompileErr(err error) string {
	msg := err.Error()
	switch {
	case strings.Contains(msg, "field paths conflict"),
		strings.Contains(msg, "has already been mapped"),
		strings.Contains(msg, "have already been mapped"),
		strings.Contains(msg, "duplicate mapping target"):
		return "overlap"
	case strings.Contains(msg, "static check"),
		strings.Contains(msg, "invalid field mappings"),
		strings.Contains(msg, "mismatch"):
		return "static"
	}
	return "other"
}

func firstLine(s string) string {
	if i := strings.IndexByte(s, '\n'); i >= 0 {
		s = s[:i]
	}
	if len(s) > 200 {
		s = s[:200]
	}
	return s
}

func withWatchdog(f func()) (p any, hung bool) {
	done := make(chan any, 1)
	go func() { done <- lib.Recover(f) }()
	select {
	case p = <-done:
		return p, false
	case <-time.After(60 * time.Second): // generous: the machine may be heavily loaded; a run takes well under a millisecond
		return nil, true
	}
}

// canonical multiset of chunk renders
func sortVs(vs []*V) []*V {
	out := append([]*V(nil), vs...)
	for i := 1; i < len(out); i++ {
		for j := i; j > 0 && out[j].String() < out[j-1].String(); j-- {
			out[j], out[j-1] = out[j-1], out[j]
		}
	}
	return out
}

func execute(c *Case, rep int) *outcome {
	o := &outcome{Invoke: "none", Stream: "none"}
	th, ok := tgtHandles[c.T]
	if !ok {
		panic("no target handle for " + c.T)
	}
	// fresh source values for every execution, and a pristine twin for the "source unmodified" oracle
	// inv / twin: the values of the first request; inv2 / twin2: of the second (same runnable)
	// (a keyed successor is built by the handle of its own type; T stays what arrives at it)
	bld := func(mid, inv, sub bool, add func(wf wfAPI, succ *compose.WorkflowNode)) (*runFns, error) {
		if c.KeyT != "" {
			return tgtHandles[c.KeyT].buildKeyed(inv, add)
		}
		return th.build(mid, inv, sub, add)
	}
	cur := new(int) // the request being served
	var tapMu sync.Mutex
	var tapRec []reflect.Value
	withTap := false // the next add() also declares the second successor
	mk := func(streaming bool) ([]built, func(wf wfAPI, succ *compose.WorkflowNode)) {
		bs := make([]built, len(c.Decls)+1)
		for _, s := range c.Statics {
			// the static values (and pristine twins) are the last "declaration" of the source-unmodified oracle
			k := len(c.Decls)
			bs[k].inv = append(bs[k].inv, staticValue(s.Val))
			bs[k].twin = append(bs[k].twin, staticValue(s.Val))
		}
		for i := range c.Decls {
			d := &c.Decls[i]
			st := goType(d.S)
			vs := []*V{d.Val}
			if streaming {
				vs = d.chunks()
			}
			for _, v := range vs {
				bs[i].inv = append(bs[i].inv, build(v, st))
				bs[i].twin = append(bs[i].twin, build(v, st))
			}
			if c.second() {
				bs[i].inv2 = []reflect.Value{build(d.val2(), st)}
				bs[i].twin2 = []reflect.Value{build(d.val2(), st)}
			}
		}
		add := func(wf wfAPI, succ *compose.WorkflowNode) {
			for i := range c.Decls {
				sh, ok := srcHandles[c.Decls[i].S]
				if !ok {
					panic("no source handle for " + c.Decls[i].S)
				}
				if c.Decls[i].FromStart {
					continue
				}
				reqs := [][]reflect.Value{bs[i].inv}
				if c.second() {
					reqs = append(reqs, bs[i].inv2)
				}
				wf.AddLambdaNode(fmt.Sprintf("n%d", i), sh.lambda(reqs, cur)).AddInput(compose.START)
			}
			for i := range c.Decls {
				var fms []*compose.FieldMapping
				for _, m := range c.Decls[i].Maps {
					fms = append(fms, fieldMapping(m, c.Short))
				}
				if c.Decls[i].FromStart {
					succ.AddInput(compose.START, fms...)
				} else if c.Decls[i].Indirect {
					// control: n_i -> relay_i -> successor; data: n_i -> successor without direct dependency
					relay := fmt.Sprintf("relay%d", i)
					wf.AddLambdaNode(relay, compose.InvokableLambda(func(ctx context.Context, in Outer) (int, error) { return 0, nil })).
						AddDependency(fmt.Sprintf("n%d", i)).AddInput(compose.START)
					succ.AddDependency(relay)
					succ.AddInputWithOptions(fmt.Sprintf("n%d", i), fms, compose.WithNoDirectDependency())
				} else {
					succ.AddInput(fmt.Sprintf("n%d", i), fms...)
				}
			}
			if withTap {
				tap := wf.AddLambdaNode("tap", th.tap(func(v reflect.Value) {
					tapMu.Lock()
					tapRec = append(tapRec, v)
					tapMu.Unlock()
				}))
				for i, ms := range tapMaps(c) {
					var fms []*compose.FieldMapping
					for _, m := range ms {
						fms = append(fms, fieldMapping(m, c.Short))
					}
					if c.Decls[i].FromStart {
						tap.AddInput(compose.START, fms...)
					} else {
						tap.AddInput(fmt.Sprintf("n%d", i), fms...)
					}
				}
				wf.End().AddDependency("tap")
			}
			if len(c.Decls) == 0 {
				// the successor's input consists of static values only: it still needs a control predecessor
				wf.AddLambdaNode("dep", compose.InvokableLambda(func(ctx context.Context, in Outer) (int, error) { return 0, nil })).AddInput(compose.START)
				succ.AddDependency("dep")
			}
			for j, s := range c.Statics {
				var v any
				if sv := bs[len(c.Decls)].inv[j]; sv.IsValid() {
					v = sv.Interface()
				}
				succ.SetStaticValue(compose.FieldPath(s.To), v)
			}
		}
		return bs, add
	}
	startVal := func(bs []built) Outer {
		for i := range c.Decls {
			if c.Decls[i].FromStart {
				if *cur == 1 {
					return bs[i].inv2[0].Interface().(Outer)
				}
				return bs[i].inv[0].Interface().(Outer)
			}
		}
		return Outer{}
	}
	checkSrc := func(bs []built, what string) {
		for i, b := range bs {
			for j := range b.inv {
				if !b.inv[j].IsValid() {
					continue
				}
				if !reflect.DeepEqual(b.inv[j].Interface(), b.twin[j].Interface()) {
					o.SrcMod = append(o.SrcMod, fmt.Sprintf("%s: decl %d value %d", what, i, j))
				}
			}
			for j := range b.inv2 {
				if b.inv2[j].IsValid() && !reflect.DeepEqual(b.inv2[j].Interface(), b.twin2[j].Interface()) {
					o.SrcMod = append(o.SrcMod, fmt.Sprintf("%s: decl %d value of the second request", what, i))
				}
			}
		}
	}

	// --- compile + Invoke
	bsI, addI := mk(false)
	var fns *runFns
	var cerr error
	if p, hung := withWatchdog(func() { fns, cerr = bld(c.Mid, false, c.MidGraph, addI) }); p != nil || hung {
		o.Compile, o.CompMsg = "panic", firstLine(fmt.Sprint(p))
		return o
	}
	if cerr != nil {
		o.Compile, o.CompMsg = classifyCompileErr(cerr), firstLine(cerr.Error())
		return o
	}
	o.Compile = "accept"
	var rv reflect.Value
	var rerr error
	p, hung := withWatchdog(func() { rv, rerr = fns.invoke(startVal(bsI)) })
	switch {
	case hung:
		o.Invoke = "hang"
	case p != nil:
		o.Invoke, o.InvMsg = "panic", firstLine(fmt.Sprint(p))
	case rerr != nil:
		o.Invoke, o.InvMsg = "err", firstLine(strings.ReplaceAll(rerr.Error(), "\n", " | "))
	default:
		o.Invoke, o.InvVal = "ok", render(rv)
		if !o.InvVal.knownSyms() {
			o.Invoke, o.InvMsg, o.InvVal = "garbage", "result with keys outside the case: "+o.InvVal.String(), nil
		}
		// the successor owns its input: everything in it that is not part of a predecessor's output / a static
		// value is used as scratch space before the next request
		scribbleResult(rv, sharedOf(bsI))
	}
	hung1 := hung
	if c.second() && !hung {
		// the second request, served by the same compiled runnable
		*cur = 1
		p, hung := withWatchdog(func() { rv, rerr = fns.invoke(startVal(bsI)) })
		switch {
		case hung:
			o.Invoke2 = "hang"
		case p != nil:
			o.Invoke2, o.InvMsg2 = "panic", firstLine(fmt.Sprint(p))
		case rerr != nil:
			o.Invoke2, o.InvMsg2 = "err", firstLine(strings.ReplaceAll(rerr.Error(), "\n", " | "))
		default:
			o.Invoke2, o.InvVal2 = "ok", render(rv)
			if !o.InvVal2.knownSyms() {
				o.Invoke2, o.InvMsg2, o.InvVal2 = "garbage", "result with keys outside the case: "+o.InvVal2.String(), nil
			}
			scribbleResult(rv, sharedOf(bsI))
		}
		*cur = 0
		hung1 = hung1 || hung
	}
	if !hung1 && (o.Invoke == "ok" || o.Invoke == "err") {
		// the first request once more, on the same runnable: what it yields depends on its inputs alone
		p, hung := withWatchdog(func() { rv, rerr = fns.invoke(startVal(bsI)) })
		switch {
		case hung:
			o.Rerun = "hang"
		case p != nil:
			o.Rerun, o.RerunMsg = "panic", firstLine(fmt.Sprint(p))
		case rerr != nil:
			o.Rerun, o.RerunMsg = "err", firstLine(strings.ReplaceAll(rerr.Error(), "\n", " | "))
		default:
			o.Rerun, o.RerunVal = "ok", render(rv)
		}
	}
	checkSrc(bsI, "invoke")
	if rep == 0 && !hung1 && (o.Invoke == "ok" || o.Invoke == "err") {
		// concurrent first requests on a freshly compiled runnable: each gives what the sequential Invoke gave, and
		// what the consumer of one result does to it does not show in the others
		bsB, addB := mk(false)
		var fnsB *runFns
		if p, hung := withWatchdog(func() { fnsB, cerr = bld(c.Mid, false, c.MidGraph, addB) }); p != nil || hung || cerr != nil {
			o.Burst = "compile for the concurrent requests differs: " + firstLine(fmt.Sprint(p, cerr))
		} else {
			const nb = 4
			type one struct {
				rv  reflect.Value
				err error
				p   any
			}
			res := make([]one, nb)
			in := startVal(bsB)
			// with a second request and no declaration fed by START the odd calls serve the SECOND request's values:
			// concurrent requests with different data on one runnable
			mixed := c.second() && (o.Invoke2 == "ok" || o.Invoke2 == "err")
			for i := range c.Decls {
				mixed = mixed && !c.Decls[i].FromStart
			}
			inOf := func(k int) Outer {
				if mixed {
					return Outer{N: reqMark + k%2}
				}
				return in
			}
			round := func() bool {
				_, hung := withWatchdog(func() {
					start := make(chan struct{})
					var wg sync.WaitGroup
					for k := 0; k < nb; k++ {
						wg.Add(1)
						go func(k int) {
							defer wg.Done()
							<-start
							res[k].p = lib.Recover(func() { res[k].rv, res[k].err = fnsB.invoke(inOf(k)) })
						}(k)
					}
					close(start)
					wg.Wait()
				})
				return hung
			}
			hung := round()
			if !hung {
				want0 := o.Invoke
				if o.InvVal != nil {
					want0 += "=" + o.InvVal.String()
				}
				want1 := o.Invoke2
				if o.InvVal2 != nil {
					want1 += "=" + o.InvVal2.String()
				}
				wantOf := func(k int) string {
					if mixed && k%2 == 1 {
						return want1
					}
					return want0
				}
				show := func(r one) string {
					switch {
					case r.p != nil:
						return "panic " + firstLine(fmt.Sprint(r.p))
					case r.err != nil:
						return "err"
					}
					return "ok=" + render(r.rv).String()
				}
				// (with different data in flight the interleaving matters: a few more rounds on the same runnable)
				rounds := 1
				if mixed {
					rounds = 30
				}
				for r := 0; r < rounds && o.Burst == "" && !hung; r++ {
					if r > 0 {
						hung = round()
					}
					for k := range res {
						if got := show(res[k]); got != wantOf(k) && o.Burst == "" && !hung {
							o.Burst = fmt.Sprintf("call %d of %d concurrent requests (round %d, different data: %v) gave %s, the sequential request %s", k, nb, r, mixed, got, wantOf(k))
						}
					}
				}
				if o.Burst == "" && o.Invoke == "ok" {
					scribbleResult(res[0].rv, sharedOf(bsB))
					for k := 1; k < nb; k++ {
						if got := show(res[k]); got != wantOf(k) {
							o.Burst = fmt.Sprintf("after the consumer of call 0 modified its input, the input handed over by the concurrent call %d reads %s (was %s)", k, got, wantOf(k))
							break
						}
					}
				}
				// the same in streaming execution (the stream form of an edge handler is built once per compiled edge and
				// serves every request): what each of the two requests streams when it is alone on the runnable, then
				// 4 concurrent Streams, two of each
				if mixed && o.Burst == "" && !hung {
					showS := func(in Outer) string {
						var rvs []reflect.Value
						var err error
						if p := lib.Recover(func() { rvs, err = fnsB.stream(in) }); p != nil {
							return "panic " + firstLine(fmt.Sprint(p))
						}
						if err != nil {
							return "err"
						}
						var vs []*V
						for _, v := range rvs {
							vs = append(vs, render(v))
						}
						out := "ok"
						for _, v := range sortVs(vs) {
							out += ";" + v.String()
						}
						return out
					}
					var seq [2]string
					got := make([]string, nb)
					_, hungS := withWatchdog(func() {
						seq[0], seq[1] = showS(inOf(0)), showS(inOf(1))
						for r := 0; r < 30 && o.Burst == ""; r++ {
							start := make(chan struct{})
							var wg sync.WaitGroup
							for k := 0; k < nb; k++ {
								wg.Add(1)
								go func(k int) {
									defer wg.Done()
									<-start
									got[k] = showS(inOf(k))
								}(k)
							}
							close(start)
							wg.Wait()
							for k := range got {
								if got[k] != seq[k%2] && o.Burst == "" {
									o.Burst = fmt.Sprintf("call %d of %d concurrent Streams with different data (round %d) gave %s, alone on the runnable %s", k, nb, r, got[k], seq[k%2])
								}
							}
						}
					})
					_ = hungS
				}
				checkSrc(bsB, "concurrent invoke")
			}
		}
	}

	if rep == 1 && len(c.Decls) > 0 && !hung1 && o.Invoke == "ok" {
		// a second successor of the same predecessors, with mappings of its own
		renderAll := func(vs []reflect.Value) []*V {
			var out []*V
			for _, v := range vs {
				out = append(out, render(v))
			}
			return sortVs(out)
		}
		withTap = true
		bsT, addT := mk(false)
		var fnsT *runFns
		p, hung := withWatchdog(func() { fnsT, cerr = bld(c.Mid, false, c.MidGraph, addT) })
		withTap = false
		if p != nil || hung || cerr != nil {
			o.TapInv, o.TapMsg = "compile", firstLine(fmt.Sprint(p, cerr))
		} else {
			tapRec = nil
			p, hung := withWatchdog(func() { rv, rerr = fnsT.invoke(startVal(bsT)) })
			switch {
			case hung:
				o.TapInv = "hang"
			case p != nil:
				o.TapInv, o.TapMsg = "panic", firstLine(fmt.Sprint(p))
			case rerr != nil:
				o.TapInv, o.TapMsg = "err", firstLine(strings.ReplaceAll(rerr.Error(), "\n", " | "))
			default:
				tapMu.Lock()
				o.TapInv, o.TapInvVals, o.TapMainInv = "ok", renderAll(tapRec), "ok="+render(rv).String()
				tapMu.Unlock()
			}
			checkSrc(bsT, "invoke with a second successor")
			if o.TapInv == "ok" && o.Stream != "" {
				withTap = true
				bsU, addU := mk(true)
				var fnsU *runFns
				p, hung := withWatchdog(func() { fnsU, cerr = bld(c.Mid, false, c.MidGraph, addU) })
				withTap = false
				if p != nil || hung || cerr != nil {
					o.TapStr, o.TapMsg = "compile", firstLine(fmt.Sprint(p, cerr))
				} else {
					tapMu.Lock()
					tapRec = nil
					tapMu.Unlock()
					var rvs []reflect.Value
					p, hung := withWatchdog(func() { rvs, rerr = fnsU.stream(startVal(bsU)) })
					switch {
					case hung:
						o.TapStr = "hang"
					case p != nil:
						o.TapStr, o.TapMsg = "panic", firstLine(fmt.Sprint(p))
					case rerr != nil:
						o.TapStr, o.TapMsg = "err", firstLine(strings.ReplaceAll(rerr.Error(), "\n", " | "))
					default:
						tapMu.Lock()
						o.TapStr, o.TapStrVals = "ok", renderAll(tapRec)
						tapMu.Unlock()
						o.TapMainStr = "ok"
						for _, v := range renderAll(rvs) {
							o.TapMainStr += ";" + v.String()
						}
					}
					checkSrc(bsU, "stream with a second successor")
				}
			}
		}
	}

	// --- Stream on a separately compiled workflow (sources stream their chunks)
	bsS, addS := mk(true)
	var fnsS *runFns
	if p, hung := withWatchdog(func() { fnsS, cerr = bld(c.Mid, false, c.MidGraph, addS) }); p != nil || hung || cerr != nil {
		o.Stream, o.StrMsg = "panic", "second compile differs: "+firstLine(fmt.Sprint(p, cerr))
		return o
	}
	var rvs []reflect.Value
	p, hung = withWatchdog(func() { rvs, rerr = fnsS.stream(startVal(bsS)) })
	switch {
	case hung:
		o.Stream = "hang"
	case p != nil:
		o.Stream, o.StrMsg = "panic", firstLine(fmt.Sprint(p))
	case rerr != nil:
		o.Stream, o.StrMsg = "err", firstLine(strings.ReplaceAll(rerr.Error(), "\n", " | "))
	default:
		o.Stream = "ok"
		for _, v := range rvs {
			o.StrVals = append(o.StrVals, render(v))
		}
		o.StrVals = sortVs(o.StrVals)
		for _, v := range o.StrVals {
			if !v.knownSyms() {
				o.Stream, o.StrMsg, o.StrVals = "garbage", "chunk with keys outside the case: "+v.String(), nil
				break
			}
		}
		// the consumer of the chunks uses them as scratch space: Collect, Transform and the second Stream on the same
		// runnable must not see that
		shared := sharedOf(bsS)
		for _, v := range rvs {
			scribbleResult(v, shared)
		}
	}
	if !hung {
		var cv reflect.Value
		var cerr2 error
		p, hung := withWatchdog(func() { cv, cerr2 = fnsS.collect(startVal(bsS)) })
		switch {
		case hung:
			o.Collect = "hang"
		case p != nil:
			o.Collect = "panic"
		case cerr2 != nil:
			o.Collect, o.ColMsg = "err", firstLine(strings.ReplaceAll(cerr2.Error(), "\n", " | "))
		default:
			o.Collect, o.ColVal = "ok", render(cv)
		}
	}
	if !hung {
		var tvs []reflect.Value
		var terr error
		p, hung := withWatchdog(func() { tvs, terr = fnsS.transform(startVal(bsS)) })
		switch {
		case hung:
			o.Transform = "hang"
		case p != nil:
			o.Transform = "panic"
		case terr != nil:
			o.Transform = "err"
		default:
			var vs []*V
			for _, v := range tvs {
				vs = append(vs, render(v))
			}
			o.Transform = "ok"
			for _, v := range sortVs(vs) {
				o.Transform += ";" + v.String()
			}
		}
	}
	if c.second() && !hung {
		*cur = 1
		p, hung := withWatchdog(func() { rvs, rerr = fnsS.stream(startVal(bsS)) })
		switch {
		case hung:
			o.Stream2 = "hang"
		case p != nil:
			o.Stream2, o.StrMsg2 = "panic", firstLine(fmt.Sprint(p))
		case rerr != nil:
			o.Stream2, o.StrMsg2 = "err", firstLine(strings.ReplaceAll(rerr.Error(), "\n", " | "))
		default:
			o.Stream2 = "ok"
			for _, v := range rvs {
				o.StrVals2 = append(o.StrVals2, render(v))
			}
			o.StrVals2 = sortVs(o.StrVals2)
			for _, v := range o.StrVals2 {
				if !v.knownSyms() {
					o.Stream2, o.StrMsg2, o.StrVals2 = "garbage", "chunk with keys outside the case: "+v.String(), nil
					break
				}
			}
		}
		*cur = 0
	}
	checkSrc(bsS, "stream")

	// --- Stream into an ordinary (invokable) successor: the engine concatenates the converted chunks
	if c.Mid {
		bsC, addC := mk(true)
		var fnsC *runFns
		if p, hung := withWatchdog(func() { fnsC, cerr = bld(true, true, false, addC) }); p != nil || hung || cerr != nil {
			o.Concat, o.ConMsg = "panic", "third compile differs: "+firstLine(fmt.Sprint(p, cerr))
			return o
		}
		var rvs []reflect.Value
		p, hung = withWatchdog(func() { rvs, rerr = fnsC.stream(startVal(bsC)) })
		switch {
		case hung:
			o.Concat = "hang"
		case p != nil:
			o.Concat, o.ConMsg = "panic", firstLine(fmt.Sprint(p))
		case rerr != nil:
			o.Concat, o.ConMsg = "err", firstLine(strings.ReplaceAll(rerr.Error(), "\n", " | "))
		case len(rvs) != 1:
			o.Concat, o.ConMsg = "err", fmt.Sprintf("an invokable node produced %d chunks", len(rvs))
		default:
			o.Concat, o.ConVal = "ok", render(rvs[0])
			if !o.ConVal.knownSyms() {
				o.Concat, o.ConMsg, o.ConVal = "garbage", "result with keys outside the case: "+o.ConVal.String(), nil
			}
		}
		checkSrc(bsC, "stream-concat")
	}
	return o
}

// the mappings of the second successor ("tap"): of every declaration the last mapping only (a plain declaration stays plain)
func tapMaps(c *Case) [][]Mapping {
	out := make([][]Mapping, len(c.Decls))
	for i := range c.Decls {
		if ms := c.Decls[i].Maps; len(ms) > 0 {
			out[i] = []Mapping{ms[len(ms)-1]}
		}
	}
	return out
}

// ------------------------------------------------------------------ the successor owns its input

// a heap object: a pointer target or a map
type objKey struct {
	t reflect.Type
	p uintptr
}

func collectObjs(rv reflect.Value, set map[objKey]bool) {
	if !rv.IsValid() {
		return
	}
	switch rv.Kind() {
	case reflect.Interface:
		if !rv.IsNil() {
			collectObjs(rv.Elem(), set)
		}
	case reflect.Ptr:
		if rv.IsNil() {
			return
		}
		k := objKey{rv.Type(), rv.Pointer()}
		if set[k] {
			return
		}
		set[k] = true
		collectObjs(rv.Elem(), set)
	case reflect.Map:
		if rv.IsNil() {
			return
		}
		k := objKey{rv.Type(), rv.Pointer()}
		if set[k] {
			return
		}
		set[k] = true
		it := rv.MapRange()
		for it.Next() {
			collectObjs(it.Value(), set)
		}
	case reflect.Slice:
		if !rv.IsNil() {
			set[objKey{rv.Type(), rv.Pointer()}] = true
		}
	case reflect.Struct:
		for i := 0; i < rv.NumField(); i++ {
			collectObjs(rv.Field(i), set)
		}
	}
}

// the objects that belong to the predecessors' outputs (both requests) and to the static values: a mapped value is
// handed over as it is, so the successor's input legitimately shares them
func sharedOf(bs []built) map[objKey]bool {
	set := map[objKey]bool{}
	for _, b := range bs {
		for _, v := range b.all() {
			collectObjs(v, set)
		}
	}
	return set
}

// what a node may do to the input it was handed: every object of it that was made for this request (the pointer targets
// and maps instantiated on the way to the mapped slots) is used as scratch space — leaves changed, unmapped interface
// slots filled, one more key in every map. The predecessors' own objects are left alone.
func scribbleResult(rv reflect.Value, shared map[objKey]bool) {
	defer func() { _ = recover() }() // (a value reflection cannot write to is left as it is)
	scribble(rv, shared, map[objKey]bool{})
}

func scribbled(t reflect.Type) (reflect.Value, bool) {
	switch t.Kind() {
	case reflect.Int:
		return reflect.ValueOf(4242).Convert(t), true
	case reflect.String:
		return reflect.ValueOf("scribble").Convert(t), true
	case reflect.Interface:
		if t.NumMethod() == 0 {
			v := reflect.New(t).Elem()
			v.Set(reflect.ValueOf(4242))
			return v, true
		}
	case reflect.Struct:
		v := reflect.New(t).Elem()
		for i := 0; i < t.NumField(); i++ {
			if f := v.Field(i); f.CanSet() {
				if x, ok := scribbled(f.Type()); ok && f.Kind() != reflect.Struct {
					f.Set(x)
				}
			}
		}
		return v, true
	}
	return reflect.Zero(t), t.Kind() == reflect.Ptr || t.Kind() == reflect.Map
}

func scribble(rv reflect.Value, shared, seen map[objKey]bool) {
	if !rv.IsValid() {
		return
	}
	switch rv.Kind() {
	case reflect.Int:
		if rv.CanSet() {
			rv.SetInt(rv.Int() + 1000)
		}
	case reflect.String:
		if rv.CanSet() {
			rv.SetString(rv.String() + "~")
		}
	case reflect.Interface:
		if rv.IsNil() {
			if rv.CanSet() && rv.Type().NumMethod() == 0 {
				rv.Set(reflect.ValueOf(4242))
			}
			return
		}
		switch e := rv.Elem(); e.Kind() {
		case reflect.Int:
			if rv.CanSet() {
				rv.Set(reflect.ValueOf(int(e.Int()) + 1000).Convert(e.Type()))
			}
		case reflect.String:
			if rv.CanSet() {
				rv.Set(reflect.ValueOf(e.String() + "~").Convert(e.Type()))
			}
		default:
			scribble(e, shared, seen)
		}
	case reflect.Struct:
		for i := 0; i < rv.NumField(); i++ {
			if rv.Type().Field(i).IsExported() {
				scribble(rv.Field(i), shared, seen)
			}
		}
	case reflect.Ptr:
		if rv.IsNil() {
			return
		}
		k := objKey{rv.Type(), rv.Pointer()}
		if shared[k] || seen[k] {
			return
		}
		seen[k] = true
		scribble(rv.Elem(), shared, seen)
	case reflect.Map:
		if rv.IsNil() {
			return
		}
		k := objKey{rv.Type(), rv.Pointer()}
		if shared[k] || seen[k] {
			return
		}
		seen[k] = true
		et := rv.Type().Elem()
		for _, mk := range rv.MapKeys() {
			cp := reflect.New(et).Elem()
			cp.Set(rv.MapIndex(mk))
			scribble(cp, shared, seen)
			rv.SetMapIndex(mk, cp)
		}
		// one more key (a symbol of the table, so that the value can still be rendered)
		if x, ok := scribbled(et); ok {
			if rv.Type().Key().Kind() == reflect.String {
				for _, name := range []string{"nope", "c", "b", "a", "j", "k"} {
					kv := reflect.ValueOf(name).Convert(rv.Type().Key())
					if !rv.MapIndex(kv).IsValid() {
						rv.SetMapIndex(kv, x)
						break
					}
				}
			} else if rv.Type().Key().Kind() == reflect.Int {
				for n := 7; n < 12; n++ {
					kv := reflect.ValueOf(n).Convert(rv.Type().Key())
					if !rv.MapIndex(kv).IsValid() {
						rv.SetMapIndex(kv, x)
						break
					}
				}
			}
		}
	}
}

func (o *outcome) key() string {
	var b strings.Builder
	b.WriteString(o.Compile + "|" + o.Invoke)
	if o.InvVal != nil {
		b.WriteString("=" + o.InvVal.String())
	}
	b.WriteString("|" + o.Stream)
	for _, v := range o.StrVals {
		b.WriteString(";" + v.String())
	}
	b.WriteString("|" + o.Concat)
	if o.ConVal != nil {
		b.WriteString("=" + o.ConVal.String())
	}
	b.WriteString("|" + o.Collect + "|" + o.Transform)
	if o.ColVal != nil {
		b.WriteString("=" + o.ColVal.String())
	}
	b.WriteString("|" + o.Invoke2)
	if o.InvVal2 != nil {
		b.WriteString("=" + o.InvVal2.String())
	}
	b.WriteString("|" + o.Stream2)
	for _, v := range o.StrVals2 {
		b.WriteString(";" + v.String())
	}
	b.WriteString("|" + o.Rerun)
	if o.RerunVal != nil {
		b.WriteString("=" + o.RerunVal.String())
	}
	return b.String()
}

// ------------------------------------------------------------------ unit cases: convertTo directly

type unitOutcome struct {
	Res    string `json:"res"` // ok | panic
	Val    *V     `json:"val,omitempty"`
	Msg    string `json:"msg,omitempty"`
	SrcMod bool   `json:"source_modified,omitempty"`
}

func (u *unitOutcome) key() string {
	s := u.Res
	if u.Val != nil {
		s += "=" + u.Val.String()
	}
	if u.SrcMod {
		s += "|srcmod"
	}
	return s
}

const unitReps = 16

// distinct outcomes of unitReps calls of convertTo on fresh copies of the values
func executeUnit(c *Case) []*unitOutcome {
	if !whiteBox {
		return executeUnitBlackBox(c)
	}
	T := goType(c.T)
	seen := map[string]bool{}
	var outs []*unitOutcome
	for rep := 0; rep < unitReps; rep++ {
		m := make(map[string]any, len(c.Unit))
		vals := make([]reflect.Value, len(c.Unit))
		twins := make([]reflect.Value, len(c.Unit))
		for i, s := range c.Unit {
			vals[i], twins[i] = staticValue(s.Val), staticValue(s.Val)
			var v any
			if vals[i].IsValid() {
				v = vals[i].Interface()
			}
			m[strings.Join(s.To, hookPathSeparator)] = v
		}
		o := &unitOutcome{}
		var out any
		p, hung := withWatchdog(func() { out, _ = hookConvertTo(m, T) })
		switch {
		case hung:
			o.Res, o.Msg = "panic", "hang"
		case p != nil:
			o.Res, o.Msg = "panic", firstLine(fmt.Sprint(p))
		default:
			rv := reflect.New(T).Elem()
			if out != nil {
				rv.Set(reflect.ValueOf(out))
			}
			o.Res, o.Val = "ok", render(rv)
		}
		for i := range vals {
			if vals[i].IsValid() && !reflect.DeepEqual(vals[i].Interface(), twins[i].Interface()) {
				o.SrcMod = true
			}
		}
		if !seen[o.key()] {
			seen[o.key()] = true
			outs = append(outs, o)
		}
	}
	for i := 1; i < len(outs); i++ {
		for j := i; j > 0 && outs[j].key() < outs[j-1].key(); j-- {
			outs[j], outs[j-1] = outs[j-1], outs[j]
		}
	}
	return outs
}

// the black-box twin of a valid overlap-free unit case: the keys as static values of a node without mapped input
// (workflow.go hands the map of static values to the same converter), a few executions
func executeUnitBlackBox(c *Case) []*unitOutcome {
	wc := &Case{T: c.T, Statics: c.Unit, Short: c.Short}
	seen := map[string]bool{}
	var outs []*unitOutcome
	for rep := 0; rep < 4; rep++ {
		o := execute(wc, 2)
		u := &unitOutcome{SrcMod: len(o.SrcMod) > 0}
		switch {
		case o.Invoke == "ok":
			u.Res, u.Val = "ok", o.InvVal
		default:
			u.Res, u.Msg = "panic", o.Compile+" "+o.CompMsg+" "+o.Invoke+" "+o.InvMsg
		}
		if !seen[u.key()] {
			seen[u.key()] = true
			outs = append(outs, u)
		}
	}
	return outs
}
