// Engine C15 — Workflow field mappings (compose/field_mapping.go, workflow.go:checkAndAddMappedPath,
// graph.go) through the public API: NewWorkflow, AddLambdaNode, AddInput with
// MapFields/FromField/ToField/MapFieldPaths/FromFieldPath/ToFieldPath, Compile, Invoke, Stream.
package main

import (
	"encoding/json"
	"fmt"
	"sort"
	"strings"

	"verif/harness/lib"
)

type engine struct {
	fam *family
}

func (*engine) ID() string { return "C15" }
func (*engine) CoqHeader() string {
	return "From Eino Require Import Base.Util Base.FMUniverse Model.FieldMap Model.FieldMapPromote Corr.C15.\n" +
		"(* struct environment generated from the harness's Go declarations by reflection *)\n" +
		"Definition genv : senv := " + coqEnv() + ".\n" +
		"(* promoted fields of embedded structs, by reflection *)\n" +
		"Definition gpenv : penv := " + coqPenv() + ".\n"
}
func (*engine) CoqCaseType() string { return "ccase" }

func (*engine) Decode(raw json.RawMessage) (any, error) {
	var c Case
	if err := json.Unmarshal(raw, &c); err != nil {
		return nil, err
	}
	if _, ok := tgtHandles[c.T]; !ok {
		return nil, fmt.Errorf("unknown target type %q", c.T)
	}
	if c.KeyT != "" {
		if _, ok := tgtHandles[c.KeyT]; !ok || c.T != "map[string]any" {
			return nil, fmt.Errorf("keyed successor: unknown own type %q, or T is not map[string]any", c.KeyT)
		}
		c.Mid, c.MidGraph = true, false
	}
	for i := range c.Decls {
		if _, ok := srcHandles[c.Decls[i].S]; !ok {
			return nil, fmt.Errorf("unknown source type %q", c.Decls[i].S)
		}
		if c.Decls[i].Val == nil {
			return nil, fmt.Errorf("decl %d has no value", i)
		}
	}
	for i := range c.Statics {
		if c.Statics[i].Val == nil {
			return nil, fmt.Errorf("static %d has no value", i)
		}
	}
	for i := range c.Unit {
		if c.Unit[i].Val == nil {
			return nil, fmt.Errorf("unit entry %d has no value", i)
		}
	}
	return &c, nil
}

// configurations that do not change what the mappings mean: the successor as a middle node,
// data edges without direct dependency
func (e *engine) Generate(r *lib.Rng, tier string, i int) any {
	if (e.fam == nil || e.fam.pos >= len(e.fam.perms)) && r.Chance(1, 8) {
		g := &gen{r: r, depth: 3, promo: r.Chance(1, 4)}
		if c := g.unitCase(); c != nil {
			return c
		}
	}
	c := e.generate(r, tier, i).(*Case)
	if r.Chance(1, 4) {
		c.Mid = true
		c.MidGraph = r.Chance(1, 3)
	}
	if c.KeyT != "" {
		c.Mid, c.MidGraph = true, false
	}
	for k := range c.Decls {
		if len(c.Decls[k].Maps) > 0 && r.Chance(1, 6) {
			c.Decls[k].Indirect = true
		}
	}
	// a second request served by the same compiled runnables, with other values below the interface-typed slots
	if !opaqueCase(c) && !c.second() && r.Chance(1, 3) {
		(&gen{r: r, depth: 3}).addSecond(c)
	}
	// one declaration of source type Outer may come from START (the workflow's input) instead of a lambda node
	for k := range c.Decls {
		// (the workflow's input is handed over as one value: not for a declaration that streams several chunks)
		if d := &c.Decls[k]; d.S == "Outer" && !d.Indirect && len(d.Chunks) == 0 && r.Chance(1, 3) {
			d.FromStart = true
			break
		}
	}
	return c
}

func (e *engine) generate(r *lib.Rng, tier string, i int) any {
	if e.fam != nil && e.fam.pos < len(e.fam.perms) {
		return e.fam.next()
	}
	e.fam = nil
	g := &gen{r: r, depth: 3, promo: r.Chance(1, 4)}
	maxDecls, maxMaps, famN := 3, 5, 2
	if tier == "thorough" {
		g.depth, maxDecls, famN = 4, 4, 3
		if r.Chance(1, 2) {
			famN = 2
		}
	}
	switch {
	case r.Chance(1, 20):
		// order family: every declaration order of famN single-mapping declarations
		c, tpaths := g.base(famN, famN, true)
		c.Note = "family"
		if r.Chance(3, 4) {
			pat := g.addOverlap(c, tpaths)
			c.Note = "family overlap:" + pat
		} else {
			c2, _ := g.base(1, 1, true)
			if c2.T == c.T || true {
				used := targetPaths(c.Decls)
				c.Decls = append(c.Decls, g.decl(c.T, tpaths, 1, &used))
			}
		}
		if len(c.Decls) > famN+1 {
			c.Decls = c.Decls[:famN+1]
		}
		e.fam = &family{base: c, perms: perms(len(c.Decls))}
		return e.fam.next()
	case r.Chance(2, 9):
		c, tpaths := g.base(r.Range(1, maxDecls-1), maxMaps-1, false)
		c.Note = "overlap:" + g.addOverlap(c, tpaths)
		return c
	case r.Chance(1, 7):
		c, _ := g.base(r.Range(1, 2), 3, false)
		c.Note = "malformed:" + g.malformed(c)
		return c
	case r.Chance(1, 10):
		if c := g.nilCase(); c != nil {
			return c
		}
	case r.Chance(1, 8):
		if c := g.retypedCase(); c != nil {
			return c
		}
	case r.Chance(1, 12):
		// a successor whose input consists of static values only (SetStaticValue beside AddDependency, F-C15n; round 6:
		// twice as often — the only configuration in which the map handed to the converter is a compile-time constant)
		T := tgtTypeW[r.Intn(len(tgtTypeW))]
		c := &Case{T: T}
		c.Note = "static-only:" + g.addStatics(c, g.enumPaths(T, g.depth, true))
		if r.Chance(1, 2) {
			g.addStatics(c, g.enumPaths(T, g.depth, true))
		}
		if len(c.Statics) > 0 {
			return c
		}
	case r.Chance(1, 25):
		// AddInput without mappings: the value itself; with a predecessor of interface type the edge checks
		// the value against the successor's input type at request time
		var both []string
		for t := range tgtHandles {
			if _, ok := srcHandles[t]; ok && !opaqueType(t) && t != "map[int]string" {
				both = append(both, t)
			}
		}
		sort.Strings(both)
		T := both[r.Intn(len(both))]
		S := T
		switch r.Intn(4) {
		case 0:
			S = "any"
		case 1:
			S = both[r.Intn(len(both))] // mostly a static mismatch
		}
		mk := func() *V {
			if S == "any" && T != "any" && r.Chance(3, 4) {
				return g.value(T, g.depth) // a value of the right dynamic type
			}
			v := g.value(S, g.depth)
			// (not the nil interface value as a node's whole output: the engine does not hand it on in Invoke —
			// "no tasks to execute" —, with or without field mappings; outside this property)
			for try := 0; try < 8 && v.K == "nil"; try++ {
				v = g.value(S, g.depth)
			}
			if v.K == "nil" {
				v = vInt(1)
			}
			return v
		}
		d := Decl{S: S, Val: mk()}
		if r.Chance(1, 3) {
			d.Chunks = []*V{mk(), mk()}
		}
		return &Case{T: T, Decls: []Decl{d}, Note: "plain-edge"}
	case r.Chance(1, 40):
		// arrays and slices: opaque leaf types outside the model's universe (direct oracle only); in particular
		// as the whole input of the successor (F-C15m)
		el := []string{"[2]int", "*[2]int", "[]int"}[r.Intn(3)]
		var leaf *V
		switch el {
		case "[2]int":
			leaf = &V{K: "arr", E: []int64{int64(r.Range(0, 5)), int64(r.Range(0, 5))}}
		case "*[2]int":
			leaf = vPtr("[2]int", &V{K: "arr", E: []int64{int64(r.Range(0, 5)), int64(r.Range(0, 5))}})
			if r.Chance(1, 4) {
				leaf = vNilPtr("[2]int")
			}
		default:
			leaf = &V{K: "sl", E: []int64{int64(r.Range(1, 5))}}
			if r.Chance(1, 4) {
				leaf = &V{K: "sl", Nil: true}
			}
		}
		src := vMap(el)
		src.F["k"] = leaf
		c := &Case{T: el, Short: r.Chance(1, 2), Note: "array-input",
			Decls: []Decl{{S: "map[string]" + el, Val: src, Maps: []Mapping{{From: []string{"k"}}}}}}
		if el != "[]int" && r.Chance(1, 2) {
			c.T = "map[string]" + el
			c.Decls[0].Maps[0].To = []string{"j"}
		}
		return c
	case r.Chance(1, 10):
		// the whole successor input from one field of one predecessor (FromField / FromFieldPath), for
		// every kind of input type (struct, pointer, map, any): the only mapping the node can have
		T := tgtTypeW[r.Intn(len(tgtTypeW))]
		d := g.declFor(T, nil, T)
		for try := 0; try < 4 && len(d.Maps[0].From) == 0; try++ {
			d = g.declFor(T, nil, T)
		}
		// make the source path resolve most of the time
		for try := 0; try < 6; try++ {
			if _, cls := refGet(d.Val, expandPath(d.S, d.Maps[0].From)); cls == "" {
				break
			}
			d.Val = g.value(d.S, g.depth)
		}
		return &Case{T: T, Decls: []Decl{d}, Short: r.Chance(1, 2), Note: "whole-input"}
	case r.Chance(1, 12):
		if c := g.keyedCase(); c != nil {
			return c
		}
	}
	c, tpaths := g.base(r.Range(1, maxDecls), maxMaps, false)
	if r.Chance(1, 5) {
		c.Note = "static:" + g.addStatics(c, tpaths)
	}
	return c
}

func opaqueCase(c *Case) bool {
	op := opaqueType(c.T)
	for i := range c.Decls {
		op = op || opaqueType(c.Decls[i].S)
	}
	return op
}

func coqMappings(ms []Mapping) string {
	var out []string
	for _, m := range ms {
		out = append(out, lib.CoqPair(coqPath(m.From), coqPath(m.To)))
	}
	return lib.CoqList(out)
}

func coqTerm(c *Case, o *outcome) string {
	var ds, srcs, chunks []string
	for i := range c.Decls {
		d := &c.Decls[i]
		ds = append(ds, "(D "+coqTy(d.S)+" "+coqMappings(d.Maps)+")")
		srcs = append(srcs, d.Val.coq())
		var cs []string
		for _, v := range d.chunks() {
			cs = append(cs, v.coq())
		}
		chunks = append(chunks, lib.CoqList(cs))
	}
	oc := map[string]string{"accept": "OAccept", "overlap": "OOverlap", "static": "OStatic"}[o.Compile]
	if oc == "" {
		oc = "OOther"
	}
	var oi string
	switch o.Invoke {
	case "none":
		oi = "RNone"
	case "ok":
		oi = "(RVal " + o.InvVal.coq() + ")"
	case "err":
		oi = "RErr"
	default:
		oi = "RPanic"
	}
	var os string
	switch o.Stream {
	case "none":
		os = "SNone"
	case "ok":
		var vs []string
		for _, v := range o.StrVals {
			vs = append(vs, v.coq())
		}
		os = "(SVals " + lib.CoqList(vs) + ")"
	case "err":
		os = "SErr"
	default:
		os = "SPanic"
	}
	var sts []string
	for _, s := range c.Statics {
		sts = append(sts, lib.CoqPair(coqPath(s.To), s.Val.coq()))
	}
	// further requests served by the same compiled runnables: (sources, chunks, observed Invoke, observed Stream)
	var more []string
	if o.Invoke2 != "" && o.Stream2 != "" && o.Invoke2 != "hang" && o.Stream2 != "hang" && o.Invoke2 != "garbage" && o.Stream2 != "garbage" {
		var srcs2, chunks2 []string
		for _, v := range c.vals2() {
			srcs2 = append(srcs2, v.coq())
			chunks2 = append(chunks2, lib.CoqList([]string{v.coq()}))
		}
		oi2 := "RPanic"
		switch o.Invoke2 {
		case "ok":
			oi2 = "(RVal " + o.InvVal2.coq() + ")"
		case "err":
			oi2 = "RErr"
		}
		os2 := "SPanic"
		switch o.Stream2 {
		case "ok":
			var vs []string
			for _, v := range o.StrVals2 {
				vs = append(vs, v.coq())
			}
			os2 = "(SVals " + lib.CoqList(vs) + ")"
		case "err":
			os2 = "SErr"
		}
		more = append(more, "("+lib.CoqList(srcs2)+", "+lib.CoqList(chunks2)+", "+oi2+", "+os2+")")
	}
	if o.Rerun == "ok" && o.RerunVal.knownSyms() || o.Rerun == "err" || o.Rerun == "panic" {
		// the first request once more (Invoke only): compared with the model like every request
		oi3 := map[string]string{"ok": "", "err": "RErr", "panic": "RPanic"}[o.Rerun]
		if o.Rerun == "ok" {
			oi3 = "(RVal " + o.RerunVal.coq() + ")"
		}
		more = append(more, "("+lib.CoqList(srcs)+", "+lib.CoqList(chunks)+", "+oi3+", SNone)")
	}
	return "(MkCase genv gpenv " + coqTy(c.T) + " " + lib.CoqList(ds) + " " + lib.CoqList(sts) + " " + lib.CoqList(srcs) + " " + lib.CoqList(chunks) +
		" " + oc + " " + oi + " " + os + " " + lib.CoqBool(len(o.SrcMod) > 0) + " [] [] " + lib.CoqList(more) + ")"
}

// do the streamed chunks of every predecessor make up the value it returns in Invoke (one chunk = the value,
// or a map split into chunks with disjoint keys): only then Stream and Invoke are two executions of one run
func decomposed(c *Case) bool {
	for i := range c.Decls {
		d := &c.Decls[i]
		chs := d.chunks()
		if len(chs) == 1 {
			if chs[0].String() != d.Val.String() {
				return false
			}
			continue
		}
		if d.Val.K != "map" || d.Val.Nil {
			return false
		}
		n := 0
		for _, ch := range chs {
			if ch.K != "map" || ch.T != d.Val.T || ch.IK != d.Val.IK {
				return false
			}
			for k, e := range ch.F {
				if w, ok := d.Val.F[k]; !ok || w.String() != e.String() {
					return false
				}
				n++
			}
		}
		if n != len(d.Val.F) {
			return false
		}
	}
	return true
}

// what one request on a compiled runnable gave
type reqObs struct {
	Invoke  string
	InvVal  *V
	InvMsg  string
	Stream  string
	StrVals []*V
	StrMsg  string
}

// one request against the independent reference: vals = what the predecessors return in Invoke, chunks = what
// they stream. Only for an accepted, overlap-free case with valid static values.
func checkRequest(c *Case, tag string, vals []*V, chunks [][]*V, o reqObs, fail0 func(sig, what string)) {
	fail := func(sig, what string) { fail0(sig, tag+what) }
	if o.Invoke == "garbage" && tag != "" {
		fail("invoke-value", "Invoke: "+o.InvMsg)
	}
	if o.Stream == "garbage" && tag != "" {
		fail("stream-value", "Stream: "+o.StrMsg)
	}
	if (o.Invoke == "panic" || o.Invoke == "hang") && tag != "" {
		fail(o.Invoke+":invoke", "Invoke: "+o.Invoke+" "+o.InvMsg)
	}
	if (o.Stream == "panic" || o.Stream == "hang") && tag != "" {
		fail(o.Stream+":stream", "Stream: "+o.Stream+" "+o.StrMsg)
	}
	exp, cls := refRunS(c.T, c.Decls, vals, c.Statics, false)
	switch {
	case o.Invoke == "ok" && cls == "ok":
		if !looseEq(exp, o.InvVal) {
			fail("invoke-value", fmt.Sprintf("Invoke result %s, the mapped values are %s", loose(o.InvVal), loose(exp)))
		}
	case o.Invoke == "ok" && cls != "ok":
		fail("invoke-value", fmt.Sprintf("Invoke returned %s although a source path / type does not resolve", o.InvVal))
	case o.Invoke == "err" && cls == "ok":
		fail("invoke-error", fmt.Sprintf("Invoke failed (%s) although every source path resolves to an assignable value; expected %s", o.InvMsg, loose(exp)))
	}
	// Stream against the reference: chunk by chunk
	var expChunks []string
	expErr := false
	single := true
	for i := range c.Decls {
		d := &c.Decls[i]
		if len(chunks[i]) != 1 {
			single = false
		}
		for _, ch := range chunks[i] {
			v, cl := refRun(c.T, []Decl{*d}, []*V{ch}, true)
			if cl != "ok" {
				expErr = true
				break
			}
			expChunks = append(expChunks, loose(v).String())
		}
	}
	if len(c.Statics) > 0 && !expErr {
		// the static values arrive as one chunk of their own
		v, cl := refRunS(c.T, nil, nil, c.Statics, true)
		if cl != "ok" {
			expErr = true
		} else {
			expChunks = append(expChunks, loose(v).String())
		}
	}
	sort.Strings(expChunks)
	switch {
	case o.Stream == "ok" && expErr:
		fail("stream-value", "Stream succeeded although a source path / type does not resolve")
	case o.Stream == "err" && !expErr:
		fail("stream-error", "Stream failed ("+o.StrMsg+") although every chunk maps")
	case o.Stream == "ok":
		var got []string
		for _, v := range o.StrVals {
			got = append(got, loose(v).String())
		}
		sort.Strings(got)
		if strings.Join(got, " ; ") != strings.Join(expChunks, " ; ") {
			fail("stream-value", fmt.Sprintf("Stream chunks %v, the mapped values are %v", got, expChunks))
		}
	}
	// Invoke = Stream (every predecessor emits one chunk)
	if single && o.Invoke == "ok" {
		if o.Stream != "ok" {
			fail("invoke-stream", "Invoke succeeded, Stream: "+o.Stream+" "+o.StrMsg)
		} else {
			acc := zeroV(c.T)
			okm := true
			for _, ch := range o.StrVals {
				var ok bool
				acc, ok = overlay(loose(acc), loose(ch), c.T)
				if !ok {
					okm = false
					break
				}
			}
			if !okm || !looseEq(acc, o.InvVal) {
				fail("invoke-stream", fmt.Sprintf("Invoke gave %s, the streamed chunks combine to %v", loose(o.InvVal), o.StrVals))
			}
		}
	}
	if single && o.Invoke == "err" && o.Stream == "ok" {
		// only a missing map key may turn an Invoke error into a skipped mapping
		missing := false
		for i := range c.Decls {
			for _, m := range c.Decls[i].Maps {
				if _, cl := refGet(vals[i], m.From); cl == "missing" {
					missing = true
				}
			}
		}
		if !missing {
			fail("invoke-stream", "Invoke failed ("+o.InvMsg+") but Stream succeeded")
		}
	}
}

const reps = 5

// SetStaticValue keeps one value per path (a Go map): a later value for the same path replaces the earlier one
func (c *Case) normalize() {
	var out []Static
	for _, s := range c.Statics {
		replaced := false
		for i := range out {
			if strings.Join(out[i].To, "\x1f") == strings.Join(s.To, "\x1f") {
				out[i] = s
				replaced = true
			}
		}
		if !replaced {
			out = append(out, s)
		}
	}
	c.Statics = out
}

func (e *engine) runUnit(orig *Case) lib.Result {
	var res lib.Result
	c := orig.expanded() // the oracle works on the resolved spelling of the keys
	if !whiteBox {
		// without the hook only what Compile accepts can be run (as static values of a node, see whitebox_off.go)
		var ps [][]string
		for _, s := range c.Unit {
			ps = append(ps, s.To)
		}
		if hasConflict(ps) || !staticsValid(c.T, c.Unit) {
			res.Obs = "unit case not run: built without the white-box group"
			res.Tags = []string{"unit", "whitebox:unavailable"}
			return res
		}
	}
	outs := executeUnit(orig)
	res.Obs = outs
	fail := func(sig, what string) {
		if res.Oracle == "" {
			res.Oracle, res.Sig = what, sig
		}
	}
	var tps [][]string
	for _, s := range c.Unit {
		tps = append(tps, s.To)
	}
	conflict := hasConflict(tps)
	valid := staticsValid(c.T, c.Unit)
	if !conflict {
		// overlap-free keys: one outcome whatever the iteration order, no write into the values
		if len(outs) != 1 {
			fail("unit-order-dependent", fmt.Sprintf("convertTo on overlap-free keys %v gave %d different outcomes", tps, len(outs)))
		}
		for _, o := range outs {
			if o.SrcMod {
				fail("source-modified", "convertTo modified a mapped value although the keys do not overlap")
			}
			if valid && o.Res != "ok" {
				fail("unit-panic", "convertTo panicked on valid overlap-free keys: "+o.Msg)
			}
			if valid && o.Res == "ok" {
				if exp, cls := refRunS(c.T, nil, nil, c.Unit, false); cls != "ok" || !looseEq(exp, o.Val) {
					fail("unit-value", fmt.Sprintf("convertTo gave %s, the values put at their paths are %s", loose(o.Val), exp))
				}
			}
		}
	}
	var obs []string
	for _, o := range outs {
		r := "RPanic"
		if o.Res == "ok" {
			r = "(RVal " + o.Val.coq() + ")"
		}
		obs = append(obs, lib.CoqPair(r, lib.CoqBool(o.SrcMod)))
	}
	var sts []string
	for _, s := range orig.Unit {
		sts = append(sts, lib.CoqPair(coqPath(s.To), s.Val.coq()))
	}
	res.CoqTerm = "(MkCase genv gpenv " + coqTy(c.T) + " [] [] [] [] OOther RNone SNone false " + lib.CoqList(sts) + " " + lib.CoqList(obs) + " [])"
	res.Nontrivial = len(c.Unit) >= 2
	res.Tags = []string{"unit", "T:" + c.T, fmt.Sprintf("unit-keys:%d", len(c.Unit)), fmt.Sprintf("unit-outcomes:%d", len(outs))}
	if conflict {
		res.Tags = append(res.Tags, "unit-conflict")
	}
	for _, o := range outs {
		if o.SrcMod {
			res.Tags = append(res.Tags, "unit-srcmod")
			break
		}
	}
	if c.Note != "" {
		res.Tags = append(res.Tags, "gen:"+c.Note)
	}
	return res
}

func (e *engine) Run(ci any) lib.Result {
	orig := ci.(*Case)
	if len(orig.Unit) > 0 {
		return e.runUnit(orig)
	}
	orig.normalize()
	var res lib.Result
	outs := make([]*outcome, reps)
	for i := range outs {
		outs[i] = execute(orig, i)
	}
	// the oracle and the reference work on the resolved spelling of the paths (promoted fields spelled out);
	// the implementation and the model get the paths as declared
	c := orig.expanded()
	o := outs[0]
	res.Obs = o
	fail := func(sig, what string) {
		if res.Oracle == "" {
			res.Oracle, res.Sig = what, sig
		}
	}

	// --- direct oracle
	for i := 1; i < reps; i++ {
		if outs[i].key() != o.key() {
			fail("nondeterministic", fmt.Sprintf("run 0 and run %d differ: %s  VS  %s", i, o.key(), outs[i].key()))
			break
		}
	}
	if o.Compile == "panic" {
		fail("panic:compile", "Compile panicked: "+o.CompMsg)
	}
	if o.Invoke == "garbage" {
		fail("invoke-value", "Invoke: "+o.InvMsg)
	}
	if o.Stream == "garbage" {
		fail("stream-value", "Stream: "+o.StrMsg)
	}
	if o.Concat == "garbage" {
		fail("stream-concat", "Stream into an invokable successor: "+o.ConMsg)
	}
	if o.Invoke == "panic" || o.Invoke == "hang" {
		fail(o.Invoke+":invoke", "Invoke: "+o.Invoke+" "+o.InvMsg)
	}
	if o.Stream == "panic" || o.Stream == "hang" {
		fail(o.Stream+":stream", "Stream: "+o.Stream+" "+o.StrMsg)
	}
	// the other two entries of the runnable. Collect runs the workflow in streaming mode and concatenates the chunks
	// it streams: it must give the overlay of what Stream gave (and fail when Stream fails); Transform must give
	// what Stream gave. Chunks of a struct / pointer type without a registered concat function cannot be concatenated
	// when more than one is non-zero (eino's documented limitation, property C14) — the only excuse, as for a
	// successor that consumes its input as one value.
	switch {
	case o.Collect == "" || o.Collect == "hang":
	case o.Collect == "panic" && o.Stream != "panic":
		fail("panic:collect", "Collect panicked, Stream: "+o.Stream)
	case o.Stream == "err" && o.Collect != "err":
		fail("collect-stream", "Stream failed ("+o.StrMsg+"), Collect: "+o.Collect)
	case o.Stream == "ok" && o.Collect == "err":
		if !(strings.Contains(o.ColMsg, "concat") && len(o.StrVals) >= 2) {
			fail("collect-stream", "Stream succeeded, Collect failed: "+o.ColMsg)
		}
	case o.Stream == "ok" && o.Collect == "ok" && decomposed(c):
		// (every predecessor streams its value as one chunk or as map chunks with disjoint keys: every slot is carried
		// by one chunk, so how eino concatenates two leaves — property C14 — does not matter)
		acc := zeroV(c.T)
		okm := true
		for _, ch := range o.StrVals {
			var ok bool
			acc, ok = overlay(loose(acc), loose(ch), c.T)
			if !ok {
				okm = false
				break
			}
		}
		if okm && !looseEq(acc, o.ColVal) {
			fail("collect-stream", fmt.Sprintf("Collect gave %s, the streamed chunks combine to %s", loose(o.ColVal), loose(acc)))
		}
	}
	if o.Transform != "" && (o.Stream == "ok" || o.Stream == "err" || o.Stream == "panic") {
		want := o.Stream
		for _, v := range o.StrVals {
			want += ";" + v.String()
		}
		if o.Transform != want {
			fail("transform-stream", fmt.Sprintf("Transform (input as a one-chunk stream) gave %s, Stream %s %s", o.Transform, want, o.StrMsg))
		}
	}
	tps := allTargets(c)
	conflict := hasConflict(tps)
	if conflict && o.Compile == "accept" {
		fail("overlap-accepted", fmt.Sprintf("overlapping target paths %v accepted by Compile", tps))
	}
	if !conflict && o.Compile == "overlap" {
		fail("overlap-spurious", fmt.Sprintf("target paths %v do not overlap but Compile said: %s", tps, o.CompMsg))
	}
	// the static part of Compile against the reference rules, declaration by declaration (Compile stops at
	// the first declaration it rejects, for an overlap or for a static reason: only a set without either can
	// be compared as a whole)
	if !conflict {
		anyReject := false
		for i := range c.Decls {
			if refStaticReject(c.T, &c.Decls[i]) {
				anyReject = true
			}
		}
		if anyReject && o.Compile == "accept" {
			fail("static-accepted", fmt.Sprintf("Compile accepted mappings that cannot be walked / assigned statically: %v into %s", c.Decls, c.T))
		}
		if !anyReject && o.Compile == "static" && staticsValid(c.T, c.Statics) {
			fail("static-spurious", "Compile rejected mappings that are statically fine: "+o.CompMsg)
		}
	}
	if len(o.SrcMod) > 0 {
		fail("source-modified", "a predecessor's output was modified: "+strings.Join(o.SrcMod, "; "))
	}
	// "identically on every run": the first request once more on the same runnable, after the consumer of the earlier
	// results used what was made for it as scratch space, yields what it yielded the first time
	if o.Rerun != "" && !conflict {
		first, again := o.Invoke, o.Rerun
		if o.InvVal != nil {
			first += "=" + o.InvVal.String()
		}
		if o.RerunVal != nil {
			again += "=" + o.RerunVal.String()
		}
		if first != again {
			fail("rerun-differs", fmt.Sprintf("the same request once more on the same runnable (the successor had modified the input it was handed before) gave %s %s, the first time %s", again, o.RerunMsg, first))
		}
	}
	if o.Burst != "" && !conflict {
		fail("concurrent-differs", o.Burst)
	}
	rtChecked := false
	if o.Compile == "accept" && !conflict && !staticsValid(c.T, c.Statics) {
		fail("static-value-accepted", fmt.Sprintf("Compile accepted static values %v that do not fit %s", c.Statics, c.T))
	}
	if o.Compile == "accept" && !conflict && staticsValid(c.T, c.Statics) {
		// Invoke against the reference
		vals := make([]*V, len(c.Decls))
		for i := range c.Decls {
			vals[i] = c.Decls[i].Val
		}
		chunks := make([][]*V, len(c.Decls))
		for i := range c.Decls {
			chunks[i] = c.Decls[i].chunks()
		}
		checkRequest(c, "", vals, chunks, reqObs{o.Invoke, o.InvVal, o.InvMsg, o.Stream, o.StrVals, o.StrMsg}, fail)
		if o.Invoke2 != "" || o.Stream2 != "" {
			// the second request on the same compiled runnables: judged on its own, exactly like the first
			// ("identically on every run": what a request yields depends on that request's inputs only)
			vals2 := c.vals2()
			chunks2 := make([][]*V, len(c.Decls))
			for i := range vals2 {
				chunks2[i] = []*V{vals2[i]}
			}
			checkRequest(c, "second request on the same runnable: ", vals2, chunks2, reqObs{o.Invoke2, o.InvVal2, o.InvMsg2, o.Stream2, o.StrVals2, o.StrMsg2}, fail)
		}
		// a second successor of the same predecessors with mappings of its own (execution 1): each successor is handed
		// the values of ITS mappings, and the first successor's input is what it is without the second
		if t := outs[1]; t.TapInv != "" && o.Invoke == "ok" {
			c2 := *c
			c2.Statics = nil
			c2.Decls = make([]Decl, len(c.Decls))
			for i, ms := range tapMaps(c) {
				c2.Decls[i] = c.Decls[i]
				c2.Decls[i].Maps = ms
			}
			what := "a second successor fed by the same predecessors (of every declaration its last mapping only): "
			// (a sub-set of an accepted set need not be accepted: a path from a predecessor of interface type is
			// allowed only beside a whole-output mapping of the same declaration, validateFieldMapping)
			tapReject := false
			for i := range c2.Decls {
				tapReject = tapReject || refStaticReject(c2.T, &c2.Decls[i])
			}
			switch {
			case t.TapInv == "compile" && tapReject:
			case t.TapInv != "ok":
				fail("second-successor", what+"Invoke "+t.TapInv+" "+t.TapMsg+", without it Invoke succeeded")
			case t.TapMainInv != "ok="+o.InvVal.String():
				fail("second-successor", what+"the first successor was handed "+t.TapMainInv+", without the second "+o.InvVal.String())
			default:
				exp, cls := refRunS(c2.T, c2.Decls, vals, nil, false)
				if cls != "ok" || len(t.TapInvVals) != 1 || !looseEq(exp, t.TapInvVals[0]) {
					fail("second-successor", fmt.Sprintf("%sit was handed %v, the values of its mappings are %s", what, t.TapInvVals, loose(exp)))
				}
			}
			if t.TapInv == "ok" && o.Stream == "ok" && t.TapStr != "" {
				var expChunks []string
				expOK := true
				for i := range c2.Decls {
					for _, ch := range chunks[i] {
						v, cl := refRun(c2.T, []Decl{c2.Decls[i]}, []*V{ch}, true)
						if cl != "ok" {
							expOK = false
							break
						}
						expChunks = append(expChunks, loose(v).String())
					}
				}
				sort.Strings(expChunks)
				var got []string
				for _, v := range t.TapStrVals {
					got = append(got, loose(v).String())
				}
				sort.Strings(got)
				wantMain := "ok"
				for _, v := range o.StrVals {
					wantMain += ";" + v.String()
				}
				switch {
				case !expOK:
				case t.TapStr != "ok":
					fail("second-successor", what+"Stream "+t.TapStr+" "+t.TapMsg+", without it Stream succeeded")
				case t.TapMainStr != wantMain:
					fail("second-successor", what+"Stream handed the first successor "+t.TapMainStr+", without the second "+wantMain)
				case strings.Join(got, " ; ") != strings.Join(expChunks, " ; "):
					fail("second-successor", fmt.Sprintf("%sStream handed it the chunks %v, the values of its mappings are %v", what, got, expChunks))
				}
			}
		}
		// Stream into an ordinary successor node: the engine concatenates the converted chunks into the
		// node's input, which must be the input Invoke hands over. Chunks of a struct / pointer type without a
		// registered concat function cannot be concatenated when more than one is non-zero (eino's documented
		// limitation, property C14): that error is the only excuse.
		switch o.Concat {
		case "panic", "hang":
			fail(o.Concat+":stream-concat", "Stream into an invokable successor: "+o.Concat+" "+o.ConMsg)
		case "ok":
			switch {
			case o.Stream != "ok":
				fail("stream-concat", "Stream into an invokable successor succeeded, into a stream-transparent one: "+o.Stream+" "+o.StrMsg)
			case o.Invoke == "ok" && decomposed(c) && !looseEq(o.ConVal, o.InvVal):
				fail("stream-concat", fmt.Sprintf("Invoke hands the successor %s, Stream (chunks concatenated) %s", loose(o.InvVal), loose(o.ConVal)))
			}
		case "err":
			if o.Stream == "ok" && !(strings.Contains(o.ConMsg, "concat") && len(o.StrVals) >= 2) {
				fail("stream-concat", "Stream into an invokable successor failed ("+o.ConMsg+"), into a stream-transparent one it succeeded")
			}
		}
	}
	for i := range c.Decls {
		for _, p := range enumIfacePaths(c.Decls[i].Val, c.Decls[i].S, 6) {
			for _, m := range c.Decls[i].Maps {
				if len(m.From) >= len(p.path) && isPrefix(p.path, m.From) {
					rtChecked = true
				}
			}
		}
	}

	// --- model side
	opaque := opaqueType(c.T)
	for i := range c.Decls {
		opaque = opaque || opaqueType(c.Decls[i].S)
	}
	if o.Invoke != "hang" && o.Stream != "hang" && !opaque {
		res.CoqTerm = coqTerm(orig, o)
	}


	// --- bookkeeping
	nm := 0
	multiChunk := false
	for i := range c.Decls {
		nm += len(c.Decls[i].Maps)
		if len(c.Decls[i].Chunks) > 1 {
			multiChunk = true
		}
	}
	res.Nontrivial = (o.Compile == "accept" && nm >= 2) || conflict || rtChecked
	res.Tags = []string{
		"T:" + c.T, fmt.Sprintf("decls:%d", len(c.Decls)), fmt.Sprintf("maps:%d", nm),
		"compile:" + o.Compile, "invoke:" + o.Invoke, "stream:" + o.Stream,
	}
	if conflict {
		res.Tags = append(res.Tags, "conflict")
	}
	if rtChecked {
		res.Tags = append(res.Tags, "runtime-checked")
	}
	if multiChunk {
		res.Tags = append(res.Tags, "multi-chunk")
	}
	if o.Rerun != "" {
		res.Tags = append(res.Tags, "rerun:"+o.Rerun)
	}
	if outs[1].TapInv != "" {
		res.Tags = append(res.Tags, "second-successor:"+outs[1].TapInv+"/"+outs[1].TapStr)
	}
	if c.second() {
		res.Tags = append(res.Tags, "req2", "req2-invoke:"+o.Invoke2)
		if dynChanged(c) {
			res.Tags = append(res.Tags, "req2-dyn-changed")
		}
	}
	if o.Concat != "" {
		res.Tags = append(res.Tags, "concat:"+o.Concat)
	}
	if opaque {
		res.Tags = append(res.Tags, "opaque-leaf")
	}
	if len(c.Statics) > 0 {
		res.Tags = append(res.Tags, fmt.Sprintf("statics:%d", len(c.Statics)))
	}
	if fmt.Sprint(allTargets(orig)) != fmt.Sprint(tps) {
		res.Tags = append(res.Tags, "promoted-target")
	}
	for i := range c.Decls {
		if fmt.Sprint(c.Decls[i].Maps) != fmt.Sprint(orig.Decls[i].Maps) {
			res.Tags = append(res.Tags, "promoted")
			break
		}
	}
	if c.KeyT != "" {
		res.Tags = append(res.Tags, "succ:keyed", "keyed:"+c.KeyT)
	} else if c.Mid && c.MidGraph {
		res.Tags = append(res.Tags, "succ:mid-graph")
	} else if c.Mid {
		res.Tags = append(res.Tags, "succ:mid")
	} else {
		res.Tags = append(res.Tags, "succ:end")
	}
	for k := range c.Decls {
		if c.Decls[k].Indirect {
			res.Tags = append(res.Tags, "indirect")
			break
		}
	}
	for k := range c.Decls {
		if c.Decls[k].FromStart {
			res.Tags = append(res.Tags, "from-start")
			break
		}
	}
	if c.Note != "" {
		res.Tags = append(res.Tags, "gen:"+c.Note)
	} else {
		res.Tags = append(res.Tags, "gen:plain")
	}
	maxd := 0
	for _, p := range tps {
		if len(p) > maxd {
			maxd = len(p)
		}
	}
	res.Tags = append(res.Tags, fmt.Sprintf("tdepth:%d", maxd))
	return res
}

func main() { lib.Main(&engine{}) }
