// Engine C15 — Workflow field mappings. This file: the fixed Go type universe, the
// value trees (V) that mirror Base/FMUniverse.v's val, construction of real Go values
// from them, canonical rendering of results back into them, Gallina printers.
package main

import (
	"fmt"
	"reflect"
	"sort"
	"strconv"
	"strings"

	"verif/harness/lib"
)

// ------------------------------------------------------------------ Go declarations

type Leaf struct {
	A int
	B string
}

type Inner struct {
	X  int
	Y  string
	Z  any
	L  Leaf
	PL *Leaf
	M  map[string]int
	ML map[string]Leaf
	u  int //nolint:unused // unexported on purpose: mappings from/to it must be rejected
}

type Outer struct {
	I  Inner
	PI *Inner
	PP **Inner
	H  any
	N  int
	S  string
	MA map[string]any
	MS map[string]string
	MI map[string]Inner
	MP map[string]*Inner
	MK map[int]string
	PA *any // pointer to an interface: a path may end here but must not continue below (F-C15i)
	E  Emb
	PE *Emb
	ME map[string]Emb
	// pointer to a map (round 7): a path may end here; it must not continue below — the request-time walkers follow a
	// pointer only to a struct, so Compile has to refuse the step (extractFieldType: "intermediate type is not valid")
	PM *map[string]string
}

// Emb embeds one struct by value and one by pointer: the fields of Leaf (A, B) and of Inner (X, Y, Z, L, PL,
// M, ML; u is promoted too but unexported) can be named directly or through the embedded field (F-C15k, F-C15l)
type Emb struct {
	Leaf
	*Inner
	W int
}

// Emb2 embeds a struct that embeds structs itself, by pointer: the fields of Leaf and Inner are promoted through TWO
// levels (X = Emb.Inner.X through two pointers, A = Emb.Leaf.A through a pointer and a value), the embedded fields
// of Emb (Leaf, Inner) and its W through one. Every subset of the embedded names may be spelled: X, Emb.X, Inner.X,
// Emb.Inner.X name the same slot.
type Emb2 struct {
	*Emb
	V int
}

type hid struct {
	Q int
}

// Alt occurs only as the dynamic type of a value held by an interface-typed slot: it has the field names of Leaf
// and Inner at other positions (and X where Leaf has A), so that a source path below an interface resolves to
// another field index when the slot holds an Alt in one request and a Leaf / Inner in the next
type Alt struct {
	X int
	A int
	B string
	Y string
}

// EmbU is used as a successor input type only: Q is promoted through an embedded pointer to an unexported struct
// type, which reflection cannot instantiate (rejected at compile time for target paths since F-C15k)
type EmbU struct {
	*hid
	W int
}

var _ = Inner{}.u

var structNames = []string{"Leaf", "Inner", "Outer", "Emb", "hid", "EmbU", "Alt", "Emb2"}
var structTypes = map[string]reflect.Type{
	"Leaf":  reflect.TypeOf(Leaf{}),
	"Inner": reflect.TypeOf(Inner{}),
	"Outer": reflect.TypeOf(Outer{}),
	"Emb":   reflect.TypeOf(Emb{}),
	"hid":   reflect.TypeOf(hid{}),
	"EmbU":  reflect.TypeOf(EmbU{}),
	"Alt":   reflect.TypeOf(Alt{}),
	"Emb2":  reflect.TypeOf(Emb2{}),
}

func structID(name string) int {
	for i, n := range structNames {
		if n == name {
			return i
		}
	}
	panic("unknown struct " + name)
}

var anyType = reflect.TypeOf((*any)(nil)).Elem()

// symbol table: field names and map keys are numbers on the Coq side
var syms = []string{
	"A", "B", "X", "Y", "Z", "L", "PL", "M", "ML", "u",
	"I", "PI", "PP", "H", "N", "S", "MA", "MS", "MI", "MP", "MK",
	"k", "j", "a", "b", "c", "nope", "PA",
	"E", "PE", "ME", "Leaf", "Inner", "W", "hid", "Q",
	"Emb", "V",
	"PM",
}
var symIdx = func() map[string]int {
	m := map[string]int{}
	for i, s := range syms {
		m[s] = i
	}
	return m
}()

func sym(s string) uint64 {
	i, ok := symIdx[s]
	if !ok {
		panic("unknown symbol " + s)
	}
	return uint64(i)
}

// ------------------------------------------------------------------ type expressions

// type expressions: int | string | any | Leaf | Inner | Outer | *T | map[string]T | map[int]T
func goType(te string) reflect.Type {
	switch {
	case te == "int":
		return reflect.TypeOf(0)
	case te == "string":
		return reflect.TypeOf("")
	case te == "any":
		return anyType
	case te == "[2]int":
		return reflect.TypeOf([2]int{})
	case te == "[]int":
		return reflect.TypeOf([]int{})
	case strings.HasPrefix(te, "*"):
		return reflect.PointerTo(goType(te[1:]))
	case strings.HasPrefix(te, "map[string]"):
		return reflect.MapOf(reflect.TypeOf(""), goType(te[len("map[string]"):]))
	case strings.HasPrefix(te, "map[int]"):
		return reflect.MapOf(reflect.TypeOf(0), goType(te[len("map[int]"):]))
	}
	if t, ok := structTypes[te]; ok {
		return t
	}
	panic("bad type expression " + te)
}

func typeExpr(t reflect.Type) string {
	switch t.Kind() {
	case reflect.Int:
		return "int"
	case reflect.String:
		return "string"
	case reflect.Interface:
		return "any"
	case reflect.Ptr:
		return "*" + typeExpr(t.Elem())
	case reflect.Map:
		if t.Key().Kind() == reflect.String {
			return "map[string]" + typeExpr(t.Elem())
		}
		return "map[int]" + typeExpr(t.Elem())
	case reflect.Struct:
		return t.Name()
	case reflect.Array:
		return "[2]int"
	case reflect.Slice:
		return "[]int"
	}
	panic("type outside the universe: " + t.String())
}

func coqTy(te string) string {
	switch {
	case te == "int":
		return "TInt"
	case te == "string":
		return "TStr"
	case te == "any":
		return "TAny"
	case strings.HasPrefix(te, "*"):
		return "(TPtr " + coqTy(te[1:]) + ")"
	case strings.HasPrefix(te, "map[string]"):
		return "(TMap true " + coqTy(te[len("map[string]"):]) + ")"
	case strings.HasPrefix(te, "map[int]"):
		return "(TMap false " + coqTy(te[len("map[int]"):]) + ")"
	}
	return "(TStruct " + lib.CoqN(uint64(structID(te))) + ")"
}

// the struct environment, generated from the Go declarations by reflection
func coqEnv() string {
	var ss []string
	for i, name := range structNames {
		t := structTypes[name]
		var fs []string
		for j := 0; j < t.NumField(); j++ {
			f := t.Field(j)
			fs = append(fs, lib.CoqPair(lib.CoqN(sym(f.Name)), lib.CoqPair(lib.CoqBool(f.IsExported()), coqTy(typeExpr(f.Type)))))
		}
		ss = append(ss, lib.CoqPair(lib.CoqN(uint64(i)), lib.CoqList(fs)))
	}
	return lib.CoqList(ss)
}

// the embedded fields through which the field `name` of struct type t is promoted (nil: a direct field, or none)
func promotionChain(t reflect.Type, name string) []string {
	sf, ok := t.FieldByName(name)
	if !ok || len(sf.Index) < 2 {
		return nil
	}
	var chain []string
	for j := 1; j < len(sf.Index); j++ {
		chain = append(chain, t.FieldByIndex(sf.Index[:j]).Name)
	}
	return chain
}

// the promotion table of the model, generated from the Go declarations by reflection:
// struct id -> promoted field name -> names of the embedded fields leading to it
func coqPenv() string {
	var ss []string
	for i, name := range structNames {
		t := structTypes[name]
		var fs []string
		for _, f := range syms {
			if chain := promotionChain(t, f); chain != nil {
				fs = append(fs, lib.CoqPair(lib.CoqN(sym(f)), coqPath(chain)))
			}
		}
		if len(fs) > 0 {
			ss = append(ss, lib.CoqPair(lib.CoqN(uint64(i)), lib.CoqList(fs)))
		}
	}
	return lib.CoqList(ss)
}

// a field path as the walkers resolve it: promoted names spelled out through the embedded fields, along the
// static type te; whatever lies below an interface or cannot be walked is kept
func expandPath(te string, p []string) []string {
	var out []string
	for i, f := range p {
		switch {
		case strings.HasPrefix(te, "map[string]"):
			out = append(out, f)
			te = te[len("map[string]"):]
			continue
		case strings.HasPrefix(te, "map[int]"):
			out = append(out, f)
			te = te[len("map[int]"):]
			continue
		}
		st, ok := structTypes[strings.TrimPrefix(te, "*")]
		if !ok {
			return append(out, p[i:]...)
		}
		sf, ok := st.FieldByName(f)
		if !ok {
			return append(out, p[i:]...)
		}
		out = append(out, promotionChain(st, f)...)
		out = append(out, f)
		te = typeExpr(sf.Type)
	}
	return out
}

// ------------------------------------------------------------------ value trees

// V mirrors FMUniverse.val. Structs are sparse (absent field = zero value).
type V struct {
	K   string        `json:"k"`             // nil | int | str | struct | ptr | map | arr | sl
	Z   int64         `json:"z,omitempty"`   // int
	S   string        `json:"s,omitempty"`   // str
	T   string        `json:"t,omitempty"`   // struct: name; ptr: pointee type; map: element type
	IK  bool          `json:"ik,omitempty"`  // map: int keys (map[int]T)
	Nil bool          `json:"nil,omitempty"` // ptr / map: nil
	P   *V            `json:"p,omitempty"`   // ptr: pointee
	E   []int64       `json:"e,omitempty"`   // arr ([2]int) / sl ([]int): elements. Opaque leaves outside the model's universe
	F   map[string]*V `json:"f,omitempty"`   // struct fields / map entries
}

func vNil() *V             { return &V{K: "nil"} }
func vInt(z int64) *V      { return &V{K: "int", Z: z} }
func vStr(s string) *V     { return &V{K: "str", S: s} }
func vStruct(n string) *V  { return &V{K: "struct", T: n, F: map[string]*V{}} }
func vNilPtr(el string) *V { return &V{K: "ptr", T: el, Nil: true} }
func vPtr(el string, p *V) *V {
	return &V{K: "ptr", T: el, P: p}
}
func vNilMap(el string) *V { return &V{K: "map", T: el, Nil: true} }
func vMap(el string) *V    { return &V{K: "map", T: el, F: map[string]*V{}} }

// dynamic type expression of a value (nil interface: "")
func (v *V) dynType() string {
	switch v.K {
	case "nil":
		return ""
	case "int":
		return "int"
	case "str":
		return "string"
	case "struct":
		return v.T
	case "ptr":
		return "*" + v.T
	case "map":
		if v.IK {
			return "map[int]" + v.T
		}
		return "map[string]" + v.T
	case "arr":
		return "[2]int"
	case "sl":
		return "[]int"
	}
	panic("bad V")
}

// does the type expression mention an opaque leaf type (array, slice): such cases are not sent to the model
func opaqueType(te string) bool { return strings.Contains(te, "[2]int") || strings.Contains(te, "[]int") }

func zeroV(te string) *V {
	switch {
	case te == "[2]int":
		return &V{K: "arr", E: []int64{0, 0}}
	case te == "[]int":
		return &V{K: "sl", Nil: true}
	case te == "int":
		return vInt(0)
	case te == "string":
		return vStr("")
	case te == "any":
		return vNil()
	case strings.HasPrefix(te, "*"):
		return vNilPtr(te[1:])
	case strings.HasPrefix(te, "map[string]"):
		return vNilMap(te[len("map[string]"):])
	case strings.HasPrefix(te, "map[int]"):
		v := vNilMap(te[len("map[int]"):])
		v.IK = true
		return v
	}
	return vStruct(te)
}

func (v *V) clone() *V {
	if v == nil {
		return nil
	}
	c := *v
	c.P = v.P.clone()
	c.E = append([]int64(nil), v.E...)
	if v.F != nil {
		c.F = make(map[string]*V, len(v.F))
		for k, e := range v.F {
			c.F[k] = e.clone()
		}
	}
	return &c
}

// build a real Go value of static type t from the tree
func build(v *V, t reflect.Type) reflect.Value {
	if t.Kind() == reflect.Interface {
		rv := reflect.New(t).Elem()
		if v.K != "nil" {
			rv.Set(build(v, goType(v.dynType())))
		}
		return rv
	}
	switch v.K {
	case "int":
		rv := reflect.New(t).Elem()
		rv.SetInt(v.Z)
		return rv
	case "str":
		rv := reflect.New(t).Elem()
		rv.SetString(v.S)
		return rv
	case "struct":
		rv := reflect.New(t).Elem()
		for name, fv := range v.F {
			f := rv.FieldByName(name)
			if !f.IsValid() || !f.CanSet() {
				panic("cannot build field " + name + " of " + t.String())
			}
			f.Set(build(fv, f.Type()))
		}
		return rv
	case "arr":
		rv := reflect.New(t).Elem()
		for i := 0; i < rv.Len() && i < len(v.E); i++ {
			rv.Index(i).SetInt(v.E[i])
		}
		return rv
	case "sl":
		if v.Nil {
			return reflect.Zero(t)
		}
		rv := reflect.MakeSlice(t, len(v.E), len(v.E))
		for i := range v.E {
			rv.Index(i).SetInt(v.E[i])
		}
		return rv
	case "ptr":
		if v.Nil {
			return reflect.Zero(t)
		}
		p := reflect.New(t.Elem())
		p.Elem().Set(build(v.P, t.Elem()))
		return p
	case "map":
		if v.Nil {
			return reflect.Zero(t)
		}
		m := reflect.MakeMap(t)
		for k, ev := range v.F {
			var kv reflect.Value
			if v.IK {
				n, _ := strconv.Atoi(k)
				kv = reflect.ValueOf(n)
			} else {
				kv = reflect.ValueOf(k)
			}
			m.SetMapIndex(kv, build(ev, t.Elem()))
		}
		return m
	}
	panic(fmt.Sprintf("cannot build %s as %v", v.K, t))
}

// render a real Go value back into a tree; zero-valued struct fields are omitted
func render(rv reflect.Value) *V {
	if !rv.IsValid() {
		return vNil()
	}
	switch rv.Kind() {
	case reflect.Interface:
		if rv.IsNil() {
			return vNil()
		}
		return render(rv.Elem())
	case reflect.Int:
		return vInt(rv.Int())
	case reflect.String:
		return vStr(rv.String())
	case reflect.Struct:
		v := vStruct(rv.Type().Name())
		for i := 0; i < rv.NumField(); i++ {
			f := rv.Field(i)
			if f.IsZero() {
				continue
			}
			v.F[rv.Type().Field(i).Name] = render(f)
		}
		return v
	case reflect.Array, reflect.Slice:
		v := &V{K: "arr"}
		if rv.Kind() == reflect.Slice {
			v.K = "sl"
			if rv.IsNil() {
				v.Nil = true
				return v
			}
		}
		for i := 0; i < rv.Len(); i++ {
			v.E = append(v.E, rv.Index(i).Int())
		}
		return v
	case reflect.Ptr:
		if rv.IsNil() {
			return vNilPtr(typeExpr(rv.Type().Elem()))
		}
		return vPtr(typeExpr(rv.Type().Elem()), render(rv.Elem()))
	case reflect.Map:
		el := typeExpr(rv.Type().Elem())
		ik := rv.Type().Key().Kind() != reflect.String
		if rv.IsNil() {
			v := vNilMap(el)
			v.IK = ik
			return v
		}
		v := vMap(el)
		v.IK = ik
		it := rv.MapRange()
		for it.Next() {
			var k string
			if ik {
				k = strconv.FormatInt(it.Key().Int(), 10)
			} else {
				k = it.Key().String()
			}
			v.F[k] = render(it.Value())
		}
		return v
	}
	panic("render: value outside the universe: " + rv.Type().String())
}

// does the value use only field names / map keys of the symbol table (a result that does not cannot be sent to
// the model: it is a wrong result by itself, e.g. an unconverted map keyed by joined paths)
func (v *V) knownSyms() bool {
	if v == nil {
		return true
	}
	if !v.P.knownSyms() {
		return false
	}
	for k, e := range v.F {
		if v.K == "map" && v.IK {
			if _, err := strconv.Atoi(k); err != nil {
				return false
			}
		} else if _, ok := symIdx[k]; !ok {
			return false
		}
		if !e.knownSyms() {
			return false
		}
	}
	return true
}

// keys in the order of their numbers on the Coq side (symbol index, or the integer for int keys)
func keysBySym(m map[string]*V, intKeys bool) []string {
	ks := make([]string, 0, len(m))
	for k := range m {
		ks = append(ks, k)
	}
	num := func(k string) uint64 {
		if intKeys {
			n, _ := strconv.Atoi(k)
			return uint64(n)
		}
		return sym(k)
	}
	sort.Slice(ks, func(i, j int) bool { return num(ks[i]) < num(ks[j]) })
	return ks
}

func sortedKeys(m map[string]*V) []string {
	ks := make([]string, 0, len(m))
	for k := range m {
		ks = append(ks, k)
	}
	sort.Strings(ks)
	return ks
}

// canonical text (for determinism comparison and evidence)
func (v *V) String() string {
	switch v.K {
	case "nil":
		return "nil"
	case "int":
		return strconv.FormatInt(v.Z, 10)
	case "str":
		return strconv.Quote(v.S)
	case "struct":
		var b strings.Builder
		b.WriteString(v.T + "{")
		for i, k := range sortedKeys(v.F) {
			if i > 0 {
				b.WriteString(",")
			}
			b.WriteString(k + ":" + v.F[k].String())
		}
		b.WriteString("}")
		return b.String()
	case "arr":
		return fmt.Sprint("[2]int", v.E)
	case "sl":
		if v.Nil || len(v.E) == 0 {
			return "[]int(nil)" // nil and empty are not distinguished (loose)
		}
		return fmt.Sprint("[]int", v.E)
	case "ptr":
		if v.Nil {
			return "(*" + v.T + ")nil"
		}
		return "&" + v.P.String()
	case "map":
		kt := "string"
		if v.IK {
			kt = "int"
		}
		if v.Nil {
			return "map[" + kt + "]" + v.T + "(nil)"
		}
		var b strings.Builder
		b.WriteString("map[" + kt + "]" + v.T + "{")
		for i, k := range sortedKeys(v.F) {
			if i > 0 {
				b.WriteString(",")
			}
			b.WriteString(k + ":" + v.F[k].String())
		}
		b.WriteString("}")
		return b.String()
	}
	return "?"
}

func (v *V) coq() string {
	switch v.K {
	case "nil":
		return "VNil"
	case "int":
		return "(VInt " + lib.CoqZ(v.Z) + ")"
	case "str":
		return "(VStr " + lib.CoqStr(v.S) + ")"
	case "struct":
		// the model keeps association lists sorted by key number (insertion assumes it)
		var fs []string
		for _, k := range keysBySym(v.F, false) {
			fs = append(fs, lib.CoqPair(lib.CoqN(sym(k)), v.F[k].coq()))
		}
		return "(VStruct " + lib.CoqN(uint64(structID(v.T))) + " " + lib.CoqList(fs) + ")"
	case "ptr":
		if v.Nil {
			return "(VPtr " + coqTy(v.T) + " None)"
		}
		return "(VPtr " + coqTy(v.T) + " (Some " + v.P.coq() + "))"
	case "map":
		ks := lib.CoqBool(!v.IK)
		if v.Nil {
			return "(VMap " + ks + " " + coqTy(v.T) + " None)"
		}
		var es []string
		for _, k := range keysBySym(v.F, v.IK) {
			var kn uint64
			if v.IK {
				n, _ := strconv.Atoi(k)
				kn = uint64(n)
			} else {
				kn = sym(k)
			}
			es = append(es, lib.CoqPair(lib.CoqN(kn), v.F[k].coq()))
		}
		return "(VMap " + ks + " " + coqTy(v.T) + " (Some " + lib.CoqList(es) + "))"
	}
	panic("bad V")
}

func coqPath(p []string) string {
	ns := make([]uint64, len(p))
	for i, s := range p {
		ns[i] = sym(s)
	}
	return lib.CoqNList(ns)
}
