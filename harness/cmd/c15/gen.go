// Engine C15 — case generator.
package main

import (
	"reflect"
	"strings"

	"verif/harness/lib"
)

type pinfo struct {
	path []string
	ty   string   // static type of the slot the path ends in ("any" below an interface)
	xp   []string // the path with promoted fields spelled out (nil: same as path)
}

func (p pinfo) resolved() []string {
	if p.xp != nil {
		return p.xp
	}
	return p.path
}

var mapKeys = []string{"k", "j"}
var anyKeys = []string{"a", "b", "c"}

func cat(p []string, f string) []string {
	out := make([]string, len(p), len(p)+1)
	copy(out, p)
	return append(out, f)
}

// static paths through a type (one pointer level, string-keyed maps, below `any` only map keys)
func (g *gen) enumPaths(te string, depth int, target bool) []pinfo {
	return enumPathsP(te, depth, target, g.promo)
}

// promo: offer the fields promoted from embedded structs under their short names too
func enumPathsP(te string, depth int, target bool, promo bool) []pinfo {
	var out []pinfo
	var walk func(te string, p []string, d int)
	walk = func(te string, p []string, d int) {
		if d == 0 {
			return
		}
		base := te
		if strings.HasPrefix(base, "*") {
			base = base[1:]
		}
		switch {
		case strings.HasPrefix(te, "map[string]"):
			el := te[len("map[string]"):]
			for _, k := range mapKeys {
				q := cat(p, k)
				out = append(out, pinfo{path: q, ty: el})
				walk(el, q, d-1)
			}
		case te == "any":
			if target {
				for _, k := range anyKeys[:2] {
					q := cat(p, k)
					out = append(out, pinfo{path: q, ty: "any"})
					walk("any", q, d-1)
				}
			}
		default:
			if st, ok := structTypes[base]; ok {
				// direct fields (embedded ones under the name of their type) and the fields promoted from
				// embedded structs under their short name
				for _, f := range reflect.VisibleFields(st) {
					if !f.IsExported() || (len(f.Index) > 1 && !promo) {
						continue
					}
					q := cat(p, f.Name)
					ft := typeExpr(f.Type)
					out = append(out, pinfo{path: q, ty: ft})
					walk(ft, q, d-1)
				}
			}
		}
	}
	walk(te, nil, depth)
	return out
}

// paths that continue below interface-typed slots of a concrete value (run-time-checked sources)
func enumIfacePaths(v *V, te string, depth int) []pinfo {
	var out []pinfo
	var walk func(v *V, te string, p []string, d int, below bool)
	walk = func(v *V, te string, p []string, d int, below bool) {
		if d == 0 || v == nil {
			return
		}
		if te == "any" {
			below = true
		}
		s := v
		if s.K == "ptr" && !s.Nil && s.T != "any" {
			s = s.P
		}
		switch s.K {
		case "struct":
			st := structTypes[s.T]
			for i := 0; i < st.NumField(); i++ {
				f := st.Field(i)
				if !f.IsExported() {
					continue
				}
				ft := typeExpr(f.Type)
				q := cat(p, f.Name)
				child, ok := s.F[f.Name]
				if !ok {
					child = zeroV(ft)
				}
				if below {
					out = append(out, pinfo{path: q, ty: "any"})
				}
				walk(child, ft, q, d-1, below)
			}
		case "map":
			if s.IK || s.Nil {
				return
			}
			for _, k := range sortedKeys(s.F) {
				q := cat(p, k)
				if below {
					out = append(out, pinfo{path: q, ty: "any"})
				}
				walk(s.F[k], s.T, q, d-1, below)
			}
		}
	}
	walk(v, te, nil, depth, false)
	return out
}

// do the target paths p and one of used overlap once promoted fields are spelled out
func conflictsWith(T string, used [][]string, p []string) bool {
	xp := expandPath(T, p)
	for _, u := range used {
		xu := expandPath(T, u)
		if isPrefix(xu, xp) || isPrefix(xp, xu) {
			return true
		}
	}
	return false
}

// another legal spelling of a resolved path: every embedded field on the way is named or left out at random
// (a field promoted through several levels can be reached through any subset of the embedded names)
func respell(te string, full []string, r *lib.Rng) []string {
	var out []string
	te0 := te
	for i := 0; i < len(full); i++ {
		f := full[i]
		switch {
		case strings.HasPrefix(te, "map[string]"):
			out = append(out, f)
			te = te[len("map[string]"):]
			continue
		case strings.HasPrefix(te, "map[int]"):
			out = append(out, f)
			te = te[len("map[int]"):]
			continue
		}
		st, ok := structTypes[strings.TrimPrefix(te, "*")]
		if !ok {
			return append(out, full[i:]...)
		}
		sf, ok := st.FieldByName(f)
		if !ok {
			return append(out, full[i:]...)
		}
		te = typeExpr(sf.Type)
		// an embedded field followed by a field of the embedded struct may be left out
		if sf.Anonymous && i+1 < len(full) && r.Chance(1, 2) {
			if est, ok := structTypes[strings.TrimPrefix(te, "*")]; ok {
				if _, ok := est.FieldByName(full[i+1]); ok {
					continue
				}
			}
		}
		out = append(out, f)
	}
	if !reflect.DeepEqual(expandPath(te0, out), full) {
		return full // (a shorter spelling that resolves to something else: shadowed name)
	}
	return out
}

// static type of the slot at the end of a path through te ("" if it cannot be walked; "any" below an interface)
func staticTypeAt(te string, p []string) string {
	for _, f := range p {
		switch {
		case strings.HasPrefix(te, "map[string]"):
			te = te[len("map[string]"):]
		case te == "any":
			return "any"
		default:
			st, ok := structTypes[strings.TrimPrefix(te, "*")]
			if !ok {
				return ""
			}
			sf, ok := st.FieldByName(f)
			if !ok || !sf.IsExported() {
				return ""
			}
			te = typeExpr(sf.Type)
		}
	}
	return te
}

var strPool = []string{"", "s", "hello", "x1", "abc", "Zz"}

type gen struct {
	r     *lib.Rng
	depth int
	promo bool // paths may use the short names of fields promoted from embedded structs
	// set by decl when the input type had no target left that does not overlap what is mapped already
	noTarget bool
}

func (g *gen) leafInt() *V {
	if g.r.Chance(1, 6) {
		return vInt(0)
	}
	return vInt(int64(g.r.Range(-3, 40)))
}
func (g *gen) leafStr() *V { return vStr(g.r.Pick(strPool)) }

var dynTypes = []string{"Inner", "*Inner", "Leaf", "*Leaf", "map[string]any", "map[string]int", "int", "string",
	"map[int]string", "map[string]Leaf", "**Inner", "Outer", "map[string]map[string]any", "Emb", "*Emb", "Alt", "*Alt"}

func (g *gen) value(te string, d int) *V {
	r := g.r
	switch {
	case te == "int":
		return g.leafInt()
	case te == "string":
		return g.leafStr()
	case te == "any":
		if r.Chance(1, 6) || d <= 0 {
			if r.Chance(1, 2) {
				return vNil()
			}
			return g.leafInt()
		}
		return g.value(dynTypes[r.Intn(len(dynTypes))], d-1)
	case strings.HasPrefix(te, "*"):
		if r.Chance(1, 8) {
			return vNilPtr(te[1:])
		}
		return vPtr(te[1:], g.value(te[1:], d))
	case strings.HasPrefix(te, "map[string]"):
		el := te[len("map[string]"):]
		if r.Chance(1, 10) {
			return vNilMap(el)
		}
		m := vMap(el)
		for i, k := range []string{"k", "j", "a", "b"} {
			if (i < 2 && r.Chance(7, 10)) || (i >= 2 && r.Chance(3, 10)) {
				m.F[k] = g.value(el, d-1)
			}
		}
		return m
	case strings.HasPrefix(te, "map[int]"):
		el := te[len("map[int]"):]
		m := vMap(el)
		m.IK = true
		m.F["1"] = g.value(el, d-1)
		return m
	}
	st, ok := structTypes[te]
	if !ok {
		panic("value: " + te)
	}
	s := vStruct(te)
	if d <= 0 {
		return s
	}
	for i := 0; i < st.NumField(); i++ {
		f := st.Field(i)
		if !f.IsExported() || !r.Chance(2, 5) {
			continue
		}
		fv := g.value(typeExpr(f.Type), d-1)
		if looseZeroExact(fv, typeExpr(f.Type)) {
			continue // keep struct trees sparse and canonical
		}
		s.F[f.Name] = fv
	}
	return s
}

// exact zero (not the loose one): what render() would omit
func looseZeroExact(v *V, te string) bool {
	switch v.K {
	case "nil":
		return true
	case "int":
		return te != "any" && v.Z == 0
	case "str":
		return te != "any" && v.S == ""
	case "struct":
		if te == "any" {
			return false
		}
		for k, e := range v.F {
			ft := "any"
			if sf, ok := structTypes[v.T].FieldByName(k); ok {
				ft = typeExpr(sf.Type)
			}
			if !looseZeroExact(e, ft) {
				return false
			}
		}
		return true
	case "ptr", "map":
		return te != "any" && v.Nil
	}
	return false
}

// ------------------------------------------------------------------ a second request on the same runnable

// (no Emb: a name that is a direct field of one struct and a promoted field of the other, below an interface-typed
// slot, is outside the model and the reference)
var structFamily = []string{"Inner", "*Inner", "Leaf", "*Leaf", "Alt", "*Alt", "Alt", "*Alt"}

// a variant of v (static type te) for the second request: the same shape, so that the source paths keep
// resolving most of the time, but the interface-typed slots hold something else half of the time — preferably
// a struct of another type with the same field names —, and some leaves differ
func (g *gen) vary(v *V, te string, d int) *V {
	r := g.r
	if te == "any" {
		if r.Chance(1, 2) {
			dyn := v.dynType()
			isStruct := false
			for _, f := range structFamily {
				if f == dyn {
					isStruct = true
				}
			}
			if isStruct && r.Chance(5, 6) {
				nt := structFamily[r.Intn(len(structFamily))]
				nv := g.value(nt, 2)
				// carry the leaves over where the field names agree, so that mapped values stay distinguishable
				return nv
			}
			if r.Chance(1, 2) {
				// (not an Emb where there was none: its promoted names below an interface are outside the model)
				if nv := g.value("any", d); !strings.HasSuffix(nv.dynType(), "Emb") || nv.dynType() == dyn {
					return nv
				}
			}
		}
		if v.K == "nil" {
			return v
		}
		return g.vary(v, v.dynType(), d)
	}
	switch v.K {
	case "int":
		if r.Chance(1, 2) {
			return g.leafInt()
		}
		return v
	case "str":
		if r.Chance(1, 2) {
			return g.leafStr()
		}
		return v
	case "ptr":
		if v.Nil || v.P == nil {
			return v
		}
		return vPtr(v.T, g.vary(v.P, v.T, d))
	case "map":
		if v.Nil {
			return v
		}
		m := vMap(v.T)
		m.IK = v.IK
		for k, e := range v.F {
			m.F[k] = g.vary(e, v.T, d-1)
		}
		return m
	case "struct":
		st, ok := structTypes[v.T]
		if !ok {
			return v
		}
		out := vStruct(v.T)
		for i := 0; i < st.NumField(); i++ {
			f := st.Field(i)
			if !f.IsExported() {
				continue
			}
			ft := typeExpr(f.Type)
			child, has := v.F[f.Name]
			if !has {
				if ft != "any" || !r.Chance(1, 4) {
					continue
				}
				child = vNil()
			}
			nv := g.vary(child, ft, d-1)
			if looseZeroExact(nv, ft) {
				continue
			}
			out.F[f.Name] = nv
		}
		return out
	}
	return v
}

// the dynamic types held by the interface-typed slots that the path crosses with steps remaining
func holeTypesAlong(v *V, te string, p []string) []string {
	var out []string
	for len(p) > 0 && v != nil {
		if te == "any" {
			out = append(out, v.dynType())
			te = v.dynType()
			if te == "" {
				return out
			}
			continue
		}
		f := p[0]
		s := v
		if s.K == "ptr" {
			if s.Nil || s.P == nil {
				return out
			}
			s = s.P
			te = te[1:]
			if s.K != "struct" {
				return out
			}
		}
		switch s.K {
		case "struct":
			sf, ok := structTypes[s.T].FieldByName(f)
			if !ok {
				return out
			}
			te = typeExpr(sf.Type)
			child, has := s.F[f]
			if !has {
				child = zeroV(te)
			}
			v = child
		case "map":
			child, has := s.F[f]
			if s.Nil || !has {
				return out
			}
			v, te = child, s.T
		default:
			return out
		}
		p = p[1:]
	}
	return out
}

// does a mapped source path cross an interface-typed slot whose dynamic type differs between the two requests
func dynChanged(c *Case) bool {
	for i := range c.Decls {
		d := &c.Decls[i]
		if d.Val2 == nil {
			continue
		}
		for _, m := range d.Maps {
			a := holeTypesAlong(d.Val, d.S, m.From)
			b := holeTypesAlong(d.Val2, d.S, m.From)
			if strings.Join(a, ",") != strings.Join(b, ",") {
				return true
			}
		}
	}
	return false
}

func (g *gen) addSecond(c *Case) {
	for i := range c.Decls {
		d := &c.Decls[i]
		d.Val2 = g.vary(d.Val, d.S, g.depth)
	}
}

// a source path through an interface-typed slot into a struct field, where the slot holds a struct of one type in
// the first request and of another type (same field name, other position / pointer or not) in the second request
// served by the same compiled runnable
func (g *gen) retypedCase() *Case {
	r := g.r
	type fld struct {
		name, ty string
		in       []string
	}
	f := []fld{
		{"X", "int", []string{"Inner", "Alt"}},
		{"Y", "string", []string{"Inner", "Alt"}},
		{"A", "int", []string{"Leaf", "Alt"}},
		{"B", "string", []string{"Leaf", "Alt"}},
	}[r.Intn(4)]
	T := tgtTypeW[r.Intn(len(tgtTypeW))]
	tpaths := g.enumPaths(T, g.depth, true)
	var fit []pinfo
	for _, tp := range tpaths {
		if tp.ty == f.ty || tp.ty == "any" {
			fit = append(fit, tp)
		}
	}
	if len(fit) == 0 {
		return nil
	}
	tp := fit[r.Intn(len(fit))]
	held := func(st string) *V {
		v := g.value(st, 2)
		if f.ty == "int" {
			v.F[f.name] = vInt(int64(r.Range(1, 40)))
		} else {
			v.F[f.name] = vStr(strPool[1+r.Intn(len(strPool)-1)])
		}
		if r.Chance(1, 3) {
			return vPtr(st, v)
		}
		return v
	}
	a := r.Intn(2)
	h1, h2 := held(f.in[a]), held(f.in[1-a])
	if r.Chance(1, 6) {
		h2 = held(f.in[a]) // the same type again
	}
	var d Decl
	if r.Chance(1, 2) {
		// the value at the END of the source path (an interface-typed slot) has the type of the target in one
		// request and another type, or is nil, in the other: the run-time check must judge every request on its own
		leaf := func(ty string) *V {
			if ty == "int" {
				return vInt(int64(r.Range(1, 40)))
			}
			return vStr(strPool[1+r.Intn(len(strPool)-1)])
		}
		other := "string"
		if f.ty == "string" {
			other = "int"
		}
		v1, v2 := leaf(f.ty), leaf(other)
		if r.Chance(1, 3) {
			v2 = vNil()
		}
		if r.Chance(1, 2) {
			v1, v2 = v2, v1
		}
		switch r.Intn(5) {
		case 0:
			// two steps below the interface-typed field H (an "intermediate interface" of the static check)
			o1, o2 := g.value("Outer", 1), g.value("Outer", 1)
			i1, i2 := g.value("Inner", 1), g.value("Inner", 1)
			n1, n2 := vMap("any"), vMap("any")
			n1.F["a"], n2.F["a"] = v1, v2
			i1.F["Z"], i2.F["Z"] = n1, n2
			o1.F["H"], o2.F["H"] = i1, i2
			d = Decl{S: "Outer", Val: o1, Val2: o2, Maps: []Mapping{{From: []string{"H", "Z", "a"}, To: tp.path}}}
		case 1:
			m1, m2 := vMap("any"), vMap("any")
			m1.F["k"], m2.F["k"] = v1, v2
			d = Decl{S: "map[string]any", Val: m1, Val2: m2, Maps: []Mapping{{From: []string{"k"}, To: tp.path}}}
		case 2:
			m1, m2 := vMap("any"), vMap("any")
			n1, n2 := vMap("any"), vMap("any")
			n1.F["a"], n2.F["a"] = v1, v2
			m1.F["k"], m2.F["k"] = n1, n2
			d = Decl{S: "map[string]any", Val: m1, Val2: m2, Maps: []Mapping{{From: []string{"k", "a"}, To: tp.path}}}
		case 3:
			m1, m2 := vMap("any"), vMap("any")
			n1, n2 := vMap("any"), vMap("any")
			l1, l2 := vMap("any"), vMap("any")
			l1.F["b"], l2.F["b"] = v1, v2
			n1.F["a"], n2.F["a"] = l1, l2
			m1.F["k"], m2.F["k"] = n1, n2
			d = Decl{S: "map[string]any", Val: m1, Val2: m2, Maps: []Mapping{{From: []string{"k", "a", "b"}, To: tp.path}}}
		default:
			i1, i2 := g.value("Inner", 1), g.value("Inner", 1)
			i1.F["Z"], i2.F["Z"] = v1, v2
			d = Decl{S: "any", Val: i1, Val2: i2, Maps: []Mapping{{From: []string{"Z"}, To: tp.path}}}
		}
		c := &Case{T: T, Short: r.Chance(1, 2), Note: "retyped-leaf", Decls: []Decl{d}}
		if r.Chance(1, 2) {
			used := [][]string{tp.path}
			c.Decls = append(c.Decls, g.decl(T, tpaths, 1, &used))
		}
		return c
	}
	switch r.Intn(4) {
	case 0:
		o1, o2 := g.value("Outer", 1), g.value("Outer", 1)
		o1.F["H"], o2.F["H"] = h1, h2
		d = Decl{S: "Outer", Val: o1, Val2: o2, Maps: []Mapping{{From: []string{"H", f.name}, To: tp.path}}}
	case 1:
		m1, m2 := vMap("any"), vMap("any")
		m1.F["k"], m2.F["k"] = h1, h2
		d = Decl{S: "map[string]any", Val: m1, Val2: m2, Maps: []Mapping{{From: []string{"k", f.name}, To: tp.path}}}
	case 2:
		d = Decl{S: "any", Val: h1, Val2: h2, Maps: []Mapping{{From: []string{f.name}, To: tp.path}}}
	default:
		o1, o2 := g.value("Outer", 1), g.value("Outer", 1)
		m1, m2 := vMap("any"), vMap("any")
		m1.F["k"], m2.F["k"] = h1, h2
		o1.F["MA"], o2.F["MA"] = m1, m2
		d = Decl{S: "Outer", Val: o1, Val2: o2, Maps: []Mapping{{From: []string{"MA", "k", f.name}, To: tp.path}}}
	}
	c := &Case{T: T, Short: r.Chance(1, 2), Note: "retyped-hole", Decls: []Decl{d}}
	if r.Chance(1, 2) {
		used := [][]string{tp.path}
		nd := g.decl(T, tpaths, 1, &used)
		if r.Chance(1, 2) {
			c.Decls = append(c.Decls, nd)
		} else {
			c.Decls = []Decl{nd, d}
		}
	}
	return c
}

var srcTypeW = []string{"Outer", "Outer", "Outer", "*Outer", "*Outer", "Inner", "*Inner", "Leaf", "*Leaf",
	"map[string]any", "map[string]any", "map[string]Inner", "map[string]*Inner", "map[string]Leaf",
	"map[string]int", "map[string]string", "int", "string", "map[string]map[string]any", "any",
	"Emb", "Emb", "*Emb", "map[string]Emb", "Emb2"}
var tgtTypeW = []string{"Outer", "Outer", "Outer", "*Outer", "*Outer", "Inner", "*Inner", "Leaf", "*Leaf",
	"map[string]any", "map[string]any", "any", "map[string]Inner", "map[string]Inner", "map[string]*Inner",
	"map[string]Leaf", "map[string]int", "map[string]string", "map[string]map[string]any", "map[string]Outer",
	"Emb", "Emb", "*Emb", "map[string]Emb", "map[string]*Emb", "Emb2", "*Emb2", "map[string]Emb2"}

func compat(pt, st string) bool { return st == "any" || pt == st || pt == "any" }

// one declaration with n mappings whose targets are taken from avail (and removed from it unless reuse)
func (g *gen) decl(T string, tpaths []pinfo, n int, used *[][]string) Decl {
	r := g.r
	S := srcTypeW[r.Intn(len(srcTypeW))]
	val := g.value(S, g.depth)
	d := Decl{S: S, Val: val}
	spaths := g.enumPaths(S, g.depth, false)
	for i := range spaths {
		// the value is looked up along the resolved spelling
		spaths[i].xp = expandPath(S, spaths[i].path)
	}
	ipaths := enumIfacePaths(val, S, g.depth+1)
	for i := 0; i < n; i++ {
		var m Mapping
		// a small input type runs out of targets: stop rather than pile up overlapping mappings (overlaps have
		// their own generator patterns); a declaration left without any mapping is dropped by the caller
		if len(tpaths) > 0 {
			free := false
			for _, q := range tpaths {
				if !conflictsWith(T, *used, q.path) {
					free = true
					break
				}
			}
			if !free && len(*used) > 0 {
				if i > 0 {
					break
				}
				g.noTarget = true // (the caller may drop the declaration; otherwise it gets an overlapping mapping as before)
			}
		}
		// target: prefer one that does not conflict with what is already mapped and that this source can feed
		var tp pinfo
		okT := false
		for try := 0; try < 30 && len(tpaths) > 0; try++ {
			tp = tpaths[r.Intn(len(tpaths))]
			conflict := conflictsWith(T, *used, tp.path)
			feedable := try >= 24 || compat(S, tp.ty)
			for _, p := range spaths {
				if feedable {
					break
				}
				if compat(p.ty, tp.ty) {
					if x, cls := refGet(val, p.resolved()); cls == "" && refAssignable(x, tp.ty) {
						feedable = true
					}
				}
			}
			if !conflict && feedable {
				okT = true
				break
			}
		}
		if !okT {
			if len(tpaths) == 0 {
				tp = pinfo{path: nil, ty: T}
			}
		}
		m.To = tp.path
		st := tp.ty
		// source
		var cands []pinfo
		if r.Chance(1, 3) && len(ipaths) > 0 {
			// run-time-checked source: prefer values whose dynamic type fits
			var fit []pinfo
			for _, p := range ipaths {
				if x, cls := refGet(val, p.resolved()); cls == "" && (st == "any" || x.dynType() == st) {
					fit = append(fit, p)
				}
			}
			if len(fit) > 0 && r.Chance(3, 4) {
				cands = fit
			} else {
				cands = ipaths
			}
		} else {
			var resolving []pinfo
			for _, p := range spaths {
				if compat(p.ty, st) {
					cands = append(cands, p)
					if x, cls := refGet(val, p.resolved()); cls == "" && refAssignable(x, st) {
						resolving = append(resolving, p)
					}
				}
			}
			if len(resolving) > 0 && r.Chance(5, 6) {
				cands = resolving
			}
			if compat(S, st) && r.Chance(1, 4) {
				cands = append(cands, pinfo{path: nil, ty: S})
			}
		}
		if len(cands) == 0 || r.Chance(1, 20) {
			cands = append(append([]pinfo{}, spaths...), ipaths...)
		}
		if len(cands) == 0 {
			m.From = nil
		} else {
			m.From = cands[r.Intn(len(cands))].path
		}
		if len(m.From) == 0 && len(m.To) == 0 {
			// "from all to all" is an edge, not a field mapping; keep it rare
			if len(spaths) > 0 {
				m.From = spaths[r.Intn(len(spaths))].path
			}
		}
		d.Maps = append(d.Maps, m)
		*used = append(*used, m.To)
	}
	// streaming: split a map-typed source into chunks with disjoint keys
	if val.K == "map" && !val.Nil && !val.IK && len(val.F) >= 2 && r.Chance(1, 2) {
		a, b := val.clone(), val.clone()
		for i, k := range sortedKeys(val.F) {
			if i%2 == 0 {
				delete(b.F, k)
			} else {
				delete(a.F, k)
			}
		}
		d.Chunks = []*V{a, b}
	}
	return d
}

var embTypes = []string{"Emb", "*Emb", "map[string]Emb", "map[string]*Emb", "Emb2", "Emb2", "*Emb2", "map[string]Emb2"}

var overlapPatterns = []string{"equal", "prefix", "extension", "sibling-reset", "whole+field", "plain+field", "promoted-alias", "promoted-alias"}

// add an overlapping target to the case; returns the pattern used
func (g *gen) addOverlap(c *Case, tpaths []pinfo) string {
	r := g.r
	pat := overlapPatterns[r.Intn(len(overlapPatterns))]
	// pick an existing non-empty target
	var ex []string
	for _, d := range c.Decls {
		for _, m := range d.Maps {
			if len(m.To) > 0 && (len(ex) == 0 || r.Chance(1, 2)) {
				ex = m.To
			}
		}
	}
	if ex == nil {
		pat = "plain+field"
	}
	var used [][]string
	nd := g.decl(c.T, tpaths, 1, &used)
	typeAt := func(p []string) string {
		for _, q := range tpaths {
			if reflect.DeepEqual(q.path, p) {
				return q.ty
			}
		}
		return ""
	}
	switch pat {
	case "promoted-alias":
		// a field promoted from an embedded struct under its short name, beside the same field (or the embedded
		// field, or something below the field) spelled through the embedded field (F-C15l)
		var short []pinfo
		tpaths = enumPathsP(c.T, g.depth, true, true)
		for _, q := range tpaths {
			if len(expandPath(c.T, q.path)) != len(q.path) {
				short = append(short, q)
			}
		}
		if len(short) == 0 {
			// an input type without embedded structs: take one that has them (the declarations made for the old
			// type are dropped)
			c.T = embTypes[r.Intn(len(embTypes))]
			c.Decls = nil
			tpaths = enumPathsP(c.T, g.depth, true, true)
			for _, q := range tpaths {
				if len(expandPath(c.T, q.path)) != len(q.path) {
					short = append(short, q)
				}
			}
		}
		if len(short) == 0 {
			return g.addOverlapExt(c, nd, ex, tpaths)
		}
		q := short[r.Intn(len(short))]
		// half of the time a field promoted through several levels of embedding, where there is one
		if r.Chance(1, 2) {
			var deep []pinfo
			for _, e := range short {
				if len(expandPath(c.T, e.path)) >= len(e.path)+2 {
					deep = append(deep, e)
				}
			}
			if len(deep) > 0 {
				q = deep[r.Intn(len(deep))]
			}
		}
		full := expandPath(c.T, q.path)
		alias := full
		switch r.Intn(5) {
		case 4:
			// another spelling of the same slot: some of the embedded fields named, some not (with two levels of
			// embedding X, Emb.X, Inner.X and Emb.Inner.X are one slot)
			for try := 0; try < 6; try++ {
				alias = respell(c.T, full, r)
				if !reflect.DeepEqual(alias, q.path) {
					break
				}
			}
		case 0:
			// the embedded field itself (a prefix); cut right after the first spelled-out step
			for i := range q.path {
				if i >= len(full) || full[i] != q.path[i] {
					alias = full[:i+1]
					break
				}
			}
		case 1:
			// something below the field, through the long spelling
			for _, e := range tpaths {
				if len(e.path) > len(q.path) && isPrefix(q.path, e.path) {
					alias = append(append([]string{}, full...), e.path[len(q.path):]...)
					break
				}
			}
		}
		d1 := g.declFor(c.T, q.path, q.ty)
		d2 := g.declFor(c.T, alias, staticTypeAt(c.T, alias))
		keep := c.Decls
		if len(keep) > 1 {
			keep = keep[:1]
		}
		if len(keep) == 1 && (conflictsWith(c.T, targetPaths(keep), q.path) || conflictsWith(c.T, targetPaths(keep), alias)) {
			keep = nil
		}
		ds := append([]Decl{}, keep...)
		if r.Chance(1, 2) {
			ds = append(ds, d1, d2)
		} else {
			ds = append(ds, d2, d1)
		}
		c.Decls = ds
		return pat
	case "equal":
		nd.Maps[0].To = ex
	case "prefix":
		if len(ex) < 2 {
			return g.addOverlapExt(c, nd, ex, tpaths)
		}
		nd.Maps[0].To = ex[:r.Range(1, len(ex)-1)]
	case "extension":
		return g.addOverlapExt(c, nd, ex, tpaths)
	case "sibling-reset":
		// [p.x.y] , [p.z] , [p.x] : the pre-fix trie forgot p.x.y when p.z was added
		var deep pinfo
		for _, q := range tpaths {
			if len(q.path) >= 3 && r.Chance(1, 3) {
				deep = q
				break
			}
		}
		if deep.path == nil {
			return g.addOverlapExt(c, nd, ex, tpaths)
		}
		p := deep.path[:len(deep.path)-2]
		var sib []string
		for _, q := range tpaths {
			if len(q.path) == len(p)+1 && isPrefix(p, q.path) && q.path[len(p)] != deep.path[len(p)] {
				sib = q.path
				break
			}
		}
		if sib == nil {
			return g.addOverlapExt(c, nd, ex, tpaths)
		}
		var u [][]string
		d1 := g.declFor(c.T, deep.path, deep.ty)
		d2 := g.declFor(c.T, sib, typeAt(sib))
		d3 := g.declFor(c.T, deep.path[:len(deep.path)-1], typeAt(deep.path[:len(deep.path)-1]))
		_ = u
		c.Decls = []Decl{d1, d2, d3}
		return pat
	case "whole+field":
		nd.Maps[0].To = nil
		if len(nd.Maps[0].From) == 0 {
			nd.Maps[0].From = []string{"N"}
		}
	case "plain+field":
		nd = Decl{S: c.T, Val: g.value(c.T, g.depth)}
		if _, ok := srcHandles[c.T]; !ok {
			nd = Decl{S: "int", Val: vInt(1)}
		}
	}
	pos := r.Intn(len(c.Decls) + 1)
	if r.Chance(1, 3) && len(nd.Maps) > 0 && len(c.Decls) > 0 {
		// same AddInput call as an existing declaration: only if the source type is the same
		i := r.Intn(len(c.Decls))
		if len(c.Decls[i].Maps) > 0 {
			m := nd.Maps[0]
			sp := g.enumPaths(c.Decls[i].S, g.depth, false)
			if len(sp) > 0 {
				m.From = sp[r.Intn(len(sp))].path
			} else {
				m.From = nil
			}
			if len(m.From) == 0 && len(m.To) == 0 {
				m.To = ex
			}
			at := r.Intn(len(c.Decls[i].Maps) + 1)
			ms := append([]Mapping{}, c.Decls[i].Maps[:at]...)
			ms = append(ms, m)
			ms = append(ms, c.Decls[i].Maps[at:]...)
			c.Decls[i].Maps = ms
			return pat + "/same-call"
		}
	}
	ds := append([]Decl{}, c.Decls[:pos]...)
	ds = append(ds, nd)
	ds = append(ds, c.Decls[pos:]...)
	c.Decls = ds
	return pat
}

func (g *gen) addOverlapExt(c *Case, nd Decl, ex []string, tpaths []pinfo) string {
	r := g.r
	var exts [][]string
	for _, q := range tpaths {
		if len(q.path) > len(ex) && isPrefix(ex, q.path) {
			exts = append(exts, q.path)
		}
	}
	if len(exts) > 0 {
		nd.Maps[0].To = exts[r.Intn(len(exts))]
	} else {
		nd.Maps[0].To = ex
	}
	pos := r.Intn(len(c.Decls) + 1)
	ds := append([]Decl{}, c.Decls[:pos]...)
	ds = append(ds, nd)
	ds = append(ds, c.Decls[pos:]...)
	c.Decls = ds
	if len(exts) > 0 {
		return "extension"
	}
	return "equal"
}

// a declaration with exactly one mapping to the given target
func (g *gen) declFor(T string, to []string, st string) Decl {
	r := g.r
	for try := 0; try < 20; try++ {
		S := srcTypeW[r.Intn(len(srcTypeW))]
		var cands []pinfo
		for _, p := range g.enumPaths(S, g.depth, false) {
			if st != "" && compat(p.ty, st) && p.ty != "any" {
				cands = append(cands, p)
			}
		}
		if st != "" && compat(S, st) {
			cands = append(cands, pinfo{path: nil, ty: S})
		}
		if len(cands) == 0 {
			continue
		}
		val := g.value(S, g.depth)
		return Decl{S: S, Val: val, Maps: []Mapping{{From: cands[r.Intn(len(cands))].path, To: to}}}
	}
	return Decl{S: "int", Val: g.leafInt(), Maps: []Mapping{{To: to}}}
}

var malformedKinds = []string{"bogus-field", "unexported", "intkey-map", "nested-ptr", "below-leaf", "leaf-target", "from-all-to-all", "src-leaf", "ptr-iface", "dyn-unexported", "ptr-map", "ptr-map"}

func (g *gen) malformed(c *Case) string {
	r := g.r
	kind := malformedKinds[r.Intn(len(malformedKinds))]
	d := &c.Decls[r.Intn(len(c.Decls))]
	if len(d.Maps) == 0 {
		return "none"
	}
	m := &d.Maps[r.Intn(len(d.Maps))]
	switch kind {
	case "bogus-field":
		if r.Chance(1, 2) {
			m.To = cat(m.To, "nope")
		} else {
			m.From = cat(m.From, "nope")
		}
	case "unexported":
		if r.Chance(1, 2) {
			c.T = "Inner"
			m.To = []string{"u"}
		} else {
			d.S, d.Val, d.Chunks = "Inner", g.value("Inner", g.depth), nil
			for i := range d.Maps {
				d.Maps[i].From = []string{"X"}
			}
			m.From = []string{"u"}
		}
	case "intkey-map":
		if r.Chance(1, 2) {
			c.T = "map[int]string"
			m.To = []string{"k"}
		} else if r.Chance(1, 2) {
			d.S, d.Val, d.Chunks = "map[int]string", g.value("map[int]string", 2), nil
			for i := range d.Maps {
				d.Maps[i].From = []string{"k"}
			}
		} else {
			c.T = "Outer"
			m.To = []string{"MK", "k"}
		}
	case "nested-ptr":
		if r.Chance(1, 2) {
			c.T = "Outer"
			m.To = []string{"PP", "X"}
		} else if r.Chance(1, 2) {
			c.T = "**Outer"
			m.To = []string{"N"}
		} else {
			d.S, d.Val, d.Chunks = "Outer", g.value("Outer", g.depth), nil
			for i := range d.Maps {
				d.Maps[i].From = []string{"N"}
			}
			m.From = []string{"PP", "X"}
		}
	case "below-leaf":
		if r.Chance(1, 2) {
			c.T = "Outer"
			m.To = []string{"N", "a"}
		} else {
			d.S, d.Val, d.Chunks = "Outer", g.value("Outer", g.depth), nil
			for i := range d.Maps {
				d.Maps[i].From = []string{"S"}
			}
			m.From = []string{"N", "a"}
		}
	case "dyn-unexported":
		// an unexported field of the struct (or pointer to struct) an interface-typed field holds at request
		// time: the static check cannot see it, the request must fail with an error
		o := g.value("Outer", 1)
		in := g.value("Inner", 1)
		if r.Chance(1, 2) {
			in = vPtr("Inner", in)
		}
		o.F["H"] = in
		d.S, d.Val, d.Chunks = "Outer", o, nil
		for i := range d.Maps {
			d.Maps[i].From = []string{"N"}
		}
		m.From = []string{"H", "u"}
	case "leaf-target":
		c.T = []string{"int", "string"}[r.Intn(2)]
	case "from-all-to-all":
		m.From, m.To = nil, nil
	case "src-leaf":
		d.S, d.Val, d.Chunks = "int", g.leafInt(), nil
	case "ptr-map":
		// a path continuing below a pointer to a MAP (round 7): the request-time walkers follow a pointer only to a
		// struct, so Compile must refuse the step — as a struct field, as a map element, as the whole input / output,
		// on the target side (mapping or static value) and on the source side; ending AT the pointer is fine
		pm := func() *V {
			m := vMap("string")
			m.F["k"] = g.leafStr()
			if r.Chance(1, 2) {
				m.F["j"] = g.leafStr()
			}
			return vPtr("map[string]string", m)
		}
		str := Decl{S: "string", Val: g.leafStr()}
		switch r.Intn(7) {
		case 0:
			c.T = "Outer"
			str.Maps = []Mapping{{To: []string{"PM", "k"}}}
			c.Decls = []Decl{str}
		case 1:
			c.T = "*map[string]string"
			str.Maps = []Mapping{{To: []string{"k"}}}
			c.Decls = []Decl{str}
		case 2:
			c.T = "map[string]*map[string]string"
			str.Maps = []Mapping{{To: []string{"k", "j"}}}
			c.Decls = []Decl{str}
		case 3:
			o := g.value("Outer", 1)
			o.F["PM"] = pm()
			c.T = "map[string]any"
			c.Decls = []Decl{{S: "Outer", Val: o, Maps: []Mapping{{From: []string{"PM", "k"}, To: []string{"k"}}, {From: []string{"N"}, To: []string{"j"}}}}}
		case 4:
			c.T = []string{"map[string]string", "Leaf"}[r.Intn(2)]
			to := map[string]string{"map[string]string": "j", "Leaf": "B"}[c.T]
			if r.Chance(1, 2) {
				c.Decls = []Decl{{S: "*map[string]string", Val: pm(), Maps: []Mapping{{From: []string{"k"}, To: []string{to}}}}}
			} else {
				e := vMap("*map[string]string")
				e.F["k"] = pm()
				c.Decls = []Decl{{S: "map[string]*map[string]string", Val: e, Maps: []Mapping{{From: []string{"k", "k"}, To: []string{to}}}}}
			}
		case 5:
			// a static value below the pointer, beside a mapping that is fine
			c.T = "Outer"
			str.Maps = []Mapping{{To: []string{"S"}}}
			c.Decls = []Decl{str}
			c.Statics = []Static{{To: []string{"PM", "j"}, Val: g.leafStr()}}
		default:
			// the pointer itself as the mapped value: fine
			o := g.value("Outer", 1)
			o.F["PM"] = pm()
			c.T = []string{"Outer", "*map[string]string", "map[string]*map[string]string", "map[string]any"}[r.Intn(4)]
			to := map[string][]string{"Outer": {"PM"}, "*map[string]string": nil, "map[string]*map[string]string": {"j"}, "map[string]any": {"k"}}[c.T]
			c.Decls = []Decl{{S: "Outer", Val: o, Maps: []Mapping{{From: []string{"PM"}, To: to}}}}
		}
	case "ptr-iface":
		// a path continuing below a pointer to an interface (F-C15i); ending AT the pointer is fine
		switch r.Intn(4) {
		case 0:
			c.T = "Outer"
			c.Decls = []Decl{{S: "int", Val: g.leafInt(), Maps: []Mapping{{To: []string{"PA", "k"}}}}}
		case 1:
			c.T = "*any"
			c.Decls = []Decl{{S: "int", Val: g.leafInt(), Maps: []Mapping{{To: []string{"k"}}}}}
		case 2:
			c.T = "map[string]any"
			c.Decls = []Decl{{S: "Outer", Val: g.value("Outer", g.depth), Maps: []Mapping{{From: []string{"PA", "k"}, To: []string{"k"}}}}}
		default:
			c.T = "Outer"
			c.Decls = []Decl{{S: "Outer", Val: g.value("Outer", g.depth), Maps: []Mapping{{From: []string{"PA"}, To: []string{"PA"}}, {From: []string{"N"}, To: []string{"N"}}}}}
		}
	}
	return kind
}

// nil interface values as mapped values: through a statically interface-typed source (checked at
// request time against the target slot), through a path below an interface-typed field, or as the
// whole interface-typed field; the target slot is any slot of T (nilable or not), in particular
// fields of struct- and pointer-valued map entries reached through instantiated pointers.
func (g *gen) nilCase() *Case {
	r := g.r
	T := []string{"Outer", "*Outer", "map[string]Outer", "map[string]Inner", "map[string]*Inner", "Inner", "map[string]any", "any", "Emb", "map[string]Emb"}[r.Intn(10)]
	tpaths := g.enumPaths(T, g.depth, true)
	c := &Case{T: T, Short: r.Chance(1, 2), Note: "nil-value"}
	var used [][]string
	n := r.Range(1, 2)
	for i := 0; i < n && len(tpaths) > 0; i++ {
		var tp pinfo
		ok := false
		for try := 0; try < 30; try++ {
			tp = tpaths[r.Intn(len(tpaths))]
			if !conflictsWith(T, used, tp.path) {
				ok = true
				break
			}
		}
		if !ok {
			break
		}
		used = append(used, tp.path)
		var d Decl
		other := g.value("any", 1)
		switch r.Intn(3) {
		case 0: // statically typed `any` source holding nil
			m := vMap("any")
			m.F["k"] = vNil()
			m.F["j"] = other
			d = Decl{S: "map[string]any", Val: m, Maps: []Mapping{{From: []string{"k"}, To: tp.path}}}
		case 1: // below an interface-typed field: one step (checked like a static `any`) or two (intermediate interface)
			inner := vMap("any")
			inner.F["a"] = vNil()
			inner.F["b"] = other
			from := []string{"H", "a"}
			if r.Chance(1, 2) {
				deep := vMap("any")
				deep.F["b"] = vNil()
				deep.F["c"] = other
				inner.F["a"] = deep
				from = []string{"H", "a", "b"}
			}
			o := vStruct("Outer")
			o.F["H"] = inner
			d = Decl{S: "Outer", Val: o, Maps: []Mapping{{From: from, To: tp.path}}}
		default: // the interface-typed field itself is nil
			o := vStruct("Outer")
			if !looseZeroExact(other, "int") && other.K == "int" {
				o.F["N"] = other
			}
			d = Decl{S: "Outer", Val: o, Maps: []Mapping{{From: []string{"H"}, To: tp.path}}}
		}
		c.Decls = append(c.Decls, d)
	}
	if len(c.Decls) == 0 {
		return nil
	}
	if r.Chance(1, 2) {
		c.Decls = append(c.Decls, g.decl(T, tpaths, 1, &used))
	}
	return c
}

// static values (SetStaticValue on the successor): constants at target paths, mostly fitting
// and non-overlapping; sometimes of the wrong type, at a bogus path, or overlapping a mapping
func (g *gen) addStatics(c *Case, tpaths []pinfo) string {
	r := g.r
	used := targetPaths(c.Decls)
	for _, s := range c.Statics {
		used = append(used, s.To)
	}
	kind := "ok"
	n := r.Range(1, 2)
	for i := 0; i < n && len(tpaths) > 0; i++ {
		var tp pinfo
		for try := 0; try < 30; try++ {
			tp = tpaths[r.Intn(len(tpaths))]
			if !conflictsWith(c.T, used, tp.path) {
				break
			}
		}
		s := Static{To: tp.path, Val: g.value(tp.ty, 2)}
		switch {
		case r.Chance(1, 8):
			kind = "wrong-type"
			s.Val = g.value([]string{"int", "string", "Leaf", "*Inner", "map[string]int"}[r.Intn(5)], 1)
		case r.Chance(1, 12):
			kind = "bogus-path"
			s.To = cat(s.To, "nope")
		case r.Chance(1, 12):
			kind = "nil"
			s.Val = vNil()
		case r.Chance(1, 10) && len(used) > 0:
			kind = "overlap"
			s.To = used[r.Intn(len(used))]
		}
		used = append(used, s.To)
		c.Statics = append(c.Statics, s)
	}
	return kind
}

// a unit case: convertTo on 2-4 keys; half of them with an overlapping pair whose prefix key holds a
// container value (pointer / map / struct / any), so that the iteration order decides whether the
// walker writes into that value
func (g *gen) unitCase() *Case {
	r := g.r
	T := []string{"Outer", "Outer", "*Outer", "map[string]Outer", "map[string]Inner", "map[string]*Inner", "Inner", "map[string]any", "any", "map[string]map[string]any",
		"Emb", "*Emb", "map[string]*Emb", "Emb2", "*Emb2"}[r.Intn(15)]
	alias := r.Chance(1, 3)
	tpaths := enumPathsP(T, g.depth, true, g.promo || alias)
	if len(tpaths) == 0 {
		return nil
	}
	c := &Case{T: T, Note: "unit"}
	var used [][]string
	add := func(tp pinfo) {
		v := g.value(tp.ty, 2)
		if r.Chance(1, 12) {
			v = g.value([]string{"int", "string", "Leaf"}[r.Intn(3)], 1)
		}
		c.Unit = append(c.Unit, Static{To: tp.path, Val: v})
		used = append(used, tp.path)
	}
	n := r.Range(2, 4)
	if r.Chance(1, 2) {
		// an overlapping pair: a key and one of its extensions
		var pairs [][2]pinfo
		for _, p := range tpaths {
			xp := expandPath(T, p.path)
			for _, q := range tpaths {
				if !alias && len(q.path) > len(p.path) && isPrefix(p.path, q.path) {
					pairs = append(pairs, [2]pinfo{p, q})
				}
				// the same slot, or a slot and something below it, under two spellings (promoted field)
				if xq := expandPath(T, q.path); alias && isPrefix(xp, xq) && !isPrefix(p.path, q.path) && !isPrefix(q.path, p.path) {
					pairs = append(pairs, [2]pinfo{p, q})
				}
			}
		}
		if len(pairs) > 0 {
			pq := pairs[r.Intn(len(pairs))]
			c.Note = "unit-overlap"
			// the prefix key gets a non-nil container most of the time
			v := g.value(pq[0].ty, 2)
			for try := 0; try < 5 && (v.Nil || v.K == "nil"); try++ {
				v = g.value(pq[0].ty, 2)
			}
			c.Unit = append(c.Unit, Static{To: pq[0].path, Val: v})
			used = append(used, pq[0].path)
			add(pq[1])
			n -= 2
		}
	}
	for i := 0; i < n; i++ {
		var tp pinfo
		ok := false
		for try := 0; try < 30; try++ {
			tp = tpaths[r.Intn(len(tpaths))]
			if !conflictsWith(T, used, tp.path) {
				ok = true
				break
			}
		}
		if !ok {
			break
		}
		add(tp)
	}
	// keys are unique in a Go map
	var out []Static
	for _, s := range c.Unit {
		dup := false
		for _, o := range out {
			if strings.Join(o.To, "\x1f") == strings.Join(s.To, "\x1f") {
				dup = true
			}
		}
		if !dup {
			out = append(out, s)
		}
	}
	c.Unit = out
	if len(c.Unit) < 1 {
		return nil
	}
	if r.Chance(1, 2) {
		p := r.Perm(len(c.Unit))
		sh := make([]Static, len(c.Unit))
		for i, j := range p {
			sh[i] = c.Unit[j]
		}
		c.Unit = sh
	}
	return c
}

// round 7: the successor behind an input key (WithInputKey("k")): a lambda of own input type X; what arrives at it is
// a map[string]any, and the node is handed the entry "k" of it. One mapping from a source slot of static type X
// (a field path or the predecessor's whole output) to ["k"], or the static value ["k"] alone (SetStaticValue);
// the mapped input must be built as a map[string]any whatever X is
var keyedTypes = []string{"Inner", "*Inner", "Leaf", "*Leaf", "int", "string", "map[string]int", "map[string]Leaf", "Emb", "Outer", "map[string]string"}

func (g *gen) keyedCase() *Case {
	r := g.r
	X := keyedTypes[r.Intn(len(keyedTypes))]
	c := &Case{T: "map[string]any", KeyT: X, Short: r.Chance(1, 2), Note: "keyed-input"}
	if r.Chance(1, 4) {
		c.Statics = []Static{{To: []string{inputKey}, Val: g.value(X, 2)}}
		c.Note = "keyed-input:static"
		return c
	}
	for try := 0; try < 40; try++ {
		S := srcTypeW[r.Intn(len(srcTypeW))]
		var cands []pinfo
		if S == X {
			cands = append(cands, pinfo{path: nil, ty: S})
		}
		for _, p := range g.enumPaths(S, g.depth, false) {
			if p.ty == X {
				cands = append(cands, p)
			}
		}
		if len(cands) == 0 {
			continue
		}
		from := cands[r.Intn(len(cands))].path
		val := g.value(S, g.depth)
		// the source path must resolve (a request that fails before the node is reached says nothing about the key)
		ok := false
		for t2 := 0; t2 < 8; t2++ {
			if _, cls := refGet(val, expandPath(S, from)); cls == "" {
				ok = true
				break
			}
			val = g.value(S, g.depth)
		}
		if !ok {
			continue
		}
		c.Decls = []Decl{{S: S, Val: val, Maps: []Mapping{{From: from, To: []string{inputKey}}}}}
		return c
	}
	return nil
}

func (g *gen) base(nDecls, maxMaps int, single bool) (*Case, []pinfo) {
	r := g.r
	T := tgtTypeW[r.Intn(len(tgtTypeW))]
	tpaths := g.enumPaths(T, g.depth, true)
	c := &Case{T: T, Short: r.Chance(1, 2)}
	var used [][]string
	total := 0
	for i := 0; i < nDecls; i++ {
		n := 1
		if !single {
			n = r.Range(1, 3)
		}
		if total+n > maxMaps {
			n = maxMaps - total
		}
		if n <= 0 {
			break
		}
		total += n
		g.noTarget = false
		d := g.decl(T, tpaths, n, &used)
		if g.noTarget && len(c.Decls) > 0 {
			break // no target left for another declaration
		}
		c.Decls = append(c.Decls, d)
	}
	return c, tpaths
}

// permutations of 0..n-1 in lexicographic order
func perms(n int) [][]int {
	var out [][]int
	var rec func(cur []int, used []bool)
	rec = func(cur []int, used []bool) {
		if len(cur) == n {
			out = append(out, append([]int{}, cur...))
			return
		}
		for i := 0; i < n; i++ {
			if !used[i] {
				used[i] = true
				rec(append(cur, i), used)
				used[i] = false
			}
		}
	}
	rec(nil, make([]bool, n))
	return out
}

type family struct {
	base  *Case
	perms [][]int
	pos   int
}

func (f *family) next() *Case {
	p := f.perms[f.pos]
	f.pos++
	c := &Case{T: f.base.T, Short: f.base.Short, Note: f.base.Note}
	for _, i := range p {
		c.Decls = append(c.Decls, f.base.Decls[i])
	}
	return c
}
