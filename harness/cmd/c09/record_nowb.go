//go:build !verif_c09wb

package main

// Built without the white-box group of C09 (tag verif_c09wb): the compiled record cannot be looked at.
// The record oracle and the projection are off (every case carries rec:unavailable and whitebox:unavailable),
// the other oracles — prediction by the model, concurrent = solo, cross-call leak detection, race detector —
// are not.

const whiteBox = false

type hookNode struct {
	Key string
	Sub *hookGraph
}

type hookBranch struct {
	From string
	Ends []string
}

type hookGraph struct {
	Nodes    []hookNode
	Data     [][2]string
	Ctrl     [][2]string
	Branches []hookBranch
	Dag      bool
	Eager    bool
	MaxSteps int
	State    bool
}

func hookSnapshot(roots ...any) (lines []string, nRunners int, failure string) {
	return nil, 0, "the white-box hook of C09 is not built in (tag verif_c09wb)"
}

func hookProject(root any) *hookGraph { return nil }
