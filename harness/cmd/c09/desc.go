package main

// Description of a compiled object for the Gallina engine (coq/Model/IsolationEngine.v).
// Every builder of the zoo that has a model writes down, next to the calls it makes to the
// public API, what it built: nodes with the code of their function, edges, branches, trigger
// mode, step limit, whether the graph declares state. The description is printed into the
// case term; the model runs it on the call's input and options and so predicts the result
// and the node-level events of every call without looking at the implementation.

import (
	"fmt"
	"strings"

	"verif/harness/lib"
)

type dNode struct {
	key    string
	fun    string // Gallina term of type nfun
	okind  int    // kind of call option the node accepts (0 lambda option, 1 model, 2 tool), -1 none
	outKey string
	pre    string // Gallina term of type hfun, "" = none
	post   string
}

type dBranch struct {
	from string
	code string // Gallina term of type bcode
	ends []string
}

type dFmap struct {
	from, to string
	ms       [][2]string // source field, target field ("" = whole value)
}

type dGraph struct {
	nodes    []dNode
	edges    [][2]string
	branches []dBranch
	dag      bool
	max      int
	state    bool // the harness state generator (logs "gen")
	agentSt  bool // an agent's own state
	fmaps    []dFmap
	statics  [][3]string // node, field, value
}

func (g *dGraph) fmap(from, to string, ms ...[2]string) {
	g.fmaps = append(g.fmaps, dFmap{from, to, ms})
}

// defaultMax: the step limit compile gives a Pregel graph without WithMaxRunSteps
func (g *dGraph) defaultMax() { g.max = len(g.nodes) + 10 }

func q(s string) string { return lib.CoqStr(s) }

func optTerm(s string) string {
	if s == "" {
		return "None"
	}
	return "(Some " + s + ")"
}

func (g *dGraph) node(key, fun string, okind int, extra ...string) {
	n := dNode{key: key, fun: fun, okind: okind}
	for _, e := range extra {
		switch {
		case strings.HasPrefix(e, "out="):
			n.outKey = e[4:]
		case strings.HasPrefix(e, "pre="):
			n.pre = e[4:]
		case strings.HasPrefix(e, "post="):
			n.post = e[5:]
		}
	}
	g.nodes = append(g.nodes, n)
}

func (g *dGraph) edge(a, b string) { g.edges = append(g.edges, [2]string{a, b}) }

func (g *dGraph) branch(from, code string, ends ...string) {
	g.branches = append(g.branches, dBranch{from, code, ends})
}

func (g *dGraph) term() string {
	var ns, es, bs []string
	for _, n := range g.nodes {
		ok := "None"
		if n.okind >= 0 {
			ok = fmt.Sprintf("(Some %d%%N)", n.okind)
		}
		out := "None"
		if n.outKey != "" {
			out = "(Some " + q(n.outKey) + ")"
		}
		ns = append(ns, lib.CoqApp("Node", q(n.key), n.fun, ok, out, optTerm(n.pre), optTerm(n.post)))
	}
	for _, e := range g.edges {
		es = append(es, lib.CoqPair(q(e[0]), q(e[1])))
	}
	for _, b := range g.branches {
		bs = append(bs, lib.CoqApp("Branch", q(b.from), b.code, lib.CoqStrList(b.ends)))
	}
	var fs, ss []string
	for _, f := range g.fmaps {
		var ms []string
		for _, m := range f.ms {
			ms = append(ms, lib.CoqPair(q(m[0]), q(m[1])))
		}
		fs = append(fs, lib.CoqTuple(q(f.from), q(f.to), lib.CoqList(ms)))
	}
	for _, s := range g.statics {
		ss = append(ss, lib.CoqTuple(q(s[0]), q(s[1]), q(s[2])))
	}
	sk := "0%N"
	if g.state {
		sk = "1%N"
	} else if g.agentSt {
		sk = "2%N"
	}
	return lib.CoqApp("Graph", lib.CoqList(ns), lib.CoqList(es), lib.CoqList(bs), lib.CoqBool(g.dag), lib.CoqNat(g.max), sk,
		lib.CoqList(fs), lib.CoqList(ss))
}

func fn1(name, key string) string { return "(" + name + " " + q(key) + ")" }

// values
func vR(id string, n, lim int, h string) string {
	return lib.CoqApp("VR", q(id), lib.CoqZ(int64(n)), lib.CoqZ(int64(lim)), q(h))
}
func vS(s string) string { return "(VS " + q(s) + ")" }

// vM: keys must be given sorted
func vM(kv ...string) string {
	var items []string
	for i := 0; i+1 < len(kv); i += 2 {
		items = append(items, lib.CoqPair(q(kv[i]), kv[i+1]))
	}
	return "(VM " + lib.CoqList(items) + ")"
}

const selfTag = "<tSELF>"

// model options
func opT(kind int, val string, paths ...[]string) string {
	var ps []string
	for _, p := range paths {
		ps = append(ps, lib.CoqStrList(p))
	}
	return lib.CoqApp("OP", fmt.Sprintf("%d%%N", kind), lib.CoqList(ps), q(val))
}

func keysAsPaths(keys ...string) [][]string {
	out := make([][]string, len(keys))
	for i, k := range keys {
		out[i] = []string{k}
	}
	return out
}

// mLambdaOpts mirrors lambdaOpts
func mLambdaOpts(specIdx, bits int, designated ...string) []string {
	var out []string
	if bits&optLambdaDesignated != 0 && len(designated) > 0 {
		out = append(out, opT(0, fmt.Sprintf("d%d", specIdx), keysAsPaths(designated...)...))
	}
	if bits&optLambdaGlobal != 0 {
		out = append(out, opT(0, fmt.Sprintf("g%d", specIdx)))
	}
	return out
}

func mWithShared(bits int, shared, own []string) []string {
	if bits&optShared == 0 {
		return own
	}
	return append(append([]string{}, shared...), own...)
}

func callTerm(in string, opts []string, max int, fut ...bool) string {
	m := "None"
	if max > 0 {
		m = "(Some " + lib.CoqNat(max) + ")"
	}
	return lib.CoqApp("CA", in, lib.CoqList(opts), m, lib.CoqBool(len(fut) > 0 && fut[0]), q(""), "None")
}

// cancelAt: the call term of a call whose own context is cancelled during its superstep n-1
func cancelAt(term string, n int) string {
	if !strings.HasSuffix(term, " None)") {
		panic("cancelAt: unexpected call term " + term)
	}
	return strings.TrimSuffix(term, " None)") + " (Some " + lib.CoqNat(n) + "))"
}

// callTermSuffix: a call whose rendering gets a suffix that the compile options imply
func callTermSuffix(in string, opts []string, suffix string) string {
	return lib.CoqApp("CA", in, lib.CoqList(opts), "None", "false", q(suffix), "None")
}

// messages
func tcT(id, name, args string) string { return lib.CoqApp("TC", q(id), q(name), q(args)) }
func msgT(role, content string, calls ...string) string {
	return lib.CoqApp("MSG", q(role), q(content), lib.CoqList(calls))
}
func vMsg(m string) string       { return "(VMsg " + m + ")" }
func vMsgs(ms ...string) string  { return "(VMsgs " + lib.CoqList(ms) + ")" }
func strs(xs ...string) []string { return xs }

// coreEvent: the node-level events the model predicts (callback events are C10's matter and
// are compared solo / concurrent by the direct oracle only).
func coreEvent(name string) bool {
	for _, p := range []string{"cb:", "scb:", "handoff:", "interrupt:", "ctx:"} {
		if strings.HasPrefix(name, p) {
			return false
		}
	}
	return true
}

func coreEvents(evs []string) []string {
	out := make([]string, 0, len(evs))
	for _, e := range evs {
		if coreEvent(e) {
			out = append(out, e)
		}
	}
	return out
}
