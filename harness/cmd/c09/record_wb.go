//go:build verif_c09wb

package main

// White-box group of C09: the hook compose/verif_c09.go (build tags verif && verif_c09wb) names unexported
// types and fields of package compose. It is asked for by props/C09.json ("extra_tags"); a tree in which it
// no longer compiles (a rename it does not follow) can still be checked with the black-box oracles by
// building the harness without the tag (record_nowb.go).

import "github.com/cloudwego/eino/compose"

const whiteBox = true

type hookGraph = compose.VerifC09Graph

func hookSnapshot(roots ...any) (lines []string, nRunners int, failure string) {
	return compose.VerifC09Snapshot(roots...)
}

func hookProject(root any) *hookGraph { return compose.VerifC09Project(root) }
