package main

// The compiled record, looked at directly (hook compose/verif_c09.go, build tags verif && verif_c09wb: the
// white-box group of C09 — record_wb.go reaches it; built without verif_c09wb, record_nowb.go says the
// record is unavailable and the check runs its black-box oracles only: tags rec:unavailable, whitebox:unavailable).
//
//  1. Snapshot: everything reachable from the compiled object (through the closures Compile
//     hides it behind, down to the *runner of every nested graph), from the builder it was
//     compiled from, from the option VALUES every call shares and from the shared parent
//     context, rendered canonically INCLUDING THE SPARE CAPACITY OF SLICES, is taken before the
//     first call and after the last one. The two must be equal: a run owns everything it
//     mutates (hypothesis H1 of runs_non_interfering_general: no step writes the record). An
//     append onto a shared backing array, a lazily filled cache, a per-call setting written
//     into the record show here deterministically, whether or not two runs collided.
//  2. Projection: the record in the terms of the model (node keys, data edges, branches with
//     their ends, trigger mode, step limit, state, nested graphs) is printed into the case term;
//     Corr/C09.v compares it, before and after the calls, with the projection of the graph
//     description the model runs — the description is checked against what Compile built.

import (
	"context"
	"fmt"
	"sort"
	"strings"
)

type recSnap struct {
	lines   []string
	runners int
	fail    string
}

func takeSnap(o *object, ctxs ...context.Context) recSnap {
	roots := append([]any{}, o.roots...)
	for _, c := range ctxs {
		roots = append(roots, c)
	}
	if len(roots) == 0 {
		return recSnap{}
	}
	lines, n, fail := hookSnapshot(roots...)
	// readable paths: root<i> -> what it is
	for i, r := range roots {
		from, to := fmt.Sprintf("root%d", i), rootLabel(r)
		for j, l := range lines {
			if strings.HasPrefix(l, from) && (len(l) == len(from) || !(l[len(from)] >= '0' && l[len(from)] <= '9')) {
				lines[j] = to + l[len(from):]
			}
		}
	}
	// ... and the closures Compile hides the record behind -> what they lead to
	short := strings.NewReplacer("*.compiled*.runner*", ".runner", ".action*.runner*", ".action.runner")
	for j, l := range lines {
		lines[j] = short.Replace(l)
	}
	return recSnap{lines, n, fail}
}

func rootLabel(r any) string {
	t := fmt.Sprintf("%T", r)
	switch {
	case strings.Contains(t, "runnablePacker"):
		return "<compiled runnable>"
	case strings.Contains(t, "compose.Graph[") || strings.Contains(t, "compose.Chain[") || strings.Contains(t, "compose.Workflow["):
		return "<builder>"
	case strings.Contains(t, "react.Agent"):
		return "<react agent>"
	case strings.Contains(t, "host.MultiAgent"):
		return "<host multi-agent>"
	case strings.Contains(t, "ToolsNode") && !strings.HasPrefix(t, "[]"):
		return "<tools node>"
	case strings.HasPrefix(t, "[]"):
		return "<option values shared by all calls " + t + ">"
	case strings.Contains(t, "context.") || strings.Contains(t, "Ctx"):
		return "<parent context shared by all calls>"
	}
	return "<" + t + ">"
}

// diffSnap lists (at most 4) leaves that differ between two snapshots of the same object.
func diffSnap(a, b recSnap) []string {
	if a.fail != "" || b.fail != "" {
		return nil
	}
	var out []string
	split := func(l string) (string, string) {
		if i := strings.Index(l, " = "); i >= 0 {
			return l[:i], l[i+3:]
		}
		return l, ""
	}
	n := len(a.lines)
	if len(b.lines) < n {
		n = len(b.lines)
	}
	for i := 0; i < n && len(out) < 4; i++ {
		if a.lines[i] != b.lines[i] {
			pa, va := split(a.lines[i])
			pb, vb := split(b.lines[i])
			// an interface that was nil and now holds a value renders with a longer path
			base := func(p string) string {
				if i := strings.LastIndex(p, "]("); i >= 0 {
					return p[:i+1]
				}
				return p
			}
			if pa == pb {
				out = append(out, fmt.Sprintf("%s: %s before, %s after", pa, va, vb))
			} else if base(pa) == base(pb) {
				out = append(out, fmt.Sprintf("%s: %s before, %s after", base(pa), va, strings.TrimPrefix(pb, base(pb))+" = "+vb))
				return out
			} else {
				// the structure changed (a slice grew, a map got an entry): everything after
				// this point is shifted, report the first place only
				out = append(out, fmt.Sprintf("structure differs from here on: before %q, after %q", clip(a.lines[i]), clip(b.lines[i])))
				return out
			}
		}
	}
	if len(out) == 0 && len(a.lines) != len(b.lines) {
		out = append(out, fmt.Sprintf("%d leaves before, %d after", len(a.lines), len(b.lines)))
	}
	return out
}

// projString renders the projection of the compiled record canonically; the same format is
// produced by rproj in coq/Model/IsolationEngine.v from the description given to the model.
// Every list is sorted bytewise after rendering its items.
func projString(g *hookGraph) string {
	b2s := func(b bool) string {
		if b {
			return "1"
		}
		return "0"
	}
	var nodes, data, brs []string
	for _, n := range g.Nodes {
		s := n.Key
		if n.Sub != nil {
			s += ":" + projString(n.Sub)
		}
		nodes = append(nodes, s)
	}
	for _, e := range g.Data {
		data = append(data, e[0]+">"+e[1])
	}
	for _, b := range g.Branches {
		ends := append([]string{}, b.Ends...)
		sort.Strings(ends)
		brs = append(brs, b.From+"?"+strings.Join(ends, "|"))
	}
	sort.Strings(nodes)
	sort.Strings(data)
	sort.Strings(brs)
	max := g.MaxSteps
	if g.Dag {
		max = 0
	}
	return "G{dag=" + b2s(g.Dag) + ";max=" + fmt.Sprint(max) + ";state=" + b2s(g.State) +
		";nodes=[" + strings.Join(nodes, ",") + "];data=[" + strings.Join(data, ",") + "];br=[" + strings.Join(brs, ",") + "]}"
}

// objProj: "" when the object has no compiled graph record (a ToolsNode called directly).
func objProj(o *object) string {
	if o.proj == nil {
		return ""
	}
	g := hookProject(o.proj)
	if g == nil {
		return "unreachable"
	}
	return projString(g)
}
