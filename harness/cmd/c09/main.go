// Engine C09 — a compiled runnable is safe for concurrent use; runs are isolated.
//
// One case = one compiled object of the zoo (built through the public API only, twice from
// the same seed: a fresh copy and a reference copy), a set of K call specs (paradigm x input
// x option set), and three phases:
//  1. G goroutines, released at once, make PerG calls each on the FRESH copy (nothing has
//     run on it yet: lazily initialised structures are first touched concurrently);
//  2. every spec runs ALONE, twice, on the reference copy (the solo observation must itself be
//     deterministic);
//  3. every spec runs alone once more on the copy the concurrent calls used.
//
// Every concurrent call, and every call of phase 3, must produce exactly what its spec produced
// alone in phase 2:
//   - the canonically rendered result (own tag -> "<tSELF>"),
//   - the multiset of events (node executions, branch evaluations, state generator and
//     handler calls, model and tool calls, options delivered, callback events received by
//     the call's own handlers and by shared handlers),
//
// and nothing that ran on behalf of one call may have observed anything of another call
// (context, input, options, state object, handler). Result and node-level events of every
// call are also PREDICTED by the Gallina engine model from the description of the object and
// the call's input and options (desc.go, Corr/C09.v); the prediction is compared in coqc. The
// binary is built with -race for both tiers; a race report written while a case runs fails
// that case.
package main

import (
	"context"
	"encoding/json"
	"fmt"
	"hash/fnv"
	"os"
	"path/filepath"
	"regexp"
	"sort"
	"strings"
	"sync"
	"sync/atomic"
	"syscall"
	"time"

	"github.com/cloudwego/eino/callbacks"

	"verif/harness/lib"
)

type Case struct {
	Kind  string `json:"kind"`
	Seed  uint64 `json:"seed"`  // shape of the object and choice of specs
	G     int    `json:"g"`     // concurrent callers
	PerG  int    `json:"per_g"` // calls per caller
	K     int    `json:"k"`     // distinct call specs
	Sched uint64 `json:"sched"` // schedule perturbation (seeded yields / sleeps inside nodes)
	// quick tier: the record snapshot is taken of the copy the concurrent calls used only (that copy also
	// gets every spec alone afterwards, so whatever calls made one at a time write into a record shows
	// there too); corpus cases and the thorough tier snapshot the reference copy as well
	Light bool `json:"light,omitempty"`
	// hand-written cases may pin shape parameters and the call specs
	Force map[string]int `json:"force,omitempty"`
	Specs []spec         `json:"specs,omitempty"`
}

type soloObs struct {
	Spec   string `json:"spec"`
	Result string `json:"result"`
	Events int    `json:"events"`
}

type Obs struct {
	Class      string    `json:"class"` // ok | builderr | mismatch
	Shape      []string  `json:"shape,omitempty"`
	Solo       []soloObs `json:"solo,omitempty"`
	Calls      int       `json:"calls"`
	MaxOverlap int       `json:"max_overlap"`
	Diffs      []string  `json:"diffs,omitempty"`
	Race       string    `json:"race,omitempty"`
	Msg        string    `json:"msg,omitempty"`
}

type engine struct{}

func (engine) ID() string { return "C09" }
func (engine) CoqHeader() string {
	return "From Eino Require Import Base.Util Model.Isolation Model.IsolationEngine Corr.C09.\n"
}
func (engine) CoqCaseType() string { return "ccase" }

var kinds = []string{"pregel", "dag", "workflow", "chain", "state", "nested", "tools", "react", "host", "ckpt", "comp", "reent", "multi", "embed", "fan", "ckfan"}

var builders = map[string]func(*lib.Rng, *zoo) (*object, error){
	"pregel": buildPregel, "dag": buildDag, "workflow": buildWorkflow, "chain": buildChain, "state": buildState,
	"nested": buildNested, "tools": buildTools, "react": buildReact, "host": buildHost,
	"ckpt": buildCkpt, "comp": buildComp, "reent": buildReent, "multi": buildMulti, "embed": buildEmbed, "fan": buildFan, "ckfan": buildCkfan,
}

func (engine) Generate(r *lib.Rng, tier string, i int) any {
	c := &Case{Kind: kinds[i%len(kinds)], Seed: r.U64() >> 12, Sched: r.U64() >> 12}
	if tier == "thorough" {
		c.G = 32
		c.PerG = r.Range(2, 3)
		c.K = r.Range(3, 8)
	} else {
		// 8, 16 or 32 callers; about 24-40 concurrent calls per case
		switch r.Intn(4) {
		case 0:
			c.G, c.PerG = 32, 1
		case 1:
			c.G, c.PerG = 16, 2
		default:
			c.G, c.PerG = 8, r.Range(2, 4)
		}
		c.K = r.Range(3, 6)
		c.Light = true
		if c.Kind == "ckpt" && c.G*c.PerG > 24 {
			// a call of this kind is a whole interrupt / resume session (3-5 runs, each writing and reading
			// a checkpoint): 16-24 concurrent sessions per case in the quick tier
			c.PerG = 24 / c.G
			if c.PerG < 1 {
				c.G, c.PerG = 24, 1
			}
		}
		if c.Kind == "ckfan" && c.G*c.PerG > 16 {
			// the same for the sessions over a workflow whose checkpoints hold channel values (2-3 runs
			// each): 16 concurrent sessions per case in the quick tier
			if c.G > 16 {
				c.G = 16
			}
			c.PerG = 16 / c.G
		}
	}
	return c
}

func (engine) Decode(raw json.RawMessage) (any, error) {
	var c Case
	if err := json.Unmarshal(raw, &c); err != nil {
		return nil, err
	}
	if _, ok := builders[c.Kind]; !ok {
		return nil, fmt.Errorf("unknown kind %q", c.Kind)
	}
	if c.G < 1 || c.PerG < 1 || c.K < 1 || c.G*c.PerG > 4096 {
		return nil, fmt.Errorf("bad sizes")
	}
	return &c, nil
}

const callTimeout = 60 * time.Second

// guarded runs one call with panic containment and a watchdog.
func guarded(f func() string) string {
	done := make(chan string, 1)
	go func() {
		var s string
		if p := lib.Recover(func() { s = f() }); p != nil {
			s = "panic:escaped"
		}
		done <- s
	}()
	select {
	case s := <-done:
		return s
	case <-time.After(callTimeout):
		return "hang"
	}
}

type callOut struct {
	rc     *callRec
	res    string
	t0, t1 int64
	late   string // "" or the role of the call in the sequential fault scenario
}

func doCall(obj *object, ctxPlain, ctxH context.Context, sp spec, specIdx, run int, tagNo int, prep ...func(*callRec)) *callOut {
	rc := &callRec{tag: fmt.Sprintf("<t%04d>", tagNo), spec: specIdx, run: run}
	for _, f := range prep {
		f(rc)
	}
	base := ctxPlain
	if sp.Opt&optCtxHandlers != 0 {
		base = ctxH
	}
	if obj.cancelKey != "" && (sp.Opt&optCancel != 0 || (obj.wantsCancel != nil && obj.wantsCancel(sp))) {
		var cancel context.CancelFunc
		base, cancel = context.WithCancel(base)
		defer cancel()
		rc.cancelKey, rc.cancelFn = obj.cancelKey, cancel
	}
	ctx := withRec(base, rc)
	out := &callOut{rc: rc}
	out.t0 = int64(sinceBase())
	raw := guarded(func() string { return obj.call(ctx, rc, sp) })
	rc.freeze()
	out.t1 = int64(sinceBase())
	out.res = rc.canon(raw)
	return out
}

func hashStr(s string) uint64 {
	h := fnv.New64a()
	h.Write([]byte(s))
	return h.Sum64() >> 2
}

func raceBytes() int64 {
	dir := os.Getenv("VERIF_RUNDIR")
	if dir == "" {
		return 0
	}
	files, _ := filepath.Glob(filepath.Join(dir, "race.*"))
	var n int64
	for _, f := range files {
		if st, err := os.Stat(f); err == nil {
			n += st.Size()
		}
	}
	return n
}

var frameRe = regexp.MustCompile(`/((?:compose|flow|internal|schema|callbacks|components|utils)/[A-Za-z0-9_/]*\.go:[0-9]+)`)

// raceSummary extracts the eino source positions of the newest race report.
func raceSummary(skip int64) string {
	dir := os.Getenv("VERIF_RUNDIR")
	files, _ := filepath.Glob(filepath.Join(dir, "race.*"))
	var all []byte
	for _, f := range files {
		b, _ := os.ReadFile(f)
		all = append(all, b...)
	}
	if int64(len(all)) > skip {
		all = all[skip:]
	}
	seen := map[string]bool{}
	var frames []string
	for _, m := range frameRe.FindAllStringSubmatch(string(all), -1) {
		if strings.Contains(m[0], "harness/") || seen[m[1]] {
			continue
		}
		seen[m[1]] = true
		frames = append(frames, m[1])
		if len(frames) == 4 {
			break
		}
	}
	if len(frames) == 0 {
		return "unlocated"
	}
	return strings.Join(frames, ",")
}

// fatalMarker: some failures of isolation kill the process outright (the Go runtime throws
// "concurrent map writes" / "all goroutines are asleep", which cannot be recovered). ./check
// turns a dead harness into a VIOLATION only if the engine left runs/<ID>/fatal.json naming
// the case, so the marker is written before every case and removed when the case returns.
func fatalMarker(c *Case) func() {
	dir := os.Getenv("VERIF_RUNDIR")
	if dir == "" {
		return func() {}
	}
	p := filepath.Join(dir, "fatal.json")
	b, _ := json.Marshal(map[string]any{"case": c, "sig": "fatal:" + c.Kind,
		"what": "the harness process died while this object was being called concurrently (unrecoverable Go runtime error such as 'concurrent map writes' or a global deadlock); see the harness output in the check log"})
	_ = os.WriteFile(p, b, 0o644)
	return func() { os.Remove(p) }
}

func (engine) Run(ci any) lib.Result {
	c := ci.(*Case)
	defer fatalMarker(c)()
	if os.Getenv("C09_TIME") != "" {
		t0 := time.Now()
		defer func() { fmt.Fprintf(os.Stderr, "TIME %s %d ms\n", c.Kind, time.Since(t0).Milliseconds()) }()
	}
	tags := []string{"kind:" + c.Kind, fmt.Sprintf("callers:%d", c.G)}
	raceBefore := raceBytes()
	r := lib.NewRng(c.Seed)
	z := &zoo{sched: c.Sched, force: c.Force}
	// The same object is built twice from the same seed: [obj] gives the solo reference,
	// [fresh] is called for the first time by all concurrent callers at once (lazily
	// initialised shared structures are then first touched under concurrency) and is
	// called alone again afterwards (what the concurrent phase left behind in it).
	var obj, fresh *object
	var berr error
	if p := lib.Recover(func() {
		obj, berr = builders[c.Kind](r, z)
		if berr == nil {
			fresh, berr = builders[c.Kind](lib.NewRng(c.Seed), z)
		}
	}); p != nil {
		berr = fmt.Errorf("panic while building: %v", p)
	}
	if berr == nil && strings.Join(obj.shape, ",") != strings.Join(fresh.shape, ",") {
		berr = fmt.Errorf("builder is not deterministic: %v vs %v", obj.shape, fresh.shape)
	}
	if berr != nil {
		return lib.Result{Obs: Obs{Class: "builderr", Msg: berr.Error()}, Oracle: "zoo object could not be built/compiled: " + berr.Error(),
			Sig: "harness:build:" + c.Kind, Tags: append(tags, "class:builderr")}
	}
	for _, s := range obj.shape {
		tags = append(tags, c.Kind+":"+s)
	}
	// call specs
	specs := make([]spec, 0, c.K)
	seen := map[spec]bool{}
	for tries := 0; len(specs) < c.K && tries < 20*c.K; tries++ {
		sp := spec{Para: obj.paras[r.Intn(len(obj.paras))], In: r.Intn(obj.nIn), Opt: obj.optSet[r.Intn(len(obj.optSet))]}
		if seen[sp] {
			continue
		}
		seen[sp] = true
		specs = append(specs, sp)
	}
	isFault := func(in int) bool {
		for _, f := range obj.faultIn {
			if f == in {
				return true
			}
		}
		return false
	}
	if len(obj.faultIn) > 0 && len(specs) >= 2 {
		// an object that has faulting inputs gets at least one faulted and one healthy spec
		nf := 0
		for _, sp := range specs {
			if isFault(sp.In) {
				nf++
			}
		}
		if nf == 0 {
			specs[0].In = obj.faultIn[r.Intn(len(obj.faultIn))]
		}
		if nf == len(specs) {
			for in := r.Intn(obj.nIn); ; in = (in + 1) % obj.nIn {
				if !isFault(in) {
					specs[len(specs)-1].In = in
					break
				}
			}
		}
	}
	if obj.wantOpt != 0 && len(specs) >= 2 {
		with := 0
		for _, sp := range specs {
			if sp.Opt&obj.wantOpt != 0 {
				with++
			}
		}
		if with == 0 {
			specs[len(specs)-1].Opt |= obj.wantOpt
		}
		if with == len(specs) {
			specs[0].Opt &^= obj.wantOpt
		}
	}
	if len(c.Specs) > 0 {
		specs = c.Specs
	}
	ctxPlain, ctxH := obj.baseCtx(false), obj.baseCtx(true)
	fctxPlain, fctxH := fresh.baseCtx(false), fresh.baseCtx(true)
	// what the two copies keep between runs, before anything has run on them (record.go)
	snapFresh0, snapObj0 := takeSnap(fresh, fctxH), recSnap{}
	if !c.Light {
		snapObj0 = takeSnap(obj, ctxH)
	}
	projFresh0 := objProj(fresh)
	tagNo := 0
	next := func() int { tagNo++; return tagNo }

	var diffs []string
	oracle, sig := "", ""
	fail := func(kind, msg string) {
		if debugErrs {
			fmt.Fprintln(os.Stderr, "FAIL", kind, clip(msg))
		}
		if len(diffs) < 12 {
			diffs = append(diffs, msg)
		}
		if oracle == "" {
			oracle, sig = msg, kind+":"+c.Kind
		}
	}
	// concurrent phase FIRST: the fresh copy (and, for the first case of a kind in this process,
	// every process-wide lazily initialised structure) is touched for the first time by all
	// callers at once
	total := c.G * c.PerG
	assign := make([]int, total)
	for j := range assign {
		assign[j] = r.Intn(len(specs))
	}
	outs := make([]*callOut, total)
	start := make(chan struct{})
	var wg sync.WaitGroup
	firstTag := tagNo
	for g := 0; g < c.G; g++ {
		wg.Add(1)
		go func(g int) {
			defer wg.Done()
			<-start
			for k := 0; k < c.PerG; k++ {
				j := g*c.PerG + k
				outs[j] = doCall(fresh, fctxPlain, fctxH, specs[assign[j]], assign[j], j, firstTag+1+j)
			}
		}(g)
	}
	close(start)
	wg.Wait()
	time.Sleep(2 * time.Millisecond) // stragglers (sender goroutines of fake streams) finish
	tagNo = firstTag + total

	// solo phase (twice) on the reference copy
	soloRes := make([]string, len(specs))
	soloEv := make([][]string, len(specs))
	var soloObsL []soloObs
	for i, sp := range specs {
		a := doCall(obj, ctxPlain, ctxH, sp, i, -1, next())
		b := doCall(obj, ctxPlain, ctxH, sp, i, -1, next())
		soloRes[i], soloEv[i] = a.res, a.rc.eventNames()
		if a.res != b.res || strings.Join(soloEv[i], "\x00") != strings.Join(b.rc.eventNames(), "\x00") {
			if a.res != b.res {
				fail("solo-nondeterministic", fmt.Sprintf("spec %s: two solo runs differ: %q vs %q", sp, clip(a.res), clip(b.res)))
			} else {
				fail("solo-nondeterministic", fmt.Sprintf("spec %s: two solo runs returned %q with different events: %s", sp, clip(a.res), evDiff(soloEv[i], b.rc.eventNames())))
			}
		}
		for _, o := range []*callOut{a, b} {
			for _, v := range o.rc.viol {
				fail("cross-call", "solo "+sp.String()+": "+v)
			}
		}
		if a.res == "hang" || strings.HasPrefix(a.res, "panic:") {
			fail(strings.SplitN(a.res, ":", 2)[0], fmt.Sprintf("spec %s alone: %s", sp, a.res))
		}
		soloObsL = append(soloObsL, soloObs{Spec: sp.String(), Result: clip(a.res), Events: len(soloEv[i])})
		tags = append(tags, "para:"+sp.Para, fmt.Sprintf("opt:%d", sp.Opt), "solo:"+strings.SplitN(a.res, ":", 2)[0])
	}

	// after the storm: every spec once more, alone, on the object the concurrent calls used
	for i, sp := range specs {
		a := doCall(fresh, fctxPlain, fctxH, sp, i, -1, next())
		if a.res != soloRes[i] {
			fail("after-differs", fmt.Sprintf("spec %s alone AFTER the concurrent phase returned %q, %q on an untouched copy of the object", sp, clip(a.res), clip(soloRes[i])))
		}
		if strings.Join(a.rc.eventNames(), "\x00") != strings.Join(soloEv[i], "\x00") {
			fail("after-events-differ", fmt.Sprintf("spec %s alone AFTER the concurrent phase: events differ from an untouched copy: %s", sp, evDiff(soloEv[i], a.rc.eventNames())))
		}
		for _, v := range a.rc.viol {
			fail("cross-call", "after "+sp.String()+": "+v)
		}
	}

	// Sequential fault scenario (objects with faulting inputs): a call that returns while tasks of
	// its run are still executing, then at once a healthy call by the same caller; the abandoned
	// tasks complete while the healthy run is waiting for its own nodes (handshake through the two
	// recorders, see buildWorkflow: deterministic, no timing assumption beyond a settle period whose
	// only effect when too short is a weaker test). The healthy call must be the call it is alone.
	var lateOuts []*callOut
	var lateAssign []int
	if len(obj.faultIn) > 0 {
		var fs, hs []int
		for i, sp := range specs {
			if isFault(sp.In) {
				fs = append(fs, i)
			} else {
				hs = append(hs, i)
			}
		}
		rounds := 3
		if len(fs) == 0 || len(hs) == 0 {
			rounds = 0
		}
		for k := 0; k < rounds; k++ {
			fi, hi := fs[k%len(fs)], hs[k%len(hs)]
			a := doCall(fresh, fctxPlain, fctxH, specs[fi], fi, total+2*k, next(), func(rc *callRec) { rc.hold = 1 })
			a.late = "faulted call"
			b := doCall(fresh, fctxPlain, fctxH, specs[hi], hi, total+2*k+1, next(), func(rc *callRec) { rc.prev = a.rc })
			b.late = "healthy call made right after a call that returned with tasks in flight (they completed while this one was running)"
			atomic.StoreInt32(&a.rc.release, 1) // in case the healthy call never got to the node that lets them go
			lateOuts = append(lateOuts, a, b)
			lateAssign = append(lateAssign, fi, hi)
		}
		if rounds > 0 {
			time.Sleep(2 * time.Millisecond)
			tags = append(tags, fmt.Sprintf("late:rounds:%d", rounds))
		}
	}

	// the compiled record after use: nothing reachable from the compiled object, its builder, the
	// shared option values or the shared parent context (spare slice capacity included) may differ
	// from what was there before the first call
	snapFresh1, snapObj1 := takeSnap(fresh, fctxH), recSnap{}
	if !c.Light {
		snapObj1 = takeSnap(obj, ctxH)
	}
	projFresh1 := objProj(fresh)
	for _, d := range diffSnap(snapFresh0, snapFresh1) {
		fail("record-changed", "what the compiled object keeps between runs was modified by the calls (concurrent phase, then solo calls): "+d)
	}
	for _, d := range diffSnap(snapObj0, snapObj1) {
		fail("record-changed", "what the compiled object keeps between runs was modified by calls made one at a time: "+d)
	}
	if projFresh0 != projFresh1 {
		fail("record-changed", fmt.Sprintf("the compiled graph record differs after the calls: %s before, %s after", clip(projFresh0), clip(projFresh1)))
	}
	recTag := "rec:none"
	switch {
	case snapFresh0.fail != "" || snapFresh1.fail != "" || snapObj0.fail != "" || snapObj1.fail != "" || projFresh0 == "unreachable":
		recTag = "rec:unavailable" // the hook could not follow the closures of this tree: this oracle is off, the others are not
	case snapFresh0.runners > 0:
		recTag = fmt.Sprintf("rec:runners:%s:leaves:%s", bucket(snapFresh0.runners), bucket(len(snapFresh0.lines)))
	case len(snapFresh0.lines) > 0:
		recTag = "rec:norunner:leaves:" + bucket(len(snapFresh0.lines))
	}
	tags = append(tags, recTag)
	if !whiteBox {
		tags = append(tags, "whitebox:unavailable") // built without the white-box group of C09 (tag verif_c09wb)
	}

	// direct oracle: every concurrent call = its spec alone
	usedSpecs := map[int]bool{}
	outs = append(outs, lateOuts...)
	assign = append(assign, lateAssign...)
	for j, o := range outs {
		s := assign[j]
		if o.late != "" {
			// the sequential fault scenario: same comparison, said in its own words
			if o.res != soloRes[s] {
				fail("late-completion", fmt.Sprintf("%s (%s) returned %q, %q alone", o.late, specs[s], clip(o.res), clip(soloRes[s])))
			}
			if strings.Join(o.rc.eventNames(), "\x00") != strings.Join(soloEv[s], "\x00") {
				fail("late-completion-events", fmt.Sprintf("%s (%s): events differ from the call alone: %s", o.late, specs[s], evDiff(soloEv[s], o.rc.eventNames())))
			}
			for _, v := range o.rc.viol {
				fail("cross-call", fmt.Sprintf("%s (%s): %s", o.late, specs[s], v))
			}
			continue
		}
		usedSpecs[s] = true
		if o.res != soloRes[s] {
			kind := "result-differs"
			if o.res == "hang" {
				kind = "hang"
			} else if strings.HasPrefix(o.res, "panic:") {
				kind = "panic"
			}
			fail(kind, fmt.Sprintf("call %d (%s) returned %q under concurrency, %q alone", j, specs[s], clip(o.res), clip(soloRes[s])))
		}
		if strings.Join(o.rc.eventNames(), "\x00") != strings.Join(soloEv[s], "\x00") {
			fail("events-differ", fmt.Sprintf("call %d (%s): events under concurrency differ from the solo run: %s", j, specs[s], evDiff(soloEv[s], o.rc.eventNames())))
		}
		for _, v := range o.rc.viol {
			fail("cross-call", fmt.Sprintf("call %d (%s): %s", j, specs[s], v))
		}
	}
	orphan.mu.Lock()
	for _, v := range orphan.viol {
		fail("cross-call", v)
	}
	orphan.viol = nil
	orphan.mu.Unlock()

	// overlap (from timestamps: no synchronisation between callers)
	type edge struct {
		t int64
		d int
	}
	var edges []edge
	for _, o := range outs[:total] {
		edges = append(edges, edge{o.t0, 1}, edge{o.t1, -1})
	}
	sort.Slice(edges, func(a, b int) bool {
		if edges[a].t != edges[b].t {
			return edges[a].t < edges[b].t
		}
		return edges[a].d < edges[b].d
	})
	cur, maxOv := 0, 0
	for _, e := range edges {
		cur += e.d
		if cur > maxOv {
			maxOv = cur
		}
	}

	// race detector
	raceMsg := ""
	if after := raceBytes(); after > raceBefore {
		raceMsg = raceSummary(raceBefore)
		msg := "the race detector reported a data race while this object was called concurrently: " + raceMsg
		diffs = append(diffs, msg)
		if oracle == "" {
			oracle, sig = msg, "race:"+raceMsg
		}
	}

	// Gallina term: compiled record and calls (modelled kinds), table of distinct
	// observations, solo / concurrent observations by index, observed interleaving
	modelled := obj.desc != nil
	proj := func(evs []string) []string {
		if modelled {
			return coreEvents(evs)
		}
		return evs
	}
	tabIdx := map[string]int{}
	var tab []string
	intern := func(res string, evs []string) int {
		k := res + "\x00" + strings.Join(evs, "\x00")
		if i, ok := tabIdx[k]; ok {
			return i
		}
		tabIdx[k] = len(tab)
		tab = append(tab, lib.CoqPair(lib.CoqStr(res), lib.CoqStrList(evs)))
		return len(tab) - 1
	}
	var soloT, runT, callT []string
	for i := range specs {
		soloT = append(soloT, lib.CoqNat(intern(soloRes[i], proj(soloEv[i]))))
		if modelled {
			callT = append(callT, obj.mcall(specs[i], i))
		}
	}
	type gev struct {
		ts  int64
		run int
	}
	var glob []gev
	for j, o := range outs {
		runT = append(runT, lib.CoqPair(lib.CoqNat(assign[j]), lib.CoqNat(intern(o.res, proj(o.rc.eventNames())))))
		o.rc.mu.Lock()
		evs := o.rc.events
		if o.rc.frozen < len(evs) {
			evs = evs[:o.rc.frozen]
		}
		for _, e := range evs {
			if !modelled || coreEvent(e.name) {
				glob = append(glob, gev{e.ts, j})
			}
		}
		o.rc.mu.Unlock()
	}
	sort.SliceStable(glob, func(a, b int) bool { return glob[a].ts < glob[b].ts })
	var sched strings.Builder
	switches := 0
	for i, e := range glob {
		sched.WriteByte(byte('a' + (e.run>>4)&15))
		sched.WriteByte(byte('a' + e.run&15))
		if i > 0 && glob[i-1].run != e.run {
			switches++
		}
	}
	objT := "None"
	if modelled {
		objT = "(Some (CO " + obj.desc.term() + " " + lib.CoqNat(obj.depth) + "))"
	}
	var recT []string
	if projFresh0 != "" && projFresh0 != "unreachable" {
		recT = []string{lib.CoqStr(projFresh0), lib.CoqStr(projFresh1)}
	}
	term := lib.CoqApp("CCase", objT, lib.CoqList(callT), lib.CoqList(tab), lib.CoqList(soloT), lib.CoqList(runT), lib.CoqStr(sched.String()), lib.CoqList(recT))
	if modelled {
		tags = append(tags, "model:predicted")
	} else {
		tags = append(tags, "model:replay")
	}

	class := "ok"
	if oracle != "" {
		class = "mismatch"
	}
	tags = append(tags, "class:"+class, fmt.Sprintf("overlap:%s", bucket(maxOv)), fmt.Sprintf("switches:%s", bucket(switches)))
	return lib.Result{
		Obs:        Obs{Class: class, Shape: obj.shape, Solo: soloObsL, Calls: total, MaxOverlap: maxOv, Diffs: diffs, Race: raceMsg},
		CoqTerm:    term,
		Oracle:     oracle,
		Sig:        sig,
		Nontrivial: maxOv >= 2 && len(usedSpecs) >= 2 && switches >= 2,
		Tags:       tags,
	}
}

func bucket(n int) string {
	switch {
	case n < 2:
		return fmt.Sprint(n)
	case n < 4:
		return "2-3"
	case n < 8:
		return "4-7"
	case n < 16:
		return "8-15"
	case n < 64:
		return "16-63"
	case n < 256:
		return "64-255"
	case n < 1024:
		return "256-1023"
	case n < 4096:
		return "1024-4095"
	case n < 16384:
		return "4096-16383"
	}
	return "16384+"
}

func clip(s string) string {
	if len(s) > 300 {
		return s[:300] + "..."
	}
	return s
}

func evDiff(want, got []string) string {
	cnt := map[string]int{}
	for _, w := range want {
		cnt[w]++
	}
	for _, g := range got {
		cnt[g]--
	}
	var parts []string
	for k, v := range cnt {
		if v > 0 {
			parts = append(parts, fmt.Sprintf("missing %dx %s", v, k))
		} else if v < 0 {
			parts = append(parts, fmt.Sprintf("extra %dx %s", -v, k))
		}
	}
	sort.Strings(parts)
	if len(parts) > 6 {
		parts = parts[:6]
	}
	return strings.Join(parts, "; ")
}

// The race detector makes the process exit with status 66 when it reported anything
// (tsan's default exitcode, applied at exit even with halt_on_error=0); ./check would
// take that for an infrastructure failure before reading the race reports. Reports are
// attributed to cases by this engine and read from the log files by ./check, so the exit
// status must stay 0: re-exec once with exitcode=0 appended to GORACE.
func reexecWithRaceExit0() {
	g := os.Getenv("GORACE")
	if g == "" || strings.Contains(g, "exitcode=") || os.Getenv("C09_REEXEC") != "" {
		return
	}
	exe, err := os.Executable()
	if err != nil {
		return
	}
	var env []string
	for _, kv := range os.Environ() {
		if !strings.HasPrefix(kv, "GORACE=") {
			env = append(env, kv)
		}
	}
	env = append(env, "GORACE="+g+" exitcode=0", "C09_REEXEC=1")
	_ = syscall.Exec(exe, os.Args, env)
}

func main() {
	reexecWithRaceExit0()
	// a process-wide handler, registered once before anything runs (the documented use)
	callbacks.AppendGlobalHandlers(sharedHandler("G"), partialHandler("Ge", false))
	lib.Main(engine{})
}
