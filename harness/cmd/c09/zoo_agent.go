package main

import (
	"context"
	"fmt"
	"strings"

	"github.com/cloudwego/eino/components/model"
	"github.com/cloudwego/eino/components/tool"
	"github.com/cloudwego/eino/compose"
	"github.com/cloudwego/eino/flow/agent"
	"github.com/cloudwego/eino/flow/agent/multiagent/host"
	"github.com/cloudwego/eino/flow/agent/react"
	"github.com/cloudwego/eino/callbacks"
	"github.com/cloudwego/eino/schema"
	ucb "github.com/cloudwego/eino/utils/callbacks"

	"verif/harness/lib"
)

// ---------------------------------------------------------------- rendering of messages

func renderMsg(m *schema.Message) string {
	if m == nil {
		return "<nil msg>"
	}
	var b strings.Builder
	b.WriteString(string(m.Role) + ":" + m.Content)
	for _, tc := range m.ToolCalls {
		b.WriteString("{call " + tc.ID + " " + tc.Function.Name + "(" + tc.Function.Arguments + ")}")
	}
	if m.ToolCallID != "" {
		b.WriteString("{for " + m.ToolCallID + "}")
	}
	return b.String()
}

func renderMsgs(ms []*schema.Message) string {
	parts := make([]string, len(ms))
	for i, m := range ms {
		parts[i] = renderMsg(m)
	}
	return "[" + strings.Join(parts, " ; ") + "]"
}

// ---------------------------------------------------------------- scripted, stateless (hence thread-safe) fake chat model

// The script travels in the first user message:   <tag> step0;step1;...
//
//	step = "say:<text>"                      final answer
//	     | "call:<tool>(<arg>)+<tool>(<arg>)" tool calls
//
// The model answers step number (count of assistant messages already in its input); past the
// end of the script it says "done". A final answer embeds a digest of everything the model
// was shown, so anything that leaked into the conversation from another run shows in the result.
type mopt struct {
	Tag string
	Val string
}

type fakeModel struct {
	z     *zoo
	role  string
	tools []*schema.ToolInfo
}

func (m *fakeModel) WithTools(tools []*schema.ToolInfo) (model.ToolCallingChatModel, error) {
	return &fakeModel{z: m.z, role: m.role, tools: tools}, nil
}

func (m *fakeModel) answer(ctx context.Context, input []*schema.Message, opts []model.Option) *schema.Message {
	ev(ctx, "m:"+m.role)
	all := renderMsgs(input)
	see(ctx, "model "+m.role, all)
	rc := recOf(ctx)
	o := model.GetImplSpecificOptions(&mopt{}, opts...)
	ostr := ""
	if o.Val != "" {
		if rc != nil && o.Tag != "" && o.Tag != rc.tag { // Tag "" = shared option value
			rc.violate(fmt.Sprintf("model %s of call %s received an option of call %s", m.role, rc.tag, o.Tag))
		}
		ostr = "[o=" + o.Val + "]"
		ev(ctx, "opt:m:"+m.role)
	}
	jitter(ctx, m.z.sched, "m:"+m.role)
	script := ""
	round := 0
	for _, msg := range input {
		if msg.Role == schema.User && script == "" {
			if i := strings.Index(msg.Content, " "); i >= 0 {
				script = msg.Content[i+1:]
				if j := strings.Index(script, " "); j >= 0 {
					script = script[:j]
				}
			}
		}
		if msg.Role == schema.Assistant {
			round++
		}
	}
	if m.role != "react" && m.role != "host" {
		// specialists just answer
		return schema.AssistantMessage(m.role+" says "+fmt.Sprintf("(%d tools)", len(m.tools))+ostr+" after "+all, nil)
	}
	steps := strings.Split(script, ";")
	if round >= len(steps) {
		return schema.AssistantMessage("done"+ostr+" after "+all, nil)
	}
	st := steps[round]
	if strings.HasPrefix(st, "call:") {
		var tcs []schema.ToolCall
		for i, c := range strings.Split(st[5:], "+") {
			name, arg := c, ""
			if j := strings.Index(c, "("); j >= 0 {
				name, arg = c[:j], strings.TrimSuffix(c[j+1:], ")")
			}
			idx := i
			tag := ""
			if rc != nil {
				tag = rc.tag
			}
			tcs = append(tcs, schema.ToolCall{Index: &idx, ID: fmt.Sprintf("c%d_%d", round, i), Type: "function",
				Function: schema.FunctionCall{Name: name, Arguments: tag + arg}})
		}
		return schema.AssistantMessage("", tcs)
	}
	return schema.AssistantMessage(strings.TrimPrefix(st, "say:")+fmt.Sprintf("(%d tools)", len(m.tools))+ostr+" after "+all, nil)
}

func (m *fakeModel) Generate(ctx context.Context, input []*schema.Message, opts ...model.Option) (*schema.Message, error) {
	return m.answer(ctx, input, opts), nil
}

func (m *fakeModel) Stream(ctx context.Context, input []*schema.Message, opts ...model.Option) (*schema.StreamReader[*schema.Message], error) {
	msg := m.answer(ctx, input, opts)
	var chunks []*schema.Message
	if len(msg.ToolCalls) > 0 {
		// tool calls in the first chunk (what the default checker expects), one call per chunk
		for _, tc := range msg.ToolCalls {
			chunks = append(chunks, &schema.Message{Role: schema.Assistant, ToolCalls: []schema.ToolCall{tc}})
		}
	} else {
		c := msg.Content
		a, b := len(c)/3, 2*len(c)/3
		chunks = []*schema.Message{{Role: schema.Assistant, Content: c[:a]}, {Role: schema.Assistant, Content: c[a:b]}, {Role: schema.Assistant, Content: c[b:]}}
	}
	sr, sw := schema.Pipe[*schema.Message](0)
	go func() {
		defer sw.Close()
		for i, c := range chunks {
			if sw.Send(c, nil) {
				return
			}
			jitter(ctx, m.z.sched, fmt.Sprintf("mchunk%d", i))
		}
	}()
	return sr, nil
}

// ---------------------------------------------------------------- tools

type topt struct {
	Tag string
	Val string
}

type fakeTool struct {
	z      *zoo
	name   string
	stream bool
}

func (t *fakeTool) Info(ctx context.Context) (*schema.ToolInfo, error) {
	return &schema.ToolInfo{Name: t.name, Desc: "harness tool " + t.name,
		ParamsOneOf: schema.NewParamsOneOfByParams(map[string]*schema.ParameterInfo{"x": {Type: schema.String}})}, nil
}

func (t *fakeTool) run(ctx context.Context, arg string, opts []tool.Option) string {
	ev(ctx, "t:"+t.name)
	see(ctx, "tool "+t.name, arg)
	rc := recOf(ctx)
	o := tool.GetImplSpecificOptions(&topt{}, opts...)
	ostr := ""
	if o.Val != "" {
		if rc != nil && o.Tag != "" && o.Tag != rc.tag {
			rc.violate(fmt.Sprintf("tool %s of call %s received an option of call %s", t.name, rc.tag, o.Tag))
		}
		ostr = "[o=" + o.Val + "]"
		ev(ctx, "opt:t:"+t.name)
	}
	jitter(ctx, t.z.sched, "t:"+t.name+arg)
	return t.name + "(" + arg + ")#" + compose.GetToolCallID(ctx) + ostr
}

type invTool struct{ fakeTool }

func (t *invTool) InvokableRun(ctx context.Context, arg string, opts ...tool.Option) (string, error) {
	if strings.HasSuffix(arg, "!fail") {
		ev(ctx, "t:"+t.name)
		return "", &nodeErr{"tool_" + t.name}
	}
	return t.run(ctx, arg, opts), nil
}

type strTool struct{ fakeTool }

func (t *strTool) StreamableRun(ctx context.Context, arg string, opts ...tool.Option) (*schema.StreamReader[string], error) {
	s := t.run(ctx, arg, opts)
	h := len(s) / 2
	return schema.StreamReaderFromArray([]string{s[:h], s[h:]}), nil
}

func (z *zoo) tools() []tool.BaseTool {
	return []tool.BaseTool{
		&invTool{fakeTool{z: z, name: "echo"}},
		&strTool{fakeTool{z: z, name: "sp", stream: true}},
		&invTool{fakeTool{z: z, name: "rd"}},
		&invTool{fakeTool{z: z, name: "rd2"}},
	}
}

// ---------------------------------------------------------------- 7. ToolsNode, directly and in a chain

func concatMsgLists(cs [][]*schema.Message) ([]*schema.Message, error) {
	var out []*schema.Message
	for _, c := range cs {
		if len(out) < len(c) {
			out = append(out, make([]*schema.Message, len(c)-len(out))...)
		}
		for i, m := range c {
			if m == nil {
				continue
			}
			if out[i] == nil {
				cp := *m
				out[i] = &cp
			} else {
				out[i].Content += m.Content
			}
		}
	}
	return out, nil
}

func buildTools(r *lib.Rng, z *zoo) (*object, error) {
	ctx := context.Background()
	tn, err := compose.NewToolNode(ctx, &compose.ToolsNodeConfig{Tools: z.tools()[:3],
		UnknownToolsHandler: func(ctx context.Context, name, input string) (string, error) {
			ev(ctx, "t:unknown")
			see(ctx, "unknown tool handler", input)
			return "unknown(" + name + "," + input + ")", nil
		}})
	if err != nil {
		return nil, err
	}
	inChain := z.flag("inchain", r.Chance(1, 2))
	var run compose.Runnable[*schema.Message, []*schema.Message]
	if inChain {
		run, err = compose.NewChain[*schema.Message, []*schema.Message]().AppendToolsNode(tn, compose.WithNodeKey("tn")).Compile(ctx)
		if err != nil {
			return nil, err
		}
	}
	alt := []tool.BaseTool{&invTool{fakeTool{z: z, name: "echo"}}, &invTool{fakeTool{z: z, name: "alt"}}}
	inputs := [][]string{
		{"echo(a)"}, {"echo(a)", "sp(b)"}, {"sp(x)", "echo(y)", "rd(z)", "echo(w)"}, {"nosuch(q)", "echo(r)"}, {"echo(s!fail)", "sp(t)"}, {"alt(u)", "echo(v)"},
	}
	cd := codec[*schema.Message, []*schema.Message]{chunkIn: oneChunk[*schema.Message], concatOut: concatMsgLists, render: renderMsgs}
	paras := []string{"invoke", "stream"}
	if inChain {
		paras = allParas
	}
	sharedTn := []compose.ToolsNodeOption{compose.WithToolOption(tool.WrapImplSpecificOptFn(func(o *topt) { o.Val += "S" }))}
	sharedC := []compose.Option{compose.WithToolsNodeOption(sharedTn...), sharedCb("so")}
	d := &dGraph{}
	d.node("tn", "(FTools "+lib.CoqStrList(strs("echo", "sp", "rd"))+" true)", 2)
	d.edge(compose.START, "tn")
	d.edge("tn", compose.END)
	d.defaultMax()
	var projRoot any
	if inChain {
		projRoot = run
	}
	return &object{
		desc: d, roots: []any{run, tn, sharedTn, sharedC}, proj: projRoot,
		mcall: func(sp spec, si int) string {
			var tcs []string
			for i, c := range inputs[sp.In%len(inputs)] {
				j := strings.Index(c, "(")
				tcs = append(tcs, tcT(fmt.Sprintf("id%d", i), c[:j], selfTag+strings.TrimSuffix(c[j+1:], ")")))
			}
			var own []string
			if sp.Opt&optLambdaDesignated != 0 {
				own = append(own, opT(2, fmt.Sprintf("t%d", si)))
			}
			if sp.Opt&optLambdaGlobal != 0 {
				own = append(own, opT(2, "!echo,alt"))
			}
			return callTerm(vMsg(msgT("assistant", "", tcs...)), mWithShared(sp.Opt, strs(opT(2, "S")), own), 0)
		},
		kind: "tools", shape: []string{fmt.Sprintf("inchain:%v", inChain)},
		nIn: len(inputs), paras: paras,
		// optLambdaDesignated = per-call tool option; optLambdaGlobal = per-call tool list
		optSet:  []int{0, optLambdaDesignated, optLambdaGlobal, optLambdaDesignated | optLambdaGlobal, optCbGlobal, optCtxHandlers, optShared, optShared | optLambdaDesignated, optShared | optLambdaGlobal},
		baseCtx: sharedCtx,
		call: func(ctx context.Context, rc *callRec, sp spec) string {
			var tcs []schema.ToolCall
			for i, c := range inputs[sp.In%len(inputs)] {
				j := strings.Index(c, "(")
				tcs = append(tcs, schema.ToolCall{ID: fmt.Sprintf("id%d", i), Function: schema.FunctionCall{Name: c[:j], Arguments: rc.tag + strings.TrimSuffix(c[j+1:], ")")}})
			}
			in := schema.AssistantMessage("", tcs)
			var tnOpts []compose.ToolsNodeOption
			if sp.Opt&optLambdaDesignated != 0 {
				tnOpts = append(tnOpts, compose.WithToolOption(toolOptFn(rc.tag, fmt.Sprintf("t%d", rc.spec))))
			}
			if sp.Opt&optLambdaGlobal != 0 {
				tnOpts = append(tnOpts, compose.WithToolList(alt...))
			}
			if !inChain {
				tnOpts = withShared(sp.Opt, sharedTn, tnOpts)
				var out []*schema.Message
				var err error
				if sp.Para == "invoke" {
					out, err = tn.Invoke(ctx, in, tnOpts...)
				} else {
					var sr *schema.StreamReader[[]*schema.Message]
					sr, err = tn.Stream(ctx, in, tnOpts...)
					if err == nil {
						var cs [][]*schema.Message
						cs, err = drain(sr)
						if err == nil {
							out, err = concatMsgLists(cs)
						}
					}
				}
				if err != nil {
					return "err:" + errClass(err)
				}
				return "ok:" + renderMsgs(out)
			}
			var opts []compose.Option
			if len(tnOpts) > 0 {
				opts = append(opts, compose.WithToolsNodeOption(tnOpts...))
			}
			opts = append(opts, cbOptions(rc, sp.Opt, nil)...)
			return runPara[*schema.Message, []*schema.Message](ctx, run, sp.Para, in, cd, withShared(sp.Opt, sharedC, opts))
		},
	}, nil
}

// ---------------------------------------------------------------- 8. ReAct agent

var reactScripts = []string{
	"say:hello",
	"call:echo(a);say:fin",
	"call:echo(a)+sp(b);call:sp(c);say:fin2",
	"call:rd(x)",               // return directly (when rd is configured so)
	"call:echo(p)+rd(q)+sp(r)", // return directly among several calls
	"call:echo(a);call:rd2(z)", // second round returns directly
	"call:echo(1);call:echo(2);call:echo(3);call:echo(4);call:echo(5);call:echo(6);say:late", // exceeds MaxStep when it is small
	"call:echo(boom!fail);say:never",
}

func (z *zoo) reactAgent(ctx context.Context, r *lib.Rng, shape *[]string) (*react.Agent, error) {
	ag, _, err := z.reactAgentD(ctx, r, shape)
	return ag, err
}

// reactDesc: the graph react.NewAgent builds (flow/agent/react/react.go:161-303)
func reactDesc(rd, modifier bool, maxStep int) *dGraph {
	d := &dGraph{agentSt: true}
	d.node("chat", "(FModel "+q("react")+" 4%nat)", 1, "pre=(HReactModel "+lib.CoqBool(modifier)+")")
	rds := []string{}
	if rd {
		rds = strs("rd", "rd2")
	}
	d.node("tools", "(FTools "+lib.CoqStrList(strs("echo", "sp", "rd", "rd2"))+" false)", 2, "pre=(HReactTools "+lib.CoqStrList(rds)+")")
	d.edge(compose.START, "chat")
	d.branch("chat", "(BToolCalls "+q("tools")+")", "tools", compose.END)
	if rd {
		d.node("direct_return", "FDirectReturn", -1)
		d.branch("tools", "BReturnDirectly", "chat", "direct_return")
		d.edge("direct_return", compose.END)
	} else {
		d.edge("tools", "chat")
	}
	d.defaultMax()
	if maxStep > 0 {
		d.max = maxStep
	}
	return d
}

func (z *zoo) reactAgentD(ctx context.Context, r *lib.Rng, shape *[]string) (*react.Agent, *dGraph, error) {
	rd := z.flag("rd", r.Chance(2, 3))
	modifier := z.flag("modifier", r.Chance(1, 2))
	customChecker := z.flag("checker", r.Chance(1, 3))
	maxStep := 0
	if r.Chance(1, 3) {
		maxStep = 8
	}
	maxStep = z.num("maxstep", maxStep)
	cfg := &react.AgentConfig{
		ToolCallingModel: &fakeModel{z: z, role: "react"},
		ToolsConfig:      compose.ToolsNodeConfig{Tools: z.tools()},
		MaxStep:          maxStep,
	}
	if rd {
		cfg.ToolReturnDirectly = map[string]struct{}{"rd": {}, "rd2": {}}
	}
	if modifier {
		cfg.MessageModifier = func(ctx context.Context, input []*schema.Message) []*schema.Message {
			ev(ctx, "modifier")
			see(ctx, "message modifier", renderMsgs(input))
			out := make([]*schema.Message, 0, len(input)+1)
			out = append(out, schema.SystemMessage("persona"))
			return append(out, input...)
		}
	}
	if customChecker {
		cfg.StreamToolCallChecker = ctxChecker("react")
	}
	*shape = append(*shape, fmt.Sprintf("rd:%v", rd), fmt.Sprintf("modifier:%v", modifier), fmt.Sprintf("checker:%v", customChecker), fmt.Sprintf("maxstep:%d", maxStep))
	ag, err := react.NewAgent(ctx, cfg)
	return ag, reactDesc(rd, modifier, maxStep), err
}

// mAgentOpts mirrors agentOpts / sharedAgentOpts (callbacks are not modelled)
func mAgentOpts(si, bits int) []string {
	var own []string
	if bits&optLambdaDesignated != 0 {
		own = append(own, opT(1, fmt.Sprintf("m%d", si)))
	}
	if bits&optLambdaGlobal != 0 {
		own = append(own, opT(2, fmt.Sprintf("t%d", si)))
	}
	return mWithShared(bits, strs(opT(1, "S"), opT(2, "S")), own)
}

func concatOneMsg(cs []*schema.Message) (*schema.Message, error) {
	if len(cs) == 0 {
		return nil, fmt.Errorf("empty stream")
	}
	return schema.ConcatMessages(cs)
}

// sharedAgentOpts: agent option values built once per object and reused by every call.
func sharedAgentOpts() []agent.AgentOption {
	// the compose options sit in a slice with spare capacity (an ordinary thing for a caller to
	// hold): whoever appends to what GetComposeOptions hands out must not write into it
	co := make([]compose.Option, 0, 8)
	co = append(co,
		compose.WithChatModelOption(model.WrapImplSpecificOptFn(func(o *mopt) { o.Val += "S" })),
		compose.WithToolsNodeOption(compose.WithToolOption(tool.WrapImplSpecificOptFn(func(o *topt) { o.Val += "S" }))))
	return []agent.AgentOption{
		agent.WithComposeOptions(co...),
		agent.WithComposeOptions(sharedCb("so"), compose.WithCallbacks(agentCallback(nil, "sag"))),
	}
}

func toolOptFn(tag, val string) tool.Option {
	return tool.WrapImplSpecificOptFn(func(o *topt) { o.Tag, o.Val = tag, o.Val+val })
}

// agentCallback: a handler built with react.BuildAgentCallback (utils/callbacks handler
// templates): model / tool callbacks of ONE call (owner != nil) or shared by all calls.
func agentCallback(owner *callRec, name string) callbacks.Handler {
	log := func(ctx context.Context, what string, info *callbacks.RunInfo, data string) context.Context {
		n := ""
		if info != nil {
			n = info.Name
		}
		if owner != nil {
			if who := recOf(ctx); who != owner {
				other := "<none>"
				if who != nil {
					other = who.tag
				}
				owner.violate(fmt.Sprintf("agent callback %s of call %s fired in call %s", name, owner.tag, other))
			}
		}
		ev(ctx, "cb:"+name+":"+what+":"+n)
		see(ctx, "agent callback "+name+" "+what, data)
		return ctx
	}
	mh := &ucb.ModelCallbackHandler{
		OnStart: func(ctx context.Context, info *callbacks.RunInfo, in *model.CallbackInput) context.Context {
			return log(ctx, "mstart", info, renderMsgs(in.Messages))
		},
		OnEnd: func(ctx context.Context, info *callbacks.RunInfo, out *model.CallbackOutput) context.Context {
			return log(ctx, "mend", info, renderMsg(out.Message))
		},
		OnEndWithStreamOutput: func(ctx context.Context, info *callbacks.RunInfo, out *schema.StreamReader[*model.CallbackOutput]) context.Context {
			out.Close()
			return log(ctx, "msend", info, "")
		},
	}
	th := &ucb.ToolCallbackHandler{
		OnStart: func(ctx context.Context, info *callbacks.RunInfo, in *tool.CallbackInput) context.Context {
			return log(ctx, "tstart", info, in.ArgumentsInJSON)
		},
		OnEnd: func(ctx context.Context, info *callbacks.RunInfo, out *tool.CallbackOutput) context.Context {
			return log(ctx, "tend", info, out.Response)
		},
		OnEndWithStreamOutput: func(ctx context.Context, info *callbacks.RunInfo, out *schema.StreamReader[*tool.CallbackOutput]) context.Context {
			out.Close()
			return log(ctx, "tsend", info, "")
		},
	}
	return react.BuildAgentCallback(mh, th)
}

func agentOpts(rc *callRec, bits int) []agent.AgentOption {
	var copts []compose.Option
	if bits&optLambdaDesignated != 0 {
		tag, val := rc.tag, fmt.Sprintf("m%d", rc.spec)
		copts = append(copts, compose.WithChatModelOption(model.WrapImplSpecificOptFn(func(o *mopt) { o.Tag, o.Val = tag, o.Val+val })))
	}
	if bits&optLambdaGlobal != 0 {
		tag, val := rc.tag, fmt.Sprintf("t%d", rc.spec)
		copts = append(copts, compose.WithToolsNodeOption(compose.WithToolOption(tool.WrapImplSpecificOptFn(func(o *topt) { o.Tag, o.Val = tag, o.Val+val }))))
	}
	copts = append(copts, cbOptions(rc, bits, nil)...)
	if bits&optCbThree != 0 {
		copts = append(copts, compose.WithCallbacks(agentCallback(rc, "ag")))
	}
	if len(copts) == 0 {
		return nil
	}
	return []agent.AgentOption{agent.WithComposeOptions(copts...)}
}

func buildReact(r *lib.Rng, z *zoo) (*object, error) {
	ctx := context.Background()
	var shape []string
	ag, d, err := z.reactAgentD(ctx, r, &shape)
	if err != nil {
		return nil, err
	}
	sharedA := sharedAgentOpts()
	// one input object per script, handed as it is to every call made with optSharedInput: a slice
	// with spare capacity holding one message object
	sharedIns := make([][]*schema.Message, len(reactScripts))
	for i := range sharedIns {
		sharedIns[i] = spare([]*schema.Message{schema.UserMessage("<shared> " + reactScripts[i])})
	}
	return &object{
		desc: d, roots: []any{ag, sharedA, sharedIns}, proj: ag,
		mcall: func(sp spec, si int) string {
			who := selfTag
			if sp.Opt&optSharedInput != 0 {
				who = "<shared>"
			}
			return callTerm(vMsgs(msgT("user", who+" "+reactScripts[sp.In%len(reactScripts)])),
				mAgentOpts(si, sp.Opt&^optMaxSteps), 0, sp.Opt&optMaxSteps != 0)
		},
		kind: "react", shape: shape,
		nIn: len(reactScripts), paras: []string{"invoke", "stream"},
		optSet:  []int{0, optLambdaDesignated, optLambdaGlobal, optCbGlobal, optCbThree, optLambdaDesignated | optLambdaGlobal | optCbGlobal, optCtxHandlers, optShared, optShared | optLambdaDesignated | optCbGlobal,
			optMaxSteps, optMaxSteps | optCbGlobal | optLambdaGlobal, optMaxSteps | optShared,
			optSharedInput, optSharedInput | optLambdaDesignated | optCbGlobal, optSharedInput | optShared, optSharedInput | optMaxSteps},
		baseCtx: sharedCtx,
		call: func(ctx context.Context, rc *callRec, sp spec) string {
			in := []*schema.Message{schema.UserMessage(rc.tag + " " + reactScripts[sp.In%len(reactScripts)])}
			if sp.Opt&optSharedInput != 0 {
				in = sharedIns[sp.In%len(reactScripts)]
			}
			opts := withShared(sp.Opt, sharedA, agentOpts(rc, sp.Opt&^optMaxSteps))
			if sp.Opt&optMaxSteps != 0 { // this bit means "with a message future" for the agent
				return futureCall(ctx, ag, sp.Para != "invoke", in, opts)
			}
			var out *schema.Message
			var err error
			if sp.Para == "invoke" {
				out, err = ag.Generate(ctx, in, opts...)
			} else {
				var sr *schema.StreamReader[*schema.Message]
				sr, err = ag.Stream(ctx, in, opts...)
				if err == nil {
					var cs []*schema.Message
					cs, err = drain(sr)
					if err == nil {
						out, err = concatOneMsg(cs)
					}
				}
			}
			if err != nil {
				return "err:" + errClass(err)
			}
			return "ok:" + renderMsg(out)
		},
	}, nil
}

// ---------------------------------------------------------------- 9. host multi-agent

type handOff struct {
	owner *callRec
}

func (h *handOff) OnHandOff(ctx context.Context, info *host.HandOffInfo) context.Context {
	who := recOf(ctx)
	if who != h.owner {
		other := "<none>"
		if who != nil {
			other = who.tag
		}
		h.owner.violate(fmt.Sprintf("hand-off callback of call %s fired in call %s", h.owner.tag, other))
	}
	see(ctx, "hand-off callback", info.Argument)
	ts := int64(sinceBase())
	h.owner.mu.Lock()
	h.owner.events = append(h.owner.events, event{ts, "handoff:" + info.ToAgentName})
	h.owner.mu.Unlock()
	return ctx
}

// sharedHandOff is ONE hand-off callback used by every call (an option value built once, in a
// slice with spare capacity): it logs into the recorder of whichever call fired it.
type sharedHandOff struct{}

func (sharedHandOff) OnHandOff(ctx context.Context, info *host.HandOffInfo) context.Context {
	ev(ctx, "handoff:S:"+info.ToAgentName)
	see(ctx, "shared hand-off callback", info.Argument)
	return ctx
}

var hostScripts = []string{
	"say:direct",
	"call:smodel(why)",
	"call:slambda(because)",
	"call:sreact(go) call:echo(a);say:inner", // the specialist react agent reads its own script after the blank
	"call:smodel(a)+slambda(b)",              // two tool calls: the specialists branch rejects it
}

// ctxChecker is a StreamToolCallChecker that, like any user function, works with the context
// it is given: it must be the context of the run it checks for (the recorder of the call, the
// callback manager, deadlines and values of the caller), and what it reads must be that run's.
func ctxChecker(who string) func(ctx context.Context, sr *schema.StreamReader[*schema.Message]) (bool, error) {
	return func(ctx context.Context, sr *schema.StreamReader[*schema.Message]) (bool, error) {
		defer sr.Close()
		ev(ctx, "ctx:checker:"+who)
		cs, err := drain(sr)
		if err != nil {
			return false, err
		}
		found := false
		for _, c := range cs {
			see(ctx, "tool call checker of "+who, renderMsg(c))
			if len(c.ToolCalls) > 0 {
				found = true
			}
		}
		return found, nil
	}
}

func buildHost(r *lib.Rng, z *zoo) (*object, error) {
	ctx := context.Background()
	var shape []string
	inner, dInner, err := z.reactAgentD(ctx, r, &shape)
	if err != nil {
		return nil, err
	}
	withPrompt := z.flag("prompt", r.Chance(1, 2))
	specialists := []*host.Specialist{
		{AgentMeta: host.AgentMeta{Name: "smodel", IntendedUse: "model specialist"}, ChatModel: &fakeModel{z: z, role: "smodel"}},
		{AgentMeta: host.AgentMeta{Name: "slambda", IntendedUse: "lambda specialist"},
			Invokable: func(ctx context.Context, input []*schema.Message, opts ...agent.AgentOption) (*schema.Message, error) {
				ev(ctx, "n:slambda")
				s := renderMsgs(input)
				see(ctx, "specialist slambda", s)
				return schema.AssistantMessage("slambda saw "+s, nil), nil
			},
			Streamable: func(ctx context.Context, input []*schema.Message, opts ...agent.AgentOption) (*schema.StreamReader[*schema.Message], error) {
				ev(ctx, "n:slambda")
				s := renderMsgs(input)
				see(ctx, "specialist slambda", s)
				return schema.StreamReaderFromArray([]*schema.Message{schema.AssistantMessage("slambda saw ", nil), schema.AssistantMessage(s, nil)}), nil
			}},
		{AgentMeta: host.AgentMeta{Name: "sreact", IntendedUse: "react specialist"},
			Invokable: func(ctx context.Context, input []*schema.Message, opts ...agent.AgentOption) (*schema.Message, error) {
				ev(ctx, "n:sreact")
				return inner.Generate(ctx, subScript(input), opts...)
			},
			Streamable: func(ctx context.Context, input []*schema.Message, opts ...agent.AgentOption) (*schema.StreamReader[*schema.Message], error) {
				ev(ctx, "n:sreact")
				return inner.Stream(ctx, subScript(input), opts...)
			}},
	}
	if withPrompt {
		specialists[0].SystemPrompt = "be special"
	}
	cfg := &host.MultiAgentConfig{
		Host:        host.Host{ToolCallingModel: &fakeModel{z: z, role: "host"}},
		Specialists: specialists,
	}
	if withPrompt {
		cfg.Host.SystemPrompt = "route"
	}
	hostChecker := z.flag("hostchecker", r.Chance(1, 2))
	if hostChecker {
		cfg.StreamToolCallChecker = ctxChecker("host")
	}
	ma, err := host.NewMultiAgent(ctx, cfg)
	if err != nil {
		return nil, err
	}
	shape = append(shape, fmt.Sprintf("prompt:%v", withPrompt), fmt.Sprintf("hostchecker:%v", hostChecker))
	sharedA := append(sharedAgentOpts(), host.WithAgentCallbacks(spare([]host.MultiAgentCallback{sharedHandOff{}})...))
	// flow/agent/multiagent/host/compose.go:43-125
	d := &dGraph{agentSt: true}
	hostPrompt, specPrompt := "decide which tool is best for the task and call only the best tool.", ""
	if withPrompt {
		hostPrompt, specPrompt = "route", "be special"
	}
	d.node("smodel", "(FModel "+q("smodel")+" 0%nat)", 1, "pre=(HSpecialist "+q(specPrompt)+")")
	d.node("slambda", "FSLambda", -1, "pre=(HSpecialist "+q("")+")")
	d.node("sreact", "(FSReact "+dInner.term()+")", -1, "pre=(HSpecialist "+q("")+")")
	d.node("host", "(FModel "+q("host")+" 3%nat)", 1, "pre=(HHost "+q(hostPrompt)+")")
	d.node("msg2MsgList", "FToList", -1)
	d.edge(compose.START, "host")
	d.branch("host", "(BToolCalls "+q("msg2MsgList")+")", "msg2MsgList", compose.END)
	d.branch("msg2MsgList", "BSpecialist", "smodel", "slambda", "sreact")
	for _, k := range strs("smodel", "slambda", "sreact") {
		d.edge(k, compose.END)
	}
	d.defaultMax()
	// one input object per script for the calls made with optSharedInput (see buildReact)
	sharedIns := make([][]*schema.Message, len(hostScripts))
	for i := range sharedIns {
		sharedIns[i] = spare([]*schema.Message{schema.UserMessage("<shared> " + hostScripts[i])})
	}
	return &object{
		desc: d, depth: 2, roots: []any{ma, sharedA, sharedIns}, proj: ma,
		mcall: func(sp spec, si int) string {
			who := selfTag
			if sp.Opt&optSharedInput != 0 {
				who = "<shared>"
			}
			return callTerm(vMsgs(msgT("user", who+" "+hostScripts[sp.In%len(hostScripts)])),
				mAgentOpts(si, sp.Opt&^optMaxSteps), 0)
		},
		kind: "host", shape: shape,
		nIn: len(hostScripts), paras: []string{"invoke", "stream"},
		// optMaxSteps bit is reused here for "with hand-off callbacks"
		optSet:  []int{0, optMaxSteps, optLambdaDesignated, optCbGlobal, optMaxSteps | optCbGlobal | optLambdaDesignated, optCtxHandlers | optMaxSteps, optShared, optShared | optMaxSteps | optLambdaDesignated, optCbThree | optMaxSteps, optShared | optMaxSteps,
			optSharedInput, optSharedInput | optMaxSteps | optLambdaDesignated, optSharedInput | optShared},
		baseCtx: sharedCtx,
		call: func(ctx context.Context, rc *callRec, sp spec) string {
			in := []*schema.Message{schema.UserMessage(rc.tag + " " + hostScripts[sp.In%len(hostScripts)])}
			if sp.Opt&optSharedInput != 0 {
				in = sharedIns[sp.In%len(hostScripts)]
			}
			opts := agentOpts(rc, sp.Opt&^optMaxSteps)
			if sp.Opt&optMaxSteps != 0 {
				opts = append(opts, host.WithAgentCallbacks(&handOff{owner: rc}))
			}
			opts = withShared(sp.Opt, sharedA, opts)
			var out *schema.Message
			var err error
			if sp.Para == "invoke" {
				out, err = ma.Generate(ctx, in, opts...)
			} else {
				var sr *schema.StreamReader[*schema.Message]
				sr, err = ma.Stream(ctx, in, opts...)
				if err == nil {
					var cs []*schema.Message
					cs, err = drain(sr)
					if err == nil {
						out, err = concatOneMsg(cs)
					}
				}
			}
			if err != nil {
				return "err:" + errClass(err)
			}
			return "ok:" + renderMsg(out)
		},
	}, nil
}

// the specialist react agent gets the part of the user's script after the first blank-separated host step
func subScript(input []*schema.Message) []*schema.Message {
	for _, m := range input {
		if m.Role == schema.User {
			parts := strings.SplitN(m.Content, " ", 3)
			if len(parts) == 3 {
				return []*schema.Message{schema.UserMessage(parts[0] + " " + parts[2])}
			}
			return []*schema.Message{schema.UserMessage(parts[0] + " say:nothing")}
		}
	}
	return input
}
