package main

import (
	"context"
	"fmt"
	"sort"
	"strings"

	"github.com/cloudwego/eino/compose"
	"github.com/cloudwego/eino/schema"

	"verif/harness/lib"
)

// ---------------------------------------------------------------- 4. Chain of strings: transform stage, parallel stage, branch stage, passthrough

func (z *zoo) strTransform(key string) func(ctx context.Context, in *schema.StreamReader[string]) (*schema.StreamReader[string], error) {
	return func(ctx context.Context, in *schema.StreamReader[string]) (*schema.StreamReader[string], error) {
		ev(ctx, "n:"+key)
		jitter(ctx, z.sched, key)
		first := true
		return schema.StreamReaderWithConvert(in, func(s string) (string, error) {
			see(ctx, "node "+key, s)
			if first {
				first = false
				return key + "[" + strings.ReplaceAll(s, "a", "A"), nil
			}
			return strings.ReplaceAll(s, "a", "A"), nil
		}), nil
	}
}

func (z *zoo) strNode(key string) func(ctx context.Context, in string, opts ...lopt) (string, error) {
	return func(ctx context.Context, in string, opts ...lopt) (string, error) {
		ev(ctx, "n:"+key)
		see(ctx, "node "+key, in)
		o := applyOpts(ctx, key, opts)
		jitter(ctx, z.sched, key)
		return key + "(" + in + ")" + o, nil
	}
}

func buildChain(r *lib.Rng, z *zoo) (*object, error) {
	w := z.num("width", r.Range(2, 3))
	ch := compose.NewChain[string, string]()
	ch.AppendLambda(compose.TransformableLambda(z.strTransform("t")), compose.WithNodeKey("t"))
	par := compose.NewParallel()
	var pk []string
	for i := 0; i < w; i++ {
		k := fmt.Sprintf("q%d", i)
		pk = append(pk, k)
		par.AddLambda(k, compose.InvokableLambdaWithOption(z.strNode(k)), compose.WithNodeKey(k))
	}
	ch.AppendParallel(par)
	// the join is a Collect lambda (stream in, value out): the fourth kind of user function
	ch.AppendLambda(compose.CollectableLambda(func(ctx context.Context, in *schema.StreamReader[map[string]any]) (string, error) {
		ev(ctx, "n:join")
		cs, err := drain(in)
		if err != nil {
			return "", err
		}
		m, err := concatMaps(cs)
		if err != nil {
			return "", err
		}
		s := renderAny(m)
		see(ctx, "node join", s)
		return s, nil
	}), compose.WithNodeKey("join"))
	br := compose.NewChainBranch(func(ctx context.Context, in string) (string, error) {
		ev(ctx, "b:join")
		see(ctx, "branch join", in)
		if len(in)%2 == 0 {
			return "even", nil
		}
		return "odd", nil
	})
	br.AddLambda("even", compose.InvokableLambdaWithOption(z.strNode("even")), compose.WithNodeKey("even"))
	br.AddLambda("odd", compose.StreamableLambda(func(ctx context.Context, in string) (*schema.StreamReader[string], error) {
		ev(ctx, "n:odd")
		see(ctx, "node odd", in)
		return schema.StreamReaderFromArray([]string{"odd(", in, ")"}), nil
	}), compose.WithNodeKey("odd"))
	ch.AppendBranch(br)
	ch.AppendPassthrough(compose.WithNodeKey("pt"))
	ch.AppendLambda(compose.InvokableLambdaWithOption(z.strNode("z")), compose.WithNodeKey("z"))
	run, err := ch.Compile(context.Background(), compose.WithGraphName("chain"))
	if err != nil {
		return nil, err
	}
	shared := []compose.Option{
		sharedLopt("S").DesignateNode(pk[0], "z"),
		sharedCb("sd").DesignateNode(pk[1]),
	}
	d := &dGraph{}
	d.node("t", fn1("FStrT", "t"), -1)
	d.edge(compose.START, "t")
	for _, k := range pk {
		d.node(k, fn1("FStr", k), 0, "out="+k)
		d.edge("t", k)
		d.edge(k, "join")
	}
	d.node("join", fn1("FRender", "join"), -1)
	d.branch("join", "BEvenOdd", "even", "odd")
	d.node("even", fn1("FStr", "even"), 0)
	d.node("odd", "FOdd", -1)
	d.node("pt", "FPass", -1)
	d.node("z", fn1("FStr", "z"), 0)
	d.edge("even", "pt")
	d.edge("odd", "pt")
	d.edge("pt", "z")
	d.edge("z", compose.END)
	d.defaultMax()
	mshared := []string{opT(0, "S", []string{pk[0]}, []string{"z"})}
	shared = spare(shared) // spare capacity: an append to the options inside a run must not reach it
	return &object{
		desc: d, roots: []any{run, ch, shared}, proj: run,
		mcall: func(sp spec, si int) string {
			return callTerm(vS(selfTag+strings.Repeat("ab", sp.In)+fmt.Sprint(sp.In)),
				mWithShared(sp.Opt, mshared, mLambdaOpts(si, sp.Opt, pk[0], "z")), 0)
		},
		kind: "chain", shape: []string{fmt.Sprintf("parallel:%d", w)},
		nIn: 5, paras: allParas,
		optSet:  []int{0, optLambdaDesignated, optLambdaGlobal, optCbGlobal, optCbThree | optCbDesignated, optCtxHandlers | optLambdaDesignated, optShared, optShared | optLambdaGlobal | optCbGlobal},
		baseCtx: sharedCtx,
		call: func(ctx context.Context, rc *callRec, sp spec) string {
			in := rc.tag + strings.Repeat("ab", sp.In) + fmt.Sprint(sp.In)
			opts := append(lambdaOpts(rc, sp.Opt, pk[0], "z"), cbOptions(rc, sp.Opt, pk[:2])...)
			return runPara[string, string](ctx, run, sp.Para, in, codecS, withShared(sp.Opt, shared, opts))
		},
	}, nil
}

// ---------------------------------------------------------------- 5. local state: generator, pre/post handlers, ProcessState, parallel writers

// St is the per-run state object. Owner is the call whose run generated it.
type St struct {
	Owner string
	Log   []string
	Sum   int
}

func (z *zoo) genState(ctx context.Context) *St {
	rc := ev(ctx, "gen")
	s := &St{Owner: rc.tag}
	rc.mu.Lock()
	rc.states = append(rc.states, s)
	rc.mu.Unlock()
	return s
}

func stCheck(ctx context.Context, where string, s *St) {
	rc := recOf(ctx)
	if rc == nil || s == nil {
		return
	}
	if s.Owner != rc.tag {
		rc.violate(fmt.Sprintf("%s: call %s was handed the state object of call %s", where, rc.tag, s.Owner))
	}
	for _, l := range s.Log {
		see(ctx, where+" (state log)", l)
	}
}

func buildState(r *lib.Rng, z *zoo) (*object, error) {
	dag := z.flag("dag", r.Chance(1, 2))
	w := z.num("width", r.Range(2, 3))
	g := compose.NewGraph[V, V](compose.WithGenLocalState(z.genState))
	must := &errs{}
	pre := func(key string) compose.GraphAddNodeOpt {
		return compose.WithStatePreHandler(func(ctx context.Context, in V, s *St) (V, error) {
			ev(ctx, "pre:"+key)
			stCheck(ctx, "pre "+key, s)
			see(ctx, "pre "+key, in.String())
			s.Log = append(s.Log, "pre:"+key+":"+in.ID)
			s.Sum += in.Lim + 1
			jitter(ctx, z.sched, "pre"+key)
			return in, nil
		})
	}
	post := func(key string) compose.GraphAddNodeOpt {
		return compose.WithStatePostHandler(func(ctx context.Context, out V, s *St) (V, error) {
			ev(ctx, "post:"+key)
			stCheck(ctx, "post "+key, s)
			s.Log = append(s.Log, "post:"+key)
			s.Sum += 100
			return out, nil
		})
	}
	must.add(g.AddLambdaNode("a", compose.InvokableLambdaWithOption(z.nodeVOpt("a")), pre("a"), post("a")))
	var par []string
	for i := 0; i < w; i++ {
		k := fmt.Sprintf("s%d", i)
		par = append(par, k)
		kk := k
		// parallel nodes write the state through ProcessState (mutex) and through handlers
		must.add(g.AddLambdaNode(k, compose.InvokableLambda(func(ctx context.Context, in V) (V, error) {
			ev(ctx, "n:"+kk)
			see(ctx, "node "+kk, in.String())
			jitter(ctx, z.sched, kk)
			err := compose.ProcessState[*St](ctx, func(ctx context.Context, s *St) error {
				stCheck(ctx, "ProcessState "+kk, s)
				s.Log = append(s.Log, "ps:"+kk)
				s.Sum += 7
				return nil
			})
			if err != nil {
				return V{}, err
			}
			return V{ID: in.ID, N: in.N, Lim: in.Lim, H: in.H + ">" + kk}, nil
		}), compose.WithOutputKey(k), pre(k)))
		must.add(g.AddEdge("a", k))
	}
	// stream state handler on the join + final node reading the whole state into the result
	must.add(g.AddLambdaNode("j", compose.InvokableLambda(z.joinV("j")),
		compose.WithStreamStatePreHandler(func(ctx context.Context, in *schema.StreamReader[map[string]any], s *St) (*schema.StreamReader[map[string]any], error) {
			ev(ctx, "spre:j")
			stCheck(ctx, "stream pre j", s)
			s.Log = append(s.Log, "spre:j")
			return in, nil
		}),
		compose.WithStreamStatePostHandler(func(ctx context.Context, out *schema.StreamReader[V], s *St) (*schema.StreamReader[V], error) {
			ev(ctx, "spost:j")
			stCheck(ctx, "stream post j", s)
			s.Log = append(s.Log, "spost:j")
			return out, nil
		})))
	for _, k := range par {
		must.add(g.AddEdge(k, "j"))
	}
	must.add(g.AddLambdaNode("fin", compose.InvokableLambda(func(ctx context.Context, in V) (V, error) {
		ev(ctx, "n:fin")
		var logc []string
		sum := 0
		err := compose.ProcessState[*St](ctx, func(ctx context.Context, s *St) error {
			stCheck(ctx, "ProcessState fin", s)
			logc = append(logc, s.Log...)
			sum = s.Sum
			return nil
		})
		if err != nil {
			return V{}, err
		}
		sort.Strings(logc)
		return V{ID: in.ID, N: sum, Lim: in.Lim, H: in.H + ">fin{" + strings.Join(logc, ",") + "}"}, nil
	})))
	must.add(g.AddEdge(compose.START, "a"))
	must.add(g.AddEdge("j", "fin"))
	must.add(g.AddEdge("fin", compose.END))
	if must.err != nil {
		return nil, must.err
	}
	mode := compose.AnyPredecessor
	if dag {
		mode = compose.AllPredecessor
	}
	run, err := g.Compile(context.Background(), compose.WithNodeTriggerMode(mode), compose.WithGraphName("state"))
	if err != nil {
		return nil, err
	}
	shared := []compose.Option{
		sharedLopt("S").DesignateNode("a"),
		sharedCb("so"),
		sharedCb("sd").DesignateNode(par[0]),
	}
	d := &dGraph{dag: dag, state: true}
	d.node("a", fn1("FV", "a"), 0, "pre="+fn1("HPreSt", "a"), "post="+fn1("HPostSt", "a"))
	d.edge(compose.START, "a")
	for _, k := range par {
		d.node(k, fn1("FStW", k), -1, "out="+k, "pre="+fn1("HPreSt", k))
		d.edge("a", k)
		d.edge(k, "j")
	}
	d.node("j", fn1("FJoinV", "j"), -1, "pre=HSPreJ", "post=HSPostJ")
	d.node("fin", "FFin", -1)
	d.edge("j", "fin")
	d.edge("fin", compose.END)
	d.defaultMax()
	mshared := []string{opT(0, "S", []string{"a"})}
	shared = spare(shared) // spare capacity: an append to the options inside a run must not reach it
	return &object{
		desc: d, roots: []any{run, g, shared}, proj: run,
		mcall: func(sp spec, si int) string {
			return callTerm(vR(selfTag, 0, sp.In, fmt.Sprintf("in%d", sp.In)),
				mWithShared(sp.Opt, mshared, mLambdaOpts(si, sp.Opt, "a")), 0)
		},
		kind: "state", shape: []string{fmt.Sprintf("dag:%v", dag), fmt.Sprintf("writers:%d", w)},
		nIn: 4, paras: allParas,
		optSet:  []int{0, optLambdaDesignated, optCbGlobal, optCbThree | optCbDesignated, optCtxHandlers, optShared, optShared | optLambdaDesignated | optCbDesignated},
		baseCtx: sharedCtx,
		call: func(ctx context.Context, rc *callRec, sp spec) string {
			in := V{ID: rc.tag, Lim: sp.In, H: fmt.Sprintf("in%d", sp.In)}
			opts := append(lambdaOpts(rc, sp.Opt, "a"), cbOptions(rc, sp.Opt, par[:2])...)
			return runPara[V, V](ctx, run, sp.Para, in, codecV, withShared(sp.Opt, shared, opts))
		},
	}, nil
}

// ---------------------------------------------------------------- 6. nested graphs: outer(state) -> sub(state) -> inner(no state of its own), options by path

func buildNested(r *lib.Rng, z *zoo) (*object, error) {
	depth3 := z.flag("depth3", r.Chance(2, 3))
	// the SAME graph object added under two node keys (compiled once per node), or two copies
	sameSub := z.flag("samesub", r.Chance(1, 2))
	must := &errs{}

	mkSub := func() *compose.Graph[V, V] {
		// innermost: two parallel nodes + join, reads the state of the enclosing graph
		inner := compose.NewGraph[V, V]()
		must.add(inner.AddLambdaNode("xj", compose.InvokableLambda(func(ctx context.Context, in map[string]any) (V, error) {
			v, err := z.joinV("inner.xj")(ctx, in)
			if err != nil {
				return v, err
			}
			err = compose.ProcessState[*St](ctx, func(ctx context.Context, s *St) error {
				stCheck(ctx, "ProcessState inner.xj", s)
				s.Log = append(s.Log, "ps:inner.xj")
				return nil
			})
			return v, err
		})))
		for _, k := range []string{"x0", "x1"} {
			must.add(inner.AddLambdaNode(k, compose.InvokableLambdaWithOption(z.nodeVOpt("inner."+k)), compose.WithOutputKey(k)))
			must.add(inner.AddEdge(compose.START, k))
			must.add(inner.AddEdge(k, "xj"))
		}
		must.add(inner.AddEdge("xj", compose.END))

		// middle graph has its own state
		sub := compose.NewGraph[V, V](compose.WithGenLocalState(z.genState))
		must.add(sub.AddLambdaNode("y", compose.InvokableLambdaWithOption(z.nodeVOpt("sub.y")),
			compose.WithStatePreHandler(func(ctx context.Context, in V, s *St) (V, error) {
				ev(ctx, "pre:sub.y")
				stCheck(ctx, "pre sub.y", s)
				s.Log = append(s.Log, "pre:sub.y")
				return in, nil
			})))
		must.add(sub.AddEdge(compose.START, "y"))
		last := "y"
		if depth3 {
			must.add(sub.AddGraphNode("inner", inner, compose.WithGraphCompileOptions(compose.WithNodeTriggerMode(compose.AllPredecessor))))
			must.add(sub.AddEdge("y", "inner"))
			last = "inner"
		}
		must.add(sub.AddLambdaNode("yf", compose.InvokableLambda(func(ctx context.Context, in V) (V, error) {
			ev(ctx, "n:sub.yf")
			var logc []string
			err := compose.ProcessState[*St](ctx, func(ctx context.Context, s *St) error {
				stCheck(ctx, "ProcessState sub.yf", s)
				logc = append(logc, s.Log...)
				return nil
			})
			sort.Strings(logc)
			return V{ID: in.ID, N: in.N, Lim: in.Lim, H: in.H + ">sub.yf{" + strings.Join(logc, ",") + "}"}, err
		})))
		must.add(sub.AddEdge(last, "yf"))
		must.add(sub.AddEdge("yf", compose.END))
		return sub
	}

	outer := compose.NewGraph[V, V](compose.WithGenLocalState(z.genState))
	must.add(outer.AddLambdaNode("o", compose.InvokableLambdaWithOption(z.nodeVOpt("o"))))
	sub1 := mkSub()
	sub2 := sub1
	if !sameSub {
		sub2 = mkSub()
	}
	must.add(outer.AddGraphNode("sub", sub1))
	must.add(outer.AddGraphNode("sub2", sub2)) // in parallel with the first
	must.add(outer.AddLambdaNode("oj", compose.InvokableLambda(func(ctx context.Context, in map[string]any) (V, error) {
		v, err := z.joinV("oj")(ctx, in)
		if err != nil {
			return v, err
		}
		var logc []string
		err = compose.ProcessState[*St](ctx, func(ctx context.Context, s *St) error {
			stCheck(ctx, "ProcessState oj", s)
			logc = append(logc, s.Log...)
			return nil
		})
		v.H += "{outer:" + strings.Join(logc, ",") + "}"
		return v, err
	})))
	must.add(outer.AddLambdaNode("k1", compose.InvokableLambda(z.nodeV("k1")), compose.WithOutputKey("k1")))
	must.add(outer.AddLambdaNode("k2", compose.InvokableLambda(z.nodeV("k2")), compose.WithOutputKey("k2")))
	must.add(outer.AddEdge(compose.START, "o"))
	must.add(outer.AddEdge("o", "sub"))
	must.add(outer.AddEdge("o", "sub2"))
	must.add(outer.AddEdge("sub", "k1"))
	must.add(outer.AddEdge("sub2", "k2"))
	must.add(outer.AddEdge("k1", "oj"))
	must.add(outer.AddEdge("k2", "oj"))
	must.add(outer.AddEdge("oj", compose.END))
	if must.err != nil {
		return nil, must.err
	}
	run, err := outer.Compile(context.Background(), compose.WithNodeTriggerMode(compose.AllPredecessor), compose.WithGraphName("outer"))
	if err != nil {
		return nil, err
	}
	shared := []compose.Option{
		sharedLopt("S").DesignateNodeWithPath(compose.NewNodePath("sub", "y"), compose.NewNodePath("sub2", "y")),
		sharedCb("sp").DesignateNodeWithPath(compose.NewNodePath("sub2", "yf")),
		sharedCb("so"),
	}
	if depth3 {
		shared = append(shared, sharedLopt("S3").DesignateNodeWithPath(compose.NewNodePath("sub", "inner", "x0")))
	}
	dInner := &dGraph{dag: true}
	for _, k := range []string{"x0", "x1"} {
		dInner.node(k, fn1("FV", "inner."+k), 0, "out="+k)
		dInner.edge(compose.START, k)
		dInner.edge(k, "xj")
	}
	dInner.node("xj", "FInnerXj", -1)
	dInner.edge("xj", compose.END)
	dSub := &dGraph{state: true}
	dSub.node("y", fn1("FV", "sub.y"), 0, "pre="+fn1("HPreLog", "sub.y"))
	dSub.edge(compose.START, "y")
	if depth3 {
		dSub.node("inner", "(FSub "+dInner.term()+")", -1)
		dSub.edge("y", "inner")
		dSub.edge("inner", "yf")
	} else {
		dSub.edge("y", "yf")
	}
	dSub.node("yf", "FSubYf", -1)
	dSub.edge("yf", compose.END)
	dSub.defaultMax()
	d := &dGraph{dag: true, state: true}
	d.node("o", fn1("FV", "o"), 0)
	d.node("sub", "(FSub "+dSub.term()+")", -1)
	d.node("sub2", "(FSub "+dSub.term()+")", -1)
	d.node("oj", "FOj", -1)
	d.node("k1", fn1("FV", "k1"), -1, "out=k1")
	d.node("k2", fn1("FV", "k2"), -1, "out=k2")
	for _, e := range [][2]string{{compose.START, "o"}, {"o", "sub"}, {"o", "sub2"}, {"sub", "k1"}, {"sub2", "k2"}, {"k1", "oj"}, {"k2", "oj"}, {"oj", compose.END}} {
		d.edge(e[0], e[1])
	}
	mshared := []string{opT(0, "S", []string{"sub", "y"}, []string{"sub2", "y"})}
	if depth3 {
		mshared = append(mshared, opT(0, "S3", []string{"sub", "inner", "x0"}))
	}
	shared = spare(shared) // spare capacity: an append to the options inside a run must not reach it
	badPath := []string{"sub2", "nosuch"}
	if depth3 {
		badPath = []string{"sub2", "inner", "nosuch"}
	}
	return &object{
		desc: d, depth: 2, roots: []any{run, outer, shared}, proj: run,
		mcall: func(sp spec, si int) string {
			var own []string
			if sp.Opt&optLambdaDesignated != 0 {
				own = append(own, opT(0, fmt.Sprintf("p%d", si), []string{"sub", "y"}))
				if depth3 {
					own = append(own, opT(0, fmt.Sprintf("q%d", si), []string{"sub2", "inner", "x1"}))
				}
			}
			if sp.Opt&optLambdaGlobal != 0 {
				own = append(own, opT(0, fmt.Sprintf("g%d", si)))
			}
			own = append(own, mBadPathOpt(sp.Opt, badPath...)...)
			return callTerm(vR(selfTag, 0, sp.In, fmt.Sprintf("in%d", sp.In)), mWithShared(sp.Opt, mshared, own), 0)
		},
		kind: "nested", shape: []string{fmt.Sprintf("depth3:%v", depth3), fmt.Sprintf("samesub:%v", sameSub)},
		nIn: 4, paras: allParas,
		optSet:  []int{0, optLambdaDesignated, optLambdaGlobal, optCbGlobal, optCbThree | optCbDesignated, optCtxHandlers | optLambdaDesignated, optShared, optShared | optLambdaDesignated, optShared | optCbGlobal | optLambdaGlobal, optBadPath, optBadPath | optShared | optCbGlobal},
		baseCtx: sharedCtx,
		call: func(ctx context.Context, rc *callRec, sp spec) string {
			in := V{ID: rc.tag, Lim: sp.In, H: fmt.Sprintf("in%d", sp.In)}
			var opts []compose.Option
			if sp.Opt&optLambdaDesignated != 0 {
				opts = append(opts, compose.WithLambdaOption(lopt{Tag: rc.tag, Val: fmt.Sprintf("p%d", rc.spec)}).
					DesignateNodeWithPath(compose.NewNodePath("sub", "y")))
				if depth3 {
					opts = append(opts, compose.WithLambdaOption(lopt{Tag: rc.tag, Val: fmt.Sprintf("q%d", rc.spec)}).
						DesignateNodeWithPath(compose.NewNodePath("sub2", "inner", "x1")))
				}
			}
			if sp.Opt&optLambdaGlobal != 0 {
				opts = append(opts, compose.WithLambdaOption(lopt{Tag: rc.tag, Val: fmt.Sprintf("g%d", rc.spec)}))
			}
			opts = append(opts, cbOptions(rc, sp.Opt, []string{"sub", "sub2"})...)
			opts = append(opts, badPathOpt(rc, sp.Opt, badPath...)...)
			return runPara[V, V](ctx, run, sp.Para, in, codecV, withShared(sp.Opt, shared, opts))
		},
	}, nil
}
