package main

import (
	"context"
	"errors"
	"fmt"
	"io"
	"os"
	"sort"
	"strings"

	"github.com/cloudwego/eino/callbacks"
	"github.com/cloudwego/eino/compose"
	"github.com/cloudwego/eino/schema"
)

// spec is one way of calling a compiled object: paradigm x input x option set.
type spec struct {
	Para string `json:"para"` // invoke | stream | collect | transform
	In   int    `json:"in"`
	Opt  int    `json:"opt"` // bit mask, see opt* below
}

func (s spec) String() string { return fmt.Sprintf("%s/in%d/opt%d", s.Para, s.In, s.Opt) }

// option-set bits. Which bits an object understands is part of its template.
const (
	optLambdaDesignated = 1 << iota // a per-call lambda/model/tool option designated to some nodes (by key / by path)
	optLambdaGlobal                 // the same kind of option, undesignated
	optCbGlobal                     // one WithCallbacks(h) for the whole call
	optCbThree                      // three separate WithCallbacks options (handler list gets spare capacity)
	optCbDesignated                 // handlers designated to two parallel nodes
	optMaxSteps                     // WithRuntimeMaxSteps(small): the run fails with ErrExceedMaxSteps
	optCtxHandlers                  // the context already carries handlers (callbacks.InitCallbacks), the SAME parent context for every call
	optShared                       // option VALUES built once per object and handed to every call with this bit: the same Option structs, NodePaths, handler and option slices
	optBadPath                      // one more lambda option, designated to a node that does not exist (inside the deepest nested graph where there is one): the call fails before anything runs
	optCancel                       // the call runs under a context of its own that one of its nodes (object.cancelKey) cancels while it executes: the run finds its context cancelled at the top of the next iteration of its main loop — and no other call does
	optSharedInput                  // the call's input is an object shared by every call with this bit (it carries no call tag): the same slice, with spare capacity, and the same message objects — a caller may hand one immutable input to any number of concurrent calls, the framework must never write into it
	optStateMod                     // the call brings a state modifier of its own (compose.WithStateModifier): every resume of ITS session hands it the state restored from ITS checkpoint (ckpt kind; read-only: the modifier checks whose run and whose state it is given)
)

// spare copies a slice into one with spare capacity.
func spare[T any](xs []T) []T {
	out := make([]T, len(xs), len(xs)+4)
	copy(out, xs)
	return out
}

// withShared puts the object's shared option values in front of the call's own options.
// With no own options the shared slice itself is passed (same backing array for every call).
func withShared[T any](bits int, shared []T, own []T) []T {
	if bits&optShared == 0 {
		return own
	}
	if len(own) == 0 {
		return shared
	}
	out := make([]T, 0, len(shared)+len(own))
	out = append(out, shared...)
	return append(out, own...)
}

// object is a compiled runnable of the zoo plus everything needed to call it.
type object struct {
	kind   string
	shape  []string // distribution tags
	nIn    int      // number of distinct inputs
	paras  []string
	optSet []int // option sets this object understands
	// call runs one spec on behalf of rc; ctx already carries rc. Returns the raw rendering
	// ("ok:..." / "err:<class>"), the call's tag not yet replaced.
	call func(ctx context.Context, rc *callRec, sp spec) string
	// base context shared by ALL calls of the object (may carry a callback manager)
	baseCtx func(withHandlers bool) context.Context
	// model side (nil: this kind of object is not modelled, the correspondence replays the
	// solo observations): the description of what was built, the nesting depth, and the
	// Gallina term of what a call brings (input, options, runtime step limit)
	desc  *dGraph
	depth int
	mcall func(sp spec, specIdx int) string
	// the compiled record looked at directly (record.go): everything reachable from [roots]
	// (the runnable, the builder, the agent, the option values shared by all calls) must be the
	// same before the first and after the last call; [proj] is the root from which the compiled
	// graph record is projected into the terms of the model (nil: no graph record)
	roots []any
	proj  any
	// inputs on which a run of this object RETURNS WHILE SOME OF ITS TASKS ARE STILL EXECUTING (eager
	// collection: a workflow returns on the first failing node); objects that have some get a faulted
	// and a healthy spec in every case, and the sequential fault scenario (main.go)
	faultIn []int
	// wantOpt: an option bit that at least one spec of every case carries and at least one does not (ckpt:
	// the per-call state modifier — a modifier that reaches a call which brought none is the failure)
	wantOpt int
	// the node that cancels the context of a call made with optCancel (or with an input for which
	// wantsCancel says so); "" = the object has no cancellation point
	cancelKey   string
	wantsCancel func(sp spec) bool
}

// lopt is the per-call option of harness lambdas: it carries the tag of the call that passed it.
type lopt struct {
	Tag string
	Val string
}

// V is the value flowing through the typed (non fan-in) parts of harness graphs.
type V struct {
	ID  string // tag of the call
	N   int
	Lim int
	H   string
}

func (v V) String() string { return fmt.Sprintf("V{%s n=%d lim=%d h=%s}", v.ID, v.N, v.Lim, v.H) }

var debugErrs = os.Getenv("C09_DEBUG") != ""

type nodeErr struct{ key string }

func (e *nodeErr) Error() string { return "node " + e.key + " failed" }

func errClass(err error) string {
	var ne *nodeErr
	switch {
	case errors.Is(err, compose.ErrExceedMaxSteps) || strings.Contains(err.Error(), "exceeds max steps"):
		return "maxsteps"
	case errors.As(err, &ne):
		return "node:" + ne.key
	case strings.Contains(err.Error(), "panic error:"):
		return "panic" // safe.NewPanicErr: a panic of a node, recovered by the engine (its text carries a stack trace)
	case strings.Contains(err.Error(), "node ") && strings.Contains(err.Error(), " failed"):
		i := strings.Index(err.Error(), "node ")
		j := strings.Index(err.Error()[i:], " failed")
		return "node:" + err.Error()[i+5:i+j]
	case strings.Contains(err.Error(), "panic"):
		return "panic"
	}
	return "other"
}

func renderAny(x any) string {
	switch t := x.(type) {
	case nil:
		return "nil"
	case string:
		return t
	case V:
		return t.String()
	case map[string]any:
		keys := make([]string, 0, len(t))
		for k := range t {
			keys = append(keys, k)
		}
		sort.Strings(keys)
		var b strings.Builder
		b.WriteString("{")
		for i, k := range keys {
			if i > 0 {
				b.WriteString(",")
			}
			b.WriteString(k + "=" + renderAny(t[k]))
		}
		b.WriteString("}")
		return b.String()
	case fmt.Stringer:
		return t.String()
	}
	return fmt.Sprintf("%v", x)
}

// applyOpts is what every harness lambda does with the options it was handed.
func applyOpts(ctx context.Context, key string, opts []lopt) string {
	rc := recOf(ctx)
	s := ""
	for _, o := range opts {
		if rc != nil && o.Tag != "" && o.Tag != rc.tag { // Tag "" = a shared option value
			rc.violate(fmt.Sprintf("node %s of call %s received an option of call %s", key, rc.tag, o.Tag))
		}
		s += "[o=" + o.Val + "]"
	}
	if len(opts) > 0 {
		ev(ctx, "opt:"+key+fmt.Sprintf("x%d", len(opts)))
	}
	return s
}

type codec[I, O any] struct {
	chunkIn   func(I) []I
	concatOut func([]O) (O, error)
	render    func(O) string
}

func drain[O any](sr *schema.StreamReader[O]) ([]O, error) {
	defer sr.Close()
	var out []O
	for {
		c, err := sr.Recv()
		if err == io.EOF {
			return out, nil
		}
		if err != nil {
			return out, err
		}
		out = append(out, c)
	}
}

// runPara calls r in one of the four paradigms and renders the outcome.
func runPara[I, O any](ctx context.Context, r compose.Runnable[I, O], para string, in I, cd codec[I, O], opts []compose.Option) string {
	var out O
	var err error
	switch para {
	case "invoke":
		out, err = r.Invoke(ctx, in, opts...)
	case "stream":
		var sr *schema.StreamReader[O]
		sr, err = r.Stream(ctx, in, opts...)
		if err == nil {
			var cs []O
			cs, err = drain(sr)
			if err == nil {
				out, err = cd.concatOut(cs)
			}
		}
	case "collect":
		out, err = r.Collect(ctx, schema.StreamReaderFromArray(cd.chunkIn(in)), opts...)
	case "transform":
		var sr *schema.StreamReader[O]
		sr, err = r.Transform(ctx, schema.StreamReaderFromArray(cd.chunkIn(in)), opts...)
		if err == nil {
			var cs []O
			cs, err = drain(sr)
			if err == nil {
				out, err = cd.concatOut(cs)
			}
		}
	default:
		return "err:badpara"
	}
	if err != nil {
		if debugErrs {
			fmt.Fprintln(os.Stderr, "DEBUG err:", para, err)
		}
		return "err:" + errClass(err)
	}
	return "ok:" + cd.render(out)
}

func oneChunk[T any](x T) []T { return []T{x} }

func lastOf[T any](xs []T) (T, error) {
	var z T
	if len(xs) == 0 {
		return z, errors.New("empty stream")
	}
	if len(xs) > 1 {
		return z, fmt.Errorf("expected one chunk, got %d", len(xs))
	}
	return xs[0], nil
}

func concatStr(xs []string) (string, error) { return strings.Join(xs, ""), nil }

func concatMaps(xs []map[string]any) (map[string]any, error) {
	out := map[string]any{}
	for _, m := range xs {
		for k, v := range m {
			if old, ok := out[k]; ok {
				os, ok1 := old.(string)
				ns, ok2 := v.(string)
				if !ok1 || !ok2 {
					return nil, fmt.Errorf("cannot concat key %s", k)
				}
				out[k] = os + ns
			} else {
				out[k] = v
			}
		}
	}
	return out, nil
}

// ---------------------------------------------------------------- callback handlers

// ownHandler is a handler created for ONE call. Every event it receives must come from
// that call (same recorder in the context); it logs into its owner.
func ownHandler(owner *callRec, name string) callbacks.Handler {
	chk := func(ctx context.Context, timing string, info *callbacks.RunInfo) {
		who := recOf(ctx)
		if who != owner {
			other := "<none>"
			if who != nil {
				other = who.tag
			}
			owner.violate(fmt.Sprintf("handler %s of call %s received %s of call %s", name, owner.tag, timing, other))
		}
		n := ""
		if info != nil {
			n = info.Name + "|" + string(info.Component)
		}
		ts := int64(sinceBase())
		owner.mu.Lock()
		owner.events = append(owner.events, event{ts, "cb:" + name + ":" + timing + ":" + n})
		owner.mu.Unlock()
	}
	return callbacks.NewHandlerBuilder().
		OnStartFn(func(ctx context.Context, info *callbacks.RunInfo, input callbacks.CallbackInput) context.Context {
			chk(ctx, "start", info)
			see(ctx, "handler "+name+" start", renderCb(input))
			return ctx
		}).
		OnEndFn(func(ctx context.Context, info *callbacks.RunInfo, output callbacks.CallbackOutput) context.Context {
			chk(ctx, "end", info)
			see(ctx, "handler "+name+" end", renderCb(output))
			return ctx
		}).
		OnErrorFn(func(ctx context.Context, info *callbacks.RunInfo, err error) context.Context {
			chk(ctx, "error", info)
			return ctx
		}).
		OnStartWithStreamInputFn(func(ctx context.Context, info *callbacks.RunInfo, input *schema.StreamReader[callbacks.CallbackInput]) context.Context {
			chk(ctx, "sstart", info)
			input.Close()
			return ctx
		}).
		OnEndWithStreamOutputFn(func(ctx context.Context, info *callbacks.RunInfo, output *schema.StreamReader[callbacks.CallbackOutput]) context.Context {
			chk(ctx, "send", info)
			output.Close()
			return ctx
		}).Build()
}

// sharedHandler is ONE handler object used by every call (carried by the shared parent
// context or given to every call): it logs into the recorder of whichever call fired it.
func sharedHandler(name string) callbacks.Handler {
	log := func(ctx context.Context, timing string, info *callbacks.RunInfo) {
		n := ""
		if info != nil {
			n = info.Name + "|" + string(info.Component)
		}
		ev(ctx, "scb:"+name+":"+timing+":"+n)
	}
	return callbacks.NewHandlerBuilder().
		OnStartFn(func(ctx context.Context, info *callbacks.RunInfo, input callbacks.CallbackInput) context.Context {
			log(ctx, "start", info)
			see(ctx, "shared handler "+name+" start", renderCb(input))
			return ctx
		}).
		OnEndFn(func(ctx context.Context, info *callbacks.RunInfo, output callbacks.CallbackOutput) context.Context {
			log(ctx, "end", info)
			see(ctx, "shared handler "+name+" end", renderCb(output))
			return ctx
		}).
		OnErrorFn(func(ctx context.Context, info *callbacks.RunInfo, err error) context.Context {
			log(ctx, "error", info)
			return ctx
		}).
		OnStartWithStreamInputFn(func(ctx context.Context, info *callbacks.RunInfo, input *schema.StreamReader[callbacks.CallbackInput]) context.Context {
			log(ctx, "sstart", info)
			input.Close()
			return ctx
		}).
		OnEndWithStreamOutputFn(func(ctx context.Context, info *callbacks.RunInfo, output *schema.StreamReader[callbacks.CallbackOutput]) context.Context {
			log(ctx, "send", info)
			output.Close()
			return ctx
		}).Build()
}

// partialHandler implements only some timings: callbacks.On filters the handler list by
// timing (TimingChecker), a place where a list shared between runs could be rewritten.
func partialHandler(name string, start bool) callbacks.Handler {
	log := func(ctx context.Context, timing string, info *callbacks.RunInfo) {
		n := ""
		if info != nil {
			n = info.Name + "|" + string(info.Component)
		}
		ev(ctx, "scb:"+name+":"+timing+":"+n)
	}
	b := callbacks.NewHandlerBuilder()
	if start {
		b = b.OnStartFn(func(ctx context.Context, info *callbacks.RunInfo, input callbacks.CallbackInput) context.Context {
			log(ctx, "start", info)
			return ctx
		}).OnStartWithStreamInputFn(func(ctx context.Context, info *callbacks.RunInfo, input *schema.StreamReader[callbacks.CallbackInput]) context.Context {
			log(ctx, "sstart", info)
			input.Close()
			return ctx
		})
	} else {
		b = b.OnEndFn(func(ctx context.Context, info *callbacks.RunInfo, output callbacks.CallbackOutput) context.Context {
			log(ctx, "end", info)
			return ctx
		}).OnErrorFn(func(ctx context.Context, info *callbacks.RunInfo, err error) context.Context {
			log(ctx, "error", info)
			return ctx
		}).OnEndWithStreamOutputFn(func(ctx context.Context, info *callbacks.RunInfo, output *schema.StreamReader[callbacks.CallbackOutput]) context.Context {
			log(ctx, "send", info)
			output.Close()
			return ctx
		})
	}
	return b.Build()
}

func renderCb(x any) string {
	switch t := x.(type) {
	case []*schema.Message:
		return renderMsgs(t)
	case *schema.Message:
		return renderMsg(t)
	}
	return renderAny(x)
}

// cbOptions builds the callback part of an option set for one call.
// par = keys of two parallel nodes handlers may be designated to.
func cbOptions(rc *callRec, bits int, par []string) []compose.Option {
	var opts []compose.Option
	if bits&optCbGlobal != 0 {
		opts = append(opts, compose.WithCallbacks(ownHandler(rc, "g")))
	}
	if bits&optCbThree != 0 {
		opts = append(opts, compose.WithCallbacks(ownHandler(rc, "g1")), compose.WithCallbacks(ownHandler(rc, "g2")),
			compose.WithCallbacks(ownHandler(rc, "g3")))
	}
	if bits&optCbDesignated != 0 {
		for _, k := range par {
			opts = append(opts, compose.WithCallbacks(ownHandler(rc, "d_"+k)).DesignateNode(k))
		}
	}
	return opts
}

// sharedCtx is the parent context of every call of one object. With handlers, it carries
// a callback manager whose handler slice has SPARE CAPACITY (an ordinary thing for a
// caller to pass: hs[:2] of a longer slice); every concurrent run appends to it.
func sharedCtx(withHandlers bool) context.Context {
	ctx := context.Background()
	if !withHandlers {
		return ctx
	}
	hs := make([]callbacks.Handler, 4, 8)
	hs[0] = sharedHandler("c0")
	hs[1] = partialHandler("c1s", true) // needed at start timings only
	hs[2] = sharedHandler("c1")
	hs[3] = partialHandler("c2e", false) // needed at end / error timings only
	return callbacks.InitCallbacks(ctx, &callbacks.RunInfo{Name: "caller"}, hs...)
}

// sharedCb / sharedLopt: option VALUES shared by every call whose inner slices (handler list,
// option list) have spare capacity, as they have when the caller built them by slicing or
// appending: whatever a run appends to what it was handed must not land there.
func sharedCb(name string) compose.Option {
	return compose.WithCallbacks(spare([]callbacks.Handler{sharedHandler(name)})...)
}

func sharedLopt(val string) compose.Option {
	return compose.WithLambdaOption(spare([]any{lopt{Val: val}})...)
}
