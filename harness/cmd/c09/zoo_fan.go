package main

import (
	"context"
	"fmt"
	"strings"

	"github.com/cloudwego/eino/compose"

	"verif/harness/lib"
)

// ---------------------------------------------------------------- 15. fan: nodes (and START) with BOTH plain edges and a branch
//
// The successor list of a completed node is put together per run from the branch selections
// and the node's compiled edge list (graph_run.go resolveCompletedTasks). The edge lists are
// built at graph-construction time by repeated append, so with 3 or 5-7 edges they have spare
// capacity: the number of direct successors (1-7) is a shape parameter, so that all capacity
// patterns occur. Every call takes a different branch (the selection depends on the input).
//
//	START --edges--> a, u0..u(p-1)            START --branch--> one of v0, v1   (optional)
//	a     --edges--> d0..d(m-1)               a     --branch--> one of b0..b(n-1)
//	every u, v --> h;   h and every d, b --> j --> END       (any- or all-predecessor mode)
func buildFan(r *lib.Rng, z *zoo) (*object, error) {
	dag := z.flag("dag", r.Chance(1, 2))
	m := z.num("edges", r.Range(1, 7))
	n := z.num("targets", r.Range(2, 3))
	p := z.num("startedges", r.Range(0, 3))
	startBranch := z.flag("startbranch", r.Chance(1, 2))
	g := compose.NewGraph[map[string]any, map[string]any]()
	must := &errs{}
	d := &dGraph{dag: dag}
	add := func(k string) {
		if r.Chance(1, 4) {
			must.add(g.AddLambdaNode(k, compose.StreamableLambdaWithOption(z.nodeMStream(k))))
		} else {
			must.add(g.AddLambdaNode(k, compose.InvokableLambdaWithOption(z.nodeM(k))))
		}
		d.node(k, fn1("FM", k), 0)
	}
	edge := func(a, b string) {
		must.add(g.AddEdge(a, b))
		d.edge(a, b)
	}
	branch := func(src, evName string, targets []string) {
		ends := map[string]bool{}
		for _, k := range targets {
			ends[k] = true
		}
		ts := append([]string(nil), targets...)
		must.add(g.AddBranch(src, compose.NewGraphBranch(func(ctx context.Context, in map[string]any) (string, error) {
			ev(ctx, "b:"+evName)
			s := renderAny(in)
			see(ctx, "branch "+evName, s)
			jitter(ctx, z.sched, "b"+evName)
			return ts[len(s)%len(ts)], nil
		}, ends)))
		d.branch(src, "(BLenMod "+q(evName)+" "+lib.CoqStrList(ts)+")", ts...)
	}
	add("a")
	add("j")
	var toJ, toH []string
	edge(compose.START, "a")
	for i := 0; i < p; i++ {
		k := fmt.Sprintf("u%d", i)
		add(k)
		edge(compose.START, k)
		toH = append(toH, k)
	}
	if startBranch {
		vs := []string{"v0", "v1"}
		for _, k := range vs {
			add(k)
			toH = append(toH, k)
		}
		branch(compose.START, "start", vs)
	}
	if len(toH) > 0 {
		// one more hop, so that in any-predecessor mode everything reaches j in the same superstep
		add("h")
		for _, k := range toH {
			edge(k, "h")
		}
		toJ = append(toJ, "h")
	}
	var ds, bs []string
	for i := 0; i < m; i++ {
		k := fmt.Sprintf("d%d", i)
		ds = append(ds, k)
		add(k)
		edge("a", k)
		toJ = append(toJ, k)
	}
	for i := 0; i < n; i++ {
		k := fmt.Sprintf("b%d", i)
		bs = append(bs, k)
		add(k)
		toJ = append(toJ, k)
	}
	branch("a", "a", bs)
	for _, k := range toJ {
		edge(k, "j")
	}
	edge("j", compose.END)
	if must.err != nil {
		return nil, must.err
	}
	mode := compose.AnyPredecessor
	if dag {
		mode = compose.AllPredecessor
	} else {
		d.defaultMax()
	}
	run, err := g.Compile(context.Background(), compose.WithNodeTriggerMode(mode), compose.WithGraphName("fan"))
	if err != nil {
		return nil, err
	}
	des := []string{"a", ds[len(ds)-1], bs[0]}
	cbPar := []string{ds[0], bs[0]}
	shared := []compose.Option{
		sharedLopt("S").DesignateNode("a", ds[0]),
		sharedLopt("SG"),
		sharedCb("sd").DesignateNode(bs[len(bs)-1]),
	}
	mshared := []string{opT(0, "S", keysAsPaths("a", ds[0])...), opT(0, "SG")}
	shared = spare(shared) // spare capacity: an append to the options inside a run must not reach it
	return &object{
		desc: d, roots: []any{run, g, shared}, proj: run,
		mcall: func(sp spec, si int) string {
			return callTerm(vM("id", vS(selfTag), "x", vS(strings.Repeat("x", sp.In+1))),
				mWithShared(sp.Opt, mshared, mLambdaOpts(si, sp.Opt, des...)), 0)
		},
		kind: "fan", shape: []string{fmt.Sprintf("dag:%v", dag), fmt.Sprintf("edges:%d", m), fmt.Sprintf("targets:%d", n),
			fmt.Sprintf("startedges:%d", 1+p), fmt.Sprintf("startbranch:%v", startBranch)},
		nIn: 6, paras: allParas,
		optSet:  []int{0, optLambdaDesignated, optLambdaGlobal, optCbGlobal, optCbThree | optCbDesignated, optCtxHandlers | optCbDesignated, optShared, optShared | optLambdaDesignated | optCbGlobal},
		baseCtx: sharedCtx,
		call: func(ctx context.Context, rc *callRec, sp spec) string {
			in := map[string]any{"id": rc.tag, "x": strings.Repeat("x", sp.In+1)}
			opts := append(lambdaOpts(rc, sp.Opt, des...), cbOptions(rc, sp.Opt, cbPar)...)
			return runPara[map[string]any, map[string]any](ctx, run, sp.Para, in, codecM, withShared(sp.Opt, shared, opts))
		},
	}, nil
}
