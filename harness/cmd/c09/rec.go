package main

import (
	"context"
	"fmt"
	"regexp"
	"runtime"
	"sort"
	"strings"
	"sync"
	"sync/atomic"
	"time"
)

// callRec is the recorder of ONE call (one run of a compiled object). It travels in the
// context handed to Invoke/Stream/Collect/Transform, in the input (the tag string) and in
// the per-call options / callback handlers. Nothing in the recorder is shared between
// calls: a global log (mutex or atomic sequence number) would add happens-before edges
// between concurrent runs and hide exactly the data races the race detector is there to
// find. The global interleaving is reconstructed afterwards from monotonic timestamps.
type callRec struct {
	tag  string // "<t0007>"
	spec int
	run  int // index among the concurrent calls (-1 for solo)

	mu       sync.Mutex
	events   []event
	viol     []string
	states   []any // state objects the generator produced for this call (kept alive => no address reuse)
	returned int32 // 1 once the call has returned to the harness (atomic); events logged later are not the call's
	frozen   int   // number of events at that moment
	parked   int32 // workflow kind: parallel nodes of THIS call that have logged everything and are about to sleep (atomic)
	// the sequential fault scenario (main.go lateScenario; never set in the concurrent phase, where
	// nothing may synchronise two runs): a faulted call whose abandoned tasks stay in flight until the
	// call made AFTER it on the same goroutine is waiting for its own nodes
	hold     int32    // 1: abandoned tasks of this call wait for [release] instead of a fixed time
	release  int32    // set by the next call's node once it is executing (atomic)
	unparked int32    // abandoned tasks of this call that have been released and are about to return (atomic)
	prev     *callRec // the faulted call made just before this one
	// cancellation of the call's OWN context by one of its nodes (optCancel)
	cancelKey string
	cancelFn  context.CancelFunc
}

// maybeCancel: the node [key] of a call made with a cancellation point cancels that call's context.
func maybeCancel(ctx context.Context, key string) {
	if rc := recOf(ctx); rc != nil && rc.cancelFn != nil && rc.cancelKey == key {
		rc.cancelFn()
	}
}

type event struct {
	ts   int64
	name string
}

type recKey struct{}

var timeBase = time.Now()

func sinceBase() time.Duration { return time.Since(timeBase) }

func withRec(ctx context.Context, rc *callRec) context.Context {
	return context.WithValue(ctx, recKey{}, rc)
}

func recOf(ctx context.Context) *callRec {
	rc, _ := ctx.Value(recKey{}).(*callRec)
	return rc
}

var orphan = &callRec{tag: "<orphan>", run: -2}

// ev logs that something ran on behalf of the call that owns ctx.
func ev(ctx context.Context, name string) *callRec {
	rc := recOf(ctx)
	if rc == nil {
		rc = orphan
		orphan.violate("event " + name + " ran with a context that belongs to no call")
		return rc
	}
	ts := int64(sinceBase())
	rc.mu.Lock()
	rc.events = append(rc.events, event{ts, name})
	rc.mu.Unlock()
	return rc
}

func (rc *callRec) violate(s string) {
	rc.mu.Lock()
	if len(rc.viol) < 20 {
		rc.viol = append(rc.viol, s)
	}
	rc.mu.Unlock()
}

var tagRe = regexp.MustCompile(`<t[0-9]{4,}>`)

// see checks that a piece of data observed while running on behalf of ctx's call mentions
// no other call: every tag in it must be the call's own.
func see(ctx context.Context, where, text string) {
	rc := recOf(ctx)
	if rc == nil {
		orphan.violate(where + ": no call in context")
		return
	}
	for _, t := range tagRe.FindAllString(text, -1) {
		if t != rc.tag {
			rc.violate(fmt.Sprintf("%s: call %s observed data of call %s", where, rc.tag, t))
			return
		}
	}
}

// canon renders a result of the call: own tag -> "<tSELF>" (same length as a tag: node
// functions compute lengths; foreign tags stay visible).
func (rc *callRec) canon(s string) string { return strings.ReplaceAll(s, rc.tag, selfTag) }

// freeze: the call has returned. What tasks it abandoned (a workflow returns on the first failing
// node while parallel nodes are still executing) log afterwards — their end callbacks — is not
// part of what the call did as far as its caller can tell, and arrives at no particular time.
func (rc *callRec) freeze() {
	rc.mu.Lock()
	rc.frozen = len(rc.events)
	rc.mu.Unlock()
	atomic.StoreInt32(&rc.returned, 1)
}

func (rc *callRec) eventNames() []string {
	rc.mu.Lock()
	defer rc.mu.Unlock()
	n := len(rc.events)
	if atomic.LoadInt32(&rc.returned) != 0 && rc.frozen < n {
		n = rc.frozen
	}
	out := make([]string, n)
	for i, e := range rc.events[:n] {
		out[i] = e.name
	}
	sort.Strings(out)
	return out
}

// jitter perturbs the schedule: a pure function of (seed, tag, place), so no shared PRNG.
func jitter(ctx context.Context, seed uint64, place string) {
	rc := recOf(ctx)
	h := seed
	if rc != nil {
		for i := 0; i < len(rc.tag); i++ {
			h = h*1099511628211 + uint64(rc.tag[i])
		}
	}
	for i := 0; i < len(place); i++ {
		h = h*1099511628211 + uint64(place[i])
	}
	h ^= h >> 29
	switch h % 8 {
	case 0, 1, 2:
		runtime.Gosched()
	case 3:
		time.Sleep(time.Duration(h>>8%200) * time.Microsecond)
	case 4:
		for i := 0; i < int(h>>8%4)+1; i++ {
			runtime.Gosched()
		}
	default:
	}
}
