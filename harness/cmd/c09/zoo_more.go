package main

import (
	"context"
	"fmt"
	"sort"
	"strings"
	"sync"

	"github.com/cloudwego/eino/callbacks"
	"github.com/cloudwego/eino/components/document"
	"github.com/cloudwego/eino/components/embedding"
	"github.com/cloudwego/eino/components/indexer"
	"github.com/cloudwego/eino/components/model"
	"github.com/cloudwego/eino/components/prompt"
	"github.com/cloudwego/eino/components/retriever"
	"github.com/cloudwego/eino/compose"
	"github.com/cloudwego/eino/flow/agent"
	"github.com/cloudwego/eino/flow/agent/react"
	"github.com/cloudwego/eino/schema"

	"verif/harness/lib"
)

func init() {
	// values that sit in checkpoints of the "ckpt" kind
	_ = compose.RegisterSerializableType[V]("verif_c09_v")
	_ = compose.RegisterSerializableType[St]("verif_c09_st")
}

// ---------------------------------------------------------------- 10. checkpoint: interrupt and resume, one checkpoint id per call

type memStore struct {
	mu sync.Mutex
	m  map[string][]byte
}

// the store is the one mutable thing the harness itself plugs into the compiled graph
func (s *memStore) VerifC09Opaque() {}

func (s *memStore) Get(_ context.Context, id string) ([]byte, bool, error) {
	s.mu.Lock()
	defer s.mu.Unlock()
	v, ok := s.m[id]
	return v, ok, nil
}

func (s *memStore) Set(_ context.Context, id string, cp []byte) error {
	s.mu.Lock()
	defer s.mu.Unlock()
	s.m[id] = append([]byte{}, cp...)
	return nil
}

// A call of this kind is a whole session on its own checkpoint id: run, get interrupted
// (interrupt before b, after a, InterruptAndRerun in rr, inside the nested graph), resume
// with the same id until the run completes. Sessions of different calls interleave on the
// one compiled graph and the one store.
func buildCkpt(r *lib.Rng, z *zoo) (*object, error) {
	withSub := z.flag("sub", r.Chance(2, 3))
	rerun := z.flag("rerun", r.Chance(1, 2))
	after := z.flag("after", r.Chance(1, 2))
	dag := z.flag("dag", r.Chance(1, 2))
	// round 6: the nested graph declares a state of its own in two thirds of the cases that have one — its
	// checkpoint then carries that state, and a resume inside it hands the call's state modifier (which
	// reaches the nested run through the context) the nested state under the path [sg]
	subState := withSub && z.flag("substate", r.Chance(2, 3))
	must := &errs{}
	store := &memStore{m: map[string][]byte{}}

	g := compose.NewGraph[V, V](compose.WithGenLocalState(z.genState))
	pre := func(key string) compose.GraphAddNodeOpt {
		return compose.WithStatePreHandler(func(ctx context.Context, in V, s *St) (V, error) {
			ev(ctx, "pre:"+key)
			stCheck(ctx, "pre "+key, s)
			s.Log = append(s.Log, "pre:"+key)
			return in, nil
		})
	}
	must.add(g.AddLambdaNode("a", compose.InvokableLambdaWithOption(z.nodeVOpt("a")), pre("a")))
	last := "a"
	if withSub {
		inner := compose.NewGraph[V, V]()
		if subState {
			inner = compose.NewGraph[V, V](compose.WithGenLocalState(z.genState))
		}
		must.add(inner.AddLambdaNode("i1", compose.InvokableLambdaWithOption(z.nodeVOpt("sg.i1"))))
		must.add(inner.AddLambdaNode("i2", compose.InvokableLambda(z.nodeV("sg.i2"))))
		must.add(inner.AddEdge(compose.START, "i1"))
		must.add(inner.AddEdge("i1", "i2"))
		must.add(inner.AddEdge("i2", compose.END))
		must.add(g.AddGraphNode("sg", inner, compose.WithGraphCompileOptions(compose.WithInterruptBeforeNodes([]string{"i2"}))))
		must.add(g.AddEdge(last, "sg"))
		last = "sg"
	}
	if rerun {
		must.add(g.AddLambdaNode("rr", compose.InvokableLambda(func(ctx context.Context, in V) (V, error) {
			ev(ctx, "n:rr")
			see(ctx, "node rr", in.String())
			first := false
			err := compose.ProcessState[*St](ctx, func(ctx context.Context, s *St) error {
				stCheck(ctx, "ProcessState rr", s)
				if s.Sum == 0 {
					s.Sum = 1
					first = true
				}
				return nil
			})
			if err != nil {
				return V{}, err
			}
			jitter(ctx, z.sched, "rr")
			if first {
				return V{}, compose.InterruptAndRerun
			}
			return V{ID: in.ID, N: in.N, Lim: in.Lim, H: in.H + ">rr"}, nil
		})))
		must.add(g.AddEdge(last, "rr"))
		last = "rr"
	}
	must.add(g.AddLambdaNode("b", compose.InvokableLambdaWithOption(z.nodeVOpt("b")), pre("b")))
	must.add(g.AddEdge(last, "b"))
	must.add(g.AddLambdaNode("c", compose.InvokableLambda(func(ctx context.Context, in V) (V, error) {
		ev(ctx, "n:c")
		var logc []string
		err := compose.ProcessState[*St](ctx, func(ctx context.Context, s *St) error {
			stCheck(ctx, "ProcessState c", s)
			logc = append(logc, s.Log...)
			return nil
		})
		return V{ID: in.ID, N: in.N, Lim: in.Lim, H: in.H + ">c{" + strings.Join(logc, ",") + "}"}, err
	})))
	must.add(g.AddEdge(compose.START, "a"))
	must.add(g.AddEdge("b", "c"))
	must.add(g.AddEdge("c", compose.END))
	if must.err != nil {
		return nil, must.err
	}
	copts := []compose.GraphCompileOption{compose.WithCheckPointStore(store), compose.WithInterruptBeforeNodes([]string{"b"}), compose.WithGraphName("ckpt")}
	if after {
		copts = append(copts, compose.WithInterruptAfterNodes([]string{"a"}))
	}
	if dag {
		copts = append(copts, compose.WithNodeTriggerMode(compose.AllPredecessor))
	}
	run, err := g.Compile(context.Background(), copts...)
	if err != nil {
		return nil, err
	}
	shared := []compose.Option{
		sharedLopt("S").DesignateNode("b"),
		sharedCb("so"),
	}
	if withSub {
		shared = append(shared, sharedLopt("S2").DesignateNodeWithPath(compose.NewNodePath("sg", "i1")))
	}
	// model: the uninterrupted run, plus the trail of interrupts the compile options imply
	d := &dGraph{dag: dag, state: true}
	d.node("a", fn1("FV", "a"), 0, "pre="+fn1("HPreLog", "a"))
	d.edge(compose.START, "a")
	mlast, trail := "a", ""
	if after {
		trail += "I(|a||)"
	}
	if withSub {
		di := &dGraph{state: subState}
		di.node("i1", fn1("FV", "sg.i1"), 0)
		di.node("i2", fn1("FV", "sg.i2"), -1)
		di.edge(compose.START, "i1")
		di.edge("i1", "i2")
		di.edge("i2", compose.END)
		di.defaultMax()
		d.node("sg", "(FSub "+di.term()+")", -1)
		d.edge(mlast, "sg")
		mlast = "sg"
		trail += "I(|||sg[i2])"
	}
	if rerun {
		d.node("rr", "FRr", -1)
		d.edge(mlast, "rr")
		mlast = "rr"
		trail += "I(||rr|)"
	}
	d.node("b", fn1("FV", "b"), 0, "pre="+fn1("HPreLog", "b"))
	d.node("c", "FCkC", -1)
	d.edge(mlast, "b")
	d.edge("b", "c")
	d.edge("c", compose.END)
	d.defaultMax()
	if after && mlast == "a" {
		trail = "I(b|a||)" // b follows a directly: interrupt after a and before b are one interrupt
	} else {
		trail += "I(b|||)"
	}
	mshared := []string{opT(0, "S", []string{"b"})}
	if withSub {
		mshared = append(mshared, opT(0, "S2", []string{"sg", "i1"}))
	}
	shared = spare(shared) // spare capacity: an append to the options inside a run must not reach it
	return &object{
		desc: d, depth: 2, roots: []any{run, g, shared}, proj: run,
		mcall: func(sp spec, si int) string {
			return callTermSuffix(vR(selfTag, 0, sp.In, fmt.Sprintf("in%d", sp.In)),
				mWithShared(sp.Opt, mshared, mLambdaOpts(si, sp.Opt, "a", "b")), trail)
		},
		kind:  "ckpt",
		shape: []string{fmt.Sprintf("sub:%v", withSub), fmt.Sprintf("rerun:%v", rerun), fmt.Sprintf("after:%v", after), fmt.Sprintf("dag:%v", dag), fmt.Sprintf("substate:%v", subState)},
		nIn:   3, paras: allParas,
		optSet:  []int{0, optLambdaDesignated, optCbGlobal, optCbThree, optCtxHandlers, optShared, optShared | optLambdaDesignated | optCbGlobal, optStateMod, optStateMod | optShared, optStateMod | optLambdaDesignated},
		baseCtx: sharedCtx, wantOpt: optStateMod,
		call: func(ctx context.Context, rc *callRec, sp spec) string {
			in := V{ID: rc.tag, Lim: sp.In, H: fmt.Sprintf("in%d", sp.In)}
			own := append(lambdaOpts(rc, sp.Opt, "a", "b"), cbOptions(rc, sp.Opt, nil)...)
			own = append(own, compose.WithCheckPointID("cp"+rc.tag))
			if sp.Opt&optStateMod != 0 {
				// a per-call state modifier: every resume of THIS session must hand it the state restored
				// from THIS session's checkpoint, under the context of THIS call (round 6)
				tag := rc.tag
				own = append(own, compose.WithStateModifier(func(ctx context.Context, path compose.NodePath, state any) error {
					c := ev(ctx, "ctx:sm:/"+strings.Join(path.GetPath(), "/"))
					if c.tag != tag {
						c.violate(fmt.Sprintf("the state modifier that call %s brought was invoked in a run of call %s", tag, c.tag))
					}
					if st, ok := state.(*St); ok && st != nil {
						stCheck(ctx, "state modifier", st)
					} else {
						c.violate(fmt.Sprintf("state modifier of call %s: state is %T, not the *St of the graph", tag, state))
					}
					return nil
				}))
			}
			opts := withShared(sp.Opt, shared, own)
			trail := ""
			for round := 0; round < 8; round++ {
				res := ""
				var ierr error
				capture := codec[V, V]{chunkIn: oneChunk[V], concatOut: lastOf[V], render: func(v V) string { return v.String() }}
				res = runParaErr[V, V](ctx, run, sp.Para, in, capture, opts, &ierr)
				if info, ok := compose.ExtractInterruptInfo(ierr); ok {
					d := "I(" + strings.Join(info.BeforeNodes, ",") + "|" + strings.Join(info.AfterNodes, ",") + "|" + strings.Join(info.RerunNodes, ",") + "|" + subKeys(info) + ")"
					if st, ok := info.State.(*St); ok && st != nil {
						stCheck(ctx, "interrupt info state", st)
					}
					ev(ctx, "interrupt:"+d)
					trail += d
					continue
				}
				return res + trail
			}
			return "err:too-many-interrupts" + trail
		},
	}, nil
}

func subKeys(info *compose.InterruptInfo) string {
	var ks []string
	for k, s := range info.SubGraphs {
		ks = append(ks, k+"["+strings.Join(s.BeforeNodes, ",")+"]")
	}
	sort.Strings(ks)
	return strings.Join(ks, ",")
}

// runParaErr is runPara that also hands the raw error out (interrupts are errors).
func runParaErr[I, O any](ctx context.Context, r compose.Runnable[I, O], para string, in I, cd codec[I, O], opts []compose.Option, errOut *error) string {
	var out O
	var err error
	switch para {
	case "invoke":
		out, err = r.Invoke(ctx, in, opts...)
	case "stream":
		var sr *schema.StreamReader[O]
		sr, err = r.Stream(ctx, in, opts...)
		if err == nil {
			var cs []O
			cs, err = drain(sr)
			if err == nil {
				out, err = cd.concatOut(cs)
			}
		}
	case "collect":
		out, err = r.Collect(ctx, schema.StreamReaderFromArray(cd.chunkIn(in)), opts...)
	case "transform":
		var sr *schema.StreamReader[O]
		sr, err = r.Transform(ctx, schema.StreamReaderFromArray(cd.chunkIn(in)), opts...)
		if err == nil {
			var cs []O
			cs, err = drain(sr)
			if err == nil {
				out, err = cd.concatOut(cs)
			}
		}
	}
	*errOut = err
	if err != nil {
		return "err:" + errClass(err)
	}
	return "ok:" + cd.render(out)
}

// ---------------------------------------------------------------- 11. component nodes: template, model, retriever, transformer, loader, indexer, embedder

type copt struct {
	Tag string
	Val string
}

func coptStr(ctx context.Context, who string, o *copt) string {
	if o.Val == "" {
		return ""
	}
	if rc := recOf(ctx); rc != nil && o.Tag != "" && o.Tag != rc.tag {
		rc.violate(fmt.Sprintf("component %s of call %s received an option of call %s", who, rc.tag, o.Tag))
	}
	ev(ctx, "opt:c:"+who)
	return "[o=" + o.Val + "]"
}

type fakeRetriever struct{ z *zoo }

func (f *fakeRetriever) Retrieve(ctx context.Context, q string, opts ...retriever.Option) ([]*schema.Document, error) {
	ev(ctx, "c:ret")
	see(ctx, "retriever", q)
	o := coptStr(ctx, "ret", retriever.GetImplSpecificOptions(&copt{}, opts...))
	jitter(ctx, f.z.sched, "ret")
	return []*schema.Document{{ID: "d0", Content: "doc0(" + q + ")" + o}, {ID: "d1", Content: "doc1(" + fmt.Sprint(len(q)) + ")"}}, nil
}

type fakeXf struct{ z *zoo }

// the transformer fires its callbacks itself (components may): callbacks.OnStart / OnEnd
// work on the manager the graph put into the node's context
func (f *fakeXf) IsCallbacksEnabled() bool { return true }
func (f *fakeXf) GetType() string          { return "FakeXf" }

func (f *fakeXf) Transform(ctx context.Context, docs []*schema.Document, opts ...document.TransformerOption) (out []*schema.Document, err error) {
	ctx = callbacks.OnStart(ctx, &document.TransformerCallbackInput{Input: docs})
	defer func() {
		if err != nil {
			callbacks.OnError(ctx, err)
		} else {
			callbacks.OnEnd(ctx, &document.TransformerCallbackOutput{Output: out})
		}
	}()
	return f.transform(ctx, docs, opts...)
}

func (f *fakeXf) transform(ctx context.Context, docs []*schema.Document, opts ...document.TransformerOption) ([]*schema.Document, error) {
	ev(ctx, "c:xf")
	o := coptStr(ctx, "xf", document.GetTransformerImplSpecificOptions(&copt{}, opts...))
	out := make([]*schema.Document, 0, len(docs))
	for _, d := range docs {
		see(ctx, "transformer", d.Content)
		out = append(out, &schema.Document{ID: d.ID + "x", Content: "xf(" + d.Content + ")" + o})
	}
	jitter(ctx, f.z.sched, "xf")
	return out, nil
}

type fakeLoader struct{ z *zoo }

func (f *fakeLoader) Load(ctx context.Context, src document.Source, opts ...document.LoaderOption) ([]*schema.Document, error) {
	ev(ctx, "c:ld")
	see(ctx, "loader", src.URI)
	o := coptStr(ctx, "ld", document.GetLoaderImplSpecificOptions(&copt{}, opts...))
	jitter(ctx, f.z.sched, "ld")
	return []*schema.Document{{ID: "l0", Content: "loaded(" + src.URI + ")" + o}}, nil
}

type fakeIndexer struct{ z *zoo }

func (f *fakeIndexer) Store(ctx context.Context, docs []*schema.Document, opts ...indexer.Option) ([]string, error) {
	ev(ctx, "c:idx")
	o := coptStr(ctx, "idx", indexer.GetImplSpecificOptions(&copt{}, opts...))
	ids := make([]string, 0, len(docs))
	for _, d := range docs {
		see(ctx, "indexer", d.Content)
		ids = append(ids, "id("+d.ID+":"+fmt.Sprint(len(d.Content))+")"+o)
	}
	jitter(ctx, f.z.sched, "idx")
	return ids, nil
}

type fakeEmbedder struct{ z *zoo }

func (f *fakeEmbedder) EmbedStrings(ctx context.Context, texts []string, opts ...embedding.Option) ([][]float64, error) {
	ev(ctx, "c:emb")
	o := embedding.GetImplSpecificOptions(&copt{}, opts...)
	extra := 0.0
	if coptStr(ctx, "emb", o) != "" {
		extra = float64(len(o.Val))
	}
	out := make([][]float64, 0, len(texts))
	for _, t := range texts {
		see(ctx, "embedder", t)
		h := 0
		for i := 0; i < len(t); i++ {
			if t[i] == '<' { // skip the call tag: results must be comparable between calls
				for i < len(t) && t[i] != '>' {
					i++
				}
				continue
			}
			h = (h*31 + int(t[i])) % 9973
		}
		out = append(out, []float64{float64(len(t)), float64(h), extra})
	}
	jitter(ctx, f.z.sched, "emb")
	return out, nil
}

func renderDocs(ds []*schema.Document) string {
	parts := make([]string, len(ds))
	for i, d := range ds {
		parts[i] = d.ID + "=" + d.Content
	}
	return "[" + strings.Join(parts, ";") + "]"
}

func buildComp(r *lib.Rng, z *zoo) (*object, error) {
	pregel := z.flag("pregel", r.Chance(1, 2))
	hist := z.flag("hist", r.Chance(1, 2))
	must := &errs{}
	g := compose.NewGraph[map[string]any, map[string]any]()
	tpl := prompt.FromMessages(schema.FString,
		schema.SystemMessage("you answer {id}"),
		schema.MessagesPlaceholder("hist", true),
		schema.UserMessage("{id} question {x}"))
	must.add(g.AddChatTemplateNode("tpl", tpl))
	must.add(g.AddChatModelNode("cm", &fakeModel{z: z, role: "comp"}))
	must.add(g.AddLambdaNode("toq", compose.InvokableLambda(func(ctx context.Context, m *schema.Message) (string, error) {
		ev(ctx, "n:toq")
		see(ctx, "node toq", m.Content)
		return "q:" + m.Content, nil
	})))
	must.add(g.AddRetrieverNode("ret", &fakeRetriever{z}))
	must.add(g.AddDocumentTransformerNode("xf", &fakeXf{z}))
	must.add(g.AddLambdaNode("tosrc", compose.InvokableLambda(func(ctx context.Context, q string) (document.Source, error) {
		ev(ctx, "n:tosrc")
		return document.Source{URI: "uri://" + q}, nil
	})))
	must.add(g.AddLoaderNode("ld", &fakeLoader{z}))
	must.add(g.AddLambdaNode("ldout", compose.InvokableLambda(func(ctx context.Context, ds []*schema.Document) (string, error) {
		ev(ctx, "n:ldout")
		return renderDocs(ds), nil
	}), compose.WithOutputKey("loaded")))
	must.add(g.AddIndexerNode("idx", &fakeIndexer{z}))
	must.add(g.AddLambdaNode("idxout", compose.InvokableLambda(func(ctx context.Context, ids []string) (string, error) {
		ev(ctx, "n:idxout")
		return strings.Join(ids, ","), nil
	}), compose.WithOutputKey("ids")))
	must.add(g.AddLambdaNode("tostrs", compose.InvokableLambda(func(ctx context.Context, ds []*schema.Document) ([]string, error) {
		ev(ctx, "n:tostrs")
		out := make([]string, len(ds))
		for i, d := range ds {
			out[i] = d.Content
		}
		return out, nil
	})))
	must.add(g.AddEmbeddingNode("emb", &fakeEmbedder{z}))
	must.add(g.AddLambdaNode("embout", compose.InvokableLambda(func(ctx context.Context, vs [][]float64) (string, error) {
		ev(ctx, "n:embout")
		return fmt.Sprint(vs), nil
	}), compose.WithOutputKey("vecs")))
	must.add(g.AddLambdaNode("docsout", compose.InvokableLambda(func(ctx context.Context, ds []*schema.Document) (string, error) {
		ev(ctx, "n:docsout")
		s := renderDocs(ds)
		see(ctx, "node docsout", s)
		return s, nil
	}), compose.WithOutputKey("docs")))
	for _, e := range [][2]string{{compose.START, "tpl"}, {"tpl", "cm"}, {"cm", "toq"}, {"toq", "ret"}, {"toq", "tosrc"}, {"tosrc", "ld"}, {"ld", "ldout"},
		{"ret", "xf"}, {"xf", "idx"}, {"idx", "idxout"}, {"xf", "tostrs"}, {"tostrs", "emb"}, {"emb", "embout"}, {"xf", "docsout"},
		{"ldout", compose.END}, {"idxout", compose.END}, {"embout", compose.END}, {"docsout", compose.END}} {
		must.add(g.AddEdge(e[0], e[1]))
	}
	if must.err != nil {
		return nil, must.err
	}
	mode := compose.AllPredecessor
	if pregel {
		mode = compose.AnyPredecessor
	}
	run, err := g.Compile(context.Background(), compose.WithNodeTriggerMode(mode), compose.WithGraphName("comp"))
	if err != nil {
		return nil, err
	}
	sh := func(o *copt) { o.Val += "S" }
	shared := []compose.Option{
		compose.WithRetrieverOption(retriever.WrapImplSpecificOptFn(sh)),
		compose.WithEmbeddingOption(embedding.WrapImplSpecificOptFn(sh)).DesignateNode("emb"),
		compose.WithChatModelOption(model.WrapImplSpecificOptFn(func(o *mopt) { o.Val += "S" })),
		sharedCb("sd").DesignateNode("ret", "idx"),
	}
	d := &dGraph{dag: !pregel}
	d.node("tpl", "FTpl", 8)
	d.node("cm", "(FModel "+q("comp")+" 0%nat)", 1)
	d.node("toq", "FToq", -1)
	d.node("ret", "FRet", 3)
	d.node("xf", "FXf", 4)
	d.node("tosrc", "FToSrc", -1)
	d.node("ld", "FLd", 5)
	d.node("ldout", fn1("FOutS", "ldout"), -1, "out=loaded")
	d.node("idx", "FIdx", 6)
	d.node("idxout", fn1("FOutS", "idxout"), -1, "out=ids")
	d.node("tostrs", "FToStrs", -1)
	d.node("emb", "FEmb", 7)
	d.node("embout", fn1("FOutS", "embout"), -1, "out=vecs")
	d.node("docsout", fn1("FOutS", "docsout"), -1, "out=docs")
	for _, e := range [][2]string{{compose.START, "tpl"}, {"tpl", "cm"}, {"cm", "toq"}, {"toq", "ret"}, {"toq", "tosrc"}, {"tosrc", "ld"}, {"ld", "ldout"},
		{"ret", "xf"}, {"xf", "idx"}, {"idx", "idxout"}, {"xf", "tostrs"}, {"tostrs", "emb"}, {"emb", "embout"}, {"xf", "docsout"},
		{"ldout", compose.END}, {"idxout", compose.END}, {"embout", compose.END}, {"docsout", compose.END}} {
		d.edge(e[0], e[1])
	}
	d.defaultMax()
	mshared := []string{opT(3, "S"), opT(7, "S", []string{"emb"}), opT(1, "S")}
	shared = spare(shared) // spare capacity: an append to the options inside a run must not reach it
	return &object{
		desc: d, roots: []any{run, g, shared}, proj: run,
		mcall: func(sp spec, si int) string {
			kv := []string{}
			if hist {
				kv = append(kv, "hist", vMsgs(msgT("user", "earlier "+selfTag), msgT("assistant", fmt.Sprintf("reply%d", sp.In))))
			}
			kv = append(kv, "id", vS(selfTag), "x", vS(strings.Repeat("y", sp.In+1)))
			val := fmt.Sprintf("c%d", si)
			var own []string
			if sp.Opt&optLambdaDesignated != 0 {
				own = append(own, opT(3, val, []string{"ret"}), opT(4, val, []string{"xf"}), opT(5, val, []string{"ld"}))
			}
			if sp.Opt&optLambdaGlobal != 0 {
				own = append(own, opT(6, val), opT(7, val), opT(1, val), opT(8, val))
			}
			return callTerm(vM(kv...), mWithShared(sp.Opt, mshared, own), 0)
		},
		kind: "comp", shape: []string{fmt.Sprintf("pregel:%v", pregel), fmt.Sprintf("hist:%v", hist)},
		nIn: 4, paras: allParas,
		optSet:  []int{0, optLambdaDesignated, optLambdaGlobal, optLambdaDesignated | optLambdaGlobal | optCbGlobal, optCbThree | optCbDesignated, optCtxHandlers, optShared, optShared | optLambdaDesignated},
		baseCtx: sharedCtx,
		call: func(ctx context.Context, rc *callRec, sp spec) string {
			in := map[string]any{"id": rc.tag, "x": strings.Repeat("y", sp.In+1)}
			if hist {
				in["hist"] = []*schema.Message{schema.UserMessage("earlier " + rc.tag), schema.AssistantMessage(fmt.Sprintf("reply%d", sp.In), nil)}
			}
			tag, val := rc.tag, fmt.Sprintf("c%d", rc.spec)
			own := func(o *copt) { o.Tag, o.Val = tag, o.Val+val }
			var opts []compose.Option
			if sp.Opt&optLambdaDesignated != 0 {
				opts = append(opts,
					compose.WithRetrieverOption(retriever.WrapImplSpecificOptFn(own)).DesignateNode("ret"),
					compose.WithDocumentTransformerOption(document.WrapTransformerImplSpecificOptFn(own)).DesignateNode("xf"),
					compose.WithLoaderOption(document.WrapLoaderImplSpecificOptFn(own)).DesignateNode("ld"))
			}
			if sp.Opt&optLambdaGlobal != 0 {
				opts = append(opts,
					compose.WithIndexerOption(indexer.WrapImplSpecificOptFn(own)),
					compose.WithEmbeddingOption(embedding.WrapImplSpecificOptFn(own)),
					compose.WithChatModelOption(model.WrapImplSpecificOptFn(func(o *mopt) { o.Tag, o.Val = tag, o.Val+val })),
					compose.WithChatTemplateOption(prompt.WrapImplSpecificOptFn(own)))
			}
			opts = append(opts, cbOptions(rc, sp.Opt, []string{"ret", "ld"})...)
			return runPara[map[string]any, map[string]any](ctx, run, sp.Para, in, codecM, withShared(sp.Opt, shared, opts))
		},
	}, nil
}

// ---------------------------------------------------------------- 12. re-entrant: a node of a run calls the same compiled graph again

func buildReent(r *lib.Rng, z *zoo) (*object, error) {
	sameCtx := z.flag("samectx", r.Chance(1, 2))
	dag := z.flag("dag", r.Chance(1, 2))
	must := &errs{}
	var self compose.Runnable[V, V]
	g := compose.NewGraph[V, V](compose.WithGenLocalState(z.genState))
	must.add(g.AddLambdaNode("a", compose.InvokableLambdaWithOption(z.nodeVOpt("a")),
		compose.WithStatePreHandler(func(ctx context.Context, in V, s *St) (V, error) {
			ev(ctx, "pre:a")
			stCheck(ctx, "pre a", s)
			s.Log = append(s.Log, fmt.Sprintf("pre:a@%d", in.Lim))
			s.Sum = in.Lim
			return in, nil
		})))
	must.add(g.AddLambdaNode("rec", compose.InvokableLambda(func(ctx context.Context, in V) (V, error) {
		ev(ctx, "n:rec")
		see(ctx, "node rec", in.String())
		jitter(ctx, z.sched, "rec")
		if in.Lim <= 0 {
			return V{ID: in.ID, N: in.N, Lim: in.Lim, H: in.H + ">rec."}, nil
		}
		cctx := ctx
		if !sameCtx {
			cctx = withRec(context.Background(), recOf(ctx))
		}
		// a complete run of the same compiled graph while this run is in progress
		out, err := self.Invoke(cctx, V{ID: in.ID, N: in.N + 1, Lim: in.Lim - 1, H: "sub" + fmt.Sprint(in.Lim-1)})
		if err != nil {
			return V{}, err
		}
		return V{ID: in.ID, N: out.N, Lim: in.Lim, H: in.H + ">rec(" + out.H + ")"}, nil
	})))
	must.add(g.AddLambdaNode("z", compose.InvokableLambda(func(ctx context.Context, in V) (V, error) {
		ev(ctx, "n:z")
		var logc []string
		sum := -1
		err := compose.ProcessState[*St](ctx, func(ctx context.Context, s *St) error {
			stCheck(ctx, "ProcessState z", s)
			logc = append(logc, s.Log...)
			sum = s.Sum
			return nil
		})
		return V{ID: in.ID, N: in.N, Lim: in.Lim, H: in.H + fmt.Sprintf(">z{%s|%d}", strings.Join(logc, ","), sum)}, err
	})))
	must.add(g.AddEdge(compose.START, "a"))
	must.add(g.AddEdge("a", "rec"))
	must.add(g.AddEdge("rec", "z"))
	must.add(g.AddEdge("z", compose.END))
	if must.err != nil {
		return nil, must.err
	}
	mode := compose.AnyPredecessor
	if dag {
		mode = compose.AllPredecessor
	}
	run, err := g.Compile(context.Background(), compose.WithNodeTriggerMode(mode), compose.WithGraphName("reent"))
	if err != nil {
		return nil, err
	}
	self = run
	shared := []compose.Option{sharedLopt("S").DesignateNode("a"), sharedCb("so")}
	d := &dGraph{dag: dag, state: true}
	d.node("a", fn1("FV", "a"), 0, "pre=HPreReent")
	d.node("rec", "FRec", -1)
	d.node("z", "FZ", -1)
	for _, e := range [][2]string{{compose.START, "a"}, {"a", "rec"}, {"rec", "z"}, {"z", compose.END}} {
		d.edge(e[0], e[1])
	}
	d.defaultMax()
	mshared := []string{opT(0, "S", []string{"a"})}
	shared = spare(shared) // spare capacity: an append to the options inside a run must not reach it
	return &object{
		desc: d, depth: 4, roots: []any{run, g, shared}, proj: run,
		mcall: func(sp spec, si int) string {
			return callTerm(vR(selfTag, 0, sp.In, fmt.Sprintf("in%d", sp.In)),
				mWithShared(sp.Opt, mshared, mLambdaOpts(si, sp.Opt, "a")), 0)
		},
		kind: "reent", shape: []string{fmt.Sprintf("samectx:%v", sameCtx), fmt.Sprintf("dag:%v", dag)},
		nIn: 3, paras: allParas,
		optSet:  []int{0, optLambdaDesignated, optCbGlobal, optCbThree, optCtxHandlers, optShared},
		baseCtx: sharedCtx,
		call: func(ctx context.Context, rc *callRec, sp spec) string {
			in := V{ID: rc.tag, Lim: sp.In, H: fmt.Sprintf("in%d", sp.In)}
			opts := append(lambdaOpts(rc, sp.Opt, "a"), cbOptions(rc, sp.Opt, nil)...)
			return runPara[V, V](ctx, run, sp.Para, in, codecV, withShared(sp.Opt, shared, opts))
		},
	}, nil
}

// ---------------------------------------------------------------- 13. multi-branch from START, passthrough, chain and workflow as graph nodes, stream branch

func buildMulti(r *lib.Rng, z *zoo) (*object, error) {
	must := &errs{}
	g := compose.NewGraph[map[string]any, map[string]any]()
	heads := []string{"m0", "m1", "m2"}
	must.add(g.AddPassthroughNode("pt"))
	for _, k := range heads {
		if r.Chance(1, 3) {
			must.add(g.AddLambdaNode(k, compose.StreamableLambdaWithOption(z.nodeMStream(k))))
		} else {
			must.add(g.AddLambdaNode(k, compose.InvokableLambdaWithOption(z.nodeM(k))))
		}
		must.add(g.AddEdge(k, "pt"))
	}
	must.add(g.AddBranch(compose.START, compose.NewGraphMultiBranch(func(ctx context.Context, in map[string]any) (map[string]bool, error) {
		ev(ctx, "b:start")
		see(ctx, "branch start", renderAny(in))
		x, _ := in["x"].(string)
		out := map[string]bool{}
		for i, k := range heads {
			if (len(x)>>i)&1 == 1 {
				out[k] = true
			}
		}
		if len(out) == 0 {
			out["m0"] = true
		}
		return out, nil
	}, map[string]bool{"m0": true, "m1": true, "m2": true})))
	// a chain as a graph node
	ch := compose.NewChain[map[string]any, map[string]any]()
	ch.AppendLambda(compose.InvokableLambdaWithOption(z.nodeM("c1")), compose.WithNodeKey("c1"))
	ch.AppendLambda(compose.InvokableLambdaWithOption(z.nodeM("c2")), compose.WithNodeKey("c2"))
	must.add(g.AddGraphNode("sub", ch))
	must.add(g.AddEdge("pt", "sub"))
	ends := []string{"e0", "e1"}
	// a workflow as a graph node
	wf := compose.NewWorkflow[map[string]any, map[string]any]()
	wf.AddLambdaNode("w1", compose.InvokableLambdaWithOption(z.nodeM("w1"))).AddInput(compose.START)
	wf.End().AddInput("w1")
	must.add(g.AddGraphNode("e0", wf))
	must.add(g.AddLambdaNode("e1", compose.InvokableLambdaWithOption(z.nodeM("e1"))))
	must.add(g.AddBranch("sub", compose.NewStreamGraphBranch(func(ctx context.Context, in *schema.StreamReader[map[string]any]) (string, error) {
		ev(ctx, "b:sub")
		cs, err := drain(in)
		if err != nil {
			return "", err
		}
		m, err := concatMaps(cs)
		if err != nil {
			return "", err
		}
		s := renderAny(m)
		see(ctx, "branch sub", s)
		return ends[len(s)%2], nil
	}, map[string]bool{"e0": true, "e1": true})))
	must.add(g.AddEdge("e0", compose.END))
	must.add(g.AddEdge("e1", compose.END))
	if must.err != nil {
		return nil, must.err
	}
	run, err := g.Compile(context.Background(), compose.WithNodeTriggerMode(compose.AnyPredecessor), compose.WithGraphName("multi"))
	if err != nil {
		return nil, err
	}
	shared := []compose.Option{
		sharedLopt("S").DesignateNodeWithPath(compose.NewNodePath("sub", "c2"), compose.NewNodePath("e0", "w1")),
		sharedLopt("S1").DesignateNode("m1", "e1"),
		sharedCb("sp").DesignateNodeWithPath(compose.NewNodePath("sub", "c1")),
	}
	dCh := &dGraph{}
	dCh.node("c1", fn1("FM", "c1"), 0)
	dCh.node("c2", fn1("FM", "c2"), 0)
	dCh.edge(compose.START, "c1")
	dCh.edge("c1", "c2")
	dCh.edge("c2", compose.END)
	dCh.defaultMax()
	dWf := &dGraph{dag: true}
	dWf.node("w1", fn1("FM", "w1"), 0)
	dWf.edge(compose.START, "w1")
	dWf.edge("w1", compose.END)
	d := &dGraph{}
	d.node("pt", "FPass", -1)
	for _, k := range heads {
		d.node(k, fn1("FM", k), 0)
		d.edge(k, "pt")
	}
	d.branch(compose.START, "(BBits "+lib.CoqStrList(heads)+")", heads...)
	d.node("sub", "(FSub "+dCh.term()+")", -1)
	d.edge("pt", "sub")
	d.node("e0", "(FSub "+dWf.term()+")", -1)
	d.node("e1", fn1("FM", "e1"), 0)
	d.branch("sub", "(BLenMod "+q("sub")+" "+lib.CoqStrList(ends)+")", ends...)
	d.edge("e0", compose.END)
	d.edge("e1", compose.END)
	d.defaultMax()
	mshared := []string{opT(0, "S", []string{"sub", "c2"}, []string{"e0", "w1"}), opT(0, "S1", []string{"m1"}, []string{"e1"})}
	shared = spare(shared) // spare capacity: an append to the options inside a run must not reach it
	return &object{
		desc: d, depth: 2, roots: []any{run, g, shared}, proj: run,
		mcall: func(sp spec, si int) string {
			var own []string
			if sp.Opt&optLambdaDesignated != 0 {
				own = append(own, opT(0, fmt.Sprintf("p%d", si), []string{"sub", "c1"}, []string{"m0"}))
			}
			if sp.Opt&optLambdaGlobal != 0 {
				own = append(own, opT(0, fmt.Sprintf("g%d", si)))
			}
			return callTerm(vM("id", vS(selfTag), "x", vS(strings.Repeat("x", sp.In+1))), mWithShared(sp.Opt, mshared, own), 0)
		},
		kind: "multi", shape: []string{"multi:std"},
		nIn: 7, paras: allParas,
		optSet:  []int{0, optLambdaDesignated, optLambdaGlobal, optCbGlobal, optCbThree | optCbDesignated, optCtxHandlers, optShared, optShared | optLambdaDesignated | optCbGlobal},
		baseCtx: sharedCtx,
		call: func(ctx context.Context, rc *callRec, sp spec) string {
			in := map[string]any{"id": rc.tag, "x": strings.Repeat("x", sp.In+1)}
			var opts []compose.Option
			if sp.Opt&optLambdaDesignated != 0 {
				opts = append(opts, compose.WithLambdaOption(lopt{Tag: rc.tag, Val: fmt.Sprintf("p%d", rc.spec)}).
					DesignateNodeWithPath(compose.NewNodePath("sub", "c1"), compose.NewNodePath("m0")))
			}
			if sp.Opt&optLambdaGlobal != 0 {
				opts = append(opts, compose.WithLambdaOption(lopt{Tag: rc.tag, Val: fmt.Sprintf("g%d", rc.spec)}))
			}
			opts = append(opts, cbOptions(rc, sp.Opt, []string{"m0", "m1"})...)
			return runPara[map[string]any, map[string]any](ctx, run, sp.Para, in, codecM, withShared(sp.Opt, shared, opts))
		},
	}, nil
}

// ---------------------------------------------------------------- 14. the ReAct agent's graph embedded in an outer graph, and message futures

func buildEmbed(r *lib.Rng, z *zoo) (*object, error) {
	ctx := context.Background()
	var shape []string
	ag, d1, err := z.reactAgentD(ctx, r, &shape)
	if err != nil {
		return nil, err
	}
	ag2, d2, err := z.reactAgentD(ctx, r, &shape)
	if err != nil {
		return nil, err
	}
	must := &errs{}
	g := compose.NewGraph[[]*schema.Message, string]()
	ig, iopts := ag.ExportGraph()
	ig2, iopts2 := ag2.ExportGraph()
	must.add(g.AddGraphNode("ag", ig, append(iopts, compose.WithOutputKey("ag"))...))
	must.add(g.AddGraphNode("ag2", ig2, append(iopts2, compose.WithOutputKey("ag2"))...))
	must.add(g.AddLambdaNode("out", compose.InvokableLambda(func(ctx context.Context, in map[string]any) (string, error) {
		ev(ctx, "n:out")
		a, _ := in["ag"].(*schema.Message)
		b, _ := in["ag2"].(*schema.Message)
		s := "A=" + renderMsg(a) + " B=" + renderMsg(b)
		see(ctx, "node out", s)
		return s, nil
	})))
	must.add(g.AddEdge(compose.START, "ag"))
	must.add(g.AddEdge(compose.START, "ag2"))
	must.add(g.AddEdge("ag", "out"))
	must.add(g.AddEdge("ag2", "out"))
	must.add(g.AddEdge("out", compose.END))
	if must.err != nil {
		return nil, must.err
	}
	run, err := g.Compile(ctx, compose.WithNodeTriggerMode(compose.AllPredecessor), compose.WithGraphName("embed"))
	if err != nil {
		return nil, err
	}
	shared := []compose.Option{
		compose.WithChatModelOption(model.WrapImplSpecificOptFn(func(o *mopt) { o.Val += "S" })).DesignateNodeWithPath(compose.NewNodePath("ag", "chat")),
		sharedCb("so"),
	}
	d := &dGraph{dag: true}
	d.node("ag", "(FSub "+d1.term()+")", -1, "out=ag")
	d.node("ag2", "(FSub "+d2.term()+")", -1, "out=ag2")
	d.node("out", "FEmbedOut", -1)
	for _, e := range [][2]string{{compose.START, "ag"}, {compose.START, "ag2"}, {"ag", "out"}, {"ag2", "out"}, {"out", compose.END}} {
		d.edge(e[0], e[1])
	}
	shared = spare(shared) // spare capacity: an append to the options inside a run must not reach it
	return &object{
		desc: d, depth: 2, roots: []any{run, g, ag, ag2, shared}, proj: run,
		mcall: func(sp spec, si int) string {
			var own []string
			if sp.Opt&optLambdaDesignated != 0 {
				own = append(own, opT(1, fmt.Sprintf("m%d", si), []string{"ag2", "chat"}))
			}
			if sp.Opt&optLambdaGlobal != 0 {
				own = append(own, opT(2, fmt.Sprintf("t%d", si)))
			}
			return callTerm(vMsgs(msgT("user", selfTag+" "+reactScripts[sp.In%len(reactScripts)])),
				mWithShared(sp.Opt, strs(opT(1, "S", []string{"ag", "chat"})), own), 0)
		},
		kind: "embed", shape: shape,
		nIn: len(reactScripts), paras: allParas,
		optSet:  []int{0, optLambdaDesignated, optLambdaGlobal, optCbGlobal, optCbThree, optCtxHandlers, optShared, optShared | optLambdaGlobal},
		baseCtx: sharedCtx,
		call: func(ctx context.Context, rc *callRec, sp spec) string {
			in := []*schema.Message{schema.UserMessage(rc.tag + " " + reactScripts[sp.In%len(reactScripts)])}
			var opts []compose.Option
			if sp.Opt&optLambdaDesignated != 0 {
				tag, val := rc.tag, fmt.Sprintf("m%d", rc.spec)
				opts = append(opts, compose.WithChatModelOption(model.WrapImplSpecificOptFn(func(o *mopt) { o.Tag, o.Val = tag, o.Val+val })).
					DesignateNodeWithPath(compose.NewNodePath("ag2", "chat")))
			}
			if sp.Opt&optLambdaGlobal != 0 {
				tag, val := rc.tag, fmt.Sprintf("t%d", rc.spec)
				opts = append(opts, compose.WithToolsNodeOption(compose.WithToolOption(toolOptFn(tag, val))))
			}
			opts = append(opts, cbOptions(rc, sp.Opt, nil)...)
			cd := codec[[]*schema.Message, string]{chunkIn: oneChunk[[]*schema.Message], concatOut: concatStr, render: func(s string) string { return s }}
			return runPara[[]*schema.Message, string](ctx, run, sp.Para, in, cd, withShared(sp.Opt, shared, opts))
		},
	}, nil
}

// futureCall: the ReAct agent with a message future per call (react.WithMessageFuture): every
// message the run produced must come back through the call's own future.
func futureCall(ctx context.Context, ag *react.Agent, stream bool, in []*schema.Message, opts []agent.AgentOption) string {
	fopt, fut := react.WithMessageFuture()
	opts = append(append([]agent.AgentOption{}, opts...), fopt)
	var res string
	if !stream {
		out, err := ag.Generate(ctx, in, opts...)
		if err != nil {
			res = "err:" + errClass(err)
		} else {
			res = "ok:" + renderMsg(out)
		}
		it := fut.GetMessages()
		var got []string
		for {
			m, ok, err := it.Next()
			if !ok {
				break
			}
			if err != nil { // the run failed: the error is the last item (the queue is not closed after it)
				got = append(got, "E:"+errClass(err))
				break
			}
			got = append(got, renderMsg(m))
		}
		sort.Strings(got) // parallel tools finish in any order
		s := strings.Join(got, " | ")
		see(ctx, "message future", s)
		return res + " FUT[" + s + "]"
	}
	sr, err := ag.Stream(ctx, in, opts...)
	if err != nil {
		res = "err:" + errClass(err)
	} else {
		cs, err := drain(sr)
		if err == nil {
			var out *schema.Message
			out, err = concatOneMsg(cs)
			if err == nil {
				res = "ok:" + renderMsg(out)
			}
		}
		if err != nil {
			res = "err:" + errClass(err)
		}
	}
	it := fut.GetMessageStreams()
	var got []string
	for {
		s, ok, err := it.Next()
		if !ok {
			break
		}
		if err != nil {
			got = append(got, "E:"+errClass(err))
			break
		}
		cs, err := drain(s)
		if err != nil {
			got = append(got, "E:"+errClass(err))
			continue
		}
		m, err := concatOneMsg(cs)
		if err != nil {
			got = append(got, "E:concat")
			continue
		}
		got = append(got, renderMsg(m))
	}
	sort.Strings(got)
	s := strings.Join(got, " | ")
	see(ctx, "message future", s)
	return res + " FUT[" + s + "]"
}
