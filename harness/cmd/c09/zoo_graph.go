package main

import (
	"context"
	"fmt"
	"runtime"
	"sort"
	"strings"
	"sync/atomic"
	"time"

	"github.com/cloudwego/eino/compose"
	"github.com/cloudwego/eino/schema"

	"verif/harness/lib"
)

// ---------------------------------------------------------------- node functions

type zoo struct {
	sched uint64         // seed of the schedule perturbation
	force map[string]int // shape parameters fixed by a corpus / replay case (the PRNG is still advanced)
}

func (z *zoo) flag(name string, v bool) bool {
	if f, ok := z.force[name]; ok {
		return f != 0
	}
	return v
}

func (z *zoo) num(name string, v int) int {
	if f, ok := z.force[name]; ok {
		return f
	}
	return v
}

func (z *zoo) nodeV(key string) func(ctx context.Context, in V) (V, error) {
	return func(ctx context.Context, in V) (V, error) {
		ev(ctx, "n:"+key)
		see(ctx, "node "+key, in.String())
		jitter(ctx, z.sched, key)
		return V{ID: in.ID, N: in.N, Lim: in.Lim, H: in.H + ">" + key}, nil
	}
}

func (z *zoo) nodeVOpt(key string) func(ctx context.Context, in V, opts ...lopt) (V, error) {
	return func(ctx context.Context, in V, opts ...lopt) (V, error) {
		ev(ctx, "n:"+key)
		see(ctx, "node "+key, in.String())
		o := applyOpts(ctx, key, opts)
		jitter(ctx, z.sched, key)
		maybeCancel(ctx, key)
		return V{ID: in.ID, N: in.N, Lim: in.Lim, H: in.H + ">" + key + o}, nil
	}
}

// loop body: counts its executions in N; implemented as a Transform (stream in, stream out)
func (z *zoo) nodeVLoop(key string) func(ctx context.Context, in *schema.StreamReader[V]) (*schema.StreamReader[V], error) {
	return func(ctx context.Context, in *schema.StreamReader[V]) (*schema.StreamReader[V], error) {
		ev(ctx, "n:"+key)
		cs, err := drain(in)
		if err != nil {
			return nil, err
		}
		v, err := lastOf(cs)
		if err != nil {
			return nil, err
		}
		see(ctx, "node "+key, v.String())
		jitter(ctx, z.sched, key)
		return schema.StreamReaderFromArray([]V{{ID: v.ID, N: v.N + 1, Lim: v.Lim, H: v.H + ">" + key}}), nil
	}
}

func (z *zoo) nodeVFail(key string, failAt int) func(ctx context.Context, in V) (V, error) {
	return func(ctx context.Context, in V) (V, error) {
		ev(ctx, "n:"+key)
		see(ctx, "node "+key, in.String())
		jitter(ctx, z.sched, key)
		if in.Lim == failAt {
			return V{}, &nodeErr{key}
		}
		return V{ID: in.ID, N: in.N, Lim: in.Lim, H: in.H + ">" + key}, nil
	}
}

// join: map of V (fan-in through output keys) -> V
func (z *zoo) joinV(key string) func(ctx context.Context, in map[string]any) (V, error) {
	return func(ctx context.Context, in map[string]any) (V, error) {
		ev(ctx, "n:"+key)
		r := renderAny(in)
		see(ctx, "node "+key, r)
		jitter(ctx, z.sched, key)
		out := V{H: "(" + r + ")>" + key}
		ks := make([]string, 0, len(in))
		for k := range in {
			ks = append(ks, k)
		}
		sort.Strings(ks)
		for _, k := range ks {
			if v, ok := in[k].(V); ok {
				out.ID, out.N, out.Lim = v.ID, v.N, v.Lim
				break
			}
		}
		return out, nil
	}
}

// map node: {key: render(input)}; used where values fan in
func (z *zoo) nodeM(key string) func(ctx context.Context, in map[string]any, opts ...lopt) (map[string]any, error) {
	return func(ctx context.Context, in map[string]any, opts ...lopt) (map[string]any, error) {
		ev(ctx, "n:"+key)
		r := renderAny(in)
		see(ctx, "node "+key, r)
		o := applyOpts(ctx, key, opts)
		jitter(ctx, z.sched, key)
		return map[string]any{key: r + o}, nil
	}
}

// streaming map node: the same value in two chunks (string values of one key concatenate)
func (z *zoo) nodeMStream(key string) func(ctx context.Context, in map[string]any, opts ...lopt) (*schema.StreamReader[map[string]any], error) {
	return func(ctx context.Context, in map[string]any, opts ...lopt) (*schema.StreamReader[map[string]any], error) {
		ev(ctx, "n:"+key)
		r := renderAny(in)
		see(ctx, "node "+key, r)
		o := applyOpts(ctx, key, opts)
		jitter(ctx, z.sched, key)
		full := r + o
		h := len(full) / 2
		sr, sw := schema.Pipe[map[string]any](1)
		go func() {
			defer sw.Close()
			if sw.Send(map[string]any{key: full[:h]}, nil) {
				return
			}
			jitter(ctx, z.sched, key+"/2")
			sw.Send(map[string]any{key: full[h:]}, nil)
		}()
		return sr, nil
	}
}

func lambdaOpts(rc *callRec, bits int, designated ...string) []compose.Option {
	var opts []compose.Option
	if bits&optLambdaDesignated != 0 && len(designated) > 0 {
		opts = append(opts, compose.WithLambdaOption(lopt{Tag: rc.tag, Val: fmt.Sprintf("d%d", rc.spec)}).DesignateNode(designated...))
	}
	if bits&optLambdaGlobal != 0 {
		opts = append(opts, compose.WithLambdaOption(lopt{Tag: rc.tag, Val: fmt.Sprintf("g%d", rc.spec)}))
	}
	return opts
}

// badPathOpt: a lambda option of the call designated to a node that does not exist
func badPathOpt(rc *callRec, bits int, path ...string) []compose.Option {
	if bits&optBadPath == 0 {
		return nil
	}
	return []compose.Option{compose.WithLambdaOption(lopt{Tag: rc.tag, Val: "bad"}).DesignateNodeWithPath(compose.NewNodePath(path...))}
}

func mBadPathOpt(bits int, path ...string) []string {
	if bits&optBadPath == 0 {
		return nil
	}
	return []string{opT(0, "bad", path)}
}

var codecV = codec[V, V]{chunkIn: oneChunk[V], concatOut: lastOf[V], render: func(v V) string { return v.String() }}
var codecM = codec[map[string]any, map[string]any]{
	chunkIn: func(m map[string]any) []map[string]any {
		// one chunk per key (keys are distinct, so concatenation is the union)
		ks := make([]string, 0, len(m))
		for k := range m {
			ks = append(ks, k)
		}
		sort.Strings(ks)
		out := make([]map[string]any, 0, len(ks))
		for _, k := range ks {
			out = append(out, map[string]any{k: m[k]})
		}
		return out
	},
	concatOut: concatMaps,
	render:    func(m map[string]any) string { return renderAny(m) },
}
var codecS = codec[string, string]{
	chunkIn: func(s string) []string {
		if len(s) < 2 {
			return []string{s}
		}
		return []string{s[:len(s)/2], s[len(s)/2:]}
	},
	concatOut: concatStr,
	render:    func(s string) string { return s },
}

var allParas = []string{"invoke", "stream", "collect", "transform"}

// ---------------------------------------------------------------- 1. Pregel: loop + branch + parallel fan-out + join

func buildPregel(r *lib.Rng, z *zoo) (*object, error) {
	w := z.num("width", r.Range(1, 4))
	failing := z.flag("failing", r.Chance(1, 3))
	g := compose.NewGraph[V, V]()
	must := &errs{}
	must.add(g.AddLambdaNode("a", compose.InvokableLambdaWithOption(z.nodeVOpt("a"))))
	must.add(g.AddLambdaNode("w", compose.TransformableLambda(z.nodeVLoop("w"))))
	if failing {
		must.add(g.AddLambdaNode("f", compose.InvokableLambda(z.nodeVFail("f", 3))))
	} else {
		must.add(g.AddLambdaNode("f", compose.InvokableLambda(z.nodeV("f"))))
	}
	must.add(g.AddLambdaNode("j", compose.InvokableLambda(z.joinV("j"))))
	must.add(g.AddEdge(compose.START, "a"))
	must.add(g.AddEdge("a", "w"))
	must.add(g.AddBranch("w", compose.NewGraphBranch(func(ctx context.Context, in V) (string, error) {
		ev(ctx, "b:w")
		see(ctx, "branch w", in.String())
		if in.N < in.Lim {
			return "w", nil
		}
		return "f", nil
	}, map[string]bool{"w": true, "f": true})))
	var par []string
	for i := 0; i < w; i++ {
		k := fmt.Sprintf("p%d", i)
		par = append(par, k)
		must.add(g.AddLambdaNode(k, compose.InvokableLambdaWithOption(z.nodeVOpt(k)), compose.WithOutputKey(k)))
		must.add(g.AddEdge("f", k))
		must.add(g.AddEdge(k, "j"))
	}
	must.add(g.AddEdge("j", compose.END))
	if must.err != nil {
		return nil, must.err
	}
	run, err := g.Compile(context.Background(), compose.WithNodeTriggerMode(compose.AnyPredecessor), compose.WithMaxRunSteps(30), compose.WithGraphName("pregel"))
	if err != nil {
		return nil, err
	}
	lims := []int{0, 1, 2, 3, 5}
	des := []string{"a", par[len(par)-1]}
	cbPar := par
	if len(cbPar) > 2 {
		cbPar = cbPar[:2]
	}
	shared := []compose.Option{
		sharedLopt("S").DesignateNode("a", par[0]),
		sharedCb("so"),
		sharedCb("sd").DesignateNode(par[0]),
	}
	// what was built, for the model
	d := &dGraph{max: 30}
	d.node("a", fn1("FV", "a"), 0)
	d.node("w", fn1("FLoop", "w"), -1)
	if failing {
		d.node("f", "(FFail "+q("f")+" 3%Z)", -1)
	} else {
		d.node("f", fn1("FV", "f"), -1)
	}
	d.node("j", fn1("FJoinV", "j"), -1)
	d.edge(compose.START, "a")
	d.edge("a", "w")
	d.branch("w", "BLoop", "w", "f")
	for _, k := range par {
		d.node(k, fn1("FV", k), 0, "out="+k)
		d.edge("f", k)
		d.edge(k, "j")
	}
	d.edge("j", compose.END)
	mshared := []string{opT(0, "S", keysAsPaths("a", par[0])...)}
	shared = spare(shared) // spare capacity: an append to the options inside a run must not reach it
	return &object{
		desc: d, roots: []any{run, g, shared}, proj: run,
		mcall: func(sp spec, si int) string {
			max := 0
			if sp.Opt&optMaxSteps != 0 {
				max = 5
			}
			t := callTerm(vR(selfTag, 0, lims[sp.In%len(lims)], fmt.Sprintf("in%d", sp.In)),
				mWithShared(sp.Opt, mshared, append(mLambdaOpts(si, sp.Opt, des...), mBadPathOpt(sp.Opt, "nosuch")...)), max)
			if sp.Opt&optCancel != 0 && sp.Opt&optBadPath == 0 {
				t = cancelAt(t, 1) // node a, the only node of superstep 0, cancels the call's context
			}
			return t
		},
		kind: "pregel", shape: []string{fmt.Sprintf("width:%d", w), fmt.Sprintf("failing:%v", failing)},
		nIn: len(lims), paras: allParas,
		optSet: []int{0, optLambdaDesignated, optLambdaGlobal, optCbGlobal, optCbThree | optCbDesignated, optMaxSteps,
			optMaxSteps | optCbGlobal, optCtxHandlers, optCtxHandlers | optCbDesignated | optLambdaDesignated,
			optShared, optShared | optLambdaDesignated | optCbGlobal, optShared | optMaxSteps, optBadPath, optBadPath | optCbGlobal | optLambdaGlobal,
			optCancel, optCancel | optCbGlobal | optLambdaDesignated, optCancel | optShared},
		cancelKey: "a",
		baseCtx:   sharedCtx,
		call: func(ctx context.Context, rc *callRec, sp spec) string {
			in := V{ID: rc.tag, Lim: lims[sp.In%len(lims)], H: fmt.Sprintf("in%d", sp.In)}
			opts := append(lambdaOpts(rc, sp.Opt, des...), cbOptions(rc, sp.Opt, cbPar)...)
			opts = append(opts, badPathOpt(rc, sp.Opt, "nosuch")...)
			if sp.Opt&optMaxSteps != 0 {
				opts = append(opts, compose.WithRuntimeMaxSteps(5))
			}
			return runPara[V, V](ctx, run, sp.Para, in, codecV, withShared(sp.Opt, shared, opts))
		},
	}, nil
}

type errs struct{ err error }

func (e *errs) add(err error) {
	if err != nil && e.err == nil {
		e.err = err
	}
}

// ---------------------------------------------------------------- 2. all-predecessor DAG over maps: layers, fan-in, one branch, streaming nodes

func buildDag(r *lib.Rng, z *zoo) (*object, error) {
	layers := z.num("layers", r.Range(2, 4))
	g := compose.NewGraph[map[string]any, map[string]any]()
	must := &errs{}
	var prev []string
	var all []string
	var widths []string
	var layer1 []string
	d := &dGraph{dag: true}
	branchLayer := -1
	if layers >= 3 && r.Chance(2, 3) {
		branchLayer = r.Range(1, layers-2)
	}
	for l := 0; l < layers; l++ {
		w := r.Range(1, 3)
		if l == branchLayer+1 && branchLayer >= 0 && w < 2 {
			w = 2
		}
		widths = append(widths, fmt.Sprint(w))
		var cur []string
		for i := 0; i < w; i++ {
			k := fmt.Sprintf("n%d_%d", l, i)
			cur = append(cur, k)
			all = append(all, k)
			if r.Chance(1, 3) {
				must.add(g.AddLambdaNode(k, compose.StreamableLambdaWithOption(z.nodeMStream(k))))
			} else {
				must.add(g.AddLambdaNode(k, compose.InvokableLambdaWithOption(z.nodeM(k))))
			}
			d.node(k, fn1("FM", k), 0)
		}
		if l == 0 {
			for _, k := range cur {
				must.add(g.AddEdge(compose.START, k))
				d.edge(compose.START, k)
			}
		} else if l == branchLayer+1 && branchLayer >= 0 {
			// the first node of the previous layer chooses ONE node of this layer; the other nodes
			// of the previous layer feed every node of this layer (so skipped nodes still have a live input
			// only through the branch: a node not chosen is skipped)
			src := prev[0]
			ends := map[string]bool{}
			for _, k := range cur {
				ends[k] = true
			}
			targets := append([]string(nil), cur...)
			must.add(g.AddBranch(src, compose.NewGraphBranch(func(ctx context.Context, in map[string]any) (string, error) {
				ev(ctx, "b:"+src)
				s := renderAny(in)
				see(ctx, "branch "+src, s)
				return targets[len(s)%len(targets)], nil
			}, ends)))
			d.branch(src, "(BLenMod "+q(src)+" "+lib.CoqStrList(targets)+")", targets...)
			for _, p := range prev[1:] {
				for _, k := range cur {
					if r.Chance(1, 2) {
						must.add(g.AddEdge(p, k))
						d.edge(p, k)
					}
				}
			}
		} else {
			// every node gets at least one predecessor, every predecessor at least one successor
			used := map[string]bool{}
			for _, k := range cur {
				p := prev[r.Intn(len(prev))]
				used[p] = true
				must.add(g.AddEdge(p, k))
				d.edge(p, k)
				for _, q := range prev {
					if q != p && r.Chance(1, 3) {
						used[q] = true
						must.add(g.AddEdge(q, k))
						d.edge(q, k)
					}
				}
			}
			for _, p := range prev {
				if !used[p] {
					t := cur[r.Intn(len(cur))]
					must.add(g.AddEdge(p, t))
					d.edge(p, t)
				}
			}
		}
		if l == 1 {
			layer1 = cur
		}
		prev = cur
	}
	for _, k := range prev {
		must.add(g.AddEdge(k, compose.END))
		d.edge(k, compose.END)
	}
	// Values that user code owns and keeps: a node that hands out THE SAME map object on every run
	// (a constant table) into the fan-in of every node of layer 1, and (below) a sub-map of the
	// input that all calls share. The framework merges, copies and forwards them; it must never
	// write into them (a merge that adopts its first operand in place would).
	constMap := map[string]any{"kc": "const"}
	hasConst := z.flag("const", r.Chance(1, 2))
	if hasConst {
		must.add(g.AddLambdaNode("kc", compose.InvokableLambda(func(ctx context.Context, in map[string]any) (map[string]any, error) {
			ev(ctx, "n:kc")
			see(ctx, "node kc", renderAny(in))
			return constMap, nil
		})))
		d.node("kc", fn1("FConst", "kc"), -1)
		must.add(g.AddEdge(compose.START, "kc"))
		d.edge(compose.START, "kc")
		for _, k := range layer1 {
			must.add(g.AddEdge("kc", k))
			d.edge("kc", k)
		}
	}
	sharedCfg := map[string]any{"mode": "m"}
	if must.err != nil {
		return nil, must.err
	}
	run, err := g.Compile(context.Background(), compose.WithNodeTriggerMode(compose.AllPredecessor), compose.WithGraphName("dag"))
	if err != nil {
		return nil, err
	}
	des := []string{all[0], all[len(all)-1]}
	cbPar := []string{all[0]}
	if len(all) > 1 {
		cbPar = append(cbPar, all[1])
	}
	shared := []compose.Option{
		sharedLopt("S").DesignateNode(all[0]),
		sharedLopt("SG"),
		sharedCb("sd").DesignateNode(all[len(all)-1]),
	}
	mshared := []string{opT(0, "S", []string{all[0]}), opT(0, "SG")}
	shared = spare(shared) // spare capacity: an append to the options inside a run must not reach it
	return &object{
		desc: d, roots: []any{run, g, shared, constMap, sharedCfg}, proj: run,
		mcall: func(sp spec, si int) string {
			return callTerm(vM("cfg", vM("mode", vS("m")), "id", vS(selfTag), "x", vS(strings.Repeat("x", sp.In+1))),
				mWithShared(sp.Opt, mshared, mLambdaOpts(si, sp.Opt, des...)), 0)
		},
		kind: "dag", shape: []string{"layers:" + fmt.Sprint(layers), "widths:" + strings.Join(widths, "-"), fmt.Sprintf("branch:%v", branchLayer >= 0), fmt.Sprintf("const:%v", hasConst)},
		nIn: 4, paras: allParas,
		optSet:  []int{0, optLambdaDesignated, optLambdaGlobal, optCbGlobal, optCbThree | optCbDesignated, optCtxHandlers | optCbDesignated, optCbThree | optLambdaGlobal, optShared, optShared | optLambdaDesignated | optCbGlobal},
		baseCtx: sharedCtx,
		call: func(ctx context.Context, rc *callRec, sp spec) string {
			in := map[string]any{"cfg": sharedCfg, "id": rc.tag, "x": strings.Repeat("x", sp.In+1)}
			opts := append(lambdaOpts(rc, sp.Opt, des...), cbOptions(rc, sp.Opt, cbPar)...)
			return runPara[map[string]any, map[string]any](ctx, run, sp.Para, in, codecM, withShared(sp.Opt, shared, opts))
		},
	}, nil
}

// ---------------------------------------------------------------- 3. Workflow with field mappings, static value, eager parallel nodes

type WIn struct {
	ID string
	A  string
	B  string
}
type WLeft struct {
	ID string
	A  string
}
type WMid struct {
	ID string
	X  string
	Y  string
	S  string
	C  string
}

// the input the guard node of the workflow rejects (spec input 4)
const (
	wfBadA = "a4"
	wfBadB = "b28"
	// ... and the input on which it panics (spec input 5)
	wfPanicA = "a5"
	wfPanicB = "b35"
	// ... and the input on which it cancels the context of its call and returns normally (spec input 6)
	wfCancelA = "a6"
	wfCancelB = "b42"
)

type WOut struct {
	ID string
	P  string
	Q  string
}

func init() {
	// stream mode delivers the mapped fields of m's input as separate partial structs
	compose.RegisterStreamChunkConcatFunc(func(xs []WMid) (WMid, error) {
		var o WMid
		for _, x := range xs {
			o.ID += x.ID
			o.X += x.X
			o.Y += x.Y
			o.S += x.S
			o.C += x.C
		}
		return o, nil
	})
}

func buildWorkflow(r *lib.Rng, z *zoo) (*object, error) {
	// A call whose guard node c rejects its input (A == wfBadA) returns at once, while the
	// parallel nodes l and r of THAT run are still executing (a workflow collects its tasks one by
	// one): the abandoned tasks finish a little later, when the caller is already in its next
	// call and other callers are in theirs. Whatever the engine does with them then, they must
	// never show up in another run. To keep the events of the rejected call deterministic, c
	// rejects only once l and r of its own call have logged everything and parked (a counter in
	// the call's own recorder: no synchronisation between runs); the healthy calls take a little
	// longer than the abandoned tasks, so that those finish while the next run is waiting.
	park := func(ctx context.Context, bad bool) {
		if rc := recOf(ctx); bad && rc != nil {
			atomic.AddInt32(&rc.parked, 1)
			if atomic.LoadInt32(&rc.hold) != 0 {
				// sequential fault scenario: stay in flight until a node of the NEXT call says that call
				// is executing (bounded: 5 s), then return into whatever the engine kept of this run
				for i := 0; atomic.LoadInt32(&rc.release) == 0 && i < 50000; i++ {
					time.Sleep(100 * time.Microsecond)
				}
				atomic.AddInt32(&rc.unparked, 1)
				return
			}
			// stay in flight until the call has returned to its caller (doCall raises the flag of
			// THIS call's recorder; bounded, in case the engine waits for its tasks), then a little
			// longer: the caller is in its next call by then
			for i := 0; atomic.LoadInt32(&rc.returned) == 0 && i < 20000; i++ {
				time.Sleep(100 * time.Microsecond)
			}
			time.Sleep(2 * time.Millisecond)
		}
	}
	// a healthy call made right after a faulted one (sequential fault scenario): once its node r is
	// executing — the run is waiting for its tasks — the abandoned tasks of the faulted call are
	// let go, and r stays in flight until they have returned and the engine has had time to do
	// with them whatever it does (a late completion must go nowhere)
	letGo := func(ctx context.Context) {
		rc := recOf(ctx)
		if rc == nil || rc.prev == nil {
			return
		}
		atomic.StoreInt32(&rc.prev.release, 1)
		for i := 0; atomic.LoadInt32(&rc.prev.unparked) < atomic.LoadInt32(&rc.prev.parked) && i < 20000; i++ {
			time.Sleep(100 * time.Microsecond)
		}
		for i := 0; i < 4; i++ {
			time.Sleep(500 * time.Microsecond)
			runtime.Gosched()
		}
	}
	faulty := func(a string) bool { return a == wfBadA || a == wfPanicA || a == wfCancelA }
	wf := compose.NewWorkflow[WIn, WOut]()
	wf.AddLambdaNode("l", compose.InvokableLambdaWithOption(func(ctx context.Context, in WLeft, opts ...lopt) (string, error) {
		ev(ctx, "n:l")
		see(ctx, "node l", in.ID+in.A)
		o := applyOpts(ctx, "l", opts)
		jitter(ctx, z.sched, "l")
		if faulty(in.A) {
			park(ctx, true)
		} else {
			time.Sleep(time.Millisecond)
		}
		return "l(" + in.ID + "," + in.A + ")" + o, nil
	})).AddInput(compose.START, compose.MapFields("ID", "ID"), compose.MapFields("A", "A"))
	wf.AddLambdaNode("r", compose.InvokableLambda(func(ctx context.Context, in string) (map[string]any, error) {
		ev(ctx, "n:r")
		see(ctx, "node r", in)
		jitter(ctx, z.sched, "r")
		if in == wfBadB || in == wfPanicB || in == wfCancelB {
			park(ctx, true)
		} else {
			letGo(ctx)
			time.Sleep(3 * time.Millisecond)
		}
		return map[string]any{"v": "r(" + in + ")"}, nil
	})).AddInput(compose.START, compose.FromField("B"))
	wf.AddLambdaNode("c", compose.InvokableLambda(func(ctx context.Context, in string) (string, error) {
		ev(ctx, "n:c")
		see(ctx, "node c", in)
		if faulty(in) {
			rc := recOf(ctx)
			for i := 0; rc != nil && atomic.LoadInt32(&rc.parked) < 2 && i < 100000; i++ {
				time.Sleep(100 * time.Microsecond) // at most 10 s: l and r of this call are on their way
			}
			if in == wfPanicA {
				panic("guard c gives up")
			}
			if in == wfCancelA {
				maybeCancel(ctx, "c") // the run finds its context cancelled when it has collected c
				return "c(" + in + ")", nil
			}
			return "", &nodeErr{"c"}
		}
		return "c(" + in + ")", nil
	})).AddInput(compose.START, compose.FromField("A"))
	mid := wf.AddLambdaNode("m", compose.InvokableLambdaWithOption(func(ctx context.Context, in WMid, opts ...lopt) (WOut, error) {
		ev(ctx, "n:m")
		see(ctx, "node m", in.ID+in.X+in.Y+in.C)
		o := applyOpts(ctx, "m", opts)
		jitter(ctx, z.sched, "m")
		return WOut{ID: in.ID, P: "m(" + in.X + ";" + in.Y + ";" + in.S + ";" + in.C + ")" + o, Q: in.S}, nil
	})).
		AddInput("l", compose.ToField("X")).
		AddInput("r", compose.MapFields("v", "Y")).
		AddInput("c", compose.ToField("C")).
		AddInput(compose.START, compose.MapFields("ID", "ID"))
	mid.SetStaticValue(compose.FieldPath{"S"}, "static")
	wf.End().AddInput("m")
	run, err := wf.Compile(context.Background(), compose.WithGraphName("wf"))
	if err != nil {
		return nil, err
	}
	shared := []compose.Option{
		sharedLopt("S").DesignateNode("l", "m"),
		sharedCb("so"),
	}
	cd := codec[WIn, WOut]{chunkIn: oneChunk[WIn], concatOut: lastOf[WOut], render: func(o WOut) string { return fmt.Sprintf("WOut{%s|%s|%s}", o.ID, o.P, o.Q) }}
	d := &dGraph{dag: true}
	d.node("l", "FWfL", 0)
	d.node("r", "FWfR", -1)
	d.node("c", "FWfC", -1)
	d.node("m", "FWfM", 0)
	d.edge(compose.START, "l")
	d.edge(compose.START, "r")
	d.edge(compose.START, "c")
	d.edge(compose.START, "m")
	d.edge("l", "m")
	d.edge("r", "m")
	d.edge("c", "m")
	d.edge("m", compose.END)
	d.fmap(compose.START, "l", [2]string{"ID", "ID"}, [2]string{"A", "A"})
	d.fmap(compose.START, "r", [2]string{"B", ""})
	d.fmap("l", "m", [2]string{"", "X"})
	d.fmap("r", "m", [2]string{"v", "Y"})
	d.fmap(compose.START, "c", [2]string{"A", ""})
	d.fmap("c", "m", [2]string{"", "C"})
	d.fmap(compose.START, "m", [2]string{"ID", "ID"})
	d.statics = append(d.statics, [3]string{"m", "S", "static"})
	mshared := []string{opT(0, "S", []string{"l"}, []string{"m"})}
	shared = spare(shared) // spare capacity: an append to the options inside a run must not reach it
	return &object{
		desc: d, roots: []any{run, wf, shared}, proj: run,
		mcall: func(sp spec, si int) string {
			t := callTerm(vM("A", vS(fmt.Sprintf("a%d", sp.In)), "B", vS(fmt.Sprintf("b%d", sp.In*7)), "ID", vS(selfTag)),
				mWithShared(sp.Opt, mshared, mLambdaOpts(si, sp.Opt, "l", "m")), 0)
			if sp.In == 6 {
				t = cancelAt(t, 1) // the guard cancels the call's context during the first superstep
			}
			return t
		},
		kind: "workflow", shape: []string{"wf:mapped+guard"},
		nIn: 7, paras: allParas, faultIn: []int{4, 5, 6},
		cancelKey: "c", wantsCancel: func(sp spec) bool { return sp.In == 6 },
		optSet:  []int{0, optLambdaDesignated, optLambdaGlobal, optCbGlobal, optCbThree | optCbDesignated, optCtxHandlers, optShared, optShared | optLambdaGlobal | optCbDesignated},
		baseCtx: sharedCtx,
		call: func(ctx context.Context, rc *callRec, sp spec) string {
			in := WIn{ID: rc.tag, A: fmt.Sprintf("a%d", sp.In), B: fmt.Sprintf("b%d", sp.In*7)}
			opts := append(lambdaOpts(rc, sp.Opt, "l", "m"), cbOptions(rc, sp.Opt, []string{"l", "r"})...)
			return runPara[WIn, WOut](ctx, run, sp.Para, in, cd, withShared(sp.Opt, shared, opts))
		},
	}, nil
}
