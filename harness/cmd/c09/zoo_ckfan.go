package main

import (
	"context"
	"fmt"
	"strings"

	"github.com/cloudwego/eino/compose"

	"verif/harness/lib"
)

// ---------------------------------------------------------------- 16. checkpoint with values WAITING IN CHANNELS (round 7)
//
// The "ckpt" kind is a line of nodes: whatever an interrupt finds there is a pending node input. Here a
// workflow with a checkpoint store is interrupted while the answer of node a waits in the channels of its
// successors, which also depend on a slower sibling (r1 -> r2):
//
//	START -> a -----------> b  (input map[string]any: a concrete type)
//	     \         \------> c  (input any: an interface type)
//	      \         \-----> m  (input map[string]any, fed through a field mapping: ToField("x"))
//	       r1 -> r2 ......> b, c, m   (control dependency only)      b, c, m -> END (one field each)
//	(with "interrupt after a": a ......> r1 as well, see below)
//
// a's output type is any (half of the objects), the struct V (b then gets two of its fields through a field
// mapping) or map[string]any; the interrupt is r2 asking for
// InterruptAndRerun, an interrupt after a / before r2 of the compile options, or both. The checkpoint then
// holds ONE value of a per successor channel, each written through another edge (run-time type check into
// a concrete type, interface into interface, field mapping): what converts them when a checkpoint is
// written and read is per edge, kept by the compiled object and used by every session. One call = one whole
// session on a checkpoint id of its own (run, interrupted, resumed until done), as in the ckpt kind. Not
// modelled in Gallina (the engine model has no channel-level checkpoint): replay correspondence + the
// direct oracles (concurrent = alone, after = alone, record unchanged, race detector).
func buildCkfan(r *lib.Rng, z *zoo) (*object, error) {
	anyOut := z.flag("anyout", r.Chance(1, 2))
	rerun := z.flag("rerun", r.Chance(2, 3))
	after := z.flag("after", r.Chance(1, 2))
	mapped := z.flag("mapped", r.Chance(2, 3))
	twoAny := z.flag("twoany", r.Chance(1, 2)) // a second successor of interface input type
	// a's output type, when it is not any: the struct V (then b is fed through a field mapping too: what
	// waits in the channels of b and m are map[string]any fragments of a struct-typed source) or map[string]any
	structOut := z.flag("structout", r.Chance(1, 2)) && !anyOut
	if !rerun && !after {
		rerun = true
	}
	store := &memStore{m: map[string][]byte{}}
	wf := compose.NewWorkflow[V, map[string]any](compose.WithGenLocalState(z.genState))

	aBody := func(ctx context.Context, in V, opts []lopt) map[string]any {
		ev(ctx, "n:a")
		see(ctx, "node a", in.String())
		o := applyOpts(ctx, "a", opts)
		jitter(ctx, z.sched, "a")
		return map[string]any{"k": in.ID + "/" + in.H + ">a" + o, "lim": fmt.Sprint(in.Lim)}
	}
	if anyOut {
		wf.AddLambdaNode("a", compose.InvokableLambdaWithOption(func(ctx context.Context, in V, opts ...lopt) (any, error) {
			return aBody(ctx, in, opts), nil
		})).AddInput(compose.START)
	} else if structOut {
		wf.AddLambdaNode("a", compose.InvokableLambdaWithOption(func(ctx context.Context, in V, opts ...lopt) (V, error) {
			m := aBody(ctx, in, opts)
			return V{ID: in.ID, N: in.N, Lim: in.Lim, H: fmt.Sprint(m["k"])}, nil
		})).AddInput(compose.START)
	} else {
		wf.AddLambdaNode("a", compose.InvokableLambdaWithOption(func(ctx context.Context, in V, opts ...lopt) (map[string]any, error) {
			return aBody(ctx, in, opts), nil
		})).AddInput(compose.START)
	}
	r1 := wf.AddLambdaNode("r1", compose.InvokableLambda(z.nodeV("r1"))).AddInput(compose.START)
	if after {
		// A workflow runs eagerly (a task is taken on as soon as its predecessors are done): with a and
		// r1 -> r2 side by side, whether "interrupt after a" comes before, with or after what r2 does is a
		// matter of scheduling, for a call alone too. The slow sibling then starts when a is done: every
		// interrupt of the session finds a's answer in the channels, and the trail is the same every time.
		r1.AddDependency("a")
	}
	wf.AddLambdaNode("r2", compose.InvokableLambda(func(ctx context.Context, in V) (V, error) {
		ev(ctx, "n:r2")
		see(ctx, "node r2", in.String())
		first := false
		err := compose.ProcessState[*St](ctx, func(ctx context.Context, s *St) error {
			stCheck(ctx, "ProcessState r2", s)
			if rerun && s.Sum == 0 {
				s.Sum = 1
				first = true
			}
			return nil
		})
		if err != nil {
			return V{}, err
		}
		jitter(ctx, z.sched, "r2")
		if first {
			return V{}, compose.InterruptAndRerun
		}
		return V{ID: in.ID, N: in.N, Lim: in.Lim, H: in.H + ">r2"}, nil
	})).AddInput("r1")

	bIn := []*compose.FieldMapping{}
	if structOut {
		bIn = append(bIn, compose.MapFields("H", "k"), compose.MapFields("Lim", "lim"))
	}
	wf.AddLambdaNode("b", compose.InvokableLambdaWithOption(func(ctx context.Context, in map[string]any, opts ...lopt) (string, error) {
		ev(ctx, "n:b")
		s := renderAny(in)
		see(ctx, "node b", s)
		o := applyOpts(ctx, "b", opts)
		jitter(ctx, z.sched, "b")
		return "b<" + s + ">" + o, nil
	})).AddInput("a", bIn...).AddDependency("r2")
	anyNode := func(key string) {
		wf.AddLambdaNode(key, compose.InvokableLambda(func(ctx context.Context, in any) (string, error) {
			ev(ctx, "n:"+key)
			s := fmt.Sprintf("%T:", in) + renderAny(in)
			see(ctx, "node "+key, s)
			jitter(ctx, z.sched, key)
			return key + "<" + s + ">", nil
		})).AddInput("a").AddDependency("r2")
	}
	anyNode("c")
	ends := []string{"b", "c"}
	if twoAny {
		anyNode("d")
		ends = append(ends, "d")
	}
	if mapped {
		wf.AddLambdaNode("m", compose.InvokableLambda(func(ctx context.Context, in map[string]any) (string, error) {
			ev(ctx, "n:m")
			s := renderAny(in)
			see(ctx, "node m", s)
			jitter(ctx, z.sched, "m")
			return "m<" + s + ">", nil
		})).AddInput("a", compose.ToField("x")).AddDependency("r2")
		ends = append(ends, "m")
	}
	for _, k := range ends {
		wf.End().AddInput(k, compose.ToField(k))
	}
	copts := []compose.GraphCompileOption{compose.WithCheckPointStore(store), compose.WithGraphName("ckfan")}
	if after {
		copts = append(copts, compose.WithInterruptAfterNodes([]string{"a"}))
	}
	var run compose.Runnable[V, map[string]any]
	var err error
	if p := lib.Recover(func() { run, err = wf.Compile(context.Background(), copts...) }); p != nil {
		return nil, fmt.Errorf("compile panicked: %v", p)
	}
	if err != nil {
		return nil, err
	}
	shared := spare([]compose.Option{sharedLopt("S").DesignateNode("b"), sharedCb("so")})
	return &object{
		roots: []any{run, wf, shared}, proj: run,
		kind:  "ckfan",
		shape: []string{fmt.Sprintf("anyout:%v", anyOut), fmt.Sprintf("structout:%v", structOut), fmt.Sprintf("rerun:%v", rerun), fmt.Sprintf("after:%v", after), fmt.Sprintf("mapped:%v", mapped), fmt.Sprintf("twoany:%v", twoAny)},
		nIn:   3, paras: allParas,
		optSet:  []int{0, optLambdaDesignated, optCbGlobal, optCtxHandlers, optShared, optShared | optLambdaDesignated},
		baseCtx: sharedCtx,
		call: func(ctx context.Context, rc *callRec, sp spec) string {
			in := V{ID: rc.tag, Lim: sp.In, H: fmt.Sprintf("in%d", sp.In)}
			own := append(lambdaOpts(rc, sp.Opt, "a", "b"), cbOptions(rc, sp.Opt, nil)...)
			own = append(own, compose.WithCheckPointID("cf"+rc.tag))
			opts := withShared(sp.Opt, shared, own)
			trail := ""
			for round := 0; round < 6; round++ {
				var ierr error
				capture := codec[V, map[string]any]{chunkIn: oneChunk[V], concatOut: concatMaps, render: func(m map[string]any) string { return renderAny(m) }}
				res := runParaErr[V, map[string]any](ctx, run, sp.Para, in, capture, opts, &ierr)
				if info, ok := compose.ExtractInterruptInfo(ierr); ok {
					d := "I(" + strings.Join(info.BeforeNodes, ",") + "|" + strings.Join(info.AfterNodes, ",") + "|" + strings.Join(info.RerunNodes, ",") + "|)"
					if st, ok := info.State.(*St); ok && st != nil {
						stCheck(ctx, "interrupt info state", st)
					}
					ev(ctx, "interrupt:"+d)
					trail += d
					continue
				}
				if ierr != nil && res == "err:other" {
					res += ":" + ckfanErrClass(ierr)
				}
				return res + trail
			}
			return "err:too-many-interrupts" + trail
		},
	}, nil
}

// the stable part of a framework error of a checkpoint session (no addresses, no call tags)
func ckfanErrClass(err error) string {
	s := err.Error()
	for _, m := range []string{"failed to convert checkpoint", "failed to restore checkpoint", "failed to load checkpoint", "failed to set checkpoint", "chunk type mismatch", "unsupported chunk type", "unexpected input type", "stream reader is empty"} {
		if strings.Contains(s, m) {
			return strings.ReplaceAll(m, " ", "-")
		}
	}
	return "unclassified"
}
