// Fake components for engine C16: each implements one eino component interface, accepts
// that component's call options and records the payloads it received (in order) into the
// recorder of the current call (found through the context, never through the options).
package main

import (
	"context"
	"fmt"
	"runtime"
	"sort"
	"strings"
	"sync"

	"github.com/cloudwego/eino/callbacks"
	"github.com/cloudwego/eino/components/document"
	"github.com/cloudwego/eino/components/embedding"
	"github.com/cloudwego/eino/components/indexer"
	"github.com/cloudwego/eino/components/model"
	"github.com/cloudwego/eino/components/prompt"
	"github.com/cloudwego/eino/components/retriever"
	"github.com/cloudwego/eino/components/tool"
	"github.com/cloudwego/eino/compose"
	"github.com/cloudwego/eino/schema"
)

// option type ids (Model/Options.v: the ty of KComp / the first component of an item)
const (
	tyNone        = 0 // compose.unreachableOption: plain lambda, passthrough
	tyModel       = 1
	tyRetriever   = 2
	tyEmbedding   = 3
	tyPrompt      = 4
	tyTools       = 5
	tyLambdaA     = 6
	tyLambdaB     = 7
	tyIndexer     = 8
	tyLoader      = 9
	tyTransformer = 10
	// tyNil: not a component type — the "type" of the untyped nil handed to WithLambdaOption(nil):
	// reflect.TypeOf gives nil for it, no component has that option type, so it is of the wrong
	// type for every component it is designated to and reaches nobody undesignated
	tyNil = 11
	// lambdas DECLARED with an interface option type (opts ...any, opts ...fmt.Stringer — the form the
	// doc comments of compose.InvokableLambdaWithOption use). Options are routed by the identity of
	// reflect.TypeOf(value) with the node's declared option type, and the dynamic type of a value is
	// never an interface type: no option value has these types. Such a lambda is a node of another
	// type for every component option (it receives none of them undesignated), and whatever option
	// value is designated to it is of the wrong type. Only node types: mkItem never builds them.
	tyIfaceAny = 12
	tyIfaceStr = 13
	// unusual-but-legal concrete option types next to lambdaA's optA: the pointer type *optA and a
	// named type with the same underlying type (optA2: convertible to optA, not identical, not
	// assignable). Ordinary types for the model (an id of their own), values exist.
	tyPtrA   = 14
	tyNamedA = 15
	tyCount  = 16
)

var tyNames = []string{"none", "model", "retriever", "embedding", "prompt", "tools", "lambdaA", "lambdaB", "indexer", "loader", "transformer",
	"nil", "lambdaIfaceAny", "lambdaIfaceStringer", "lambdaPtrA", "lambdaNamedA"}

// valueTypes: the option types of which option values exist (what a pool of a case is drawn from)
var valueTypes = []int{tyModel, tyRetriever, tyEmbedding, tyPrompt, tyTools, tyLambdaA, tyLambdaB, tyIndexer, tyLoader, tyTransformer, tyPtrA, tyNamedA}

// isLambdaTy: the fake component of this option type is a lambda of this harness (takes the whole
// input map, may be native in any paradigm)
func isLambdaTy(ty int) bool {
	switch ty {
	case tyLambdaA, tyLambdaB, tyIfaceAny, tyIfaceStr, tyPtrA, tyNamedA:
		return true
	}
	return false
}

// isIfaceTy: a lambda declared with an interface option type
func isIfaceTy(ty int) bool { return ty == tyIfaceAny || ty == tyIfaceStr }

// toolCalls: the number of tool calls in the message every ToolsNode of a case is given (the
// fake tool records one execution per tool call)
const toolCalls = 2

// execsPerRun: how many executions a node records each time the engine runs it
func execsPerRun(nd Node) int {
	if nd.Kind == "comp" && nd.Ty == tyTools {
		return toolCalls
	}
	return 1
}

// sink is the implementation-specific option struct of every fake component: an option
// value with payload p appends p.
type sink struct{ ids []int }

func sinkFn(p int) func(*sink) { return func(s *sink) { s.ids = append(s.ids, p) } }

type optA struct{ ID int }
type optB struct{ ID int }
type optA2 optA

// optB implements fmt.Stringer: an optB value is assignable to the declared option type of the
// lambdaIfaceStringer nodes (and every value to that of the lambdaIfaceAny nodes) without being of it
func (o optB) String() string { return fmt.Sprint("optB#", o.ID) }

// mkItem builds one option value of Go type ty carrying payload p.
func mkItem(ty, p int) any {
	switch ty {
	case tyModel:
		return model.WrapImplSpecificOptFn(sinkFn(p))
	case tyRetriever:
		return retriever.WrapImplSpecificOptFn(sinkFn(p))
	case tyEmbedding:
		return embedding.WrapImplSpecificOptFn(sinkFn(p))
	case tyPrompt:
		return prompt.WrapImplSpecificOptFn(sinkFn(p))
	case tyTools:
		return compose.WithToolOption(tool.WrapImplSpecificOptFn(sinkFn(p)))
	case tyLambdaA:
		return optA{p}
	case tyLambdaB:
		return optB{p}
	case tyIndexer:
		return indexer.WrapImplSpecificOptFn(sinkFn(p))
	case tyLoader:
		return document.WrapLoaderImplSpecificOptFn(sinkFn(p))
	case tyTransformer:
		return document.WrapTransformerImplSpecificOptFn(sinkFn(p))
	case tyNil:
		return nil
	case tyPtrA:
		return &optA{p}
	case tyNamedA:
		return optA2{p}
	}
	panic("harness: no option value of this type")
}

func conv[T any](items []any) []T {
	out := make([]T, len(items))
	for i, it := range items {
		out[i] = it.(T)
	}
	return out
}

// mkOption builds a compose.Option from items through the typed public constructor when the
// items are uniform (and lambda is false), through WithLambdaOption(...any) otherwise.
// ---- spare capacity of the caller's slices (round 6) ---------------------------------------------
// WithLambdaOption(vals...), WithCallbacks(hs...) and DesignateNodeWithPath(ps...) are variadic: the Option
// keeps (or reads) the caller's slice, and a caller may well pass s[:n]... of a longer array. An
// implementation that appends to such a slice (an "avoid the allocation when there is only one" shortcut)
// writes into the caller's array: the caller's other slices of that array - options of another call - then
// carry what this call put there. Every second slice the harness hands to those constructors therefore has
// two more slots behind its length, filled with marks that nothing may overwrite (checked after the calls
// of the case: oracle clause caller-options-modified) and that nothing may ever see (a mark that reaches a
// node is an undecodable value, a mark handler that fires is a misplaced callback, a mark path designates an
// unknown node).
type spareMark struct{ tag string }

type spareRec struct {
	what string
	n    int
	vals []any
	hs   []callbacks.Handler
	ps   []*compose.NodePath
	ks   []string
}

var (
	spareRegs     []spareRec // the arrays handed out for the case being built (cases run one after the other)
	spareHandler  = mkHandler(spareHandlerID)
	sparePath     = compose.NewNodePath("spare-capacity-mark")
	spareValue    = spareMark{"spare capacity of the caller's slice"}
	spareSlotsLen = 2
)

const spareHandlerID = 7

func spareVals(vals []any, key int) []any {
	if key%2 != 0 {
		return vals
	}
	full := make([]any, len(vals)+spareSlotsLen)
	copy(full, vals)
	for i := len(vals); i < len(full); i++ {
		full[i] = spareValue
	}
	spareRegs = append(spareRegs, spareRec{what: "values", n: len(vals), vals: full})
	return full[:len(vals)]
}

func spareHs(hs []callbacks.Handler, key int) []callbacks.Handler {
	if key%2 != 0 {
		return hs
	}
	full := make([]callbacks.Handler, len(hs)+spareSlotsLen)
	copy(full, hs)
	for i := len(hs); i < len(full); i++ {
		full[i] = spareHandler
	}
	spareRegs = append(spareRegs, spareRec{what: "handlers", n: len(hs), hs: full})
	return full[:len(hs)]
}

func sparePaths(ps []*compose.NodePath, key int) []*compose.NodePath {
	if key%2 != 0 {
		return ps
	}
	full := make([]*compose.NodePath, len(ps)+spareSlotsLen)
	copy(full, ps)
	for i := len(ps); i < len(full); i++ {
		full[i] = sparePath
	}
	spareRegs = append(spareRegs, spareRec{what: "paths", n: len(ps), ps: full})
	return full[:len(ps)]
}

// spareKeys: the keys handed to NewNodePath (which keeps the slice; the path handed down into a sub graph is a
// sub-slice of it and inherits the room behind it)
func spareKeys(ks []string, key int) []string {
	if key%2 != 0 {
		return ks
	}
	full := make([]string, len(ks)+spareSlotsLen)
	copy(full, ks)
	for i := len(ks); i < len(full); i++ {
		full[i] = spareValue.tag
	}
	spareRegs = append(spareRegs, spareRec{what: "node keys", n: len(ks), ks: full})
	return full[:len(ks)]
}

// spareWritten: which of the arrays handed out for this case no longer ends in its marks ("" = none)
func spareWritten() string {
	for k, r := range spareRegs {
		for i := r.n; i < r.n+spareSlotsLen; i++ {
			ok := true
			switch r.what {
			case "values":
				ok = r.vals[i] == any(spareValue)
			case "handlers":
				ok = r.hs[i] == spareHandler
			case "paths":
				ok = r.ps[i] == sparePath
			case "node keys":
				ok = r.ks[i] == spareValue.tag
			}
			if !ok {
				return fmt.Sprintf("the array behind the %s slice no. %d the caller built its options from was written beyond the slice's length (slot %d of %d)", r.what, k, i, r.n+spareSlotsLen)
			}
		}
	}
	return ""
}

func mkOption(items [][2]int, lambda bool) compose.Option { return mkOptionSpare(items, lambda, false) }

// mkOptionSpare: spare = the option belongs to the script of a call (built by the goroutine that owns the case
// before any call starts): the slice handed to WithLambdaOption may get spare capacity with marks
func mkOptionSpare(items [][2]int, lambda bool, spare bool) compose.Option {
	vals := make([]any, len(items))
	uniform := true
	for i, it := range items {
		vals[i] = mkItem(it[0], it[1])
		if it[0] != items[0][0] {
			uniform = false
		}
	}
	lambdaVals := func() []any {
		if !spare {
			return vals
		}
		key := len(items)
		for _, it := range items {
			key += it[1]
		}
		return spareVals(vals, key)
	}
	if len(items) == 0 || !uniform || lambda {
		return compose.WithLambdaOption(lambdaVals()...)
	}
	switch items[0][0] {
	case tyModel:
		return compose.WithChatModelOption(conv[model.Option](vals)...)
	case tyRetriever:
		return compose.WithRetrieverOption(conv[retriever.Option](vals)...)
	case tyEmbedding:
		return compose.WithEmbeddingOption(conv[embedding.Option](vals)...)
	case tyPrompt:
		return compose.WithChatTemplateOption(conv[prompt.Option](vals)...)
	case tyTools:
		return compose.WithToolsNodeOption(conv[compose.ToolsNodeOption](vals)...)
	case tyIndexer:
		return compose.WithIndexerOption(conv[indexer.Option](vals)...)
	case tyLoader:
		return compose.WithLoaderOption(conv[document.LoaderOption](vals)...)
	case tyTransformer:
		return compose.WithDocumentTransformerOption(conv[document.TransformerOption](vals)...)
	}
	return compose.WithLambdaOption(lambdaVals()...)
}

// ---------------------------------------------------------------- recorder

type recKey struct{}

type recorder struct {
	mu     sync.Mutex
	delivs map[string][][]int // node path -> payloads received, per execution
	loop   map[string]int     // Back relay path -> how often the loop condition was asked
	ran    map[string]int     // node path -> number of executions
	fired  map[string][]int   // RunInfo.Name (node path) -> handler ids whose OnStart fired
	seed   uint64
}

func newRecorder(seed uint64) *recorder {
	return &recorder{delivs: map[string][][]int{}, loop: map[string]int{}, ran: map[string]int{}, fired: map[string][]int{}, seed: seed}
}

func recOf(ctx context.Context) *recorder {
	r, _ := ctx.Value(recKey{}).(*recorder)
	return r
}

// visit records one execution of the node at path with the payloads it decoded, after a
// seeded number of yields (schedule perturbation for the concurrent calls).
func visit(ctx context.Context, path string, ids []int) error {
	r := recOf(ctx)
	if r == nil {
		return nil
	}
	h := r.seed
	for i := 0; i < len(path); i++ {
		h = (h ^ uint64(path[i])) * 0x100000001b3
	}
	for n := int(h>>33) % 4; n > 0; n-- {
		runtime.Gosched()
	}
	r.mu.Lock()
	r.ran[path]++
	r.delivs[path] = append(r.delivs[path], append([]int{}, ids...))
	r.mu.Unlock()
	// a node marked "rerun" asks for an interrupt the first time it executes in the session
	// (after having recorded what it received in this call)
	if s, _ := ctx.Value(sessKey{}).(*session); s != nil {
		s.mu.Lock()
		defer s.mu.Unlock()
		if s.rerun[path] > 0 {
			s.rerun[path]--
			return compose.InterruptAndRerun
		}
	}
	return nil
}

// session: state of a resume case that outlives one call (the checkpoint store, the nodes
// that still have to ask for a rerun)
type sessKey struct{}

type session struct {
	mu    sync.Mutex
	rerun map[string]int
}

func mkHandler(id int) callbacks.Handler {
	fire := func(ctx context.Context, info *callbacks.RunInfo) {
		r := recOf(ctx)
		if r == nil || info == nil || !strings.HasPrefix(info.Name, "/") {
			return
		}
		r.mu.Lock()
		r.fired[info.Name] = append(r.fired[info.Name], id)
		r.mu.Unlock()
	}
	return callbacks.NewHandlerBuilder().
		OnStartFn(func(ctx context.Context, info *callbacks.RunInfo, in callbacks.CallbackInput) context.Context {
			fire(ctx, info)
			return ctx
		}).
		OnStartWithStreamInputFn(func(ctx context.Context, info *callbacks.RunInfo, in *schema.StreamReader[callbacks.CallbackInput]) context.Context {
			in.Close()
			fire(ctx, info)
			return ctx
		}).Build()
}

func mkHandlers(ids []int) []callbacks.Handler {
	out := make([]callbacks.Handler, len(ids))
	for i, id := range ids {
		out[i] = mkHandler(id)
	}
	return out
}

func sortedCopy(a []int) []int {
	b := append([]int{}, a...)
	sort.Ints(b)
	return b
}

// ---------------------------------------------------------------- components

type fakeModel struct{ path string }

func (m *fakeModel) Generate(ctx context.Context, in []*schema.Message, opts ...model.Option) (*schema.Message, error) {
	if err := visit(ctx, m.path, model.GetImplSpecificOptions(&sink{}, opts...).ids); err != nil {
		return nil, err
	}
	return schema.AssistantMessage("m", nil), nil
}
func (m *fakeModel) Stream(ctx context.Context, in []*schema.Message, opts ...model.Option) (*schema.StreamReader[*schema.Message], error) {
	if err := visit(ctx, m.path, model.GetImplSpecificOptions(&sink{}, opts...).ids); err != nil {
		return nil, err
	}
	return schema.StreamReaderFromArray([]*schema.Message{schema.AssistantMessage("m", nil)}), nil
}

type fakeRetriever struct{ path string }

func (m *fakeRetriever) Retrieve(ctx context.Context, q string, opts ...retriever.Option) ([]*schema.Document, error) {
	if err := visit(ctx, m.path, retriever.GetImplSpecificOptions(&sink{}, opts...).ids); err != nil {
		return nil, err
	}
	return []*schema.Document{{ID: "d"}}, nil
}

type fakeEmbedder struct{ path string }

func (m *fakeEmbedder) EmbedStrings(ctx context.Context, texts []string, opts ...embedding.Option) ([][]float64, error) {
	if err := visit(ctx, m.path, embedding.GetImplSpecificOptions(&sink{}, opts...).ids); err != nil {
		return nil, err
	}
	return [][]float64{{1}}, nil
}

type fakeTemplate struct{ path string }

func (m *fakeTemplate) Format(ctx context.Context, vs map[string]any, opts ...prompt.Option) ([]*schema.Message, error) {
	if err := visit(ctx, m.path, prompt.GetImplSpecificOptions(&sink{}, opts...).ids); err != nil {
		return nil, err
	}
	return []*schema.Message{schema.UserMessage("t")}, nil
}

type fakeIndexer struct{ path string }

func (m *fakeIndexer) Store(ctx context.Context, docs []*schema.Document, opts ...indexer.Option) ([]string, error) {
	if err := visit(ctx, m.path, indexer.GetImplSpecificOptions(&sink{}, opts...).ids); err != nil {
		return nil, err
	}
	return []string{"i"}, nil
}

type fakeLoader struct{ path string }

func (m *fakeLoader) Load(ctx context.Context, src document.Source, opts ...document.LoaderOption) ([]*schema.Document, error) {
	if err := visit(ctx, m.path, document.GetLoaderImplSpecificOptions(&sink{}, opts...).ids); err != nil {
		return nil, err
	}
	return []*schema.Document{{ID: "l"}}, nil
}

type fakeTransformer struct{ path string }

func (m *fakeTransformer) Transform(ctx context.Context, src []*schema.Document, opts ...document.TransformerOption) ([]*schema.Document, error) {
	if err := visit(ctx, m.path, document.GetTransformerImplSpecificOptions(&sink{}, opts...).ids); err != nil {
		return nil, err
	}
	return src, nil
}

// the tool inside a real ToolsNode: the ToolsNode options carry tool options, which reach the tool
type fakeTool struct{ path string }

func (t *fakeTool) Info(ctx context.Context) (*schema.ToolInfo, error) {
	return &schema.ToolInfo{Name: "faketool", Desc: "records its options"}, nil
}
func (t *fakeTool) InvokableRun(ctx context.Context, args string, opts ...tool.Option) (string, error) {
	if err := visit(ctx, t.path, tool.GetImplSpecificOptions(&sink{}, opts...).ids); err != nil {
		return "", err
	}
	return "ok", nil
}

func idsA(opts []optA) []int {
	out := make([]int, len(opts))
	for i, o := range opts {
		out[i] = o.ID
	}
	return out
}
func idsB(opts []optB) []int {
	out := make([]int, len(opts))
	for i, o := range opts {
		out[i] = o.ID
	}
	return out
}

func idsPtrA(opts []*optA) []int {
	out := make([]int, len(opts))
	for i, o := range opts {
		out[i] = undecodable
		if o != nil {
			out[i] = o.ID
		}
	}
	return out
}
func idsNamedA(opts []optA2) []int {
	out := make([]int, len(opts))
	for i, o := range opts {
		out[i] = o.ID
	}
	return out
}

// undecodable: payload reported for an option value whose payload the receiving node cannot read
const undecodable = 999999

// payloadOf: the payload of whatever option value a lambda declared with an interface option type
// is handed (it should never be handed any)
func payloadOf(o any) int {
	one := func(ids []int) int {
		if len(ids) == 1 {
			return ids[0]
		}
		return undecodable
	}
	switch v := o.(type) {
	case optA:
		return v.ID
	case optB:
		return v.ID
	case optA2:
		return v.ID
	case *optA:
		if v != nil {
			return v.ID
		}
	case model.Option:
		return one(model.GetImplSpecificOptions(&sink{}, v).ids)
	case retriever.Option:
		return one(retriever.GetImplSpecificOptions(&sink{}, v).ids)
	case embedding.Option:
		return one(embedding.GetImplSpecificOptions(&sink{}, v).ids)
	case prompt.Option:
		return one(prompt.GetImplSpecificOptions(&sink{}, v).ids)
	case indexer.Option:
		return one(indexer.GetImplSpecificOptions(&sink{}, v).ids)
	case document.LoaderOption:
		return one(document.GetLoaderImplSpecificOptions(&sink{}, v).ids)
	case document.TransformerOption:
		return one(document.GetTransformerImplSpecificOptions(&sink{}, v).ids)
	case tool.Option:
		return one(tool.GetImplSpecificOptions(&sink{}, v).ids)
	}
	return undecodable
}
func idsAny(opts []any) []int {
	out := make([]int, len(opts))
	for i, o := range opts {
		out[i] = payloadOf(o)
	}
	return out
}
func idsStringer(opts []fmt.Stringer) []int {
	out := make([]int, len(opts))
	for i, o := range opts {
		out[i] = payloadOf(o)
	}
	return out
}

// optLambda: a lambda with call options of type T that records the payloads it receives. nat
// chooses which of the four paradigms the lambda implements natively (0 Invoke, 1 Stream,
// 2 Collect, 3 Transform, 4 Invoke+Transform, 5 Stream+Collect); the graph derives the others,
// and the derived views (invokeByStream, streamByCollect, ... of compose/runnable.go) have to
// hand the node's options on.
func optLambda[T any](path string, nat int, ids func([]T) []int) *compose.Lambda {
	drain := func(in *schema.StreamReader[map[string]any]) {
		for {
			if _, err := in.Recv(); err != nil {
				break
			}
		}
		in.Close()
	}
	i := func(ctx context.Context, in map[string]any, opts ...T) (string, error) {
		if err := visit(ctx, path, ids(opts)); err != nil {
			return "", err
		}
		return "x", nil
	}
	s := func(ctx context.Context, in map[string]any, opts ...T) (*schema.StreamReader[string], error) {
		if err := visit(ctx, path, ids(opts)); err != nil {
			return nil, err
		}
		return schema.StreamReaderFromArray([]string{"x"}), nil
	}
	c := func(ctx context.Context, in *schema.StreamReader[map[string]any], opts ...T) (string, error) {
		drain(in)
		if err := visit(ctx, path, ids(opts)); err != nil {
			return "", err
		}
		return "x", nil
	}
	t := func(ctx context.Context, in *schema.StreamReader[map[string]any], opts ...T) (*schema.StreamReader[string], error) {
		drain(in)
		if err := visit(ctx, path, ids(opts)); err != nil {
			return nil, err
		}
		return schema.StreamReaderFromArray([]string{"x"}), nil
	}
	switch nat {
	case 1:
		return compose.StreamableLambdaWithOption(s)
	case 2:
		return compose.CollectableLambdaWithOption(c)
	case 3:
		return compose.TransformableLambdaWithOption(t)
	case 4:
		l, err := compose.AnyLambda(i, nil, nil, t)
		if err != nil {
			panic(err)
		}
		return l
	case 5:
		l, err := compose.AnyLambda(nil, s, c, nil)
		if err != nil {
			panic(err)
		}
		return l
	}
	return compose.InvokableLambdaWithOption(i)
}

// addComp adds the fake component of option type ty under key to g and returns the value the
// node expects as input, which it takes from the entry of the input map named by its node path
// (nil: a lambda, which takes the whole map).
func addComp(ctx context.Context, g nodeSink, key, path string, ty, nat int) (any, error) {
	o := []compose.GraphAddNodeOpt{compose.WithNodeName(path), compose.WithInputKey(path), compose.WithOutputKey(key)}
	lo := []compose.GraphAddNodeOpt{compose.WithNodeName(path), compose.WithOutputKey(key)}
	if g.isWorkflow() {
		// a workflow node is fed through field mappings (wf.go), not through input / output keys
		o = []compose.GraphAddNodeOpt{compose.WithNodeName(path)}
		lo = o
	}
	switch ty {
	case tyNone:
		l := compose.InvokableLambda(func(ctx context.Context, in map[string]any) (string, error) {
			if err := visit(ctx, path, nil); err != nil {
				return "", err
			}
			return "x", nil
		})
		return nil, g.AddLambdaNode(key, l, lo...)
	case tyModel:
		return []*schema.Message{schema.UserMessage("q")}, g.AddChatModelNode(key, &fakeModel{path}, o...)
	case tyRetriever:
		return "q", g.AddRetrieverNode(key, &fakeRetriever{path}, o...)
	case tyEmbedding:
		return []string{"e"}, g.AddEmbeddingNode(key, &fakeEmbedder{path}, o...)
	case tyPrompt:
		return map[string]any{"v": "1"}, g.AddChatTemplateNode(key, &fakeTemplate{path}, o...)
	case tyTools:
		tn, err := compose.NewToolNode(ctx, &compose.ToolsNodeConfig{Tools: []tool.BaseTool{&fakeTool{path}}})
		if err != nil {
			return nil, err
		}
		// toolCalls tool calls: the ToolsNode runs the first one on its own goroutine and every
		// other one on a goroutine of its own; each of them must be handed the tool options
		calls := make([]schema.ToolCall, toolCalls)
		for i := range calls {
			calls[i] = schema.ToolCall{ID: fmt.Sprintf("c%d", i+1), Function: schema.FunctionCall{Name: "faketool", Arguments: "{}"}}
		}
		msg := schema.AssistantMessage("", calls)
		return msg, g.AddToolsNode(key, tn, o...)
	case tyLambdaA:
		return nil, g.AddLambdaNode(key, optLambda(path, nat, idsA), lo...)
	case tyLambdaB:
		return nil, g.AddLambdaNode(key, optLambda(path, nat, idsB), lo...)
	case tyIfaceAny:
		return nil, g.AddLambdaNode(key, optLambda(path, nat, idsAny), lo...)
	case tyIfaceStr:
		return nil, g.AddLambdaNode(key, optLambda(path, nat, idsStringer), lo...)
	case tyPtrA:
		return nil, g.AddLambdaNode(key, optLambda(path, nat, idsPtrA), lo...)
	case tyNamedA:
		return nil, g.AddLambdaNode(key, optLambda(path, nat, idsNamedA), lo...)
	case tyIndexer:
		return []*schema.Document{{ID: "d"}}, g.AddIndexerNode(key, &fakeIndexer{path}, o...)
	case tyLoader:
		return document.Source{URI: "u"}, g.AddLoaderNode(key, &fakeLoader{path}, o...)
	case tyTransformer:
		return []*schema.Document{{ID: "d"}}, g.AddDocumentTransformerNode(key, &fakeTransformer{path}, o...)
	}
	panic("harness: bad component type")
}
