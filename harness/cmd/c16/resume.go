// Resume cases of engine C16: one session of calls on one checkpoint id. Call 0 starts the
// run; it is interrupted (interrupt before / after a node, InterruptAndRerun, at the top
// level or inside a nested graph); every later call resumes from the checkpoint with its own
// call options, until one call completes. What C16 demands of every call of the session —
// started fresh or re-entered from a checkpoint — is the same: the nodes that execute in this
// call receive exactly what this call's options address to them, and nothing of an earlier
// call.
//
// Which nodes execute in which call is the business of the engine (C01/C02 and the checkpoint
// properties), not of C16: it is observed (a component records its execution, a graph node is
// "entered" when the call's probe handler — a global WithCallbacks option every call of a
// resume case carries — fires on it) and handed to the model as the set of executing nodes of
// that call.
package main

import (
	"context"
	"fmt"
	"sort"
	"strings"
	"sync"
	"time"

	"github.com/cloudwego/eino/components/document"
	"github.com/cloudwego/eino/compose"

	"verif/harness/lib"
)

func init() {
	// the loader node's input sits in checkpoints
	_ = compose.RegisterSerializableType[document.Source]("verif_c16_document_source")
	_ = compose.RegisterSerializableType[[]float64]("verif_c16_float64s")
}

type memStore struct {
	mu sync.Mutex
	m  map[string][]byte
}

func (s *memStore) Get(_ context.Context, id string) ([]byte, bool, error) {
	s.mu.Lock()
	defer s.mu.Unlock()
	v, ok := s.m[id]
	return v, ok, nil
}
func (s *memStore) Set(_ context.Context, id string, cp []byte) error {
	s.mu.Lock()
	defer s.mu.Unlock()
	s.m[id] = append([]byte{}, cp...)
	return nil
}

// Ck: what the public InterruptInfo of an interrupted call shows of the checkpoint it left:
// keys that certainly are inputs of the checkpoint (interrupt-before nodes, rerun nodes,
// interrupted sub graphs) and the nested checkpoints of the interrupted sub graphs.
type Ck struct {
	In   []int       `json:"in"`
	Subs map[int]*Ck `json:"subs,omitempty"`
}

func keyInt(s string) int {
	n := 0
	fmt.Sscanf(s, "k%d", &n)
	return n
}

func ckOf(info *compose.InterruptInfo) *Ck {
	if info == nil {
		return nil
	}
	set := map[int]bool{}
	for _, k := range info.BeforeNodes {
		set[keyInt(k)] = true
	}
	for _, k := range info.RerunNodes {
		set[keyInt(k)] = true
	}
	ck := &Ck{In: []int{}}
	for k, sub := range info.SubGraphs {
		set[keyInt(k)] = true
		if ck.Subs == nil {
			ck.Subs = map[int]*Ck{}
		}
		ck.Subs[keyInt(k)] = ckOf(sub)
	}
	for k := range set {
		ck.In = append(ck.In, k)
	}
	sort.Ints(ck.In)
	return ck
}

func coqCk(ck *Ck) string {
	if ck == nil {
		return "None"
	}
	return lib.CoqApp("Some", coqCk1(ck))
}

func coqCk1(ck *Ck) string {
	ks := make([]int, 0, len(ck.Subs))
	for k := range ck.Subs {
		ks = append(ks, k)
	}
	sort.Ints(ks)
	subs := make([]string, 0, len(ks))
	for _, k := range ks {
		if ck.Subs[k] == nil {
			continue
		}
		subs = append(subs, lib.CoqPair(lib.CoqN(uint64(k)), coqCk1(ck.Subs[k])))
	}
	return lib.CoqApp("Ckpt", coqInts(ck.In), lib.CoqList(subs))
}

// probeID: the handler id of the global probe of call ci
func probeID(ci int) int { return (ci+1)*10 + 9 }

// walkTree enumerates the tree unfolding of the forest (every node with its full path) in DFS
// order, descending only into sub graph nodes for which sel holds.
func walkTree(F []Graph, gi int, pre []int, depth int, sel func(p []int, nd Node) bool, fn visitFn) {
	if gi < 0 || gi >= len(F) || depth > len(F) {
		return
	}
	for _, nd := range F[gi].Nodes {
		p := append(append([]int{}, pre...), nd.Key)
		if !sel(p, nd) {
			continue
		}
		fn(p, nd)
		if nd.Kind == "sub" {
			walkTree(F, nd.Sub, p, depth+1, sel, fn)
		}
	}
}

func selAll(p []int, nd Node) bool { return true }

func runResume(c *Case) (obs []CallObs, fatal string) {
	ctx := context.Background()
	obs = make([]CallObs, len(c.Calls))
	for i := range obs {
		obs[i] = CallObs{Class: "unused"}
	}
	var b *built
	var r compose.Runnable[map[string]any, map[string]any]
	var err error
	store := &memStore{m: map[string][]byte{}}
	if p := lib.Recover(func() {
		b, err = buildGraph(ctx, c.Forest, 0, nil, 0)
		if err != nil {
			return
		}
		r, err = b.g.Compile(ctx, append(compileOpts(c.Forest[0]), compose.WithGraphName("/"), compose.WithCheckPointStore(store))...)
	}); p != nil {
		return nil, fmt.Sprint("panic while building: ", p)
	}
	if err != nil {
		return nil, "compile: " + err.Error()
	}
	opts, err := buildAllOpts(c)
	if err != nil {
		return nil, err.Error()
	}
	for i, cl := range c.Calls {
		o := opts[i]
		pos := 0
		if cl.CpPos > 0 {
			pos = cl.CpPos % (len(o) + 1)
		}
		w := append([]compose.Option{}, o[:pos]...)
		w = append(w, compose.WithCheckPointID("cp"))
		opts[i] = append(w, o[pos:]...)
	}
	sess := &session{rerun: map[string]int{}}
	walkTree(c.Forest, 0, nil, 0, selAll, func(p []int, nd Node) {
		if nd.Rerun && nd.Kind != "sub" && nd.Kind != "pass" {
			sess.rerun[pathName(p)] = 1
		}
	})
	sctx := context.WithValue(ctx, sessKey{}, sess)
	var ck *Ck // what the store holds, as far as the last interrupt showed it
	changed := make([]string, len(c.Calls))
	defer func() {
		for i := range obs {
			if changed[i] != "" && obs[i].Class != "hang" && obs[i].Class != "" {
				obs[i].ArgsChanged = changed[i]
			}
		}
		if d := spareWritten(); d != "" {
			for i := len(obs) - 1; i >= 0; i-- {
				if obs[i].Class != "hang" && obs[i].Class != "" {
					if obs[i].ArgsChanged == "" {
						obs[i].ArgsChanged = d
					}
					break
				}
			}
		}
	}()
	for i := range c.Calls {
		cl := c.Calls[i]
		rec := newRecorder(c.Sched + uint64(i)*7919)
		cctx := context.WithValue(sctx, recKey{}, rec)
		done := make(chan struct{})
		var cerr error
		var pan any
		saved := append([]compose.Option(nil), opts[i][:cap(opts[i])]...)
		go func() {
			defer close(done)
			pan = lib.Recover(func() {
				cerr = callRunnable(cctx, r, b.input(), cl, opts[i])
			})
		}()
		select {
		case <-done:
		case <-time.After(45 * time.Second):
			obs[i] = CallObs{Class: "hang"}
			return obs, ""
		}
		changed[i] = optionsChanged(saved, opts[i][:cap(opts[i])])
		if pan != nil {
			obs[i] = CallObs{Class: "panic", Err: fmt.Sprint(pan)}
			return obs, ""
		}
		if cerr != nil {
			info, isInt := compose.ExtractInterruptInfo(cerr)
			if !isInt {
				// rejected before anything ran (a bad designation): the checkpoint is untouched,
				// the next call resumes from the same point
				obs[i] = CallObs{Class: "err", Err: firstLine(cerr.Error()), Ck: ck}
				continue
			}
			obs[i] = collectStep(c, i, rec, "int")
			obs[i].Ck = ck
			ck = ckOf(info)
			continue
		}
		obs[i] = collectStep(c, i, rec, "ok")
		obs[i].Ck = ck
		break
	}
	return obs, ""
}

// ranSet: the nodes that executed / were entered in the call recorded by o
func ranSet(o CallObs) map[string]bool {
	m := map[string]bool{}
	for _, n := range o.Ran {
		m[n] = true
	}
	return m
}

func selRan(o CallObs) func(p []int, nd Node) bool {
	m := ranSet(o)
	return func(p []int, nd Node) bool { return m[pathName(p)] }
}

// collectStep turns the recorder of one call of a session into the canonical observation.
func collectStep(c *Case, ci int, rec *recorder, class string) CallObs {
	rec.mu.Lock()
	defer rec.mu.Unlock()
	o := CallObs{Class: class, Deliv: []PL{}, Fired: []PL{}}
	var extra []string
	// executed: a component recorded its execution; a graph node was entered when a handler
	// fired on it (the probe of this call, a global callback option, reaches every node)
	ran := map[string]bool{}
	walkTree(c.Forest, 0, nil, 0, selAll, func(p []int, nd Node) {
		name := pathName(p)
		switch nd.Kind {
		case "comp", "relay":
			if rec.ran[name] > 0 {
				ran[name] = true
			}
			if rec.ran[name] > 0 && rec.ran[name] != execsPerRun(nd) {
				extra = append(extra, fmt.Sprintf("node %s executed %d times in one call", name, rec.ran[name]))
			}
		case "sub":
			if len(rec.fired[name]) > 0 {
				ran[name] = true
			}
		case "pass":
			if len(rec.fired[name]) > 0 {
				extra = append(extra, "callback fired for passthrough "+name)
			}
		}
	})
	known := map[string]bool{"/": true}
	walkTree(c.Forest, 0, nil, 0, selAll, func(p []int, nd Node) {
		name := pathName(p)
		known[name] = true
		if ran[name] && len(p) > 1 && !ran[pathName(p[:len(p)-1])] {
			extra = append(extra, fmt.Sprintf("node %s executed but no handler (not even the global probe) fired on its graph node %s", name, pathName(p[:len(p)-1])))
		}
		if !ran[name] && len(rec.fired[name]) > 0 {
			extra = append(extra, "callback fired at "+name+" although the node did not execute")
		}
	})
	for name := range rec.ran {
		if !known[name] {
			extra = append(extra, "unknown node "+name+" executed")
		}
	}
	for name := range rec.fired {
		if !known[name] {
			extra = append(extra, "callback fired at unknown node "+name)
		}
	}
	o.Fired = append(o.Fired, PL{Path: []int{}, Vals: sortedCopy(rec.fired["/"])})
	sel := func(p []int, nd Node) bool { return ran[pathName(p)] }
	walkTree(c.Forest, 0, nil, 0, sel, func(p []int, nd Node) {
		name := pathName(p)
		o.Ran = append(o.Ran, name)
		switch nd.Kind {
		case "comp", "relay":
			vals := []int{}
			for k, d := range rec.delivs[name] {
				if k == 0 {
					vals = append(vals, d...)
				} else if !eqInts(d, rec.delivs[name][0]) {
					o.Differ = append(o.Differ, fmt.Sprintf("%s received %v in execution 1 and %v in execution %d", name, rec.delivs[name][0], d, k+1))
				}
			}
			o.Deliv = append(o.Deliv, PL{Path: p, Vals: vals})
			o.Fired = append(o.Fired, PL{Path: p, Vals: sortedCopy(rec.fired[name])})
		case "sub":
			o.Fired = append(o.Fired, PL{Path: p, Vals: sortedCopy(rec.fired[name])})
		}
	})
	if len(extra) > 0 {
		sort.Strings(extra)
		o.Extra = strings.Join(extra, "; ")
	}
	return o
}

// coqResumeCase: CaseR forest [(checkpoint the call was entered with, call, observation); ...]
// over the executed calls. The forest is the case's forest as it is: which nodes executed in
// which call is part of the observation (one entry per executed node), not of the model's input.
func coqResumeCase(c *Case, obs []CallObs) string {
	var steps []string
	for i, o := range obs {
		if o.Class == "unused" {
			continue
		}
		steps = append(steps, lib.CoqPair(lib.CoqPair(coqCk(o.Ck), coqCall(c.Calls[i])), coqObs(o)))
	}
	return lib.CoqApp("CaseR", coqForest(c.Forest), lib.CoqList(steps))
}

// judgeSession: what must hold of the session as a whole for the per-call comparison to mean
// something (a run that silently skips a node would have nothing to compare there).
func judgeSession(c *Case, obs []CallObs, tags map[string]bool, fail func(sig, what string)) {
	tags["case:resume"] = true
	steps, ints, errs := 0, 0, 0
	completed := false
	count := map[string]int{}
	for _, o := range obs {
		switch o.Class {
		case "unused":
			continue
		case "ok":
			completed = true
		case "int":
			ints++
		case "err":
			errs++
		}
		steps++
		for _, n := range o.Ran {
			count[n]++
		}
	}
	tags[fmt.Sprintf("session-calls:%d", steps)] = true
	tags[fmt.Sprintf("session-interrupts:%d", min(ints, 5))] = true
	if !completed {
		tags["session:not-completed"] = true
		return
	}
	tags["session:completed"] = true
	// every selected component executed exactly once over the session (twice when it asked for
	// a rerun), every selected graph node was entered
	walkTree(c.Forest, 0, nil, 0, func(p []int, nd Node) bool { return nd.Runs }, func(p []int, nd Node) {
		name := pathName(p)
		switch nd.Kind {
		case "comp", "relay":
			want := 1
			if nd.Rerun {
				want = 2
			}
			if count[name] != want {
				fail("harness-anomaly", fmt.Sprintf("session completed but node %s executed %d times (expected %d)", name, count[name], want))
			}
		case "sub":
			if count[name] == 0 {
				fail("harness-anomaly", fmt.Sprintf("session completed but graph node %s was never entered", name))
			}
		}
	})
}
