// Direct oracle of engine C16: "who should receive what", computed straight from the text of
// the property on the tree unfolding of the forest — no recursion over option lists, no
// per-graph extraction (that is what the implementation and the Coq model do).
package main

import (
	"fmt"
	"sort"
	"strings"

	"verif/harness/lib"
)

// resolved option of a call: the items / handlers of its base constructor and every path
// designated along its derivation chain, in order.
type ropt struct {
	items [][2]int
	hs    []int
	paths [][]int
}

func resolve(c Call) []ropt {
	var env []ropt
	for _, b := range c.Script {
		switch b.Op {
		case "items":
			env = append(env, ropt{items: b.Items})
		case "handlers":
			env = append(env, ropt{hs: b.Hs})
		case "inert":
			env = append(env, ropt{})
		default:
			p := env[b.Parent]
			n := ropt{items: p.items, hs: p.hs}
			n.paths = append(append([][]int{}, p.paths...), b.Paths...)
			env = append(env, n)
		}
	}
	out := make([]ropt, len(c.Pass))
	for i, j := range c.Pass {
		out[i] = env[j]
	}
	return out
}

func findNode(g Graph, k int) *Node {
	for i := range g.Nodes {
		if g.Nodes[i].Key == k {
			return &g.Nodes[i]
		}
	}
	return nil
}

// badPath: is designating q with option o an error by the property text (empty path, unknown
// node, path below a non-graph node, option of the wrong type)? reached = the graph in which
// the fault sits executes in this call.
func badPath(F []Graph, o ropt, q []int) (bad bool, reached bool, why string) {
	if len(q) == 0 {
		return true, true, "empty"
	}
	gi, reached := 0, true
	for i, k := range q {
		nd := findNode(F[gi], k)
		if nd == nil {
			return true, reached, "unknown"
		}
		last := i == len(q)-1
		if nd.Kind != "sub" {
			if !last {
				return true, reached, "below-component"
			}
			if len(o.items) > 0 && o.items[0][0] != nd.ty() {
				return true, reached, "wrong-type"
			}
			return false, reached, ""
		}
		if last {
			return false, reached, ""
		}
		reached = reached && nd.Runs
		gi = nd.Sub
	}
	return false, reached, ""
}

// nodeAt: the node path q designates (nil: none)
func nodeAt(F []Graph, q []int) *Node {
	gi := 0
	for i, k := range q {
		if gi < 0 || gi >= len(F) {
			return nil
		}
		nd := findNode(F[gi], k)
		if nd == nil {
			return nil
		}
		if i == len(q)-1 {
			return nd
		}
		if nd.Kind != "sub" {
			return nil
		}
		gi = nd.Sub
	}
	return nil
}

func eqPath(a, b []int) bool {
	if len(a) != len(b) {
		return false
	}
	for i := range a {
		if a[i] != b[i] {
			return false
		}
	}
	return true
}

// q is a non-empty prefix of p, strictly shorter
func properPrefix(q, p []int) bool {
	return len(q) > 0 && len(q) < len(p) && eqPath(q, p[:len(q)])
}

// addressed: the items of o delivered to component node p of option type ty, once per
// addressing occurrence, in path order.
func addressedItems(o ropt, p []int, ty int) [][2]int {
	if len(o.items) == 0 {
		return nil
	}
	match := o.items[0][0] == ty
	var out [][2]int
	if len(o.paths) == 0 {
		if match {
			out = append(out, o.items...)
		}
		return out
	}
	for _, q := range o.paths {
		if eqPath(q, p) || (properPrefix(q, p) && match) {
			out = append(out, o.items...)
		}
	}
	return out
}

func handlerAddressed(o ropt, p []int) bool {
	if len(o.paths) == 0 {
		return true
	}
	for _, q := range o.paths {
		if len(q) > 0 && len(q) <= len(p) && eqPath(q, p[:len(q)]) {
			return true
		}
	}
	return false
}

// firedMult: how often the handlers of option o are applied at the node at path p (closed form,
// Coq: Model/OptionsSpec.v fired_mult, theorem callbacks_multiplicity): once if o is
// undesignated; once if some path of o designates the first node of p at the top level; once per
// path of length >= 2 that is p or a prefix of p.
func firedMult(o ropt, p []int) int {
	if len(o.paths) == 0 {
		return 1
	}
	if len(p) == 0 {
		return 0
	}
	m := 0
	for _, q := range o.paths {
		if len(q) == 1 && q[0] == p[0] {
			m = 1
			break
		}
	}
	for _, q := range o.paths {
		if len(q) >= 2 && len(q) <= len(p) && eqPath(q, p[:len(q)]) {
			m++
		}
	}
	return m
}

func setOf(a []int) []int {
	m := map[int]bool{}
	for _, x := range a {
		m[x] = true
	}
	out := make([]int, 0, len(m))
	for x := range m {
		out = append(out, x)
	}
	sort.Ints(out)
	return out
}

func eqInts(a, b []int) bool { return eqPath(a, b) }

// payloadOwner / handlerOwner: which calls' scripts contain the payload / handler id (with
// shared options a value belongs to every call whose script builds it)
func payloadOwner(calls []Call) map[int]map[int]bool {
	own := map[int]map[int]bool{}
	for i, c := range calls {
		for _, b := range c.Script {
			for _, it := range b.Items {
				if own[it[1]] == nil {
					own[it[1]] = map[int]bool{}
				}
				own[it[1]][i] = true
			}
		}
	}
	return own
}

func handlerOwner(calls []Call) map[int]map[int]bool {
	own := map[int]map[int]bool{}
	for i, c := range calls {
		for _, h := range c.HostHs {
			if own[h] == nil {
				own[h] = map[int]bool{}
			}
			own[h][i] = true
		}
		for _, b := range c.Script {
			for _, h := range b.Hs {
				if own[h] == nil {
					own[h] = map[int]bool{}
				}
				own[h][i] = true
			}
		}
	}
	return own
}

func judge(c *Case, obs []CallObs, res *lib.Result) {
	fail := func(sig, what string) {
		if res.Oracle == "" {
			res.Oracle, res.Sig = what, sig
		}
	}
	tags := map[string]bool{}
	tags[fmt.Sprintf("graphs:%d", len(c.Forest))] = true
	nn, depth := 0, 0
	walk(c.Forest, 0, nil, 0, func(p []int, nd Node) {
		nn++
		if len(p) > depth {
			depth = len(p)
		}
	})
	tags[fmt.Sprintf("running-nodes:%d", min(nn, 12))] = true
	tags[fmt.Sprintf("depth:%d", depth)] = true
	for _, g := range c.Forest {
		if g.Loop > 0 {
			tags[fmt.Sprintf("loop:%d", g.Loop)] = true
		}
		if g.Chain {
			tags["mode:chain-"+chainShape(g)] = true
		} else if g.Wf {
			tags["mode:workflow"] = true
		} else if g.Dag {
			tags["mode:dag"] = true
		} else {
			tags["mode:pregel"] = true
		}
		for _, nd := range g.Nodes {
			if !nd.Runs {
				tags["has-unselected-node"] = true
				if nd.Kind == "sub" {
					tags["has-unselected-subgraph"] = true
				}
			}
			if nd.Kind == "comp" {
				tags["comp:"+tyNames[nd.Ty]] = true
				if nd.Nat != 0 {
					tags[fmt.Sprintf("lambda-native:%d", nd.Nat)] = true
				}
			} else {
				tags["kind:"+nd.Kind] = true
			}
		}
	}
	if c.Share {
		tags["options:shared-between-calls"] = true
	}
	if c.Seq {
		tags["calls:sequential"] = true
	} else {
		tags["calls:concurrent"] = true
	}
	pOwn, hOwn := payloadOwner(c.Calls), handlerOwner(c.Calls)
	if c.Resume {
		judgeSession(c, obs, tags, fail)
		for _, g := range c.Forest {
			if len(g.IB) > 0 {
				tags["interrupt:before"] = true
			}
			if len(g.IA) > 0 {
				tags["interrupt:after"] = true
			}
			for _, nd := range g.Nodes {
				if nd.Rerun {
					tags["interrupt:rerun"] = true
				}
				if nd.Pred != 0 {
					tags["shape:chains"] = true
				}
			}
		}
	}
	for i, cl := range c.Calls {
		o := obs[i]
		if o.Class == "unused" {
			continue
		}
		// the nodes that execute in this call: the selected ones, or (resume cases) the observed ones
		sel := func(p []int, nd Node) bool { return nd.Runs }
		if c.Resume && o.Class != "err" {
			sel = selRan(o)
		}
		opts := resolve(cl)
		switch {
		case cl.InStr && cl.Stream:
			tags["call:transform"] = true
		case cl.InStr:
			tags["call:collect"] = true
		case cl.Stream:
			tags["call:stream"] = true
		default:
			tags["call:invoke"] = true
		}
		tags["class:"+o.Class] = true
		if cl.Host > 0 {
			tags[fmt.Sprintf("call:hosted-%d", cl.Host)] = true
			if len(cl.HostHs) > 0 {
				tags["call:hosted-with-handlers"] = true
			}
			if cl.HostBait {
				tags["call:hosted-with-foreign-options"] = true
			}
		}
		// what the property demands
		badAny := false
		whyAny := ""
		designated, nestedDesignated, hasCb := false, false, false
		if len(cl.Pass) == 0 {
			tags["call:no-options"] = true
		}
		for _, j := range cl.Pass {
			if j >= 0 && j < len(cl.Script) {
				root := j
				for cl.Script[root].Op == "designate" {
					root = cl.Script[root].Parent
				}
				if cl.Script[root].Op == "inert" {
					tags["opt:inert"] = true
				}
			}
		}
		for _, op := range opts {
			if len(op.hs) > 0 {
				hasCb = true
			}
			for _, it := range op.items {
				if it[0] == tyNil {
					tags["opt:nil-value"] = true
				}
			}
			for _, q := range op.paths {
				designated = true
				if len(q) > 1 {
					nestedDesignated = true
				}
				bad, reached, why := badPath(c.Forest, op, q)
				if nd := nodeAt(c.Forest, q); nd != nil && nd.Kind == "comp" && isIfaceTy(nd.Ty) {
					if len(op.items) > 0 {
						tags["opt:value-designated-to-iface-lambda"] = true
					} else {
						tags["opt:handler-designated-to-iface-lambda"] = true
					}
				}
				if bad {
					badAny = true
					whyAny = why
					tags["bad:"+why] = true
					if !reached {
						tags["bad:in-unselected-subgraph"] = true
					}
				}
			}
		}
		// expected deliveries; a delivered value of another type than the node's is the
		// node-level "wrong type" error (only constructible through WithLambdaOption(any...))
		var expDeliv, expFired []PL
		mixedDelivered := false
		var globals []int
		for _, op := range opts {
			if len(op.paths) == 0 {
				globals = append(globals, op.hs...)
			}
		}
		// a hosted call: the handlers already in its context are in front of every callback manager
		globals = append(append([]int{}, cl.HostHs...), globals...)
		expFired = append(expFired, PL{Path: []int{}, Vals: sortedCopy(globals)})
		walkTree(c.Forest, 0, nil, 0, sel, func(p []int, nd Node) {
			if nd.Kind != "sub" {
				vals := []int{}
				for _, op := range opts {
					for _, it := range addressedItems(op, p, nd.ty()) {
						vals = append(vals, it[1])
						if it[0] != nd.ty() && op.items[0][0] == nd.ty() {
							mixedDelivered = true
						}
					}
				}
				expDeliv = append(expDeliv, PL{Path: p, Vals: vals})
			}
			if nd.Kind != "pass" {
				hs := append([]int{}, cl.HostHs...)
				for _, op := range opts {
					m := firedMult(op, p)
					if (m > 0) != handlerAddressed(op, p) {
						fail("harness-anomaly", fmt.Sprintf("oracle: the two closed forms of 'handler addressed' disagree at %s", pathName(p)))
					}
					for ; m > 0; m-- {
						hs = append(hs, op.hs...)
					}
				}
				expFired = append(expFired, PL{Path: p, Vals: sortedCopy(hs)})
			}
		})
		if mixedDelivered {
			tags["bad:mixed-types-delivered"] = true
		}
		if designated {
			tags["opt:designated"] = true
		}
		if nestedDesignated {
			tags["opt:designated-nested"] = true
		}
		if hasCb {
			tags["opt:callbacks"] = true
		}
		wantErr := badAny || mixedDelivered
		if o.ArgsChanged != "" {
			// the caller keeps its option list and may pass it to its next call: a call that changes
			// it makes that next call carry other options than the caller built
			fail("caller-options-modified", fmt.Sprintf("call %d changed the option list it was handed (%s)", i, o.ArgsChanged))
		}
		switch o.Class {
		case "panic", "hang":
			fail("call-"+o.Class, fmt.Sprintf("call %d: %s %s", i, o.Class, o.Err))
		case "err":
			if !wantErr {
				fail("spurious-error", fmt.Sprintf("call %d failed although every designation is valid: %s", i, o.Err))
			} else {
				res.Nontrivial = true
			}
		case "ok", "int":
			if c.Resume {
				tags[fmt.Sprintf("step:%s", o.Class)] = true
				if i > 0 {
					deep := false
					for _, pl := range o.Deliv {
						if len(pl.Path) >= 2 {
							deep = true
						}
					}
					if deep {
						tags["resumed-into-subgraph"] = true
						if !wantErr {
							res.Nontrivial = true
						}
					}
				}
			}
			if len(o.Differ) > 0 {
				fail("wrong-delivery", fmt.Sprintf("call %d: a node that executes several times was not handed the same options every time: %s", i, strings.Join(o.Differ, "; ")))
			}
			if len(o.DifferCb) > 0 {
				fail("callback-misplaced", fmt.Sprintf("call %d: a node that executes several times did not have the same handlers fire every time: %s", i, strings.Join(o.DifferCb, "; ")))
			}
			if o.Extra != "" {
				fail("harness-anomaly", fmt.Sprintf("call %d: %s", i, o.Extra))
			}
			if badAny || mixedDelivered {
				// validation is eager: also a fault inside a sub graph that does not execute in
				// this call must be reported (F-C16c, repaired)
				fail("bad-designation-accepted", fmt.Sprintf("call %d succeeded although a designation is invalid (%s)", i, whyAny))
			}
			// no leak between calls
			for _, pl := range o.Deliv {
				for _, v := range pl.Vals {
					if v == undecodable {
						fail("wrong-delivery", fmt.Sprintf("call %d: node %s received an option value that is not of its option type (the node cannot read its payload)", i, pathName(pl.Path)))
					}
					if !pOwn[v][i] {
						fail("leak", fmt.Sprintf("call %d: node %s received option payload %d of another call", i, pathName(pl.Path), v))
					}
				}
			}
			for _, pl := range o.Fired {
				for _, v := range pl.Vals {
					if !hOwn[v][i] {
						fail("leak", fmt.Sprintf("call %d: handler %d of another call fired at %s", i, v, pathName(pl.Path)))
					}
				}
			}
			if !wantErr {
				if d := diffPLs(expDeliv, o.Deliv, false); d != "" {
					fail("wrong-delivery", fmt.Sprintf("call %d: options delivered differ from the addressed ones: %s", i, d))
				}
				if d := diffPLs(expFired, o.Fired, false); d != "" {
					fail("callback-misplaced", fmt.Sprintf("call %d: handlers fired differ from the designated ones: %s", i, d))
				}
				if designated && depth >= 2 && !c.Resume {
					res.Nontrivial = true
				}
			}
		}
	}
	for t := range tags {
		res.Tags = append(res.Tags, t)
	}
	sort.Strings(res.Tags)
}

func diffPLs(exp, got []PL, asSet bool) string {
	if len(exp) != len(got) {
		return fmt.Sprintf("expected %d node entries, observed %d", len(exp), len(got))
	}
	var ds []string
	for i := range exp {
		g := got[i].Vals
		if asSet {
			g = setOf(g)
		}
		if !eqPath(exp[i].Path, got[i].Path) {
			return fmt.Sprintf("entry %d is for node %s, expected %s", i, pathName(got[i].Path), pathName(exp[i].Path))
		}
		if !eqInts(exp[i].Vals, g) {
			ds = append(ds, fmt.Sprintf("%s expected %v observed %v", pathName(exp[i].Path), exp[i].Vals, g))
		}
	}
	return strings.Join(ds, "; ")
}

func min(a, b int) int {
	if a < b {
		return a
	}
	return b
}
