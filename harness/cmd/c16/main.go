// Engine C16 — call options reach exactly the nodes they address
// (compose/utils.go extractOption, initGraphCallbacks, initNodeCallbacks;
// compose/graph_call_options.go; compose/graph_run.go).
//
// A case is a forest of graphs (graph 0 = top level; nodes are fake components of the real
// eino component types, passthroughs, plain lambdas and nested graphs) and two calls, each a
// script of public option constructors (WithXxxOption, WithLambdaOption, WithCallbacks,
// DesignateNodeWithPath on an earlier option) plus the list of built options passed. Both
// calls run concurrently on the one compiled graph.
package main

import (
	"context"
	"encoding/json"
	"fmt"
	"io"
	"reflect"
	"sort"
	"strconv"
	"strings"
	"sync"
	"time"

	"github.com/cloudwego/eino/callbacks"
	"github.com/cloudwego/eino/compose"
	"github.com/cloudwego/eino/schema"

	"verif/harness/lib"
)

type Node struct {
	Key  int    `json:"key"`
	Kind string `json:"kind"` // comp | pass | sub | relay
	Ty   int    `json:"ty,omitempty"`
	Sub  int    `json:"sub,omitempty"`
	Br   bool   `json:"br,omitempty"` // behind the multi-branch from START
	Runs bool   `json:"runs"`         // selected (always true when not behind the branch)
	// resume cases: the node follows node Pred of the same graph instead of START (a relay is a
	// plain lambda that turns its predecessor's output back into the graph's whole input map, so
	// that chains are  node -> relay -> node ...), and the node asks for InterruptAndRerun the
	// first time it executes in the session
	Pred  int  `json:"pred,omitempty"`
	Rerun bool `json:"rerun,omitempty"`
	// a lambda with options (isLambdaTy): the paradigm(s) it implements natively
	// (0 Invoke, 1 Stream, 2 Collect, 3 Transform, 4 Invoke+Transform, 5 Stream+Collect)
	Nat int `json:"nat,omitempty"`
	// Back: the relay that closes the loop of a looping graph (Graph.Loop): the last node of
	// the chain branches to it (or to END), and it leads to the first node again
	Back bool `json:"back,omitempty"`
}

type Graph struct {
	Nodes []Node `json:"nodes"`
	Dag   bool   `json:"dag,omitempty"`
	Wf    bool   `json:"wf,omitempty"`    // built as a compose.Workflow (all-predecessor, eager) instead of a compose.Graph
	Chain bool   `json:"chain,omitempty"` // built as a compose.Chain (the graph is one chain; node keys through WithNodeKey)
	// Loop > 0: the graph is one chain first -> ... -> last (pregel mode) and runs 1+Loop times
	// in a run: after last a branch leads to the Back relay and from there to first again, Loop
	// times, then to END. Every execution of a node must be handed the call's options.
	Loop int `json:"loop,omitempty"`
	// interrupt points of this graph (compile options; resume cases only)
	IB []int `json:"ib,omitempty"`
	IA []int `json:"ia,omitempty"`
}

type BOp struct {
	Op     string   `json:"op"` // items | handlers | designate | inert
	Items  [][2]int `json:"items,omitempty"`
	Lambda bool     `json:"lambda,omitempty"` // build through WithLambdaOption even when a typed constructor exists
	Hs     []int    `json:"hs,omitempty"`
	Parent int      `json:"parent,omitempty"`
	Paths  [][]int  `json:"paths,omitempty"`
	Keys   bool     `json:"keys,omitempty"` // use DesignateNode(keys...) when every path has length 1
}

type Call struct {
	Script []BOp `json:"script"`
	Pass   []int `json:"pass"`
	Stream bool  `json:"stream,omitempty"` // the output is taken as a stream (Stream / Transform)
	InStr  bool  `json:"instr,omitempty"`  // the input is given as a stream (Collect / Transform)
	CpPos  int   `json:"cppos,omitempty"`  // resume cases: position of WithCheckPointID among the passed options
	// Host > 0 (single calls only): the call is not issued from a fresh context but by user code
	// inside a lambda node of another running graph, with that lambda's context (which carries the
	// host's node path and callback manager): 1 = the host is a compose.Graph with the one lambda,
	// 2 = the lambda sits inside a nested graph of the host (node path of length 2), 3 = the host is
	// a compose.Chain; 4 = no host graph, the call is made directly with a context in which the
	// caller has installed handlers (callbacks.InitCallbacks). The property does not care where a
	// call comes from: it must behave like the same call from a fresh context, except that the
	// handlers already in the context (HostHs: global handlers of the host's own call) are in front
	// of every callback manager. HostBait: the host's call also carries undesignated component
	// options of every component type of the forest — options of ANOTHER call, which no node of the
	// hosted call may receive.
	Host     int   `json:"host,omitempty"`
	HostHs   []int `json:"hosths,omitempty"`
	HostBait bool  `json:"hostbait,omitempty"`
}

type Case struct {
	Forest []Graph `json:"forest"`
	Calls  []Call  `json:"calls"`
	Sched  uint64  `json:"sched"`
	Seq    bool    `json:"seq,omitempty"` // run the calls one after the other instead of concurrently
	// Resume: the calls form one session on one checkpoint id of a checkpoint store: call 0
	// starts the run, every later call resumes it where the previous one was interrupted
	// (interrupt before / after nodes, InterruptAndRerun, at the top level and inside nested
	// graphs), each call with its own options, until a call completes.
	Resume bool `json:"resume,omitempty"`
	// Share: the calls re-use option values: wherever the script of a later call starts like
	// the script of call 0, the compose.Option values built for call 0 are passed again (the
	// caller keeps its options in variables and passes them to call after call). A call must
	// leave the Options it is given as they were.
	Share bool `json:"share,omitempty"`
}

type PL struct {
	Path []int `json:"path"`
	Vals []int `json:"vals"`
}

type CallObs struct {
	Class string `json:"class"` // ok | err | panic | hang; resume cases also: int (interrupted) | unused
	Err   string `json:"err,omitempty"`
	Deliv []PL   `json:"deliv,omitempty"`
	Fired []PL   `json:"fired,omitempty"`
	Extra string `json:"extra,omitempty"` // harness-level anomaly (node ran twice, unexpected node ran)
	// a node that executed several times in the call (a loop) was not handed the same option
	// values every time
	Differ []string `json:"differ,omitempty"`
	// ... or did not have the same handlers fire every time
	DifferCb []string `json:"differcb,omitempty"`
	// single calls: one entry per EXECUTION of a node (a node of a looping graph, a ToolsNode with
	// several tool calls has several); this is what the model is asked about
	DelivAll []PL `json:"deliv_all,omitempty"`
	FiredAll []PL `json:"fired_all,omitempty"`
	// the option list handed to the call was modified by it (which element, which field)
	ArgsChanged string `json:"args_changed,omitempty"`
	// resume cases: the node paths that executed / the graph nodes that were entered in this call
	Ran []string `json:"ran,omitempty"`
	// resume cases: the checkpoint the call was entered with (nil: none)
	Ck *Ck `json:"ck,omitempty"`
}

func keyStr(k int) string { return "k" + strconv.Itoa(k) }
func pathName(p []int) string {
	if len(p) == 0 {
		return "/"
	}
	var b strings.Builder
	for _, k := range p {
		b.WriteString("/")
		b.WriteString(strconv.Itoa(k))
	}
	return b.String()
}

func (n Node) ty() int {
	if n.Kind == "comp" {
		return n.Ty
	}
	return tyNone
}

// ---------------------------------------------------------------- building

// built: the top-level graph and the input of a call. Every graph of the case takes the same
// map: one entry per component of the tree unfolding, under the component's node path (a
// nested graph and a lambda take the whole map, so that they can be re-entered / re-run from
// a checkpoint, which hands them the zero value as input).
type built struct {
	g      compilable
	inputs map[string]any
}

// compilable: *compose.Graph and *compose.Workflow
type compilable interface {
	compose.AnyGraph
	Compile(ctx context.Context, opts ...compose.GraphCompileOption) (compose.Runnable[map[string]any, map[string]any], error)
}

func (b *built) input() map[string]any {
	m := make(map[string]any, len(b.inputs))
	for k, v := range b.inputs {
		m[k] = v
	}
	return m
}

func keyStrs(ks []int) []string {
	out := make([]string, len(ks))
	for i, k := range ks {
		out[i] = keyStr(k)
	}
	return out
}

// compileOpts: trigger mode and interrupt points of graph gi
func compileOpts(g Graph) []compose.GraphCompileOption {
	mode := compose.AnyPredecessor
	if g.Dag {
		mode = compose.AllPredecessor
	}
	o := []compose.GraphCompileOption{compose.WithNodeTriggerMode(mode)}
	if g.Wf || g.Chain {
		o = nil // a workflow has its own trigger mode (all predecessors, eager), a chain is pregel
	}
	if len(g.IB) > 0 {
		o = append(o, compose.WithInterruptBeforeNodes(keyStrs(g.IB)))
	}
	if len(g.IA) > 0 {
		o = append(o, compose.WithInterruptAfterNodes(keyStrs(g.IA)))
	}
	return o
}

func buildGraph(ctx context.Context, F []Graph, gi int, pre []int, depth int) (*built, error) {
	bt := &built{inputs: map[string]any{}}
	g, err := buildGraph1(ctx, F, gi, pre, depth, bt)
	bt.g = g
	return bt, err
}

func buildGraph1(ctx context.Context, F []Graph, gi int, pre []int, depth int, bt *built) (compilable, error) {
	if gi < 0 || gi >= len(F) || depth > len(F) {
		return nil, fmt.Errorf("harness: bad forest")
	}
	if F[gi].Wf {
		return buildWorkflow1(ctx, F, gi, pre, depth, bt)
	}
	if F[gi].Chain {
		return buildChain1(ctx, F, gi, pre, depth, bt)
	}
	g := compose.NewGraph[map[string]any, map[string]any]()
	targets := map[string]bool{}
	sel := map[string]bool{}
	hasSucc := map[int]bool{}
	for _, nd := range F[gi].Nodes {
		if nd.Pred != 0 {
			hasSucc[nd.Pred] = true
		}
	}
	firstKey := ""
	if order := chainOrder(F[gi]); F[gi].Loop > 0 && order != nil {
		firstKey = keyStr(order[0].Key)
	}
	for _, nd := range F[gi].Nodes {
		key := keyStr(nd.Key)
		p := append(append([]int{}, pre...), nd.Key)
		name := pathName(p)
		switch nd.Kind {
		case "comp":
			v, err := addComp(ctx, graphSink{g}, key, name, nd.Ty, nd.Nat)
			if err != nil {
				return nil, err
			}
			if v != nil {
				bt.inputs[name] = v
			}
		case "pass":
			if err := g.AddPassthroughNode(key, compose.WithNodeName(name), compose.WithOutputKey(key)); err != nil {
				return nil, err
			}
		case "sub":
			sb, err := buildGraph1(ctx, F, nd.Sub, p, depth+1, bt)
			if err != nil {
				return nil, err
			}
			if err := g.AddGraphNode(key, sb, compose.WithNodeName(name), compose.WithOutputKey(key),
				compose.WithGraphCompileOptions(compileOpts(F[nd.Sub])...)); err != nil {
				return nil, err
			}
		case "relay":
			l := compose.InvokableLambda(func(ctx context.Context, in map[string]any) (map[string]any, error) {
				if err := visit(ctx, name, nil); err != nil {
					return nil, err
				}
				return bt.input(), nil
			})
			if err := g.AddLambdaNode(key, l, compose.WithNodeName(name)); err != nil {
				return nil, err
			}
		default:
			return nil, fmt.Errorf("harness: bad node kind %q", nd.Kind)
		}
		switch {
		case nd.Back:
			// the loop: Pred (the last node of the chain) -> this relay (Loop times, then END);
			// this relay -> the first node
			if firstKey == "" {
				return nil, fmt.Errorf("harness: back relay in a graph that does not loop")
			}
			loops := F[gi].Loop
			br := compose.NewGraphBranch(func(ctx context.Context, in map[string]any) (string, error) {
				if r := recOf(ctx); r != nil {
					r.mu.Lock()
					r.loop[name]++
					it := r.loop[name]
					r.mu.Unlock()
					if it%(loops+1) != 0 {
						return key, nil
					}
				}
				return compose.END, nil
			}, map[string]bool{key: true, compose.END: true})
			if err := g.AddBranch(keyStr(nd.Pred), br); err != nil {
				return nil, err
			}
			if err := g.AddEdge(key, firstKey); err != nil {
				return nil, err
			}
			continue
		case nd.Pred != 0:
			if err := g.AddEdge(keyStr(nd.Pred), key); err != nil {
				return nil, err
			}
		case nd.Br:
			targets[key] = true
			if nd.Runs {
				sel[key] = true
			}
		default:
			if err := g.AddEdge(compose.START, key); err != nil {
				return nil, err
			}
		}
		if !hasSucc[nd.Key] {
			if err := g.AddEdge(key, compose.END); err != nil {
				return nil, err
			}
		}
	}
	if len(targets) > 0 {
		br := compose.NewGraphMultiBranch(func(ctx context.Context, in map[string]any) (map[string]bool, error) {
			out := map[string]bool{}
			for k := range sel {
				out[k] = true
			}
			return out, nil
		}, targets)
		if err := g.AddBranch(compose.START, br); err != nil {
			return nil, err
		}
	}
	return g, nil
}

func toNodePaths(paths [][]int) []*compose.NodePath {
	out := make([]*compose.NodePath, len(paths))
	for i, p := range paths {
		ks := make([]string, len(p))
		sum := len(p)
		for j, k := range p {
			ks[j] = keyStr(k)
			sum += k
		}
		out[i] = compose.NewNodePath(spareKeys(ks, sum)...)
	}
	return out
}

// sameOp: two script steps build the same option
func sameOp(a, b BOp) bool {
	x, _ := json.Marshal(a)
	y, _ := json.Marshal(b)
	return string(x) == string(y)
}

// buildOpts runs the script against the real option constructors. shared / sharedScript: the
// option values already built for another call by the steps of sharedScript; as long as the
// script starts with the same steps, those values are taken instead of building new ones.
// Returns the passed options and everything that was built.
func buildOpts(c Call, shared []compose.Option, sharedScript []BOp) ([]compose.Option, []compose.Option, error) {
	var env []compose.Option
	reuse := true
	for j, b := range c.Script {
		if reuse && j < len(shared) && j < len(sharedScript) && sameOp(b, sharedScript[j]) {
			env = append(env, shared[j])
			continue
		}
		reuse = false
		switch b.Op {
		case "items":
			env = append(env, mkOptionSpare(b.Items, b.Lambda, true))
		case "handlers":
			key := len(b.Hs)
			for _, h := range b.Hs {
				key += h
			}
			env = append(env, compose.WithCallbacks(spareHs(mkHandlers(b.Hs), key)...))
		case "inert":
			// an Option that carries neither option values nor handlers (here: a state modifier
			// that does nothing); designated, its paths are still validated
			env = append(env, compose.WithStateModifier(func(ctx context.Context, path compose.NodePath, state any) error { return nil }))
		case "designate":
			if b.Parent < 0 || b.Parent >= len(env) {
				return nil, nil, fmt.Errorf("harness: bad parent")
			}
			allOne := len(b.Paths) > 0
			for _, p := range b.Paths {
				if len(p) != 1 {
					allOne = false
				}
			}
			if b.Keys && allOne {
				ks := make([]string, len(b.Paths))
				for i, p := range b.Paths {
					ks[i] = keyStr(p[0])
				}
				env = append(env, env[b.Parent].DesignateNode(ks...))
			} else {
				key := j
				for _, p := range b.Paths {
					key += len(p)
				}
				env = append(env, env[b.Parent].DesignateNodeWithPath(sparePaths(toNodePaths(b.Paths), key)...))
			}
		default:
			return nil, nil, fmt.Errorf("harness: bad op %q", b.Op)
		}
	}
	// every second list has room for two more options behind its length (zero Options: any write shows)
	out := make([]compose.Option, 0, len(c.Pass)+2*(len(c.Script)%2))
	for _, j := range c.Pass {
		if j < 0 || j >= len(env) {
			return nil, nil, fmt.Errorf("harness: bad pass index")
		}
		out = append(out, env[j])
	}
	return out, env, nil
}

// buildAllOpts builds the options of every call of the case (before any call starts, by the
// goroutine that owns the case).
func buildAllOpts(c *Case) ([][]compose.Option, error) {
	opts := make([][]compose.Option, len(c.Calls))
	spareRegs = nil
	var env0 []compose.Option
	for i, cl := range c.Calls {
		var shared []compose.Option
		var sharedScript []BOp
		if c.Share && i > 0 {
			shared, sharedScript = env0, c.Calls[0].Script
		}
		o, env, err := buildOpts(cl, shared, sharedScript)
		if err != nil {
			return nil, err
		}
		if i == 0 {
			env0 = env
		}
		opts[i] = o
	}
	return opts, nil
}

// ---------------------------------------------------------------- running

// callRunnable runs one call through the entry point the call asks for: Invoke, Stream,
// Collect or Transform.
func callRunnable(ctx context.Context, r compose.Runnable[map[string]any, map[string]any], in map[string]any, cl Call, opts []compose.Option) error {
	drain := func(sr *schema.StreamReader[map[string]any], e error) error {
		if e != nil {
			return e
		}
		defer sr.Close()
		for {
			_, e := sr.Recv()
			if e == io.EOF {
				return nil
			}
			if e != nil {
				return e
			}
		}
	}
	switch {
	case cl.InStr && cl.Stream:
		return drain(r.Transform(ctx, schema.StreamReaderFromArray([]map[string]any{in}), opts...))
	case cl.InStr:
		_, e := r.Collect(ctx, schema.StreamReaderFromArray([]map[string]any{in}), opts...)
		return e
	case cl.Stream:
		return drain(r.Stream(ctx, in, opts...))
	}
	_, e := r.Invoke(ctx, in, opts...)
	return e
}

// callHosted issues the call from inside a lambda node of a host graph (built and compiled for
// this one call), with the lambda's context. Returns the error of the inner call (or of the host
// when the inner call was never made / the host failed on its own).
func callHosted(ctx context.Context, F []Graph, ci int, r compose.Runnable[map[string]any, map[string]any], in map[string]any, cl Call, opts []compose.Option) error {
	if cl.Host == 4 {
		// no host graph: the caller's context already holds handlers
		hctx := callbacks.InitCallbacks(ctx, &callbacks.RunInfo{Name: "caller"}, mkHandlers(cl.HostHs)...)
		return callRunnable(hctx, r, in, cl, opts)
	}
	// the options of the host's own call
	var hostOpts []compose.Option
	if len(cl.HostHs) > 0 {
		hostOpts = append(hostOpts, compose.WithCallbacks(mkHandlers(cl.HostHs)...))
	}
	if cl.HostBait {
		for k, ty := range baitTypes(F) {
			hostOpts = append(hostOpts, mkOption([][2]int{{ty, baitBase(ci) + k}}, false))
		}
	}
	var mu sync.Mutex
	calls := 0
	var innerErr error
	l := compose.InvokableLambda(func(lctx context.Context, x map[string]any) (map[string]any, error) {
		e := callRunnable(lctx, r, x, cl, opts)
		mu.Lock()
		calls++
		innerErr = e
		mu.Unlock()
		if e != nil {
			return nil, e
		}
		return x, nil
	})
	var host compose.Runnable[map[string]any, map[string]any]
	var err error
	switch cl.Host {
	case 3:
		ch := compose.NewChain[map[string]any, map[string]any]()
		ch.AppendLambda(l, compose.WithNodeName("host"), compose.WithNodeKey("host"))
		host, err = ch.Compile(ctx, compose.WithGraphName("hostgraph"))
	default:
		inner := compose.NewGraph[map[string]any, map[string]any]()
		if err = inner.AddLambdaNode("host", l, compose.WithNodeName("host")); err != nil {
			return fmt.Errorf("harness: host: %w", err)
		}
		_ = inner.AddEdge(compose.START, "host")
		_ = inner.AddEdge("host", compose.END)
		g := inner
		if cl.Host == 2 {
			g = compose.NewGraph[map[string]any, map[string]any]()
			if err = g.AddGraphNode("hostsub", inner, compose.WithNodeName("hostsub")); err != nil {
				return fmt.Errorf("harness: host: %w", err)
			}
			_ = g.AddEdge(compose.START, "hostsub")
			_ = g.AddEdge("hostsub", compose.END)
		}
		host, err = g.Compile(ctx, compose.WithGraphName("hostgraph"))
	}
	if err != nil {
		return fmt.Errorf("harness: host does not compile: %w", err)
	}
	_, herr := host.Invoke(ctx, in, hostOpts...)
	mu.Lock()
	defer mu.Unlock()
	switch {
	case calls != 1:
		return fmt.Errorf("harness: the host made %d calls: %v", calls, herr)
	case innerErr != nil:
		return innerErr
	case herr != nil:
		return fmt.Errorf("harness: the host failed although the hosted call succeeded: %w", herr)
	}
	return nil
}

// baitTypes: the component option types that occur in the forest (sorted)
func baitTypes(F []Graph) []int {
	seen := map[int]bool{}
	for _, g := range F {
		for _, nd := range g.Nodes {
			if nd.Kind == "comp" && nd.Ty != tyNone && !isIfaceTy(nd.Ty) {
				seen[nd.Ty] = true
			}
		}
	}
	out := make([]int, 0, len(seen))
	for ty := range seen {
		out = append(out, ty)
	}
	sort.Ints(out)
	return out
}

// baitBase: payload ids of the options of the host's call (owned by no call of the case)
func baitBase(ci int) int { return 9000 + 100*ci }

type visitFn func(p []int, nd Node)

// walk enumerates, in DFS order of the forest, the nodes that execute (every ancestor sub
// graph node and the node itself selected).
func walk(F []Graph, gi int, pre []int, depth int, fn visitFn) {
	if gi < 0 || gi >= len(F) || depth > len(F) {
		return
	}
	for _, nd := range F[gi].Nodes {
		if !nd.Runs {
			continue
		}
		p := append(append([]int{}, pre...), nd.Key)
		fn(p, nd)
		if nd.Kind == "sub" {
			walk(F, nd.Sub, p, depth+1, fn)
		}
	}
}

func runCase(c *Case) (obs []CallObs, fatal string) {
	if c.Resume {
		return runResume(c)
	}
	ctx := context.Background()
	obs = make([]CallObs, len(c.Calls))
	var b *built
	var r compose.Runnable[map[string]any, map[string]any]
	var err error
	if p := lib.Recover(func() {
		b, err = buildGraph(ctx, c.Forest, 0, nil, 0)
		if err != nil {
			return
		}
		r, err = b.g.Compile(ctx, append(compileOpts(c.Forest[0]), compose.WithGraphName("/"))...)
	}); p != nil {
		return nil, fmt.Sprint("panic while building: ", p)
	}
	if err != nil {
		return nil, "compile: " + err.Error()
	}
	// options are built before any call starts (so that a builder that shares memory between
	// derived options shows in the calls), by the goroutine that owns the case
	opts, err := buildAllOpts(c)
	if err != nil {
		return nil, err.Error()
	}
	one := func(i int) {
		cl := c.Calls[i]
		rec := newRecorder(c.Sched + uint64(i)*7919)
		cctx := context.WithValue(ctx, recKey{}, rec)
		done := make(chan struct{})
		var cerr error
		var pan any
		// the list the caller passes: the call must leave it as it is (the caller may pass it again)
		// (round 6: up to its capacity - the caller may pass l[:n]... of a longer list, and a call that appends to the
		// list it was handed writes into the options of the caller's next call)
		saved := append([]compose.Option(nil), opts[i][:cap(opts[i])]...)
		defer func() {
			if d := optionsChanged(saved, opts[i][:cap(opts[i])]); d != "" && obs[i].Class != "hang" {
				obs[i].ArgsChanged = d
			}
		}()
		go func() {
			defer close(done)
			pan = lib.Recover(func() {
				if cl.Host > 0 {
					cerr = callHosted(cctx, c.Forest, i, r, b.input(), cl, opts[i])
				} else {
					cerr = callRunnable(cctx, r, b.input(), cl, opts[i])
				}
			})
		}()
		select {
		case <-done:
		case <-time.After(45 * time.Second):
			obs[i] = CallObs{Class: "hang"}
			return
		}
		switch {
		case pan != nil:
			obs[i] = CallObs{Class: "panic", Err: fmt.Sprint(pan)}
		case cerr != nil:
			obs[i] = CallObs{Class: "err", Err: firstLine(cerr.Error())}
		default:
			obs[i] = collect(c, rec)
		}
	}
	if c.Seq {
		for i := range c.Calls {
			one(i)
		}
	} else {
		var wg sync.WaitGroup
		for i := range c.Calls {
			wg.Add(1)
			go func(i int) { defer wg.Done(); one(i) }(i)
		}
		wg.Wait()
	}
	if d := spareWritten(); d != "" {
		// not attributable to one of the (concurrent) calls: reported with the last one that did not hang
		for i := len(obs) - 1; i >= 0; i-- {
			if obs[i].Class != "hang" && obs[i].Class != "" {
				if obs[i].ArgsChanged == "" {
					obs[i].ArgsChanged = d
				}
				break
			}
		}
	}
	return obs, ""
}

// optionsChanged: does the list [now] still hold the very option values of [before] (same
// slices, same pointers, same functions: an Option is compared field by field by identity)?
func optionsChanged(before, now []compose.Option) string {
	if len(before) != len(now) {
		return fmt.Sprintf("length %d -> %d", len(before), len(now))
	}
	for k := range before {
		if reflect.ValueOf(before[k]).IsZero() && !reflect.ValueOf(now[k]).IsZero() {
			return fmt.Sprintf("element %d (behind the length of the list the caller passed) was written", k)
		}
		a, b := reflect.ValueOf(before[k]), reflect.ValueOf(now[k])
		for f := 0; f < a.NumField(); f++ {
			x, y := a.Field(f), b.Field(f)
			same := true
			switch x.Kind() {
			case reflect.Slice:
				same = x.Len() == y.Len() && x.Pointer() == y.Pointer()
			case reflect.Ptr, reflect.Func:
				same = x.Pointer() == y.Pointer()
			case reflect.Int, reflect.Int64:
				same = x.Int() == y.Int()
			}
			if !same {
				return fmt.Sprintf("element %d, field %s", k, a.Type().Field(f).Name)
			}
		}
	}
	return ""
}

// timesOf: how often the node at path p executes in one call: every looping graph on the way
// runs 1+Loop times per execution of its graph node; the Back relay of a loop Loop times.
func timesOf(F []Graph, p []int) int {
	gi, m := 0, 1
	for i, k := range p {
		if gi < 0 || gi >= len(F) {
			return m
		}
		g := F[gi]
		nd := findNode(g, k)
		if nd == nil {
			return m
		}
		if nd.Back && i == len(p)-1 {
			return m * g.Loop
		}
		m *= 1 + g.Loop
		gi = nd.Sub
	}
	return m
}

// perExecution: the sorted handler ids fired at a node in one of its n executions, given the
// ids fired over all of them (ok = every id occurs a multiple of n times)
func perExecution(all []int, n int) ([]int, bool) {
	s := sortedCopy(all)
	if n <= 1 {
		return s, true
	}
	out := []int{}
	ok := true
	for i := 0; i < len(s); {
		j := i
		for j < len(s) && s[j] == s[i] {
			j++
		}
		if (j-i)%n != 0 {
			ok = false
		}
		for k := 0; k < (j-i+n-1)/n; k++ {
			out = append(out, s[i])
		}
		i = j
	}
	return out, ok
}

func firstLine(s string) string {
	s = strings.ReplaceAll(s, "\n", " | ")
	if len(s) > 240 {
		s = s[:240]
	}
	return s
}

// collect turns the recorder of a successful call into the canonical observation.
func collect(c *Case, rec *recorder) CallObs {
	rec.mu.Lock()
	defer rec.mu.Unlock()
	o := CallObs{Class: "ok", Deliv: []PL{}, Fired: []PL{}}
	expected := map[string]bool{"/": true}
	o.Fired = append(o.Fired, PL{Path: []int{}, Vals: sortedCopy(rec.fired["/"])})
	o.FiredAll = append(o.FiredAll, PL{Path: []int{}, Vals: sortedCopy(rec.fired["/"])})
	var extra []string
	walk(c.Forest, 0, nil, 0, func(p []int, nd Node) {
		name := pathName(p)
		expected[name] = true
		// how often the node executes in one call (looping graphs around it)
		want := timesOf(c.Forest, p)
		// one entry per execution: the executions of one node in one call follow each other, and
		// each fires its handlers in one block
		if nd.Kind != "pass" {
			all := rec.fired[name]
			if want > 0 && len(all)%want == 0 {
				n := len(all) / want
				for k := 0; k < want; k++ {
					o.FiredAll = append(o.FiredAll, PL{Path: p, Vals: sortedCopy(all[k*n : (k+1)*n])})
				}
			} else {
				o.FiredAll = append(o.FiredAll, PL{Path: p, Vals: sortedCopy(all)})
			}
		}
		switch nd.Kind {
		case "comp", "relay":
			for _, d := range rec.delivs[name] {
				o.DelivAll = append(o.DelivAll, PL{Path: p, Vals: append([]int{}, d...)})
			}
		case "pass":
			o.DelivAll = append(o.DelivAll, PL{Path: p, Vals: []int{}})
		}
		perExec := func() []int {
			hs, ok := perExecution(rec.fired[name], want)
			if !ok {
				o.DifferCb = append(o.DifferCb, fmt.Sprintf("handlers fired at %s over its %d executions are not %d times the same: %v", name, want, want, sortedCopy(rec.fired[name])))
			}
			return hs
		}
		switch nd.Kind {
		case "comp", "relay":
			if rec.ran[name] != want*execsPerRun(nd) {
				extra = append(extra, fmt.Sprintf("node %s executed %d times (expected %d)", name, rec.ran[name], want*execsPerRun(nd)))
			}
			vals := []int{}
			for k, d := range rec.delivs[name] {
				if k == 0 {
					vals = append(vals, d...)
				} else if !eqInts(d, rec.delivs[name][0]) {
					o.Differ = append(o.Differ, fmt.Sprintf("%s received %v in execution 1 and %v in execution %d", name, rec.delivs[name][0], d, k+1))
				}
			}
			o.Deliv = append(o.Deliv, PL{Path: p, Vals: vals})
			o.Fired = append(o.Fired, PL{Path: p, Vals: perExec()})
		case "pass":
			// a passthrough cannot observe anything: it receives no option by construction of the API
			o.Deliv = append(o.Deliv, PL{Path: p, Vals: []int{}})
			if len(rec.fired[name]) > 0 {
				extra = append(extra, "callback fired for passthrough "+name)
			}
		case "sub":
			o.Fired = append(o.Fired, PL{Path: p, Vals: perExec()})
		}
	})
	for name := range rec.ran {
		if !expected[name] {
			extra = append(extra, "node "+name+" executed although not selected")
		}
	}
	for name := range rec.fired {
		if !expected[name] {
			extra = append(extra, "callback fired at "+name+" although not selected")
		}
	}
	if len(extra) > 0 {
		o.Extra = strings.Join(extra, "; ")
	}
	return o
}

// ---------------------------------------------------------------- Gallina

func coqPath(p []int) string {
	ns := make([]uint64, len(p))
	for i, k := range p {
		ns[i] = uint64(k)
	}
	return lib.CoqNList(ns)
}
func coqInts(p []int) string { return coqPath(p) }

func coqPLs(pls []PL) string {
	items := make([]string, len(pls))
	for i, pl := range pls {
		items[i] = lib.CoqPair(coqPath(pl.Path), coqInts(pl.Vals))
	}
	return lib.CoqList(items)
}

func coqForest(F []Graph) string {
	gs := make([]string, len(F))
	for i, g := range F {
		ns := make([]string, len(g.Nodes))
		for j, nd := range g.Nodes {
			kind := lib.CoqApp("KComp", lib.CoqN(uint64(nd.ty())))
			if nd.Kind == "sub" {
				kind = lib.CoqApp("KSub", lib.CoqNat(nd.Sub))
			}
			ns[j] = lib.CoqApp("mkNode", lib.CoqN(uint64(nd.Key)), kind, lib.CoqBool(nd.Kind != "pass"), lib.CoqBool(nd.Runs))
		}
		gs[i] = lib.CoqList(ns)
	}
	return lib.CoqList(gs)
}

func coqCall(c Call) string {
	ops := make([]string, len(c.Script))
	for i, b := range c.Script {
		switch b.Op {
		case "items":
			its := make([]string, len(b.Items))
			for j, it := range b.Items {
				its[j] = lib.CoqPair(lib.CoqN(uint64(it[0])), lib.CoqN(uint64(it[1])))
			}
			ops[i] = lib.CoqApp("BItems", lib.CoqList(its))
		case "handlers":
			ops[i] = lib.CoqApp("BHandlers", coqInts(b.Hs))
		case "inert":
			ops[i] = "(BItems [])"
		default:
			ps := make([]string, len(b.Paths))
			for j, p := range b.Paths {
				ps[j] = coqPath(p)
			}
			ops[i] = lib.CoqApp("BDesignate", lib.CoqNat(b.Parent), lib.CoqList(ps))
		}
	}
	pass := make([]string, len(c.Pass))
	for i, j := range c.Pass {
		pass[i] = lib.CoqNat(j)
	}
	return lib.CoqApp("mkCall", lib.CoqList(ops), lib.CoqList(pass))
}

func coqObs(o CallObs) string {
	switch o.Class {
	case "err":
		return "OErr"
	case "ok", "int":
		if o.Extra != "" {
			return "(OModelBad 1%N)"
		}
		if o.FiredAll != nil {
			return lib.CoqApp("OOk", coqPLs(o.DelivAll), coqPLs(o.FiredAll))
		}
		if len(o.Differ) > 0 || len(o.DifferCb) > 0 {
			return "(OModelBad 1%N)"
		}
		return lib.CoqApp("OOk", coqPLs(o.Deliv), coqPLs(o.Fired))
	}
	return "(OModelBad 0%N)" // panic / hang: never equal to a model observation
}

// ---------------------------------------------------------------- engine

type engine struct{}

func (engine) ID() string { return "C16" }
func (engine) CoqHeader() string {
	return "From Eino Require Import Base.Util Model.Options Model.OptionsResume Model.OptionsAll Corr.C16.\n"
}
func (engine) CoqCaseType() string { return "ccase" }

func (engine) Decode(raw json.RawMessage) (any, error) {
	var c Case
	if err := json.Unmarshal(raw, &c); err != nil {
		return nil, err
	}
	if len(c.Forest) == 0 {
		return nil, fmt.Errorf("empty forest")
	}
	return &c, nil
}

func (engine) Run(ci any) lib.Result {
	c := ci.(*Case)
	obs, fatal := runCase(c)
	if fatal != "" {
		// the generator only builds graphs that compile; anything else is reported loudly
		return lib.Result{Obs: map[string]string{"fatal": fatal}, Oracle: "harness could not build the case: " + fatal, Sig: "harness-build", Tags: []string{"class:fatal"}}
	}
	res := lib.Result{Obs: obs}
	terms := make([]string, len(c.Calls))
	for i := range c.Calls {
		terms[i] = lib.CoqPair(coqCall(c.Calls[i]), coqObs(obs[i]))
	}
	res.CoqTerm = lib.CoqApp("Case", coqForest(c.Forest), lib.CoqList(terms))
	hosted := false
	for _, cl := range c.Calls {
		hosted = hosted || len(cl.HostHs) > 0
	}
	if hosted && !c.Resume {
		// calls issued with handlers already in their context: Model/OptionsHosted.v run_hosted
		for i := range c.Calls {
			terms[i] = "(" + coqInts(c.Calls[i].HostHs) + ", " + coqCall(c.Calls[i]) + ", " + coqObs(obs[i]) + ")"
		}
		res.CoqTerm = lib.CoqApp("CaseH", coqForest(c.Forest), lib.CoqList(terms))
	}
	if c.Resume {
		res.CoqTerm = coqResumeCase(c, obs)
	}
	judge(c, obs, &res)
	return res
}

func main() { lib.Main(engine{}) }
