// Generator of engine C16.
package main

import (
	"verif/harness/lib"
)

type genState struct {
	r        *lib.Rng
	c        *Case
	pool     []int
	maxDepth int
	maxG     int
	paths    []pnode
	resume   bool // resume case: chains, interrupt points, rerun nodes
	iface    bool // the forest has lambdas declared with an interface option type
}

// genKind chooses what a node is (a nested graph is generated on the spot).
func (s *genState) genKind(nd *Node, gi, depth int, wantSub bool) {
	r := s.r
	switch {
	case wantSub && depth < s.maxDepth && len(s.c.Forest) < s.maxG:
		nd.Kind = "sub"
		if len(s.c.Forest) > gi+1 && r.Chance(1, 6) {
			nd.Sub = r.Range(gi+1, len(s.c.Forest)-1) // share a graph built by a sibling
		} else {
			nd.Sub = s.genGraph(depth + 1)
		}
	case r.Chance(1, 10):
		nd.Kind = "pass"
	case r.Chance(1, 9):
		nd.Kind, nd.Ty = "comp", tyNone
	default:
		nd.Kind, nd.Ty = "comp", s.pool[r.Intn(len(s.pool))]
		if s.iface && r.Chance(1, 4) {
			// a lambda declared with an interface option type: a node of another type for every
			// option value of the case
			nd.Ty = tyIfaceAny + r.Intn(2)
		}
		if isLambdaTy(nd.Ty) && r.Chance(2, 3) {
			nd.Nat = r.Range(1, 5) // the lambda is native in another paradigm than Invoke
		}
	}
}

func (s *genState) genGraph(depth int) int {
	r := s.r
	gi := len(s.c.Forest)
	s.c.Forest = append(s.c.Forest, Graph{})
	n := r.Range(1, 4)
	if depth == 0 {
		n = r.Range(2, 5)
		if r.Chance(1, 8) {
			n = 1
		}
	}
	keys := r.Perm(6)[:n]
	nodes := make([]Node, n)
	for i := 0; i < n; i++ {
		nd := Node{Key: keys[i] + 1, Runs: true}
		wantSub := r.Chance(1, 4) || (depth == 0 && i == 0 && r.Chance(3, 4))
		s.genKind(&nd, gi, depth, wantSub)
		nodes[i] = nd
	}
	g := Graph{Nodes: nodes, Dag: r.Chance(1, 3)}
	if r.Chance(1, 4) {
		g.Wf, g.Dag = true, true // a compose.Workflow: all predecessors, eager
	}
	if n >= 2 && r.Chance(1, 4) {
		// some nodes sit behind a multi-branch from START (a branch needs two targets); at
		// least one of them is selected
		nb := r.Range(2, n)
		idx := r.Perm(n)[:nb]
		keep := r.Intn(nb)
		for j, i := range idx {
			g.Nodes[i].Br = true
			g.Nodes[i].Runs = j == keep || r.Chance(1, 2)
			if j != keep && g.Nodes[i].Kind == "sub" && r.Chance(1, 2) {
				g.Nodes[i].Runs = false // a whole sub graph that does not execute in this call
			}
		}
		if g.Wf && nb == n {
			// a workflow whose only way out of START is a branch does not compile ("start node
			// not set": Workflow.compile adds the branch without registering its targets as
			// start nodes); keep one plain successor of START
			g.Nodes[idx[keep]].Br = false
			if nb == 2 {
				g.Nodes[idx[1-keep]].Br, g.Nodes[idx[1-keep]].Runs = false, true // a branch needs two targets
			}
		}
	}
	if s.resume {
		s.genChains(&g, gi, depth, n, true)
	} else if r.Chance(1, 4) {
		s.genChains(&g, gi, depth, n, false)
	}
	if order := chainOrder(g); !s.resume && !g.Wf && !g.Dag && order != nil && r.Chance(1, 2) {
		// the chain runs 1+Loop times in a run: last -> (branch) -> back relay -> first
		g.Loop = r.Range(1, 2)
		g.Nodes = append(g.Nodes, Node{Key: 90, Kind: "relay", Back: true, Runs: true, Pred: order[len(order)-1].Key})
	}
	if g.Loop == 0 && !g.Wf && !g.Dag && chainShape(g) != "" && r.Chance(1, 2) {
		// one chain START -> ... -> END, a fan-out from START or one multi-branch from START:
		// build it with compose.NewChain (AppendXxx / AppendParallel / AppendBranch)
		g.Chain = true
	}
	s.c.Forest[gi] = g
	return gi
}

// genChains (resume cases): some of the n head nodes get a tail  head -> relay -> node, so
// that there is something left to run after an interrupt; then interrupt points and rerun
// nodes are chosen. In pregel mode every chain has the same length (END fires on its first
// input), in DAG mode any.
func (s *genState) genChains(g *Graph, gi, depth, n int, interrupts bool) {
	r := s.r
	all := !g.Dag && r.Chance(1, 2)
	next := 11
	for i := 0; i < n; i++ {
		if g.Dag && !r.Chance(1, 2) || !g.Dag && !all {
			continue
		}
		if len(g.Nodes) >= 7 && g.Dag {
			break
		}
		head := g.Nodes[i]
		relay := Node{Key: next, Kind: "relay", Runs: head.Runs, Pred: head.Key}
		tail := Node{Key: next + 1, Runs: head.Runs, Pred: next}
		next += 2
		s.genKind(&tail, gi, depth, r.Chance(1, 5))
		g.Nodes = append(g.Nodes, relay, tail)
	}
	if !interrupts {
		return
	}
	for i := range g.Nodes {
		nd := &g.Nodes[i]
		if r.Chance(1, 7) {
			g.IB = append(g.IB, nd.Key)
		}
		if r.Chance(1, 7) {
			g.IA = append(g.IA, nd.Key)
		}
		if canRerun(*nd) && r.Chance(1, 8) {
			nd.Rerun = true
		}
	}
}

// canRerun: a node that is run again from a checkpoint is handed the zero value of its input
// type, which only the lambdas of this harness (they take the whole input map) accept.
func canRerun(nd Node) bool {
	return nd.Kind == "relay" || nd.Kind == "comp" && (nd.Ty == tyNone || isLambdaTy(nd.Ty))
}

// interruptPoints counts the interrupt points over the tree unfolding and those inside
// nested graphs.
func (s *genState) interruptPoints() (total, nested int) {
	var rec func(gi int, d int)
	rec = func(gi int, d int) {
		if d > len(s.c.Forest) {
			return
		}
		g := s.c.Forest[gi]
		k := len(g.IB) + len(g.IA)
		for _, nd := range g.Nodes {
			if nd.Rerun {
				k++
			}
			if nd.Kind == "sub" {
				rec(nd.Sub, d+1)
			}
		}
		total += k
		if d > 0 {
			nested += k
		}
	}
	rec(0, 0)
	return
}

type pnode struct {
	p  []int
	nd Node
}

// allPaths: the tree unfolding of the forest (every node with its full path)
func (s *genState) allPaths() []pnode {
	if s.paths != nil {
		return s.paths
	}
	var rec func(gi int, pre []int, d int)
	rec = func(gi int, pre []int, d int) {
		if d > len(s.c.Forest) {
			return
		}
		for _, nd := range s.c.Forest[gi].Nodes {
			p := append(append([]int{}, pre...), nd.Key)
			s.paths = append(s.paths, pnode{p, nd})
			if nd.Kind == "sub" {
				rec(nd.Sub, p, d+1)
			}
		}
	}
	rec(0, nil, 0)
	return s.paths
}

// randPath: the path of some node. want >= 0: mostly a component of that option type or a
// sub graph (so that the designation is usually valid).
func (s *genState) randPath(want int) []int {
	r := s.r
	all := s.allPaths()
	var comps, subs, ifaces []pnode
	for _, pn := range all {
		switch {
		case pn.nd.Kind == "sub":
			subs = append(subs, pn)
		case want >= 0 && pn.nd.Kind == "comp" && pn.nd.Ty == want:
			comps = append(comps, pn)
		case pn.nd.Kind == "comp" && isIfaceTy(pn.nd.Ty):
			ifaces = append(ifaces, pn)
		}
	}
	var pick pnode
	switch x := r.Intn(20); {
	case len(ifaces) > 0 && r.Chance(1, 12):
		// to a lambda declared with an interface option type: the wrong type whatever the option
		// carries (fine for an option that carries handlers only)
		pick = ifaces[r.Intn(len(ifaces))]
	case want >= 0 && len(comps) > 0 && x < 13:
		pick = comps[r.Intn(len(comps))]
	case want >= 0 && len(subs) > 0 && x < 19:
		pick = subs[r.Intn(len(subs))]
	case want >= 0 && len(comps) > 0 && x < 19:
		pick = comps[r.Intn(len(comps))]
	default:
		pick = all[r.Intn(len(all))]
	}
	return append([]int{}, pick.p...)
}

func (s *genState) genPath(want int) []int {
	r := s.r
	p := s.randPath(want)
	switch r.Intn(60) {
	case 0:
		return []int{} // empty path
	case 1:
		p[len(p)-1] = 9 // unknown node
	case 2:
		p = append(p, r.Range(1, 6)) // below a component, or some key inside a sub graph
	case 3:
		if len(p) > 1 {
			p = p[1:] // dropped prefix
		}
	case 4:
		p[r.Intn(len(p))] = r.Range(1, 7)
	case 5, 6, 7, 8, 9, 10:
		// a fault inside a sub graph that does not execute in this call (validation is eager:
		// F-C16c); nothing to do when every sub graph executes
		if q := s.badInUnselected(); q != nil {
			return q
		}
	}
	return p
}

// badInUnselected: a malformed path (unknown key, below a component, or to a component of
// whatever type: mostly the wrong one) that runs through a sub graph node a branch leaves
// unselected in this case. nil: there is none.
func (s *genState) badInUnselected() []int {
	r := s.r
	var inside []pnode
	for _, pn := range s.allPaths() {
		gi, dead := 0, false
		for i, k := range pn.p {
			nd := findNode(s.c.Forest[gi], k)
			if nd == nil {
				break
			}
			if i < len(pn.p)-1 && nd.Kind == "sub" && !nd.Runs {
				dead = true
			}
			gi = nd.Sub
		}
		if dead {
			inside = append(inside, pn)
		}
	}
	if len(inside) == 0 {
		return nil
	}
	pn := inside[r.Intn(len(inside))]
	q := append([]int{}, pn.p...)
	switch r.Intn(3) {
	case 0:
		q[len(q)-1] = 9
	case 1:
		if pn.nd.Kind != "sub" {
			q = append(q, r.Range(1, 6))
		} else {
			q = append(q, 9)
		}
	}
	return q
}

func (s *genState) genItems(base int, next *int) [][2]int {
	r := s.r
	ty := s.pool[r.Intn(len(s.pool))]
	switch r.Intn(12) {
	case 0:
		ty = valueTypes[r.Intn(len(valueTypes))]
	case 1:
		return [][2]int{} // WithLambdaOption()
	case 2:
		if r.Chance(1, 2) {
			ty = tyNil // WithLambdaOption(nil): an option value without a type
		}
	}
	n := 1
	if r.Chance(1, 3) {
		n = 2
	}
	its := make([][2]int, n)
	for i := range its {
		*next++
		its[i] = [2]int{ty, base + *next}
	}
	if n == 2 && r.Chance(1, 10) {
		its[r.Intn(2)][0] = s.pool[r.Intn(len(s.pool))] // mixed types (WithLambdaOption(a, b))
	}
	return its
}

func (s *genState) genCall(ci int) Call {
	r := s.r
	var cl Call
	cl.Stream = r.Chance(1, 3)
	cl.InStr = r.Chance(1, 4)
	base := (ci + 1) * 1000
	next := 0
	wantOf := func(j int) int { // the option type of env[j]'s items (-1: none)
		for j >= 0 {
			b := cl.Script[j]
			if b.Op == "items" {
				if len(b.Items) > 0 {
					return b.Items[0][0]
				}
				return -1
			}
			if b.Op == "handlers" || b.Op == "inert" {
				return -1
			}
			j = b.Parent
		}
		return -1
	}
	if r.Chance(1, 7) {
		// derivation tree with a shared prefix: base -> d1 -> d2 -> d3 -> {o1, o2}
		if r.Chance(2, 3) {
			cl.Script = append(cl.Script, BOp{Op: "items", Items: s.genItems(base, &next)})
		} else {
			cl.Script = append(cl.Script, BOp{Op: "handlers", Hs: []int{(ci+1)*10 + 1}})
		}
		w := wantOf(0)
		chain := r.Range(2, 4)
		for k := 0; k < chain; k++ {
			cl.Script = append(cl.Script, BOp{Op: "designate", Parent: k, Paths: [][]int{s.randPath(w)}, Keys: r.Chance(1, 2)})
		}
		fan := r.Range(2, 3)
		for k := 0; k < fan; k++ {
			cl.Script = append(cl.Script, BOp{Op: "designate", Parent: chain, Paths: [][]int{s.randPath(w)}, Keys: r.Chance(1, 2)})
		}
		// pass the first leaf (and sometimes the others): the later leaves must not change it
		cl.Pass = append(cl.Pass, chain+1)
		for k := 1; k < fan; k++ {
			if r.Chance(1, 3) {
				cl.Pass = append(cl.Pass, chain+1+k)
			}
		}
	}
	nOps := r.Range(1, 6)
	start := len(cl.Script)
	for k := 0; k < nOps; k++ {
		j := len(cl.Script)
		x := r.Intn(100)
		switch {
		case j == 0 || x < 40:
			cl.Script = append(cl.Script, BOp{Op: "items", Items: s.genItems(base, &next), Lambda: r.Chance(1, 5)})
		case x < 43:
			cl.Script = append(cl.Script, BOp{Op: "inert"})
		case x < 55:
			hs := []int{(ci+1)*10 + r.Range(1, 3)}
			if r.Chance(1, 4) {
				hs = append(hs, (ci+1)*10+r.Range(1, 3))
			}
			cl.Script = append(cl.Script, BOp{Op: "handlers", Hs: hs})
		default:
			parent := j - 1
			if r.Chance(1, 2) {
				parent = r.Intn(j)
			}
			w := wantOf(parent)
			np := 1
			if r.Chance(1, 4) {
				np = 2
			}
			var ps [][]int
			for q := 0; q < np; q++ {
				ps = append(ps, s.genPath(w))
			}
			if r.Chance(1, 40) {
				ps = [][]int{} // DesignateNode() with no key: stays undesignated
			}
			cl.Script = append(cl.Script, BOp{Op: "designate", Parent: parent, Paths: ps, Keys: r.Chance(1, 2)})
		}
	}
	for j := start; j < len(cl.Script); j++ {
		// designated options are what the case is about: pass them more often than their bases
		pr := 50
		if cl.Script[j].Op == "designate" {
			pr = 75
		}
		if r.Intn(100) < pr {
			cl.Pass = append(cl.Pass, j)
		}
	}
	if len(cl.Pass) == 0 && r.Chance(1, 2) {
		cl.Pass = append(cl.Pass, len(cl.Script)-1)
	}
	if r.Chance(1, 16) {
		// a call WITHOUT options (round 6: the empty option list; until then every call passed at least one): nothing
		// may reach any node of it - in particular nothing of the other call on the same compiled graph, which runs
		// before it or beside it with options of its own - and no designation can be bad
		cl.Pass = nil
	}
	if r.Chance(1, 4) {
		perm := r.Perm(len(cl.Pass))
		np := make([]int, len(cl.Pass))
		for i, k := range perm {
			np[i] = cl.Pass[k]
		}
		cl.Pass = np
	}
	if len(cl.Pass) > 0 && r.Chance(1, 20) {
		cl.Pass = append(cl.Pass, cl.Pass[r.Intn(len(cl.Pass))]) // the same option twice
	}
	return cl
}

func cloneScript(sc []BOp) []BOp {
	out := make([]BOp, len(sc))
	for i, b := range sc {
		n := b
		n.Items = append([][2]int(nil), b.Items...)
		n.Hs = append([]int(nil), b.Hs...)
		n.Paths = nil
		for _, p := range b.Paths {
			n.Paths = append(n.Paths, append([]int{}, p...))
		}
		if b.Paths != nil && n.Paths == nil {
			n.Paths = [][]int{}
		}
		out[i] = n
	}
	return out
}

// shareWith: call cl continues the script base of an earlier call: the options built by base
// are the caller's variables, passed again (and derived from) by this call.
func (s *genState) shareWith(base []BOp, basePass []int, cl Call) Call {
	r := s.r
	n0 := len(base)
	out := cl
	out.Script = cloneScript(base)
	for _, b := range cloneScript(cl.Script) {
		if b.Op == "designate" {
			b.Parent += n0
			if r.Chance(1, 4) {
				b.Parent = r.Intn(n0) // derive from an option of the earlier call
			}
		}
		out.Script = append(out.Script, b)
	}
	out.Pass = nil
	for _, j := range cl.Pass {
		out.Pass = append(out.Pass, j+n0)
	}
	for _, j := range basePass {
		if j < n0 && r.Chance(2, 3) {
			at := r.Intn(len(out.Pass) + 1)
			out.Pass = append(out.Pass[:at], append([]int{j}, out.Pass[at:]...)...)
		}
	}
	if r.Chance(1, 3) {
		// exactly the options of the earlier call, nothing of its own
		out.Pass = append([]int{}, basePass...)
	}
	return out
}

func (engine) Generate(r *lib.Rng, tier string, i int) any {
	s := &genState{r: r, c: &Case{}, maxDepth: 2, maxG: 5}
	if tier == "thorough" {
		s.maxDepth, s.maxG = 3, 8
	}
	s.resume = r.Chance(2, 5)
	np := r.Range(2, 4)
	perm := r.Perm(len(valueTypes))
	for k := 0; k < np; k++ {
		s.pool = append(s.pool, valueTypes[perm[k]])
	}
	if r.Chance(1, 6) {
		// the three option types around optA together: the struct, the pointer to it, the named
		// type with the same underlying type
		s.pool = []int{tyLambdaA, tyPtrA, tyNamedA}
	}
	s.iface = r.Chance(1, 3)
	s.genGraph(0)
	s.c.Sched = r.U64() >> 1
	if s.resume {
		return s.genSession()
	}
	s.c.Seq = r.Chance(1, 6)
	s.c.Share = r.Chance(1, 4)
	for ci := 0; ci < 2; ci++ {
		cl := s.genCall(ci)
		if s.c.Share && ci > 0 {
			cl = s.shareWith(s.c.Calls[0].Script, s.c.Calls[0].Pass, cl)
		}
		if r.Chance(1, 3) {
			cl.Host = r.Range(1, 4) // issued from inside a lambda node of another running graph / with handlers in the context
			if cl.Host == 4 || r.Chance(1, 2) {
				cl.HostHs = []int{70 + 3*ci}
				if r.Chance(1, 3) {
					cl.HostHs = append(cl.HostHs, 71+3*ci+r.Intn(2))
				}
			}
			cl.HostBait = cl.Host != 4 && r.Chance(1, 2)
		}
		s.c.Calls = append(s.c.Calls, cl)
	}
	return s.c
}

// genSession: the calls of a resume case. There is (almost always) an interrupt point inside a
// nested graph; there are enough calls to get through every interrupt point plus a few that
// may be rejected for a bad designation; every call carries the global probe handler.
func (s *genState) genSession() *Case {
	r := s.r
	c := s.c
	c.Resume = true
	if _, nested := s.interruptPoints(); nested == 0 && len(c.Forest) > 1 && !r.Chance(1, 10) {
		g := &c.Forest[r.Range(1, len(c.Forest)-1)]
		nd := &g.Nodes[r.Intn(len(g.Nodes))]
		switch x := r.Intn(3); {
		case x == 0 && canRerun(*nd):
			nd.Rerun = true
		case x == 1:
			g.IA = append(g.IA, nd.Key)
		default:
			g.IB = append(g.IB, nd.Key)
		}
	}
	total, _ := s.interruptPoints()
	nc := total + 2
	if nc > 7 {
		nc = 7
	}
	stream := r.Chance(1, 3)
	// (until the repairs 61097fc / 51c8622 and their neighbours, sessions with a workflow or
	// with a rerun node had to stay on Invoke: the checkpoint could not convert a workflow node's
	// pending stream input, and a node re-run through Stream was handed an empty stream)
	c.Share = r.Chance(1, 4)
	var base0 []BOp
	var pass0 []int
	for ci := 0; ci < nc; ci++ {
		cl := s.genCall(ci)
		if ci == 0 {
			base0, pass0 = cloneScript(cl.Script), append([]int{}, cl.Pass...)
		} else if c.Share {
			cl = s.shareWith(base0, pass0, cl)
		}
		if !r.Chance(1, 4) {
			cl.Stream = stream // mostly one way of calling per session, sometimes mixed
		}
		// no WithLambdaOption(a, b) of two types: it fails inside the node, in the middle of the run
		for j := range cl.Script {
			its := cl.Script[j].Items
			for k := range its {
				its[k][0] = its[0][0]
			}
		}
		cl.Script = append(cl.Script, BOp{Op: "handlers", Hs: []int{probeID(ci)}})
		at := r.Intn(len(cl.Pass) + 1)
		cl.Pass = append(cl.Pass[:at], append([]int{len(cl.Script) - 1}, cl.Pass[at:]...)...)
		cl.CpPos = r.Intn(len(cl.Pass) + 2)
		c.Calls = append(c.Calls, cl)
	}
	return c
}
