// Shrinker of engine C16: greedy minimisation of a case on which the direct oracle fails
// (same signature). Only transformations that keep the case well formed: drop a passed option,
// drop trailing calls, drop interrupt points / rerun flags, drop a one-node chain
// that no branch needs, turn Stream / Collect / Transform into Invoke.
package main

import "encoding/json"

func cloneCase(c *Case) *Case {
	b, _ := json.Marshal(c)
	var d Case
	_ = json.Unmarshal(b, &d)
	return &d
}

func (engine) Shrink(ci any, stillFails func(any) bool) any {
	cur := ci.(*Case)
	try := func(mut func(c *Case) bool) bool {
		d := cloneCase(cur)
		if !mut(d) {
			return false
		}
		if stillFails(d) {
			cur = d
			return true
		}
		return false
	}
	budget := 150
	for changed := true; changed && budget > 0; {
		changed = false
		// trailing calls (a classic case keeps its two calls: they run concurrently)
		if cur.Resume {
			for len(cur.Calls) > 1 && budget > 0 {
				budget--
				if !try(func(c *Case) bool { c.Calls = c.Calls[:len(c.Calls)-1]; return true }) {
					break
				}
				changed = true
			}
		}
		if cur.Share && budget > 0 {
			budget--
			if try(func(c *Case) bool { c.Share = false; return true }) {
				changed = true
			}
		}
		for ci := range cur.Calls {
			for j := len(cur.Calls[ci].Pass) - 1; j >= 0 && budget > 0; j-- {
				if len(cur.Calls[ci].Pass) <= 1 {
					break
				}
				budget--
				if try(func(c *Case) bool {
					p := c.Calls[ci].Pass
					c.Calls[ci].Pass = append(append([]int{}, p[:j]...), p[j+1:]...)
					return true
				}) {
					changed = true
				}
			}
			if cur.Calls[ci].Host > 0 && budget > 0 {
				// a hosted call: from a fresh context, then without the host's own options / handlers
				budget--
				if try(func(c *Case) bool {
					c.Calls[ci].Host, c.Calls[ci].HostHs, c.Calls[ci].HostBait = 0, nil, false
					return true
				}) {
					changed = true
				} else if cur.Calls[ci].HostBait || len(cur.Calls[ci].HostHs) > 0 {
					budget--
					if try(func(c *Case) bool {
						if c.Calls[ci].Host == 4 {
							return false
						}
						c.Calls[ci].HostHs, c.Calls[ci].HostBait = nil, false
						return true
					}) {
						changed = true
					}
				}
			}
			if (cur.Calls[ci].Stream || cur.Calls[ci].InStr) && budget > 0 {
				budget--
				if try(func(c *Case) bool { c.Calls[ci].Stream, c.Calls[ci].InStr = false, false; return true }) {
					changed = true
				}
			}
		}
		for gi := range cur.Forest {
			for _, which := range []int{0, 1} {
				n := len(cur.Forest[gi].IB)
				if which == 1 {
					n = len(cur.Forest[gi].IA)
				}
				for j := n - 1; j >= 0 && budget > 0; j-- {
					budget--
					if try(func(c *Case) bool {
						g := &c.Forest[gi]
						if which == 0 {
							g.IB = append(append([]int{}, g.IB[:j]...), g.IB[j+1:]...)
						} else {
							g.IA = append(append([]int{}, g.IA[:j]...), g.IA[j+1:]...)
						}
						return true
					}) {
						changed = true
					}
				}
			}
			// a looping graph: fewer iterations, then no loop at all (the Back relay goes)
			for cur.Forest[gi].Loop > 0 && budget > 0 {
				budget--
				if !try(func(c *Case) bool {
					g := &c.Forest[gi]
					g.Loop--
					if g.Loop == 0 {
						var keep []Node
						for _, nd := range g.Nodes {
							if !nd.Back {
								keep = append(keep, nd)
							}
						}
						g.Nodes = keep
					}
					return true
				}) {
					break
				}
				changed = true
			}
			for ni := len(cur.Forest[gi].Nodes) - 1; ni >= 0 && budget > 0; ni-- {
				nd := cur.Forest[gi].Nodes[ni]
				if nd.Nat != 0 {
					budget--
					if try(func(c *Case) bool { c.Forest[gi].Nodes[ni].Nat = 0; return true }) {
						changed = true
					}
				}
				if nd.Rerun {
					budget--
					if try(func(c *Case) bool { c.Forest[gi].Nodes[ni].Rerun = false; return true }) {
						changed = true
						continue
					}
				}
				// a whole one-node chain: follows START, nothing follows it, not behind a branch, not
				// the last node of its graph, not an interrupt point
				if nd.Br || nd.Pred != 0 || len(cur.Forest[gi].Nodes) <= 1 {
					continue
				}
				used := false
				for _, o := range cur.Forest[gi].Nodes {
					if o.Pred == nd.Key {
						used = true
					}
				}
				for _, k := range append(append([]int{}, cur.Forest[gi].IB...), cur.Forest[gi].IA...) {
					if k == nd.Key {
						used = true
					}
				}
				if used {
					continue
				}
				budget--
				if try(func(c *Case) bool {
					g := &c.Forest[gi]
					g.Nodes = append(append([]Node{}, g.Nodes[:ni]...), g.Nodes[ni+1:]...)
					if g.Chain && chainShape(*g) == "" {
						return false
					}
					heads := 0
					for _, o := range g.Nodes {
						if o.Pred == 0 && !o.Br {
							heads++
						}
					}
					return !(g.Wf && heads == 0)
				}) {
					changed = true
				}
			}
		}
	}
	return cur
}
