// Graphs of engine C16 built as compose.Workflow (all-predecessor trigger mode, eager
// execution: a successor starts as soon as its own predecessors are done, so after an
// interrupt is seen other tasks may still complete and create new tasks). Call options are
// routed by node key exactly as in a compose.Graph; the workflow differs in how the engine
// steps, i.e. in which of runner.run's paths create the tasks that carry the options.
//
// Wiring: every node takes its data from START (a component: the field of the input map named
// by its node path; a lambda / nested graph / passthrough: the whole map) and hands its output
// to END under its key; a node that follows another one (Pred) depends on it by a control-only
// dependency and takes its data from START without a direct dependency.
package main

import (
	"context"
	"fmt"

	"github.com/cloudwego/eino/components/document"
	"github.com/cloudwego/eino/components/embedding"
	"github.com/cloudwego/eino/components/indexer"
	"github.com/cloudwego/eino/components/model"
	"github.com/cloudwego/eino/components/prompt"
	"github.com/cloudwego/eino/components/retriever"
	"github.com/cloudwego/eino/compose"
)

// nodeSink: what addComp needs of a graph or a workflow
type nodeSink interface {
	isWorkflow() bool
	AddLambdaNode(key string, l *compose.Lambda, o ...compose.GraphAddNodeOpt) error
	AddChatModelNode(key string, m model.BaseChatModel, o ...compose.GraphAddNodeOpt) error
	AddRetrieverNode(key string, r retriever.Retriever, o ...compose.GraphAddNodeOpt) error
	AddEmbeddingNode(key string, e embedding.Embedder, o ...compose.GraphAddNodeOpt) error
	AddChatTemplateNode(key string, t prompt.ChatTemplate, o ...compose.GraphAddNodeOpt) error
	AddToolsNode(key string, t *compose.ToolsNode, o ...compose.GraphAddNodeOpt) error
	AddIndexerNode(key string, i indexer.Indexer, o ...compose.GraphAddNodeOpt) error
	AddLoaderNode(key string, l document.Loader, o ...compose.GraphAddNodeOpt) error
	AddDocumentTransformerNode(key string, t document.Transformer, o ...compose.GraphAddNodeOpt) error
}

type graphSink struct {
	*compose.Graph[map[string]any, map[string]any]
}

func (graphSink) isWorkflow() bool { return false }

// wfSink remembers the node added last (workflow errors are reported by Compile)
type wfSink struct {
	wf   *compose.Workflow[map[string]any, map[string]any]
	last *compose.WorkflowNode
}

func (*wfSink) isWorkflow() bool { return true }
func (s *wfSink) AddLambdaNode(key string, l *compose.Lambda, o ...compose.GraphAddNodeOpt) error {
	s.last = s.wf.AddLambdaNode(key, l, o...)
	return nil
}
func (s *wfSink) AddChatModelNode(key string, m model.BaseChatModel, o ...compose.GraphAddNodeOpt) error {
	s.last = s.wf.AddChatModelNode(key, m, o...)
	return nil
}
func (s *wfSink) AddRetrieverNode(key string, r retriever.Retriever, o ...compose.GraphAddNodeOpt) error {
	s.last = s.wf.AddRetrieverNode(key, r, o...)
	return nil
}
func (s *wfSink) AddEmbeddingNode(key string, e embedding.Embedder, o ...compose.GraphAddNodeOpt) error {
	s.last = s.wf.AddEmbeddingNode(key, e, o...)
	return nil
}
func (s *wfSink) AddChatTemplateNode(key string, t prompt.ChatTemplate, o ...compose.GraphAddNodeOpt) error {
	s.last = s.wf.AddChatTemplateNode(key, t, o...)
	return nil
}
func (s *wfSink) AddToolsNode(key string, t *compose.ToolsNode, o ...compose.GraphAddNodeOpt) error {
	s.last = s.wf.AddToolsNode(key, t, o...)
	return nil
}
func (s *wfSink) AddIndexerNode(key string, i indexer.Indexer, o ...compose.GraphAddNodeOpt) error {
	s.last = s.wf.AddIndexerNode(key, i, o...)
	return nil
}
func (s *wfSink) AddLoaderNode(key string, l document.Loader, o ...compose.GraphAddNodeOpt) error {
	s.last = s.wf.AddLoaderNode(key, l, o...)
	return nil
}
func (s *wfSink) AddDocumentTransformerNode(key string, t document.Transformer, o ...compose.GraphAddNodeOpt) error {
	s.last = s.wf.AddDocumentTransformerNode(key, t, o...)
	return nil
}

func buildWorkflow1(ctx context.Context, F []Graph, gi int, pre []int, depth int, bt *built) (compilable, error) {
	wf := compose.NewWorkflow[map[string]any, map[string]any]()
	sink := &wfSink{wf: wf}
	targets := map[string]bool{}
	sel := map[string]bool{}
	hasSucc := map[int]bool{}
	for _, nd := range F[gi].Nodes {
		if nd.Pred != 0 {
			hasSucc[nd.Pred] = true
		}
	}
	for _, nd := range F[gi].Nodes {
		key := keyStr(nd.Key)
		p := append(append([]int{}, pre...), nd.Key)
		name := pathName(p)
		var wn *compose.WorkflowNode
		var from []*compose.FieldMapping // nil: the whole input map
		switch nd.Kind {
		case "comp":
			v, err := addComp(ctx, sink, key, name, nd.Ty, nd.Nat)
			if err != nil {
				return nil, err
			}
			wn = sink.last
			if v != nil {
				bt.inputs[name] = v
				from = []*compose.FieldMapping{compose.FromField(name)}
			}
		case "pass":
			wn = wf.AddPassthroughNode(key, compose.WithNodeName(name))
		case "sub":
			sb, err := buildGraph1(ctx, F, nd.Sub, p, depth+1, bt)
			if err != nil {
				return nil, err
			}
			wn = wf.AddGraphNode(key, sb, compose.WithNodeName(name), compose.WithGraphCompileOptions(compileOpts(F[nd.Sub])...))
		case "relay":
			l := compose.InvokableLambda(func(ctx context.Context, in map[string]any) (map[string]any, error) {
				if err := visit(ctx, name, nil); err != nil {
					return nil, err
				}
				return map[string]any{}, nil
			})
			wn = wf.AddLambdaNode(key, l, compose.WithNodeName(name))
		default:
			return nil, fmt.Errorf("harness: bad node kind %q", nd.Kind)
		}
		switch {
		case nd.Pred != 0:
			wn.AddInputWithOptions(compose.START, from, compose.WithNoDirectDependency())
			wn.AddDependency(keyStr(nd.Pred))
		case nd.Br:
			wn.AddInputWithOptions(compose.START, from, compose.WithNoDirectDependency())
			targets[key] = true
			if nd.Runs {
				sel[key] = true
			}
		default:
			wn.AddInput(compose.START, from...)
		}
		if !hasSucc[nd.Key] {
			wf.End().AddInput(key, compose.ToField(key))
		}
	}
	if len(targets) > 0 {
		br := compose.NewGraphMultiBranch(func(ctx context.Context, in map[string]any) (map[string]bool, error) {
			out := map[string]bool{}
			for k := range sel {
				out[k] = true
			}
			return out, nil
		}, targets)
		wf.AddBranch(compose.START, br)
	}
	return wf, nil
}

// ---------------------------------------------------------------- compose.Chain

// chainSink appends to a compose.Chain; the node key is given by WithNodeKey (chain errors are
// reported by Compile)
type chainSink struct {
	ch *compose.Chain[map[string]any, map[string]any]
}

func (chainSink) isWorkflow() bool { return false }
func withKey(key string, o []compose.GraphAddNodeOpt) []compose.GraphAddNodeOpt {
	return append(append([]compose.GraphAddNodeOpt{}, o...), compose.WithNodeKey(key))
}
func (s chainSink) AddLambdaNode(key string, l *compose.Lambda, o ...compose.GraphAddNodeOpt) error {
	s.ch.AppendLambda(l, withKey(key, o)...)
	return nil
}
func (s chainSink) AddChatModelNode(key string, m model.BaseChatModel, o ...compose.GraphAddNodeOpt) error {
	s.ch.AppendChatModel(m, withKey(key, o)...)
	return nil
}
func (s chainSink) AddRetrieverNode(key string, r retriever.Retriever, o ...compose.GraphAddNodeOpt) error {
	s.ch.AppendRetriever(r, withKey(key, o)...)
	return nil
}
func (s chainSink) AddEmbeddingNode(key string, e embedding.Embedder, o ...compose.GraphAddNodeOpt) error {
	s.ch.AppendEmbedding(e, withKey(key, o)...)
	return nil
}
func (s chainSink) AddChatTemplateNode(key string, t prompt.ChatTemplate, o ...compose.GraphAddNodeOpt) error {
	s.ch.AppendChatTemplate(t, withKey(key, o)...)
	return nil
}
func (s chainSink) AddToolsNode(key string, t *compose.ToolsNode, o ...compose.GraphAddNodeOpt) error {
	s.ch.AppendToolsNode(t, withKey(key, o)...)
	return nil
}
func (s chainSink) AddIndexerNode(key string, i indexer.Indexer, o ...compose.GraphAddNodeOpt) error {
	s.ch.AppendIndexer(i, withKey(key, o)...)
	return nil
}
func (s chainSink) AddLoaderNode(key string, l document.Loader, o ...compose.GraphAddNodeOpt) error {
	s.ch.AppendLoader(l, withKey(key, o)...)
	return nil
}
func (s chainSink) AddDocumentTransformerNode(key string, t document.Transformer, o ...compose.GraphAddNodeOpt) error {
	s.ch.AppendDocumentTransformer(t, withKey(key, o)...)
	return nil
}

// chainOrder: the nodes of a graph that is one chain START -> n1 -> n2 -> ... -> END, in that
// order (nil: the graph has another shape)
func chainOrder(g Graph) []Node {
	var out []Node
	cur := 0
	n := 0
	for _, nd := range g.Nodes {
		if !nd.Back {
			n++
		}
	}
	for len(out) < n {
		found := -1
		for i, nd := range g.Nodes {
			if nd.Pred == cur && !nd.Br && !nd.Back {
				if found >= 0 {
					return nil
				}
				found = i
			}
		}
		if found < 0 || g.Nodes[found].Key == 0 {
			return nil
		}
		out = append(out, g.Nodes[found])
		cur = g.Nodes[found].Key
	}
	if len(out) == 0 || out[len(out)-1].Kind == "relay" {
		return nil
	}
	return out
}

// chainShape: how a graph can be written as a compose.Chain: "chain" (one chain of nodes),
// "parallel" (START fans out to all nodes, all lead to END: Chain.AppendParallel), "branch"
// (all nodes are ends of one multi-branch from START: Chain.AppendBranch), "" (not at all)
func chainShape(g Graph) string {
	if chainOrder(g) != nil {
		return "chain"
	}
	if len(g.Nodes) < 2 {
		return ""
	}
	allBr, noneBr := true, true
	for _, nd := range g.Nodes {
		if nd.Pred != 0 || nd.Kind == "relay" {
			return ""
		}
		if nd.Br {
			noneBr = false
		} else {
			allBr = false
		}
	}
	switch {
	case noneBr:
		return "parallel"
	case allBr:
		return "branch"
	}
	return ""
}

// parSink adds to a compose.Parallel, brSink to a compose.ChainBranch (node key through WithNodeKey)
type parSink struct{ p *compose.Parallel }

func (parSink) isWorkflow() bool { return false }
func (s parSink) AddLambdaNode(key string, l *compose.Lambda, o ...compose.GraphAddNodeOpt) error {
	s.p.AddLambda(key, l, withKey(key, o)...)
	return nil
}
func (s parSink) AddChatModelNode(key string, m model.BaseChatModel, o ...compose.GraphAddNodeOpt) error {
	s.p.AddChatModel(key, m, withKey(key, o)...)
	return nil
}
func (s parSink) AddRetrieverNode(key string, r retriever.Retriever, o ...compose.GraphAddNodeOpt) error {
	s.p.AddRetriever(key, r, withKey(key, o)...)
	return nil
}
func (s parSink) AddEmbeddingNode(key string, e embedding.Embedder, o ...compose.GraphAddNodeOpt) error {
	s.p.AddEmbedding(key, e, withKey(key, o)...)
	return nil
}
func (s parSink) AddChatTemplateNode(key string, t prompt.ChatTemplate, o ...compose.GraphAddNodeOpt) error {
	s.p.AddChatTemplate(key, t, withKey(key, o)...)
	return nil
}
func (s parSink) AddToolsNode(key string, t *compose.ToolsNode, o ...compose.GraphAddNodeOpt) error {
	s.p.AddToolsNode(key, t, withKey(key, o)...)
	return nil
}
func (s parSink) AddIndexerNode(key string, i indexer.Indexer, o ...compose.GraphAddNodeOpt) error {
	s.p.AddIndexer(key, i, withKey(key, o)...)
	return nil
}
func (s parSink) AddLoaderNode(key string, l document.Loader, o ...compose.GraphAddNodeOpt) error {
	s.p.AddLoader(key, l, withKey(key, o)...)
	return nil
}
func (s parSink) AddDocumentTransformerNode(key string, t document.Transformer, o ...compose.GraphAddNodeOpt) error {
	s.p.AddDocumentTransformer(key, t, withKey(key, o)...)
	return nil
}

type brSink struct{ b *compose.ChainBranch }

func (brSink) isWorkflow() bool { return false }
func (s brSink) AddLambdaNode(key string, l *compose.Lambda, o ...compose.GraphAddNodeOpt) error {
	s.b.AddLambda(key, l, withKey(key, o)...)
	return nil
}
func (s brSink) AddChatModelNode(key string, m model.BaseChatModel, o ...compose.GraphAddNodeOpt) error {
	s.b.AddChatModel(key, m, withKey(key, o)...)
	return nil
}
func (s brSink) AddRetrieverNode(key string, r retriever.Retriever, o ...compose.GraphAddNodeOpt) error {
	s.b.AddRetriever(key, r, withKey(key, o)...)
	return nil
}
func (s brSink) AddEmbeddingNode(key string, e embedding.Embedder, o ...compose.GraphAddNodeOpt) error {
	s.b.AddEmbedding(key, e, withKey(key, o)...)
	return nil
}
func (s brSink) AddChatTemplateNode(key string, t prompt.ChatTemplate, o ...compose.GraphAddNodeOpt) error {
	s.b.AddChatTemplate(key, t, withKey(key, o)...)
	return nil
}
func (s brSink) AddToolsNode(key string, t *compose.ToolsNode, o ...compose.GraphAddNodeOpt) error {
	s.b.AddToolsNode(key, t, withKey(key, o)...)
	return nil
}
func (s brSink) AddIndexerNode(key string, i indexer.Indexer, o ...compose.GraphAddNodeOpt) error {
	s.b.AddIndexer(key, i, withKey(key, o)...)
	return nil
}
func (s brSink) AddLoaderNode(key string, l document.Loader, o ...compose.GraphAddNodeOpt) error {
	s.b.AddLoader(key, l, withKey(key, o)...)
	return nil
}
func (s brSink) AddDocumentTransformerNode(key string, t document.Transformer, o ...compose.GraphAddNodeOpt) error {
	s.b.AddDocumentTransformer(key, t, withKey(key, o)...)
	return nil
}

// buildChainFan: a graph whose nodes all hang from START, as a Chain with one Parallel or one
// multi-branch
func buildChainFan(ctx context.Context, F []Graph, gi int, pre []int, depth int, bt *built, shape string) (compilable, error) {
	ch := compose.NewChain[map[string]any, map[string]any]()
	par := compose.NewParallel()
	sel := map[string]bool{}
	br := compose.NewChainMultiBranch(func(ctx context.Context, in map[string]any) (map[string]bool, error) {
		out := map[string]bool{}
		for k := range sel {
			out[k] = true
		}
		return out, nil
	})
	var sink nodeSink = parSink{par}
	if shape == "branch" {
		sink = brSink{br}
	}
	for _, nd := range F[gi].Nodes {
		key := keyStr(nd.Key)
		p := append(append([]int{}, pre...), nd.Key)
		name := pathName(p)
		if nd.Runs {
			sel[key] = true
		}
		switch nd.Kind {
		case "comp":
			v, err := addComp(ctx, sink, key, name, nd.Ty, nd.Nat)
			if err != nil {
				return nil, err
			}
			if v != nil {
				bt.inputs[name] = v
			}
		case "pass":
			if shape == "branch" {
				br.AddPassthrough(key, compose.WithNodeKey(key), compose.WithNodeName(name), compose.WithOutputKey(key))
			} else {
				par.AddPassthrough(key, compose.WithNodeKey(key), compose.WithNodeName(name))
			}
		case "sub":
			sb, err := buildGraph1(ctx, F, nd.Sub, p, depth+1, bt)
			if err != nil {
				return nil, err
			}
			o := []compose.GraphAddNodeOpt{compose.WithNodeKey(key), compose.WithNodeName(name), compose.WithOutputKey(key),
				compose.WithGraphCompileOptions(compileOpts(F[nd.Sub])...)}
			if shape == "branch" {
				br.AddGraph(key, sb, o...)
			} else {
				par.AddGraph(key, sb, o...)
			}
		default:
			return nil, fmt.Errorf("harness: bad node kind %q in a chain fan", nd.Kind)
		}
	}
	if shape == "branch" {
		ch.AppendBranch(br)
	} else {
		ch.AppendParallel(par)
	}
	return ch, nil
}

func buildChain1(ctx context.Context, F []Graph, gi int, pre []int, depth int, bt *built) (compilable, error) {
	if shape := chainShape(F[gi]); shape == "parallel" || shape == "branch" {
		return buildChainFan(ctx, F, gi, pre, depth, bt, shape)
	}
	order := chainOrder(F[gi])
	if order == nil {
		return nil, fmt.Errorf("harness: graph %d is not a chain", gi)
	}
	ch := compose.NewChain[map[string]any, map[string]any]()
	sink := chainSink{ch}
	for _, nd := range order {
		key := keyStr(nd.Key)
		p := append(append([]int{}, pre...), nd.Key)
		name := pathName(p)
		switch nd.Kind {
		case "comp":
			v, err := addComp(ctx, sink, key, name, nd.Ty, nd.Nat)
			if err != nil {
				return nil, err
			}
			if v != nil {
				bt.inputs[name] = v
			}
		case "pass":
			ch.AppendPassthrough(compose.WithNodeKey(key), compose.WithNodeName(name), compose.WithOutputKey(key))
		case "sub":
			sb, err := buildGraph1(ctx, F, nd.Sub, p, depth+1, bt)
			if err != nil {
				return nil, err
			}
			ch.AppendGraph(sb, compose.WithNodeKey(key), compose.WithNodeName(name), compose.WithOutputKey(key),
				compose.WithGraphCompileOptions(compileOpts(F[nd.Sub])...))
		case "relay":
			l := compose.InvokableLambda(func(ctx context.Context, in map[string]any) (map[string]any, error) {
				if err := visit(ctx, name, nil); err != nil {
					return nil, err
				}
				return bt.input(), nil
			})
			ch.AppendLambda(l, compose.WithNodeKey(key), compose.WithNodeName(name))
		default:
			return nil, fmt.Errorf("harness: bad node kind %q", nd.Kind)
		}
	}
	return ch, nil
}
