// Engine C06 — interrupt points honoured and reported exactly (shared code in harness/intr).
package main

import (
	"verif/harness/intr"
	"verif/harness/lib"
)

func main() { lib.Main(intr.Engine{Prop: "C06"}) }
