//go:build verif_c09wb

// Engine C20 — what the harness reads through the white-box group of property C09 (compose/verif_c09.go, build tags
// verif && verif_c09wb): the structure of a compiled runnable and the projection of its runner.  Built without the
// group (wb_c09_off.go) both are unavailable: "runnable unaffected" is then judged by behaviour only and the compiled
// record is not compared with the model's runner.
package main

import (
	"fmt"
	"strings"

	"github.com/cloudwego/eino/compose"

	"verif/harness/lib"
)

const haveRunner = true

// structure renders everything the compiled runnable keeps (its runner with node table, edge
// slices incl. spare capacity, branch objects, the handler maps it shares with the builder, ...)
// through the read-only hook compose/verif_c09.go; nil when the hook could not walk it.
func structure(root any) []string {
	var lines []string
	var fail string
	if p := lib.Recover(func() { lines, _, fail = compose.VerifC09Snapshot(root) }); p != nil || fail != "" {
		return nil
	}
	return lines
}

// runnerLines renders the runner behind a runnable (compose.VerifC09Project): node keys, control and
// data edges, branches, trigger mode, eager flag, step limit.
func runnerLines(root any) []string {
	var g *compose.VerifC09Graph
	if p := lib.Recover(func() { g = compose.VerifC09Project(root) }); p != nil || g == nil {
		return []string{"runner-not-readable"}
	}
	var out []string
	for _, n := range g.Nodes {
		out = append(out, "rn:"+n.Key)
	}
	for _, p := range g.Ctrl {
		out = append(out, "rc:"+p[0]+">"+p[1])
	}
	for _, p := range g.Data {
		out = append(out, "rd:"+p[0]+">"+p[1])
	}
	for _, b := range g.Branches {
		out = append(out, "rb:"+b.From+">"+strings.Join(b.Ends, ","))
	}
	out = append(out, "rg:"+flag(g.Dag, "dag", "pregel"), "re:"+flag(g.Eager, "eager", "batch"), fmt.Sprintf("rm:%d", g.MaxSteps))
	return out
}

