// Engine C20 — nested builders: the Go-side oracle for a case whose sub-graph nodes are Graph values
// the case goes on calling (front-end "nested").  Independent of the model: every builder of the case
// (the outer Graph and each inner Graph) is looked at on its own, through the calls made on it and what
// they returned; compiling the outer graph counts as a Compile of every inner graph one of its nodes holds.
package main

import (
	"fmt"
	"sort"
)

// nestedOracle returns the signature and description of the first clause of the property that fails, or "", "".
func nestedOracle(c *Case, obs []CallObs) (string, string) {
	type builder struct {
		name   string
		calls  []Call    // projection: the calls made on this builder (an outer Compile that held it = its Compile)
		obs    []CallObs // what they returned
		at     []int     // index in the case (-1: part of the initial construction)
		sticky string    // class of its build error
		frozen int       // index of the call that compiled it successfully, -1 = not yet
		kind   string    // graph | chain | workflow
		touch  int       // chain: index of the first Append* made after it was compiled, -1 = none
	}
	outer := &builder{name: "the outer graph", frozen: -1, touch: -1, kind: "graph"}
	inners := map[string]*builder{}
	attached := map[string][]Call{} // inner values held by accepted nodes of the outer graph: one Compile, with the node's options, per node
	var ids []string
	add := func(b *builder, k Call, o CallObs, i int) {
		b.calls, b.obs, b.at = append(b.calls, k), append(b.obs, o), append(b.at, i)
	}
	ok := CallObs{K: "ok"}
	// a direct call on a builder: sticky error and no modification after a Compile
	direct := func(b *builder, k *Call, o CallObs, i int) (string, string) {
		if b.kind != "graph" {
			// the Append* / declaring calls of a Chain / Workflow return nothing: what they did wrong is reported by the
			// next Compile (spec.go judges the projection below); here: a compiled Chain that was appended to
			if b.kind == "chain" && isAdd(k.Op) && b.frozen >= 0 && b.touch < 0 {
				b.touch = i
			}
			if b.kind == "chain" && k.Op == "compile" && o.K == "ok" && b.touch >= 0 {
				return "modified-after-compile", fmt.Sprintf("Compile at %d of %s succeeded although it was appended to (call %d) after the Compile at %d had compiled it", i, b.name, b.touch, b.frozen)
			}
			return "", ""
		}
		if b.sticky != "" && (o.K != "err" || o.Cls != b.sticky) {
			return "not-sticky", fmt.Sprintf("call %d on %s returned %s/%s after the build error %s", i, b.name, o.K, o.Cls, b.sticky)
		}
		if isAdd(k.Op) {
			if b.frozen >= 0 && o.K == "ok" {
				return "modified-after-compile", fmt.Sprintf("call %d (%s on %s) succeeded after the Compile at %d had compiled that graph", i, k.Op, b.name, b.frozen)
			}
			if b.sticky == "" && o.K == "err" && o.Cls != "ECompiled" {
				b.sticky = o.Cls
			}
		}
		return "", ""
	}
	for i := range c.Calls {
		k, o := &c.Calls[i], obs[i]
		switch k.Op {
		case "sub":
			in, have := inners[k.ID]
			if !have {
				in = &builder{name: "the inner graph " + k.ID, frozen: -1, touch: -1, kind: "graph"}
				switch k.Kind {
				case "subchain", "subchainbad":
					in.kind, in.name = "chain", "the inner chain "+k.ID
				case "subwf", "subwfbad":
					in.kind, in.name = "workflow", "the inner workflow "+k.ID
				}
				inners[k.ID] = in
				ids = append(ids, k.ID)
				if in.kind == "graph" {
					add(in, Call{Op: "addnode", Key: "s", Kind: "lambda"}, ok, -1)
					if k.Kind != "subbad" {
						add(in, Call{Op: "addedge", From: "start", To: "s"}, ok, -1)
						add(in, Call{Op: "addedge", From: "s", To: "end"}, ok, -1)
					}
				}
				for _, ic := range childInit(k.Kind) {
					add(in, ic, ok, -1)
				}
			}
			node := Call{Op: "addnode", Key: k.Key, Kind: "lambda"}
			if sig, what := direct(outer, &node, o, i); sig != "" {
				return sig, what
			}
			add(outer, node, o, i)
			if o.K == "ok" {
				attached[k.ID] = append(attached[k.ID], Call{Op: "compile", Trigger: k.Trigger, MaxSteps: k.MaxSteps})
			}
		case "inner":
			in := inners[k.ID]
			if in == nil || k.Sub == nil {
				continue
			}
			if sig, what := direct(in, k.Sub, o, i); sig != "" {
				return sig, what
			}
			add(in, *k.Sub, o, i)
			if k.Sub.Op == "compile" && o.K == "ok" && in.frozen < 0 {
				in.frozen = i
			}
		default:
			if sig, what := direct(outer, k, o, i); sig != "" {
				return sig, what
			}
			if k.Op == "compile" && o.K == "err" && len(attached) > 0 {
				// the error may be a child's (its own cycle in its node's all-predecessor mode, …): the converse rules
				// of spec.go ("rejected although …") speak about the outer graph's own declarations only
				o.Cls = "EChild"
			}
			add(outer, *k, o, i)
			if k.Op == "compile" && o.K == "ok" {
				if outer.frozen < 0 {
					outer.frozen = i
				}
				// the children have been compiled with their nodes' options
				for _, id := range ids {
					if in := inners[id]; len(attached[id]) > 0 {
						if in.kind == "chain" && in.touch >= 0 {
							return "modified-after-compile", fmt.Sprintf("Compile at %d succeeded although %s, a node of the graph, was appended to (call %d) after the Compile at %d had compiled it", i, in.name, in.touch, in.frozen)
						}
						for _, vc := range attached[id] {
							add(in, vc, ok, i)
						}
						if in.frozen < 0 {
							in.frozen = i
						}
					}
				}
			}
		}
	}
	// nothing ill-formed was accepted, builder by builder (spec.go, the Graph rules)
	sort.Strings(ids)
	for _, b := range append([]*builder{outer}, func() (l []*builder) {
		for _, id := range ids {
			l = append(l, inners[id])
		}
		return
	}()...) {
		pc := &Case{FE: b.kind, State: c.State && b == outer, Calls: b.calls}
		if sig, what := acceptedIllFormed(pc, b.obs); sig != "" {
			return sig, what + fmt.Sprintf(" (calls made on %s, numbered within it; case indices %v)", b.name, b.at)
		}
	}
	return "", ""
}
