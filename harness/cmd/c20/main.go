// Engine C20 — ill-formed constructions are rejected deterministically, the first build
// error sticks, a compiled graph cannot be modified and its runnable is unaffected by
// later calls.  Mirrors coq/Model/Builder.v through coq/Corr/C20.v.
package main

import (
	"encoding/json"
	"fmt"
	"sort"
	"strings"

	"verif/harness/lib"
)

type Obs struct {
	Calls  []CallObs `json:"calls"`
	Intact bool      `json:"intact"`
}

type engine struct{}

func (engine) ID() string { return "C20" }
func (engine) CoqHeader() string {
	return "From Eino Require Import Base.Util Model.Builder Model.BuilderNested Corr.C20.\nImport Coq.Init.Byte.\n"
}
func (engine) CoqCaseType() string { return "ccase" }

// coqHashes prints 40-bit hashes as (H5 b4 b3 b2 b1 b0) over the constructors of Coq.Init.Byte.byte (Corr/C20.v: H5):
// coqc interprets a decimal literal of 13 digits in 0.7 ms, and a quick run has 70 000 of them — more than half of
// the model side's time; five constructors are read five times faster and denote the same number.
func coqHashes(ns []uint64) string {
	s := make([]string, len(ns))
	for i, n := range ns {
		s[i] = fmt.Sprintf("(H5 x%02x x%02x x%02x x%02x x%02x)", byte(n>>32), byte(n>>24), byte(n>>16), byte(n>>8), byte(n))
	}
	return lib.CoqList(s)
}

func (engine) Decode(raw json.RawMessage) (any, error) {
	var c Case
	if err := json.Unmarshal(raw, &c); err != nil {
		return nil, err
	}
	if c.Src == "" {
		c.Src = "hand"
	}
	normalize(&c)
	return &c, nil
}

// normalize puts a case into the canonical form both sides interpret:
// end-node sets sorted and duplicate free, ChainBranch items sorted by branch key, state
// handlers only on lambda nodes (a handler on a pass-through / sub graph is a typing
// question, property C07), mapping targets among the two fields of WS.
func normalize(c *Case) {
	ws := c.FE == "nested" && usesWS(c)
	childKind := map[string]string{} // nested: the kind an inner builder was created with
	staticField := map[string]string{} // one static field per node: the order in which Go meets several paths of one node is not observable
	for i := range c.Calls {
		k := &c.Calls[i]
		if c.FE == "workflow" && k.Op == "setstatic" {
			if len(k.Fields) == 0 {
				k.Fields = []string{"B"}
			}
			k.Fields = k.Fields[:1]
			if f, ok := staticField[k.To]; ok {
				k.Fields[0] = f
			} else {
				staticField[k.To] = k.Fields[0]
			}
		}
		if c.FE == "nested" {
			if k.Op == "sub" {
				switch {
				case ws && (k.Kind == "subchain" || k.Kind == "subchainbad"):
					k.Kind = "subok" // a Chain of this harness works on M, the Workflow universe is WS
				case k.Kind == "subbad", k.Kind == "subchain", k.Kind == "subchainbad", k.Kind == "subwf", k.Kind == "subwfbad":
				default:
					k.Kind = "subok"
				}
				if _, seen := childKind[k.ID]; !seen {
					childKind[k.ID] = k.Kind
				}
			}
			if k.Op == "inner" && k.Sub != nil {
				fe := "graph"
				switch childKind[k.ID] {
				case "subchain", "subchainbad":
					fe = "chain"
				case "subwf", "subwfbad":
					fe = "workflow"
				}
				if !map[string]map[string]bool{
					"graph":    {"addnode": true, "addedge": true, "addbranch": true, "compile": true},
					"chain":    {"append": true, "parallel": true, "branch": true, "compile": true},
					"workflow": {"addnode": true, "addinput": true, "addbranch": true, "addend": true, "setstatic": true, "compile": true},
				}[fe][k.Sub.Op] {
					k.Sub = nil // not a call of that kind of builder (a shrunk case that lost the sub call): a no-op on both sides
					continue
				}
				sub := Case{FE: fe, Calls: []Call{*k.Sub}}
				normalize(&sub)
				s0 := sub.Calls[0]
				// no builders inside an inner builder, no state handlers (an inner builder has no state)
				if s0.Kind != "" && s0.Kind != "pass" {
					s0.Kind = "lambda"
				}
				for j := range s0.Items {
					if s0.Items[j].Kind != "pass" {
						s0.Items[j].Kind = "lambda"
					}
				}
				s0.NeedState, s0.NodeKeyOpt, s0.ID, s0.Sub = false, false, "", nil
				k.Sub = &s0
			}
			if k.Op == "addnode" && k.Kind != "pass" {
				k.Kind = "lambda" // the sub graphs of a nested case are named values (op sub)
			}
		}
		if k.Kind == "lamkey" && !(c.FE == "workflow" && k.Op == "addnode") {
			k.Kind = "lambda" // a lambda with an output key: a node of a top-level Workflow only
		}
		if k.In == "fromkey" {
			k.Fields = nil
		}
		if keyedPass(k.Kind) && !(c.FE == "graph" && k.Op == "addnode") {
			k.Kind = "pass" // keyed pass-through nodes: nodes of a top-level Graph only
		}
		for j := range k.Items {
			if keyedPass(k.Items[j].Kind) {
				k.Items[j].Kind = "pass"
			}
		}
		if k.Kind != "lambda" {
			k.NeedState = false
		}
		if !k.NeedState {
			k.HK = 0
		}
		k.HK &= 3
		if k.Ends != nil {
			sort.Strings(k.Ends)
			out := k.Ends[:0]
			for j, e := range k.Ends {
				if j == 0 || e != k.Ends[j-1] {
					out = append(out, e)
				}
			}
			k.Ends = out
		}
		if k.Op == "branch" {
			sort.SliceStable(k.Items, func(a, b int) bool { return k.Items[a].Key < k.Items[b].Key })
		}
		if c.FE == "workflow" && k.Op == "addinput" {
			if k.In == "" {
				k.In = "normal"
			}
			if k.In == "dep" {
				k.Fields = nil
			}
		}
	}
}

// ---------------------------------------------------------------- Gallina printers

func coqKind(k string) string {
	switch k {
	case "lambda":
		return "NLambda"
	case "pass":
		return "NPass"
	case "subok":
		return "NSubOk"
	}
	return "NSubBad"
}

func coqOpt(c *Call) string {
	t := "None"
	switch c.Trigger {
	case "any":
		t = "(Some false)"
	case "all":
		t = "(Some true)"
	}
	return lib.CoqApp("mkOpt", t, lib.CoqZ(int64(c.MaxSteps)))
}

func coqStrOpt(s string) string {
	if s == "" {
		return "None"
	}
	return lib.CoqSome(lib.CoqStr(s))
}

func coqItems(items []Item) string {
	out := make([]string, len(items))
	for i, it := range items {
		out[i] = lib.CoqTuple(lib.CoqStr(it.Key), coqKind(it.Kind), coqStrOpt(it.NodeKey))
	}
	return lib.CoqList(out)
}

func coqCall(fe string, c *Call, ord, sord []string) string {
	if fe == "nested" {
		panic("harness: nested calls are printed by coqNested")
	}
	switch fe + "/" + c.Op {
	case "graph/addnode":
		return lib.CoqApp("GAddNode", lib.CoqStr(c.Key), coqKind(c.Kind), lib.CoqBool(c.NeedState), lib.CoqBool(c.NodeKeyOpt))
	case "graph/addedge":
		return lib.CoqApp("GAddEdge", lib.CoqStr(c.From), lib.CoqStr(c.To))
	case "graph/addbranch":
		return lib.CoqApp("GAddBranch", lib.CoqStr(c.From), lib.CoqStrList(c.Ends))
	case "graph/compile":
		return lib.CoqApp("GCompile", coqOpt(c))
	case "chain/append":
		return lib.CoqApp("CAppend", coqKind(c.Kind), coqStrOpt(c.NodeKey), lib.CoqBool(c.NeedState))
	case "chain/parallel":
		return lib.CoqApp("CParallel", coqItems(c.Items))
	case "chain/branch":
		return lib.CoqApp("CBranch", coqItems(c.Items))
	case "chain/compile":
		return lib.CoqApp("CCompile", coqOpt(c))
	case "workflow/addnode":
		return lib.CoqApp("WAddNode", lib.CoqStr(c.Key), coqKind(c.Kind), lib.CoqBool(c.NeedState))
	case "workflow/addinput":
		k := "WNormal"
		switch c.In {
		case "nodirect":
			k = "WNoDirect"
		case "dep":
			k = "WDepOnly"
		}
		return lib.CoqApp("WAddInput", lib.CoqStr(c.To), lib.CoqStr(c.From), k, lib.CoqStrList(c.Fields))
	case "workflow/addbranch":
		return lib.CoqApp("WAddBranch", lib.CoqStr(c.From), lib.CoqStrList(c.Ends))
	case "workflow/setstatic":
		f := ""
		if len(c.Fields) > 0 {
			f = c.Fields[0]
		}
		return lib.CoqApp("WSetStatic", lib.CoqStr(c.To), lib.CoqStr(f))
	case "workflow/addend":
		return lib.CoqApp("WAddEnd", lib.CoqStr(c.From), lib.CoqStrList(c.Fields))
	case "workflow/compile":
		return lib.CoqApp("WCompile", coqOpt(c), lib.CoqStrList(ord), lib.CoqStrList(sord))
	}
	panic("harness: cannot print " + fe + "/" + c.Op)
}

// coqNested prints one call of a nested case; kinds: the kind every inner builder was created with
func coqNested(c *Call, kinds map[string]string) string {
	chain := func(k string) bool { return k == "subchain" || k == "subchainbad" }
	switch c.Op {
	case "sub":
		kd := lib.CoqApp("SKGraph", lib.CoqBool(c.Kind != "subbad"))
		if chain(c.Kind) {
			kd = lib.CoqApp("SKChain", lib.CoqBool(c.Kind == "subchain"))
		}
		return lib.CoqApp("NSub", lib.CoqStr(c.Key), lib.CoqStr(c.ID), kd, coqOpt(c))
	case "inner":
		k, known := kinds[c.ID]
		if c.Sub == nil || !known {
			return lib.CoqApp("NInner", lib.CoqStr(""), "(KG (GCompile opt_default))") // no such value: a no-op on both sides
		}
		if chain(k) {
			return lib.CoqApp("NInner", lib.CoqStr(c.ID), lib.CoqApp("KC", coqCall("chain", c.Sub, nil, nil)))
		}
		return lib.CoqApp("NInner", lib.CoqStr(c.ID), lib.CoqApp("KG", coqCall("graph", c.Sub, nil, nil)))
	}
	return lib.CoqApp("NOuter", coqCall("graph", c, nil, nil))
}

func coqObs(o CallObs) string {
	switch o.K {
	case "ok":
		return "BOk"
	case "err":
		return lib.CoqApp("BErr", o.Cls)
	}
	return "BPanic"
}

func coqCase(c *Case, obs []CallObs, intact bool) string {
	pairs := make([]string, len(c.Calls))
	kinds := map[string]string{}
	for i := range c.Calls {
		call := ""
		if c.FE == "nested" {
			k := &c.Calls[i]
			if _, seen := kinds[k.ID]; k.Op == "sub" && !seen {
				kinds[k.ID] = k.Kind
			}
			call = coqNested(k, kinds)
		} else {
			call = coqCall(c.FE, &c.Calls[i], obs[i].Ord, obs[i].SOrd)
		}
		pairs[i] = lib.CoqPair(call, lib.CoqPair(coqObs(obs[i]), lib.CoqPair(coqHashes(obs[i].Gone), coqHashes(obs[i].New))))
	}
	ctor := map[string]string{"graph": "CaseG", "chain": "CaseC", "workflow": "CaseW", "nested": "CaseN"}[c.FE]
	term := lib.CoqApp(ctor, lib.CoqBool(c.State), lib.CoqList(pairs), lib.CoqBool(intact))
	if !haveState || !haveRunner {
		// built without a white-box group (snap_off.go / wb_c09_off.go): what it would have read is left out of the comparison
		term = lib.CoqApp("Degraded", lib.CoqBool(haveState), lib.CoqBool(haveRunner), term)
	}
	return term
}

// ---------------------------------------------------------------- run + direct oracle

const reps = 5

func isAdd(op string) bool { return op != "compile" }

func (engine) Run(ci any) lib.Result {
	c := ci.(*Case)
	res := lib.Result{}
	values := newPool()
	first := execute(c, true, values)
	res.Obs = Obs{Calls: first.obs, Intact: first.intact}
	if modelled(c) {
		res.CoqTerm = coqCase(c, first.obs, first.intact)
	} // else: judged by the Go-side oracles alone

	// tags / non-triviality
	nCompile, nErr, okCompileAt, firstCompile := 0, 0, -1, "none"
	for i, o := range first.obs {
		if c.Calls[i].Op == "compile" {
			nCompile++
			if firstCompile == "none" {
				firstCompile = o.K
				if o.K == "err" {
					firstCompile = o.Cls
				}
			}
			if o.K == "ok" && okCompileAt < 0 {
				okCompileAt = i
			}
		}
		if o.K != "ok" {
			nErr++
		}
	}
	post := 0
	if okCompileAt >= 0 {
		post = len(c.Calls) - 1 - okCompileAt
	}
	res.Nontrivial = nCompile > 0 && (nErr > 0 || post > 0)
	res.Tags = []string{"fe:" + c.FE, "src:" + c.Src, fmt.Sprintf("len:%d", len(c.Calls)),
		"first-compile:" + firstCompile, fmt.Sprintf("post-compile-calls:%d", min(post, 4))}
	for _, k := range c.Inj {
		res.Tags = append(res.Tags, "inj:"+k)
	}
	if !haveState || !haveRunner {
		res.Tags = append(res.Tags, "whitebox:unavailable")
	}
	if res.CoqTerm == "" {
		res.Tags = append(res.Tags, "oracle-only")
	}
	if nCompile > 0 && okCompileAt >= 0 {
		res.Tags = append(res.Tags, fmt.Sprintf("runnables-compared-in-structure:%d", min(first.nStruct, 3)))
	}
	seen := map[string]bool{}
	for _, o := range first.obs {
		if o.K == "err" && !seen[o.Cls] {
			seen[o.Cls] = true
			res.Tags = append(res.Tags, "err:"+o.Cls)
		}
	}

	fail := func(sig, what string) {
		if res.Oracle == "" {
			res.Oracle, res.Sig = what, sig
		}
	}

	// (1) never a panic
	for i, o := range first.obs {
		if o.K == "panic" {
			fail("panic", fmt.Sprintf("call %d (%s) panicked: %s", i, c.Calls[i].Op, o.Msg))
		}
		if o.K == "err" && o.Cls == "EOther" {
			// not a property violation, but the tie must know every error family
			res.Tags = append(res.Tags, "unclassified-error")
		}
	}
	// (2) the first build error sticks
	switch c.FE {
	case "nested":
		// every builder of the case on its own (nested.go): sticky error, no modification after a Compile — an outer
		// Compile compiles the inner graphs its nodes hold —, nothing ill-formed accepted
		if sig, what := nestedOracle(c, first.obs); sig != "" {
			fail(sig, what)
		}
	case "graph":
		sticky := ""
		for i, o := range first.obs {
			if sticky != "" && (o.K != "err" || o.Cls != sticky) {
				fail("not-sticky", fmt.Sprintf("call %d returned %s/%s after the build error %s", i, o.K, o.Cls, sticky))
			}
			if sticky == "" && isAdd(c.Calls[i].Op) && o.K == "err" && o.Cls != "ECompiled" {
				sticky = o.Cls
			}
		}
	default:
		sticky := ""
		for i, o := range first.obs {
			if c.Calls[i].Op != "compile" {
				continue
			}
			if sticky != "" && (o.K != "err" || o.Cls != sticky) {
				fail("not-sticky", fmt.Sprintf("Compile at %d returned %s/%s after the build error %s", i, o.K, o.Cls, sticky))
			}
			if sticky == "" && o.K == "err" && !compileTimeClass[o.Cls] {
				sticky = o.Cls
			}
		}
		// Workflow: a conflict of mapping targets met by the deferred calls of a Compile is not
		// remembered as a build error, but it sticks all the same (theorem deferred_error_sticks):
		// in a workflow that has not been compiled, no later Compile may succeed
		if c.FE == "workflow" {
			failedAt := -1
			for i, o := range first.obs {
				if c.Calls[i].Op != "compile" {
					continue
				}
				if o.K == "ok" && failedAt >= 0 {
					fail("not-sticky", fmt.Sprintf("Compile at %d succeeded after the Compile at %d had failed on a deferred declaration (%s)", i, failedAt, first.obs[failedAt].Cls))
				}
				if o.K == "ok" {
					break
				}
				if failedAt < 0 && o.K == "err" && (o.Cls == "EMapped" || o.Cls == "EMapConflict") {
					failedAt = i
				}
			}
		}
	}
	// (3) no modification after a successful Compile
	if c.FE == "graph" && okCompileAt >= 0 {
		for i := okCompileAt + 1; i < len(c.Calls); i++ {
			if isAdd(c.Calls[i].Op) && first.obs[i].K == "ok" {
				fail("modified-after-compile", fmt.Sprintf("call %d (%s) succeeded after the Compile at %d", i, c.Calls[i].Op, okCompileAt))
			}
		}
	}
	if c.FE == "chain" && okCompileAt >= 0 {
		// an Append* cannot return an error: the refusal is reported by the next Compile
		touched := false
		for i := okCompileAt + 1; i < len(c.Calls); i++ {
			if isAdd(c.Calls[i].Op) {
				touched = true
			} else if touched && first.obs[i].K == "ok" {
				fail("modified-after-compile", fmt.Sprintf("Compile at %d succeeded although the chain was appended to after the Compile at %d", i, okCompileAt))
			}
		}
	}
	if first.recomp != "" {
		fail("modified-after-compile", first.recomp)
	}
	// (4) earlier runnables unaffected
	if !first.intact {
		fail("runner-affected", first.affected)
	}
	// (6) soundness of acceptance: nothing ill-formed (spec.go, independent of the model) got through
	if c.FE != "nested" {
		if sig, what := acceptedIllFormed(c, first.obs); sig != "" {
			fail(sig, what)
		}
	}
	// (5) determinism: same outcome on every attempt
	classVaries := false
	// a Workflow (also one that is an inner builder of a nested case) visits its nodes in map order at Compile: which
	// deferred error is met first, and what a failed attempt leaves behind, legitimately differ between attempts
	wfOrder := c.FE == "workflow" || (c.FE == "nested" && usesWS(c))
	for r := 1; r < reps; r++ {
		// attempts 1 and 2 start from fresh builder values; attempts 3 and 4 build the same construction
		// again from the VALUES of attempt 0 (its lambdas, branches, Parallel / ChainBranch objects, sub
		// graphs, mapping and option slices), as a program does that declares them once
		shared := r >= reps-2
		var again execResult
		if shared {
			again = execute(c, true, values)
		} else {
			again = execute(c, false, nil)
		}
		if shared {
			// the runnables of the two attempts compute the same function
			for j := range first.runs {
				if j >= len(again.runs) || first.runs[j].at != again.runs[j].at {
					break
				}
				for k := 0; k < nInputs; k++ {
					a, b := first.runs[j].snap[k], again.runs[j].snap[k]
					if a != "" && b != "" && a != b {
						fail("shared-values", fmt.Sprintf("attempt %d (built from the builder values of attempt 0): the runnable of Compile #%d gives %s on input %d, attempt 0 gave %s", r, first.runs[j].at, b, k, a))
					}
				}
			}
		}
		for i := range first.obs {
			a, b := first.obs[i], again.obs[i]
			if !wfOrder && strings.Join(a.State, ";") != strings.Join(b.State, ";") {
				fail("nondeterministic", fmt.Sprintf("attempt %d: the builder state after call %d differs from attempt 0", r, i))
			}
			if a.K != b.K {
				sig := "nondeterministic"
				if mappedPassInput(c) && c.Calls[i].Op == "compile" && (a.K == "ok" || b.K == "ok") && (a.K == "err" || b.K == "err") {
					sig = "wf-pass-mapped-input-order" // known finding F-C20i
				}
				fail(sig, fmt.Sprintf("attempt %d: call %d gave %s, attempt 0 gave %s", r, i, b.K, a.K))
			} else if a.Cls != b.Cls {
				if wfOrder {
					classVaries = true // which deferred error is met first depends on Go's map order
				} else {
					fail("nondeterministic", fmt.Sprintf("attempt %d: call %d gave %s, attempt 0 gave %s", r, i, b.Cls, a.Cls))
				}
			}
		}
	}
	if classVaries {
		res.Tags = append(res.Tags, "wf-error-class-varies")
	}
	// (7) the runnables of attempt 0 are unaffected by the later attempts made from the same builder values
	if len(first.runs) > 0 {
		if ok, what, _ := recheck(first.runs, "the same construction was built again from the same builder values"); !ok {
			fail("shared-values", what)
		}
		res.Tags = append(res.Tags, "rebuilt-from-shared-values")
	}
	return res
}

func min(a, b int) int {
	if a < b {
		return a
	}
	return b
}

// Shrink: drop calls one at a time while the same oracle failure remains.
func (engine) Shrink(ci any, stillFails func(any) bool) any {
	c := ci.(*Case)
	cur := *c
	for changed := true; changed; {
		changed = false
		for i := 0; i < len(cur.Calls); i++ {
			cand := cur
			cand.Calls = append(append([]Call(nil), cur.Calls[:i]...), cur.Calls[i+1:]...)
			normalize(&cand)
			if stillFails(&cand) {
				cur = cand
				changed = true
				i--
			}
		}
	}
	return &cur
}

func flag(b bool, t, f string) string {
	if b {
		return t
	}
	return f
}

// modelled: the case is replayed on the model.  Not: a Workflow case when the builder states cannot be read (the order
// its Compiles took is read off them), a nested case with Workflow children (Model/BuilderNested.v has Graph and Chain children)
// mappedPassInput: known finding F-C20i (signature wf-pass-mapped-input-order) — a Workflow in which a pass-through
// node's input is declared with a field mapping out of a node whose output type differs from the type the
// pass-through node's successors give it (here: FromField on the map of a lamkey node). updateToValidateMap gives an
// untyped pass-through node the WHOLE output type of such a predecessor, so whether Compile accepts depends on which
// of the node's edges Workflow.compile declares first (Go's map order over the workflow nodes).
func mappedPassInput(c *Case) bool {
	if c.FE != "workflow" {
		return false
	}
	kind := map[string]string{}
	for _, k := range c.Calls {
		if k.Op == "addnode" {
			kind[k.Key] = k.Kind
		}
	}
	for _, k := range c.Calls {
		if k.Op == "addinput" && k.In == "fromkey" && kind[k.To] == "pass" && kind[k.From] == "lamkey" {
			return true
		}
	}
	return false
}

func keyedPass(kind string) bool { return kind == "passk" || kind == "passo" || kind == "passko" }

func modelled(c *Case) bool {
	if c.FE == "workflow" && !haveState {
		return false
	}
	// pass-through nodes with an input / output key: the model has one type per case and no keys (typing is
	// property C07); such cases are judged by the Go-side oracles (no panic, sticky, repeatable, immutable, intact)
	for _, k := range c.Calls {
		if keyedPass(k.Kind) || k.Kind == "lamkey" || k.In == "fromkey" {
			return false
		}
	}
	if c.FE == "nested" {
		for _, k := range c.Calls {
			if k.Op == "sub" && (k.Kind == "subwf" || k.Kind == "subwfbad") {
				return false
			}
		}
	}
	return true
}

func js(x any) string { b, _ := json.Marshal(x); return string(b) }

var _ = strings.Join

func main() { lib.Main(engine{}) }
